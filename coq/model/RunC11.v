(* RunC11.v — case interpreter for the C11 correspondence check.
   A case is a list of N (one line of integers); so is the result.  The Rust
   harness (harness/src/bin/c11.rs) decodes the same line and runs compio-io. *)
From Compio.Model Require Import Base IoHelpers Buf IoVectored.

Definition obind {A B} (o : option A) (f : A -> option B) : option B :=
  match o with Some a => f a | None => None end.
Notation "'let?' x ':=' o 'in' k" := (obind o (fun x => k))
  (at level 200, x binder, right associativity).

Definition dec_answer (kind arg : N) : answer :=
  match kind with
  | 0%N => AChunk (nn arg)
  | 1%N => AErr arg
  | _ => AEof
  end.

Fixpoint dec_sched (n : nat) (l : list N) : option (list answer * list N) :=
  match n with
  | O => Some ([], l)
  | S k =>
    match l with
    | kind :: arg :: r =>
      let? '(s, r') := dec_sched k r in Some (dec_answer kind arg :: s, r')
    | _ => None
    end
  end.

(* [n; x1..xn] *)
Definition dec_bytes (l : list N) : option (list N * list N) :=
  let? '(n, r) := take1 l in takeN (nn n) r.

Fixpoint dec_list {A} (n : nat) (f : list N -> option (A * list N)) (l : list N)
  : option (list A * list N) :=
  match n with
  | O => Some ([], l)
  | S k => let? '(a, r) := f l in let? '(s, r') := dec_list k f r in Some (a :: s, r')
  end.

(* [len; cap] -> canary-filled Vec *)
Definition mk_canary_vec (len cap : nat) : vec := mkvec (canaries_from 0 cap) len.
Definition dec_vec (l : list N) : option (vec * list N) :=
  match l with
  | len :: cap :: r =>
    if Nat.leb (nn len) (nn cap) then Some (mk_canary_vec (nn len) (nn cap), r) else None
  | _ => None
  end.

(* Vec with explicit content: [cap; n; bytes] (spare = canaries continuing) *)
Definition dec_vec_content (l : list N) : option (vec * list N) :=
  match l with
  | cap :: r =>
    let? '(bs, r') := dec_bytes r in
    if Nat.leb (length bs) (nn cap)
    then Some (mkvec (bs ++ canaries_from (length bs) (nn cap - length bs)) (length bs), r')
    else None
  | _ => None
  end.

Definition enc_outcome (o : outcome) : list N :=
  match o with OOk n => [0%N; NN n] | OErr k => [1%N; k] end.

Definition enc_vec (cap0 : nat) (v : vec) : list N :=
  [NN (vlen v); NN (vcap v)] ++ vinit v
  ++ (if Nat.eqb (vcap v) cap0 then skipn (vlen v) (cells v) else []).

Definition enc_wev (e : wev) : list N :=
  match e with
  | WBytes bs => 1%N :: NN (length bs) :: bs
  | WFlush => [2%N]
  | WShutdown => [3%N]
  end.
Definition enc_log (log : list wev) : list N :=
  NN (length log) :: flat_map enc_wev log.

Definition enc_panic (c : N) : list N := [2%N; c].

(* vectored members: [len; cap] pairs -> canary-filled Vec<u8> roots of Buf.v *)
Definition root_of_pair (p : nat * nat) : root :=
  mkroot KVec (canaries_from 0 (snd p)) (fst p) 0.
Definition enc_members (ms : list root) : list N :=
  flat_map (fun m => enc_vec (rcap m) (mkvec (rcells m) (rlen m))) ms.

(* ---- BufReader / BufWriter programs ---------------------------------- *)

(* BufWriter program step: 1 n bytes.. = write ; 2 = flush ; 3 = shutdown *)
Inductive bwop := BwWrite (d : list byte) | BwFlush | BwShutdown | BwWriteV (segs : list (list byte)).
Definition dec_bwop (l : list N) : option (bwop * list N) :=
  match l with
  | 1%N :: r => let? '(bs, r') := dec_bytes r in Some (BwWrite bs, r')
  | 2%N :: r => Some (BwFlush, r)
  | 3%N :: r => Some (BwShutdown, r)
  | 4%N :: n :: r => let? '(segs, r') := dec_list (nn n) dec_bytes r in Some (BwWriteV segs, r')
  | _ => None
  end.

Fixpoint run_bw (ops : list bwop) (ws : list answer) (b : buffer) (log : list wev)
  (acc : list N) : list N :=
  match ops with
  | [] => acc ++ enc_log log ++ [NN (length (buf_pending b))] ++ buf_pending b
  | op :: ops' =>
    let r := match op with
             | BwWrite d => bw_write ws b log d
             | BwFlush => bw_flush ws b log
             | BwShutdown => bw_shutdown ws b log
             | BwWriteV segs => bw_write_vectored ws b log segs
             end in
    match r with
    | Panic c => enc_panic c
    | Ok (o, b', log', ws') => run_bw ops' ws' b' log' (acc ++ enc_outcome o)
    end
  end.

(* BufReader program step: 1 len cap = read into Vec ; 2 = fill_buf ; 3 n = consume *)
Inductive brop := BrRead (len cap : nat) | BrFill | BrConsume (n : nat).
Definition dec_brop (l : list N) : option (brop * list N) :=
  match l with
  | 1%N :: len :: cap :: r =>
      if Nat.leb (nn len) (nn cap) then Some (BrRead (nn len) (nn cap), r) else None
  | 2%N :: r => Some (BrFill, r)
  | 3%N :: n :: r => Some (BrConsume (nn n), r)
  | _ => None
  end.

Fixpoint run_br (ops : list brop) (rs : list answer) (src : list byte) (b : buffer)
  (acc : list N) : list N :=
  match ops with
  | [] => acc ++ [NN (length src)]
  | op :: ops' =>
    match op with
    | BrRead len cap =>
      match br_read rs src b (mk_canary_vec len cap) with
      | Panic c => enc_panic c
      | Ok (o, b', src', rs', dst) =>
        run_br ops' rs' src' b' (acc ++ enc_outcome o ++ enc_vec cap dst)
      end
    | BrFill =>
      match br_fill_buf rs src b with
      | (OErr e, b', src', rs') => run_br ops' rs' src' b' (acc ++ enc_outcome (OErr e))
      | (OOk _, b', src', rs') =>
        run_br ops' rs' src' b'
          (acc ++ [0%N; NN (length (buf_pending b'))] ++ buf_pending b')
      end
    | BrConsume n =>
      match br_consume b n with
      | Panic c => enc_panic c
      | Ok b' => run_br ops' rs src b' (acc ++ [0%N; 0%N])
      end
    end
  end.

(* Take program: list of (len, cap) reads, one schedule answer each *)
Fixpoint run_take (reads : list (nat * nat)) (rs : list answer) (src : list byte)
  (limit : nat) (acc : list N) : list N :=
  match reads with
  | [] => acc ++ [NN limit; NN (length src)]
  | (len, cap) :: reads' =>
    let a := hd_error rs in
    let rs' := if Nat.eqb limit 0 then rs else tl rs in
    let '(o, v, src', limit') := take_read limit a src (mk_canary_vec len cap) in
    run_take reads' rs' src' limit' (acc ++ enc_outcome o ++ enc_vec cap v)
  end.

Definition dec_pair (l : list N) : option ((nat * nat) * list N) :=
  match l with
  | a :: b :: r => if Nat.leb (nn a) (nn b) then Some ((nn a, nn b), r) else None
  | _ => None
  end.

(* ---- the interpreter -------------------------------------------------- *)

Definition enc_rloop (cap0 : nat) (r : R (outcome * vec * list byte * list answer)) : list N :=
  match r with
  | Panic c => enc_panic c
  | Ok (o, v, src, _) => enc_outcome o ++ enc_vec cap0 v ++ [NN (length src)]
  end.

Definition run_opt (l : list N) : option (list N) :=
  let? '(op, l) := take1 l in
  match op with
  | 1%N => (* read_exact: vec, nsched, sched, src *)
    let? '(v, l) := dec_vec l in
    let? '(ns, l) := take1 l in
    let? '(s, l) := dec_sched (nn ns) l in
    Some (enc_rloop (vcap v) (read_exact s l v))
  | 2%N => (* read_to_end *)
    let? '(v, l) := dec_vec l in
    let? '(ns, l) := take1 l in
    let? '(s, l) := dec_sched (nn ns) l in
    Some (enc_rloop (vcap v) (read_to_end s l v))
  | 3%N => (* append: one answer *)
    let? '(v, l) := dec_vec l in
    let? '(s, l) := dec_sched 1 l in
    let '(o, v', src') := append (hd_error s) l v in
    Some (enc_outcome o ++ enc_vec (vcap v) v' ++ [NN (length src')])
  | 4%N => (* write_all: nsched, sched, data *)
    let? '(ns, l) := take1 l in
    let? '(s, l) := dec_sched (nn ns) l in
    let '(o, log, _) := write_all s l in
    Some (enc_outcome o ++ enc_log log)
  | 5%N => (* copy: bsz, nr, rs, nw, ws, src *)
    let? '(bsz, l) := take1 l in
    let? '(nr, l) := take1 l in
    let? '(rs, l) := dec_sched (nn nr) l in
    let? '(nw, l) := take1 l in
    let? '(ws, l) := dec_sched (nn nw) l in
    let '(o, src', log) := copy rs l ws (nn bsz) in
    Some (enc_outcome o ++ enc_log log ++ [NN (length src')])
  | 6%N => (* take: limit, nreads, (len cap)*, nsched, sched, src *)
    let? '(limit, l) := take1 l in
    let? '(nr, l) := take1 l in
    let? '(reads, l) := dec_list (nn nr) dec_pair l in
    let? '(ns, l) := take1 l in
    let? '(s, l) := dec_sched (nn ns) l in
    Some (run_take reads s l (nn limit) [])
  | 7%N => (* BufWriter: cap, nops, ops, nsched, sched *)
    let? '(cap, l) := take1 l in
    let? '(no, l) := take1 l in
    let? '(ops, l) := dec_list (nn no) dec_bwop l in
    let? '(ns, l) := take1 l in
    let? '(s, l) := dec_sched (nn ns) l in
    Some (run_bw ops s (buf_with_capacity (nn cap)) [] [])
  | 8%N => (* BufReader: cap, nops, ops, nsched, sched, src *)
    let? '(cap, l) := take1 l in
    let? '(no, l) := take1 l in
    let? '(ops, l) := dec_list (nn no) dec_brop l in
    let? '(ns, l) := take1 l in
    let? '(s, l) := dec_sched (nn ns) l in
    Some (run_br ops s l (buf_with_capacity (nn cap)) [])
  | 10%N => (* <&[u8]>::read: vec, this *)
    let? '(v, l) := dec_vec l in
    let '(k, v', rest) := mem_read l v in
    Some ([0%N; NN k] ++ enc_vec (vcap v) v' ++ [NN (length rest)])
  | 11%N => (* <[u8]>::read_at: vec, pos, this *)
    let? '(v, l) := dec_vec l in
    let? '(pos, l) := take1 l in
    let '(k, v') := mem_read_at l v (nn pos) in
    Some ([0%N; NN k] ++ enc_vec (vcap v) v')
  | 12%N => (* <&[u8]>::read_vectored: nm, caps.., this *)
    let? '(nm, l) := take1 l in
    let? '(caps, l) := takeN (nn nm) l in
    let ms := map (fun c => mk_canary_vec 0 (nn c)) caps in
    let '(k, ms', rest) := mem_read_vectored l ms in
    Some ([0%N; NN k] ++ flat_map (fun m => enc_vec (vcap m) m) ms' ++ [NN (length rest)])
  | 13%N => (* <[u8]>::read_vectored_at: pos, nm, caps.., this *)
    let? '(pos, l) := take1 l in
    let? '(nm, l) := take1 l in
    let? '(caps, l) := takeN (nn nm) l in
    let ms := map (fun c => mk_canary_vec 0 (nn c)) caps in
    let '(k, ms') := mem_read_vectored_at l ms (nn pos) in
    Some ([0%N; NN k] ++ flat_map (fun m => enc_vec (vcap m) m) ms')
  | 14%N => (* <Vec<u8>>::write: dst(content), data *)
    let? '(d, l) := dec_vec_content l in
    let '(k, d') := vec_write d l in
    Some ([0%N; NN k] ++ [NN (vlen d')] ++ vinit d')
  | 15%N => (* <Vec<u8>>::write_vectored: dst(content), n, bufs *)
    let? '(d, l) := dec_vec_content l in
    let? '(n, l) := take1 l in
    let? '(bss, l) := dec_list (nn n) dec_bytes l in
    let '(k, d') := vec_write_vectored d bss in
    Some ([0%N; NN k] ++ [NN (vlen d')] ++ vinit d')
  | 16%N => (* <Vec<u8>>::write_at: dst(content), pos, data *)
    let? '(d, l) := dec_vec_content l in
    let? '(pos, l) := take1 l in
    let '(k, d') := vec_write_at d l (nn pos) in
    Some ([0%N; NN k] ++ [NN (vlen d')] ++ vinit d')
  | 17%N => (* <Vec<u8>>::write_vectored_at: dst(content), pos, n, bufs *)
    let? '(d, l) := dec_vec_content l in
    let? '(pos, l) := take1 l in
    let? '(n, l) := take1 l in
    let? '(bss, l) := dec_list (nn n) dec_bytes l in
    let '(k, d') := vec_write_vectored_at d bss (nn pos) in
    Some ([0%N; NN k] ++ [NN (vlen d')] ++ vinit d')
  | 18%N => (* <[u8]>::write_at on a fixed slice: dst bytes, pos, data *)
    let? '(d, l) := dec_bytes l in
    let? '(pos, l) := take1 l in
    let '(k, d') := slice_write_at d l (nn pos) in
    Some ([0%N; NN k] ++ [NN (length d')] ++ d')
  | 19%N => (* Repeat::read: byte, vec *)
    let? '(b, l) := take1 l in
    let? '(v, l) := dec_vec l in
    let '(k, v') := repeat_read b v in
    Some ([0%N; NN k] ++ enc_vec (vcap v) v')
  | 20%N => (* read_vectored_exact over the scripted reader (default read_vectored):
               nm, (len cap)*, nsched, sched, src *)
    let? '(nm, l) := take1 l in
    if negb (N.leb nm 8) then None else
    let? '(ps, l) := dec_list (nn nm) dec_pair l in
    let? '(ns, l) := take1 l in
    let? '(s, l) := dec_sched (nn ns) l in
    match read_vectored_exact s l (map root_of_pair ps) with
    | Panic c => Some (enc_panic c)
    | Ok (o, ms', src', _) => Some (enc_outcome o ++ enc_members ms' ++ [NN (length src')])
    end
  | 21%N => (* <[u8]>::read_vectored_exact_at: pos, nm, (len cap)*, this *)
    let? '(pos, l) := take1 l in
    let? '(nm, l) := take1 l in
    if negb (N.leb nm 8 && N.leb pos 4096) then None else
    let? '(ps, l) := dec_list (nn nm) dec_pair l in
    match read_vectored_exact_at l (nn pos) (map root_of_pair ps) with
    | Panic c => Some (enc_panic c)
    | Ok (o, ms') => Some (enc_outcome o ++ enc_members ms')
    end
  | 22%N => (* the default read_vectored, one call: nm, (len cap)*, kind, arg, src *)
    let? '(nm, l) := take1 l in
    if negb (N.leb nm 8) then None else
    let? '(ps, l) := dec_list (nn nm) dec_pair l in
    let? '(s, l) := dec_sched 1 l in
    match read_vectored_once (hd_error s) l (map root_of_pair ps) with
    | Panic c => Some (enc_panic c)
    | Ok (r, ms', src') =>
      let o := match r with
               | None => OOk 0
               | Some (RN k) => OOk k
               | Some (RE e) => OErr e
               end in
      Some (enc_outcome o ++ enc_members ms' ++ [NN (length src')])
    end
  | _ => None
  end.

Definition run_c11 (l : list N) : list N :=
  match run_opt l with Some r => r | None => BAD_CASE end.
