(* RunC12.v — case interpreter for the C12 correspondence check.
   case  = adapter base max  nr (kind arg)*  nw (kind arg)*  nsrc src*  nops op*
   adapter 1 = SyncStream, 2 = AsyncStream (poll adapter).
   answers: 0 n = transfer up to n, 1 e = error kind e, 2 _ = eof / zero, 3 _ = Pending.
   sync ops: 1 n read | 2 fill_buf | 3 n consume | 4 n d.. write | 5 flush
             | 6 fill_read_buf | 7 flush_write_buf
   poll ops: 1 w n poll_read | 2 w poll_fill_buf | 3 n consume | 4 w n d.. poll_write
             | 5 w poll_flush | 6 w poll_close | 8 w n poll_read_uninit
             | 9 wake(read side) | 10 wake(write side);  w < 4 is the counting waker used.
   result = one group per op (0 k bytes.. | 0 n | 1 kind | 3 = Pending | 5 c0 c1 c2 c3 = wake
   counts per waker) then: bytes left in the source, buffered read bytes (n bytes..),
   [eof flag, sync only], the inner writer's event log, pending write bytes (n bytes..). *)
From Compio.Model Require Import Base IoHelpers Compat.

Definition obind {A B} (o : option A) (f : A -> option B) : option B :=
  match o with Some a => f a | None => None end.
Notation "'let?' x ':=' o 'in' k" := (obind o (fun x => k))
  (at level 200, x binder, right associativity).

Definition dec_cans (kind arg : N) : cans :=
  match kind with
  | 0%N => CA (AChunk (nn arg))
  | 1%N => CA (AErr arg)
  | 3%N => CPending
  | _ => CA AEof
  end.

Fixpoint dec_csched (n : nat) (l : list N) : option (list cans * list N) :=
  match n with
  | O => Some ([], l)
  | S k =>
    match l with
    | kind :: arg :: r =>
      let? '(s, r') := dec_csched k r in Some (dec_cans kind arg :: s, r')
    | _ => None
    end
  end.

Definition dec_bytes (l : list N) : option (list N * list N) :=
  let? '(n, r) := take1 l in takeN (nn n) r.

Fixpoint dec_list {A} (n : nat) (f : list N -> option (A * list N)) (l : list N)
  : option (list A * list N) :=
  match n with
  | O => Some ([], l)
  | S k => let? '(a, r) := f l in let? '(s, r') := dec_list k f r in Some (a :: s, r')
  end.

Definition NWAKERS : N := 4.
Definition okw (w : N) : bool := N.ltb w NWAKERS.

Definition dec_sop (l : list N) : option (sop * list N) :=
  match l with
  | 1%N :: n :: r => Some (SRead (nn n), r)
  | 2%N :: r => Some (SFillBuf, r)
  | 3%N :: n :: r => Some (SConsume (nn n), r)
  | 4%N :: r => let? '(bs, r') := dec_bytes r in Some (SWrite bs, r')
  | 5%N :: r => Some (SFlush, r)
  | 6%N :: r => Some (SFillRead, r)
  | 7%N :: r => Some (SFlushWrite, r)
  | _ => None
  end.

Definition dec_pop (l : list N) : option (pop * list N) :=
  match l with
  | 1%N :: w :: n :: r => if okw w then Some (PRead E_READ (nn w) (nn n), r) else None
  | 2%N :: w :: r => if okw w then Some (PFillBuf (nn w), r) else None
  | 3%N :: n :: r => Some (PConsume (nn n), r)
  | 4%N :: w :: r =>
      if okw w then let? '(bs, r') := dec_bytes r in Some (PWrite (nn w) bs, r') else None
  | 5%N :: w :: r => if okw w then Some (PFlush (nn w), r) else None
  | 6%N :: w :: r => if okw w then Some (PClose (nn w), r) else None
  | 8%N :: w :: n :: r => if okw w then Some (PRead E_READ_UNINIT (nn w) (nn n), r) else None
  | 9%N :: r => Some (PWakeR, r)
  | 10%N :: r => Some (PWakeW, r)
  | _ => None
  end.

Definition enc_outcome (o : outcome) : list N :=
  match o with OOk n => [0%N; NN n] | OErr k => [1%N; k] end.

Definition enc_pres (p : pres) : list N :=
  match p with
  | PRBytes bs => 0%N :: NN (length bs) :: bs
  | PRCount n => [0%N; NN n]
  | PRErr k => [1%N; k]
  | PRPending => [3%N]
  end.

Definition wake_count (l : list (option nat)) (id : nat) : N :=
  NN (length (filter (fun x => match x with Some i => Nat.eqb i id | None => false end) l)).

Definition enc_out (o : out) : list N :=
  match o with
  | ORd r | OWin r | OCtl r => enc_pres r
  | OWr _ r => enc_pres r
  | OConsumed _ | ONoop => [0%N; 0%N]
  | OFill o | OFlushed o => enc_outcome o
  | OWoken l => 5%N :: map (wake_count l) [0; 1; 2; 3]
  end.

Definition enc_wev (e : wev) : list N :=
  match e with
  | WBytes bs => 1%N :: NN (length bs) :: bs
  | WFlush => [2%N]
  | WShutdown => [3%N]
  end.
Definition enc_log (log : list wev) : list N :=
  NN (length log) :: flat_map enc_wev log.

Definition enc_lp (bs : list byte) : list N := NN (length bs) :: bs.

Definition enc_final (sync : bool) (s : stream) : list N :=
  [NN (length (rsrc (rh s)))] ++ enc_lp (buf_pending (rb (rh s)))
  ++ (if sync then [if reof (rh s) then 1%N else 0%N] else [])
  ++ enc_log (wlog (wh s)) ++ enc_lp (buf_pending (wb (wh s))).

Definition enc_run (sync : bool) (r : R (list out * stream)) : list N :=
  match r with
  | Panic c => [2%N; c]
  | Ok (os, s) => flat_map enc_out os ++ enc_final sync s
  end.

Definition run_opt (l : list N) : option (list N) :=
  match l with
  | adapter :: base :: mx :: l =>
    let? '(nr, l) := take1 l in
    let? '(rs, l) := dec_csched (nn nr) l in
    let? '(nw, l) := take1 l in
    let? '(ws, l) := dec_csched (nn nw) l in
    let? '(src, l) := dec_bytes l in
    let? '(no, l) := take1 l in
    let s0 := st_new (nn base) (nn mx) rs src ws in
    match adapter with
    | 1%N =>
      let? '(ops, l) := dec_list (nn no) dec_sop l in
      match l with [] => Some (enc_run true (run sync_step ops s0)) | _ => None end
    | 2%N =>
      let? '(ops, l) := dec_list (nn no) dec_pop l in
      match l with [] => Some (enc_run false (run poll_step ops s0)) | _ => None end
    | _ => None
    end
  | _ => None
  end.

Definition run_c12 (l : list N) : list N :=
  match run_opt l with Some r => r | None => BAD_CASE end.
