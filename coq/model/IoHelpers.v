(* IoHelpers.v — executable model of compio-io's read/write helper algorithms
   (compio-io/src/read/{mod,ext,buf}.rs, write/{mod,ext,buf}.rs, buffer.rs,
   util/{take,copy,repeat,null,internal}.rs).  No proofs in this file.

   The inner stream is an environment: a schedule of answers applied to a
   payload.  Every loop of the real code consumes one schedule element per
   iteration, so the loops are structural recursions on the schedule. *)
From Compio.Model Require Import Base.
From Compio.Gen Require Consts.

(* ---------------------------------------------------------------------- *)
(* Vec<u8>: an allocation of [length cells] bytes, the first [vlen] initialised.
   A cell of the spare capacity the model knows nothing about is UNINIT.      *)

Record vec := mkvec { cells : list byte; vlen : nat }.
Definition vcap (v : vec) : nat := length (cells v).
Definition vinit (v : vec) : list byte := firstn (vlen v) (cells v).
Definition UNINIT : byte := 256%N.

(* std's RawVec::grow_amortized for size_of::<T>() == 1 (trusted base) *)
Definition grow_cap (cap len add : nat) : nat := Nat.max 8 (Nat.max (2 * cap) (len + add)).

Definition vreserve (v : vec) (add : nat) : vec :=
  if Nat.leb add (vcap v - vlen v) then v
  else mkvec (vinit v ++ repeat UNINIT (grow_cap (vcap v) (vlen v) add - vlen v)) (vlen v).

Definition vextend (v : vec) (bs : list byte) : vec :=
  let v := vreserve v (length bs) in
  mkvec (write_at (cells v) (vlen v) bs) (vlen v + length bs).

Definition vclear (v : vec) : vec := mkvec (cells v) 0.
Definition vec_of (bs : list byte) : vec := mkvec bs (length bs).

(* Vec::resize(new_len, 0) for new_len >= len, capacity already reserved *)
Definition vresize0 (v : vec) (new_len : nat) : vec :=
  vextend v (repeat 0%N (new_len - vlen v)).

(* a reader that follows the AsyncRead contract fills the writable part of
   `vec.slice(b..)` with [bs] and records it with advance_to(len bs):
   Slice::set_len(k) = Vec::set_len(b + k), applied only when k > slice len. *)
Definition slice_fill (v : vec) (b : nat) (bs : list byte) : vec :=
  let k := length bs in
  mkvec (write_at (cells v) b bs) (if Nat.ltb (vlen v - b) k then b + k else vlen v).

(* ---------------------------------------------------------------------- *)
(* environment: scripted inner reader / writer                             *)

Inductive answer := AChunk (n : nat) | AErr (kind : N) | AEof.
Inductive rres := RN (k : nat) | RE (kind : N).

(* one call of inner.read(buf) with [capacity] writable bytes *)
Definition reader_step (a : answer) (capacity : nat) (src : list byte)
  : rres * list byte * list byte :=
  match a with
  | AChunk n => let k := Nat.min n (Nat.min capacity (length src)) in
                (RN k, firstn k src, skipn k src)
  | AErr e => (RE e, [], src)
  | AEof => (RN 0, [], src)
  end.

Definition is_intr (e : N) : bool := N.eqb e E_INTERRUPTED.

(* sink: what the inner writer saw, as an event log *)
Inductive wev := WBytes (bs : list byte) | WFlush | WShutdown.
Definition sink_bytes (log : list wev) : list byte :=
  flat_map (fun e => match e with WBytes bs => bs | _ => [] end) log.

(* one call of inner.write(buf) offering [bs] *)
Definition writer_step (a : answer) (bs : list byte) : rres * list byte :=
  match a with
  | AChunk n => let k := Nat.min n (length bs) in (RN k, firstn k bs)
  | AErr e => (RE e, [])
  | AEof => (RN 0, [])
  end.

Inductive outcome := OOk (n : nat) | OErr (kind : N).

(* ---------------------------------------------------------------------- *)
(* AsyncReadExt::read_exact on a Vec<u8>  (loop_read_exact!)               *)

Fixpoint read_exact_loop (sched : list answer) (src : list byte) (v : vec) (read : nat)
  : R (outcome * vec * list byte * list answer) :=
  if Nat.leb (vcap v) read then Ok (OOk read, v, src, sched) else
  if Nat.ltb (vlen v) read then Panic P_ASSERT (* buf.slice(read..) asserts *) else
  match sched with
  | [] => Ok (OErr E_UNEXPECTED_EOF, v, src, [])   (* exhausted script = EOF *)
  | a :: sched' =>
    match reader_step a (vcap v - read) src with
    | (RN O, _, src') => Ok (OErr E_UNEXPECTED_EOF, v, src', sched')
    | (RN k, bs, src') => read_exact_loop sched' src' (slice_fill v read bs) (read + k)
    | (RE e, _, src') =>
      if is_intr e then read_exact_loop sched' src' v read
      else Ok (OErr e, v, src', sched')
    end
  end.

Definition read_exact (sched : list answer) (src : list byte) (v : vec) :=
  read_exact_loop sched src v 0.

(* ---------------------------------------------------------------------- *)
(* AsyncReadExt::read_to_end on a Vec<u8>  (loop_read_to_end!)
   [start] is the length of the buffer on entry: bytes are appended.       *)

Fixpoint read_to_end_loop (sched : list answer) (src : list byte) (v : vec)
  (start total : nat) : R (outcome * vec * list byte * list answer) :=
  let v := if Nat.eqb (vlen v) (vcap v) then vreserve v (nn Consts.READ_TO_END_RESERVE) else v in
  if Nat.ltb (vlen v) (start + total) then Panic P_ASSERT else
  match sched with
  | [] => Ok (OOk total, v, src, [])
  | a :: sched' =>
    match reader_step a (vcap v - (start + total)) src with
    | (RN O, _, src') => Ok (OOk total, v, src', sched')
    | (RN k, bs, src') =>
        read_to_end_loop sched' src' (slice_fill v (start + total) bs) start (total + k)
    | (RE e, _, src') =>
      if is_intr e then read_to_end_loop sched' src' v start total
      else Ok (OErr e, v, src', sched')
    end
  end.

Definition read_to_end (sched : list answer) (src : list byte) (v : vec) :=
  read_to_end_loop sched src v (vlen v) 0.

(* ---------------------------------------------------------------------- *)
(* AsyncReadExt::append: one read into buf.uninit()                        *)

Definition append (a : option answer) (src : list byte) (v : vec)
  : outcome * vec * list byte :=
  match a with
  | None => (OOk 0, v, src)
  | Some a =>
    match reader_step a (vcap v - vlen v) src with
    | (RN k, bs, src') => (OOk k, (if Nat.eqb k 0 then v else slice_fill v (vlen v) bs), src')
    | (RE e, _, src') => (OErr e, v, src')
    end
  end.

(* ---------------------------------------------------------------------- *)
(* AsyncWriteExt::write_all  (loop_write_all!) against a scripted writer    *)

Fixpoint write_all_loop (sched : list answer) (data : list byte) (needle : nat)
  (log : list wev) : outcome * list wev * list answer :=
  if Nat.leb (length data) needle then (OOk needle, log, sched) else
  match sched with
  | [] => (OErr E_WRITE_ZERO, log, [])        (* exhausted script accepts nothing *)
  | a :: sched' =>
    match writer_step a (skipn needle data) with
    | (RN O, _) => (OErr E_WRITE_ZERO, log, sched')
    | (RN k, bs) => write_all_loop sched' data (needle + k) (log ++ [WBytes bs])
    | (RE e, _) =>
      if is_intr e then write_all_loop sched' data needle log
      else (OErr e, log, sched')
    end
  end.

Definition write_all (sched : list answer) (data : list byte) :=
  write_all_loop sched data 0 [].

(* ---------------------------------------------------------------------- *)
(* util::copy_with_size: read into a Vec of capacity [bsz], write_all, clear;
   then flush and shutdown the writer.                                       *)

Fixpoint copy_loop (rs : list answer) (src : list byte) (ws : list answer)
  (bsz : nat) (total : nat) (log : list wev)
  : outcome * list byte * list wev :=
  match rs with
  | [] => (OOk total, src, log ++ [WFlush; WShutdown])
  | a :: rs' =>
    match reader_step a bsz src with
    | (RN O, _, src') => (OOk total, src', log ++ [WFlush; WShutdown])
    | (RN k, bs, src') =>
      match write_all_loop ws bs 0 log with
      | (OOk _, log', ws') => copy_loop rs' src' ws' bsz (total + k) log'
      | (OErr e, log', _) => (OErr e, src', log')
      end
    | (RE e, _, src') =>
      if is_intr e then copy_loop rs' src' ws bsz total log
      else (OErr e, src', log)
    end
  end.

Definition copy (rs : list answer) (src : list byte) (ws : list answer) (bsz : nat) :=
  copy_loop rs src ws bsz 0 [].

(* ---------------------------------------------------------------------- *)
(* util::Take::read into a Vec: `buf.slice(..max)` then inner read          *)

Definition take_read (limit : nat) (a : option answer) (src : list byte) (v : vec)
  : outcome * vec * list byte * nat :=
  if Nat.eqb limit 0 then (OOk 0, v, src, limit) else
  let mx := Nat.min limit (vcap v) in
  match a with
  | None => (OOk 0, v, src, limit)
  | Some a =>
    match reader_step a mx src with
    | (RN k, bs, src') =>
        (OOk k, (if Nat.eqb k 0 then v else slice_fill v 0 bs), src', limit - k)
    | (RE e, _, src') => (OErr e, v, src', limit)
    end
  end.

(* ---------------------------------------------------------------------- *)
(* in-memory implementations                                               *)

(* slice_to_buf(src, &mut vec): copy to the start, advance_to *)
Definition slice_to_vec (src : list byte) (v : vec) : nat * vec :=
  let k := Nat.min (length src) (vcap v) in
  (k, if Nat.eqb k 0 then v else slice_fill v 0 (firstn k src)).

(* <&[u8] as AsyncRead>::read *)
Definition mem_read (this : list byte) (v : vec) : nat * vec * list byte :=
  let '(k, v') := slice_to_vec this v in (k, v', skipn k this).

(* <[u8] as AsyncReadAt>::read_at: position clamped *)
Definition mem_read_at (this : list byte) (v : vec) (pos : nat) : nat * vec :=
  slice_to_vec (skipn (Nat.min pos (length this)) this) v.

(* vectored destination: members are fresh Vecs (len 0); see C10 for the rest.
   advance_vec_to(n) with total_len = 0 distributes n over the capacities.   *)
Fixpoint fill_members (this : list byte) (ms : list vec) : list vec :=
  match ms with
  | [] => []
  | m :: ms' =>
    let k := Nat.min (length this) (vcap m) in
    (if Nat.eqb k 0 then m else mkvec (write_at (cells m) 0 (firstn k this)) k)
      :: fill_members (skipn k this) ms'
  end.
Definition total_cap (ms : list vec) : nat := fold_right (fun m a => vcap m + a) 0 ms.

(* <&[u8] as AsyncRead>::read_vectored *)
Definition mem_read_vectored (this : list byte) (ms : list vec) : nat * list vec * list byte :=
  let k := Nat.min (length this) (total_cap ms) in
  (k, fill_members this ms, skipn k this).

(* <[u8] as AsyncReadAt>::read_vectored_at: position clamped like read_at *)
Definition mem_read_vectored_at (this : list byte) (ms : list vec) (pos : nat) : nat * list vec :=
  let s := skipn (Nat.min pos (length this)) this in
  (Nat.min (length s) (total_cap ms), fill_members s ms).

(* <Vec<u8> as AsyncWrite>::write / write_vectored: append everything *)
Definition vec_write (dst : vec) (bs : list byte) : nat * vec :=
  (length bs, vextend dst bs).
Definition vec_write_vectored (dst : vec) (bss : list (list byte)) : nat * vec :=
  let len := length (concat bss) in
  (len, fold_left vextend bss (vreserve dst len)).

(* <Vec<u8> as AsyncWriteAt>::write_at: file semantics, hole zero-filled *)
Definition vec_write_at (dst : vec) (bs : list byte) (pos : nat) : nat * vec :=
  if Nat.leb pos (vlen dst) then
    let n := Nat.min (length bs) (vlen dst - pos) in
    if Nat.ltb n (length bs) then
      let d := vreserve dst (length bs - n) in
      let d := mkvec (write_at (cells d) pos (firstn n bs)) (vlen d) in
      (length bs, vextend d (skipn n bs))
    else (length bs, mkvec (write_at (cells dst) pos bs) (vlen dst))
  else
    let d := vreserve dst (pos - vlen dst + length bs) in
    let d := vresize0 d pos in
    (length bs, vextend d bs).

Fixpoint vec_write_vectored_at_loop (d : vec) (bss : list (list byte)) (pos : nat) : vec :=
  match bss with
  | [] => d
  | bs :: r =>
    let d' :=
      if Nat.leb pos (vlen d) then
        let n := Nat.min (length bs) (vlen d - pos) in
        if Nat.ltb n (length bs) then
          vextend (mkvec (write_at (cells d) pos (firstn n bs)) (vlen d)) (skipn n bs)
        else mkvec (write_at (cells d) pos bs) (vlen d)
      else vextend d bs in
    vec_write_vectored_at_loop d' r (pos + length bs)
  end.

Definition vec_write_vectored_at (dst : vec) (bss : list (list byte)) (pos : nat) : nat * vec :=
  let len := length (concat bss) in
  let d :=
    if Nat.leb pos (vlen dst) then vreserve dst (len - (vlen dst - pos))
    else vresize0 (vreserve dst (pos - vlen dst + len)) pos in
  (len, vec_write_vectored_at_loop d bss pos).

(* <[u8] as AsyncWriteAt>::write_at on a fixed slice: clamped, truncating *)
Definition slice_write_at (dst : list byte) (bs : list byte) (pos : nat) : nat * list byte :=
  let p := Nat.min pos (length dst) in
  let n := Nat.min (length bs) (length dst - p) in
  (n, write_at dst p (firstn n bs)).

(* util::Repeat::read into a Vec: fills the whole capacity *)
Definition repeat_read (b : byte) (v : vec) : nat * vec :=
  let k := vcap v in
  (k, if Nat.eqb k 0 then v else slice_fill v 0 (repeat b k)).

(* ---------------------------------------------------------------------- *)
(* buffer.rs: Buffer = Vec + progress cursor (Slice { begin, end: None })   *)

Record buffer := mkbuf { bvec : vec; bbegin : nat }.
Definition buf_with_capacity (cap : nat) : buffer := mkbuf (mkvec (repeat UNINIT cap) 0) 0.
Definition buf_pending (b : buffer) : list byte :=
  skipn (bbegin b) (vinit (bvec b)).
Definition buf_all_done (b : buffer) : bool := Nat.leb (vlen (bvec b)) (bbegin b).
Definition buf_reset (b : buffer) : buffer := mkbuf (vclear (bvec b)) 0.
Definition buf_need_flush (b : buffer) : bool :=
  Nat.ltb (vcap (bvec b) * nn Consts.FLUSH_NUM / nn Consts.FLUSH_DEN) (vlen (bvec b)).

(* Buffer::advance: assert, then re-slice (which asserts pos <= len) *)
Definition buf_advance (b : buffer) (amount : nat) : R buffer :=
  if Nat.ltb (vcap (bvec b)) (bbegin b + amount) then Panic P_ASSERT else
  if Nat.ltb (vlen (bvec b)) (bbegin b + amount) then Panic P_ASSERT else
  Ok (mkbuf (bvec b) (bbegin b + amount)).

(* Buffer::flush_to(writer) *)
Fixpoint flush_to_loop (ws : list answer) (b : buffer) (log : list wev)
  : R (outcome * buffer * list wev * list answer) :=
  match ws with
  | [] => Ok (OErr E_WRITE_ZERO, b, log, [])
  | a :: ws' =>
    match writer_step a (buf_pending b) with
    | (RN O, _) => Ok (OErr E_WRITE_ZERO, b, log, ws')
    | (RN k, bs) =>
      let! b' := buf_advance b k in
      if buf_all_done b' then Ok (OOk 0, buf_reset b', log ++ [WBytes bs], ws')
      else flush_to_loop ws' b' (log ++ [WBytes bs])
    | (RE e, _) => Ok (OErr e, b, log, ws')
    end
  end.

Definition flush_to (ws : list answer) (b : buffer) (log : list wev) :=
  if buf_all_done b then Ok (OOk 0, b, log, ws) else flush_to_loop ws b log.

(* ---- BufWriter ------------------------------------------------------- *)

(* BufWriter::flush = flush the buffer into the writer, then flush the writer *)
Definition bw_flush_buf := flush_to.

Definition bw_flush (ws : list answer) (b : buffer) (log : list wev)
  : R (outcome * buffer * list wev * list answer) :=
  let! '(o, b', log', ws') := flush_to ws b log in
  match o with
  | OOk _ => Ok (o, b', log' ++ [WFlush], ws')
  | OErr _ => Ok (o, b', log', ws')
  end.

Definition bw_flush_if_needed (ws : list answer) (b : buffer) (log : list wev) :=
  if buf_need_flush b then bw_flush_buf ws b log else Ok (OOk 0, b, log, ws).

(* BufWriter::write(data) *)
Definition bw_write (ws : list answer) (b : buffer) (log : list wev) (data : list byte)
  : R (outcome * buffer * list wev * list answer) :=
  let! '(o, b, log, ws) := bw_flush_if_needed ws b log in
  match o with
  | OErr e => Ok (OErr e, b, log, ws)
  | OOk _ =>
    let v := bvec b in
    let k := Nat.min (length data) (vcap v - vlen v) in
    let b := if Nat.eqb k 0 then b
             else mkbuf (slice_fill v (vlen v) (firstn k data)) (bbegin b) in
    (* the bytes are accepted: a failure of the eager flush is not a failed
       write (it would make write_all send the bytes twice); it resurfaces
       on the next write or flush *)
    let! '(_, b, log, ws) := bw_flush_if_needed ws b log in
    Ok (OOk k, b, log, ws)
  end.

(* BufWriter::write_vectored(segments): each segment goes BEHIND the bytes already in
   the buffer; the loop stops once the buffer is full *)
Definition bw_fill (b : buffer) (data : list byte) : buffer * nat :=
  let v := bvec b in
  let k := Nat.min (length data) (vcap v - vlen v) in
  (if Nat.eqb k 0 then b else mkbuf (slice_fill v (vlen v) (firstn k data)) (bbegin b), k).

Fixpoint bw_fill_segs (b : buffer) (segs : list (list byte)) : buffer * nat :=
  match segs with
  | [] => (b, 0)
  | d :: r =>
    let '(b1, k) := bw_fill b d in
    if Nat.eqb (vlen (bvec b1)) (vcap (bvec b1)) then (b1, k)
    else let '(b2, k2) := bw_fill_segs b1 r in (b2, k + k2)
  end.

Definition bw_write_vectored (ws : list answer) (b : buffer) (log : list wev)
  (segs : list (list byte)) : R (outcome * buffer * list wev * list answer) :=
  let! '(o, b, log, ws) := bw_flush_if_needed ws b log in
  match o with
  | OErr e => Ok (OErr e, b, log, ws)
  | OOk _ =>
    let '(b, k) := bw_fill_segs b segs in
    let! '(_, b, log, ws) := bw_flush_if_needed ws b log in
    Ok (OOk k, b, log, ws)
  end.

(* BufWriter::shutdown = flush, then inner shutdown *)
Definition bw_shutdown (ws : list answer) (b : buffer) (log : list wev) :=
  let! '(o, b', log', ws') := bw_flush ws b log in
  match o with
  | OOk _ => Ok (o, b', log' ++ [WShutdown], ws')
  | OErr _ => Ok (o, b', log', ws')
  end.

(* ---- BufReader ------------------------------------------------------- *)

(* BufReader::fill_buf: returns the readable window after an optional refill *)
Definition br_fill_buf (rs : list answer) (src : list byte) (b : buffer)
  : outcome * buffer * list byte * list answer :=
  let b := if buf_all_done b then buf_reset b else b in
  if Nat.eqb (vlen (bvec b)) 0 then
    match rs with
    | [] => (OOk 0, b, src, [])
    | a :: rs' =>
      match reader_step a (vcap (bvec b)) src with
      | (RN k, bs, src') =>
          (OOk k, (if Nat.eqb k 0 then b else mkbuf (slice_fill (bvec b) 0 bs) (bbegin b)), src', rs')
      | (RE e, _, src') => (OErr e, b, src', rs')
      end
    end
  else (OOk 0, b, src, rs).

(* BufReader::read(dst) = fill_buf, copy the window into dst, consume *)
Definition br_read (rs : list answer) (src : list byte) (b : buffer) (dst : vec)
  : R (outcome * buffer * list byte * list answer * vec) :=
  match br_fill_buf rs src b with
  | (OErr e, b, src, rs) => Ok (OErr e, b, src, rs, dst)
  | (OOk _, b, src, rs) =>
    let '(k, dst') := slice_to_vec (buf_pending b) dst in
    let! b' := buf_advance b k in
    Ok (OOk k, b', src, rs, dst')
  end.

Definition br_consume (b : buffer) (amount : nat) : R buffer := buf_advance b amount.
