(* Buf.v — executable model of compio-buf's buffer views
   (compio-buf/src/{io_buf,slice,uninit,io_vec_buf}.rs).  No proofs in this file.

   An allocation is a list of byte cells (its length is the capacity) plus the
   length of the initialised prefix.  Every range a view reports is
   (offset, length) in the coordinates of the ROOT allocation, so "inside the
   allocation", "prefix of" and "unmoved" are arithmetic facts.  A panic of the
   real code (assert!, slice indexing, set_len beyond the capacity under debug
   assertions) is [Panic code]. *)
From Compio.Model Require Import Base.

(* ---------------------------------------------------------------------- *)
(* root buffers and their SetLen::set_len (io_buf.rs)                      *)

Inductive kind :=
| KVec        (* Vec<u8>: sets exactly, may truncate                        *)
| KArray      (* [u8; N], Box<[u8]>: fixed, len = cap, set_len is a no-op    *)
| KArrayVec   (* arrayvec::ArrayVec<u8, N>: only grows                       *)
| KSmallVec   (* smallvec::SmallVec<[u8; N]>: only grows                     *)
| KBytesMut   (* bytes::BytesMut: sets exactly, may truncate                 *)
| KPool.      (* compio_driver::BufferRef: sets min(len, cap), user-set cap  *)

(* [rlim] is the user-set capacity of a pool buffer (BufferRef::cap, at most the
   full length of the underlying buffer = length rcells); unused for other kinds *)
Record root := mkroot { rkind : kind; rcells : list byte; rlen : nat; rlim : nat }.
Definition rcap (r : root) : nat :=
  match rkind r with
  | KPool => Nat.min (rlim r) (length (rcells r))
  | _ => length (rcells r)
  end.
Definition with_len (r : root) (n : nat) : root := mkroot (rkind r) (rcells r) n (rlim r).
Definition with_cells (r : root) (c : list byte) : root := mkroot (rkind r) c (rlen r) (rlim r).

(* set_len beyond the capacity: Vec aborts (std's unsafe-precondition check of
   a debug build), BytesMut and ArrayVec hit their debug_assert!, the array
   impls hit compio's debug_assert!(len <= N); SmallVec has no check at all
   (silent UB: the harness traps it, same code as the Vec abort). *)
Definition root_set_len (r : root) (k : nat) : R root :=
  match rkind r with
  | KVec => if k <=? rcap r then Ok (with_len r k) else Panic P_SET_LEN
  | KBytesMut => if k <=? rcap r then Ok (with_len r k) else Panic P_OTHER
  | KArray => if k <=? rcap r then Ok r else Panic P_ASSERT
  | KArrayVec =>
      if rlen r <? k then (if k <=? rcap r then Ok (with_len r k) else Panic P_ASSERT)
      else Ok r
  | KSmallVec =>
      if rlen r <? k then (if k <=? rcap r then Ok (with_len r k) else Panic P_SET_LEN)
      else Ok r
  | KPool => Ok (with_len r (Nat.min k (rcap r)))
  end.

(* BufferRef::set_capacity(n) (compio-driver/src/buffer_pool.rs): nothing for 0,
   otherwise cap = min(n, full length), len = min(len, cap).  [n] is a usize. *)
Definition pool_set_capacity (n : N) (r : root) : root :=
  match rkind r with
  | KPool =>
    if N.eqb n 0 then r else
    let c := N.to_nat (N.min n (N.of_nat (length (rcells r)))) in
    mkroot KPool (rcells r) (Nat.min (rlen r) c) c
  | _ => r
  end.

Definition root_set_len_k (k : nat) (r : root) : R root := root_set_len r k.

(* IoBufMut::reserve.  Fixed-capacity buffers use the DEFAULT implementation:
   Ok iff len <= buf_capacity() - buf_len(), otherwise ReserveError::NotSupported.
   Vec / BytesMut grow like std's RawVec (max(8, 2*cap, len+additional)), SmallVec to
   the next power of two of len+additional.  After a growth the harness refills the
   new spare capacity with canaries, so does [root_grow]. *)
Inductive rsv := RsOk | RsNotSupported.

Definition grow_vec (cap len add : nat) : nat := Nat.max 8 (Nat.max (2 * cap) (len + add)).

Fixpoint pow2_from (fuel p n : nat) : nat :=
  match fuel with
  | O => p
  | S f => if n <=? p then p else pow2_from f (2 * p) n
  end.
Definition next_pow2 (n : nat) : nat := pow2_from n 1 n.

Definition root_grow (r : root) (newcap : nat) : root :=
  mkroot (rkind r) (firstn (rlen r) (rcells r) ++ canaries_from (rlen r) (newcap - rlen r))
         (rlen r) (rlim r).

Definition root_reserve (k : nat) (r : root) : R (rsv * root) :=
  match rkind r with
  | KVec | KBytesMut =>
      if k <=? rcap r - rlen r then Ok (RsOk, r)
      else Ok (RsOk, root_grow r (grow_vec (rcap r) (rlen r) k))
  | KSmallVec =>
      if k <=? rcap r - rlen r then Ok (RsOk, r)
      else Ok (RsOk, root_grow r (next_pow2 (rlen r + k)))
  | KArray | KArrayVec | KPool =>
      let! spare := usub (rcap r) (rlen r) in
      if k <=? spare then Ok (RsOk, r) else Ok (RsNotSupported, r)
  end.

(* the views of the initialised bytes a root offers besides as_init: Deref and
   DerefMut (BufferRef: slice::from_raw_parts(_mut)(ptr, len)) *)
Definition root_deref (r : root) : nat * nat := (0, rlen r).
Definition root_deref_mut (r : root) : nat * nat := (0, rlen r).

(* (b + 1) mod 256 on the cells [off, off+len): what the harness does through a
   mutable view of the initialised bytes *)
Definition bump_cells (cells : list byte) (off len : nat) : list byte :=
  firstn off cells ++ map (fun b => N.modulo (b + 1) 256) (firstn len (skipn off cells))
  ++ skipn (off + len) cells.
Definition root_bump (off len : nat) (r : root) : root :=
  with_cells r (bump_cells (rcells r) off len).
Definition root_init (r : root) : R (nat * nat) := Ok (0, rlen r).
Definition root_uninit (r : root) : R (nat * nat) := Ok (0, rcap r).
Definition root_write (off : nat) (bs : list byte) (r : root) : root :=
  with_cells r (write_at (rcells r) off bs).

(* ---------------------------------------------------------------------- *)
(* buffer views: Slice<T> (slice.rs) and Uninit<T> (uninit.rs), generic over
   the base buffer (a root, or a VectoredBufIter)                           *)

Inductive view :=
| VBase
| VSlice (v : view) (b : nat) (e : option nat)   (* Slice { buffer, begin, end } *)
| VUninit (v : view) (b : nat).                  (* Uninit(Slice { buffer, begin: b, end: None }) *)

(* Slice<Slice<T>>::flatten (slice.rs): begin = large.begin + small.begin,
   end by the four combinations of the two optional ends *)
Definition flatten_view (v : view) : option view :=
  match v with
  | VSlice (VSlice v0 b1 e1) b2 e2 =>
    let e := match e2, e1 with
             | Some s, Some l => Some (Nat.min (b1 + s) l)
             | Some s, None => Some (b1 + s)
             | None, l => l
             end in
    Some (VSlice v0 (b1 + b2) e)
  | _ => None
  end.

(* &bytes[b .. min(e.unwrap_or(len), len)] of the range (o, len) *)
Definition sub_range (rg : nat * nat) (b : nat) (e : option nat) : R (nat * nat) :=
  let '(o, l) := rg in
  let en := Nat.min (match e with Some x => x | None => l end) l in
  if b <=? en then Ok (o + b, en - b) else Panic P_SLICE_INDEX.

Section Views.
  Context {S : Type}.
  Variable base_init : S -> R (nat * nat).
  Variable base_uninit : S -> R (nat * nat).
  Variable base_set_len : nat -> S -> R S.

  (* IoBuf::as_init *)
  Fixpoint as_init (v : view) (s : S) : R (nat * nat) :=
    match v with
    | VBase => base_init s
    | VSlice v b e => let! rg := as_init v s in sub_range rg b e
    | VUninit v b => let! rg := as_init v s in sub_range rg b None
    end.

  Definition buf_len (v : view) (s : S) : R nat :=
    let! rg := as_init v s in Ok (snd rg).

  (* IoBufMut::as_uninit; Uninit skips its own initialised bytes *)
  Fixpoint as_uninit (v : view) (s : S) : R (nat * nat) :=
    match v with
    | VBase => base_uninit s
    | VSlice v b e => let! rg := as_uninit v s in sub_range rg b e
    | VUninit v b =>
        let! len := buf_len (VUninit v b) s in
        let! rg := as_uninit v s in
        let! rg' := sub_range rg b None in
        let '(o, c) := rg' in
        if len <=? c then Ok (o + len, c - len) else Panic P_SLICE_INDEX
    end.

  (* SetLen::set_len: every layer adds its begin *)
  Fixpoint set_len (v : view) (k : nat) (s : S) : R S :=
    match v with
    | VBase => base_set_len k s
    | VSlice v b _ => set_len v (b + k) s
    | VUninit v b => set_len v (b + k) s
    end.

  (* SetLenExt *)
  Definition advance_to (v : view) (k : nat) (s : S) : R S :=
    let! l := buf_len v s in
    if l <? k then set_len v k s else Ok s.

  Definition advance (v : view) (k : nat) (s : S) : R S :=
    let! l := buf_len v s in set_len v (l + k) s.

  (* checked constructors: IoBufExt::slice asserts, IoBufMutExt::uninit *)
  Definition mk_slice (v : view) (b : nat) (e : option nat) (s : S) : R view :=
    let! l := buf_len v s in
    if b <=? l then
      match e with
      | Some x => if b <=? x then Ok (VSlice v b e) else Panic P_ASSERT
      | None => Ok (VSlice v b None)
      end
    else Panic P_ASSERT.

  Definition mk_uninit (v : view) (s : S) : R view :=
    let! l := buf_len v s in Ok (VUninit v l).
End Views.

Section Views2.
  Context {S : Type}.
  Variable base_init : S -> R (nat * nat).
  Variable base_uninit : S -> R (nat * nat).
  Variable base_set_len : nat -> S -> R S.
  Variable base_reserve : nat -> S -> R (rsv * S).
  Variable base_write : nat -> list byte -> S -> S.
  Variable base_alloc : S -> nat.    (* size of the allocation the offsets refer to *)

  (* IoBufMut::reserve: Slice refuses when it has an end, otherwise Slice and
     Uninit hand the request to the buffer below *)
  Fixpoint reserve (v : view) (k : nat) (s : S) : R (rsv * S) :=
    match v with
    | VBase => base_reserve k s
    | VSlice v _ (Some _) => Ok (RsNotSupported, s)
    | VSlice v _ None => reserve v k s
    | VUninit v _ => reserve v k s
    end.

  (* IoBufMutExt::as_mut_slice: from_raw_parts_mut(buf_mut_ptr(), buf_len()) *)
  Definition as_mut_slice (v : view) (s : S) : R (nat * nat) :=
    let! l := buf_len base_init v s in
    let! rg := as_uninit base_init base_uninit v s in
    Ok (fst rg, l).

  (* <Slice<T> as DerefMut>::deref_mut: buffer.as_mut_slice()[initialized_range];
     for a view that is not a Slice: as_init again *)
  Definition slice_deref_mut (v : view) (s : S) : R (nat * nat) :=
    match v with
    | VSlice v0 b e => let! rg := as_mut_slice v0 s in sub_range rg b e
    | _ => as_init base_init v s
    end.

  (* IoBufMutExt::extend_from_slice: reserve, copy_nonoverlapping to
     buf_mut_ptr() + buf_len() (a raw copy: no bounds check; a copy that would leave
     the allocation is memory corruption, which the harness traps: code 4), then
     advance_to(buf_len + len) *)
  Definition extend_from_slice (v : view) (bs : list byte) (s : S) : R (rsv * S) :=
    let! init := buf_len base_init v s in
    let! '(res, s1) := reserve v (length bs) s in
    match res with
    | RsNotSupported => Ok (res, s1)
    | RsOk =>
      let! rg := as_uninit base_init base_uninit v s1 in
      if fst rg + init + length bs <=? base_alloc s1 then
        let! s3 := advance_to base_init base_set_len v (init + length bs)
                     (base_write (fst rg + init) bs s1) in
        Ok (RsOk, s3)
      else Panic P_SET_LEN
    end.
End Views2.

(* the instance over a root *)
Definition r_as_init := as_init root_init.
Definition r_as_uninit := as_uninit root_init root_uninit.
Definition r_set_len := set_len root_set_len_k.
Definition r_advance_to := advance_to root_init root_set_len_k.
Definition r_advance := advance root_init root_set_len_k.
Definition r_mk_slice := mk_slice root_init.
Definition r_mk_uninit := mk_uninit root_init.
Definition root_alloc (r : root) : nat := length (rcells r).
Definition r_reserve := reserve root_reserve.
Definition r_as_mut_slice := as_mut_slice root_init root_uninit.
Definition r_slice_deref_mut := slice_deref_mut root_init root_uninit.
Definition r_extend :=
  extend_from_slice root_init root_uninit root_set_len_k root_reserve root_write root_alloc.

(* a fill, as an I/O operation does it: write at the start of the writable
   region, then record the count with advance_to (compio-driver op/ext.rs) *)
Definition r_fill (v : view) (bs : list byte) (r : root) : R root :=
  let! rg := r_as_uninit v r in
  r_advance_to v (length bs) (root_write (fst rg) bs r).

(* the appending variant: record with advance (relative) *)
Definition r_fill_adv (v : view) (bs : list byte) (r : root) : R root :=
  let! rg := r_as_uninit v r in
  r_advance v (length bs) (root_write (fst rg) bs r).

(* repeated fills of one view *)
Fixpoint r_fills (v : view) (bss : list (list byte)) (r : root) : R root :=
  match bss with
  | [] => Ok r
  | bs :: t => let! r1 := r_fill v bs r in r_fills v t r1
  end.

(* ---------------------------------------------------------------------- *)
(* vectored buffers (io_vec_buf.rs): the members are roots, each its own
   allocation.  A vectored range is (member index, offset, length).          *)

Inductive container :=
| CList        (* Vec<T>, [T; N], ...: default_set_len                       *)
| CTuple       (* (T, (T, ... (T,)))                                          *)
| CTupleUnit.  (* (T, (T, ... ()))                                            *)

Definition vrange := (nat * nat * nat)%type.
Definition vr_len (x : vrange) : nat := snd x.

Fixpoint init_ranges (i : nat) (ms : list root) : list vrange :=
  match ms with [] => [] | m :: r => (i, 0, rlen m) :: init_ranges (S i) r end.
Fixpoint uninit_ranges (i : nat) (ms : list root) : list vrange :=
  match ms with [] => [] | m :: r => (i, 0, rcap m) :: uninit_ranges (S i) r end.

(* default_set_len(iter, len) *)
Fixpoint default_set_len (ms : list root) (len : nat) : R (list root) :=
  match ms with
  | [] => Ok []
  | m :: r =>
    if len =? 0 then Ok ms else
    let sub := Nat.min (rcap m) len in
    let! m' := root_set_len m sub in
    let! r' := default_set_len r (len - sub) in
    Ok (m' :: r')
  end.

(* SetLen for (T, Rest), (T,), () *)
Fixpoint tuple_set_len (unit_term : bool) (ms : list root) (len : nat) : R (list root) :=
  match ms with
  | [] => if len =? 0 then Ok [] else Panic P_ASSERT
  | m :: r =>
    match r, unit_term with
    | [], false => let! m' := root_set_len m len in Ok [m']
    | _, _ =>
      let h := Nat.min len (rcap m) in
      let! m' := root_set_len m h in
      let! r' := tuple_set_len unit_term r (len - h) in
      Ok (m' :: r')
    end
  end.

Definition container_set_len (c : container) (ms : list root) (len : nat) : R (list root) :=
  match c with
  | CList => default_set_len ms len
  | CTuple => tuple_set_len false ms len
  | CTupleUnit => tuple_set_len true ms len
  end.

(* VectoredSlice { buf, begin, idx, offset } (slice.rs) *)
Inductive vview :=
| WBase
| WSl (v : vview) (begin idx off : nat).

(* the map closure: `&buf[offset..]` on the first slice yielded after the skip *)
Definition cut_first (l : list vrange) (off : nat) : R (list vrange) :=
  match l with
  | [] => Ok []
  | (m, o, n) :: r => if off <=? n then Ok ((m, o + off, n - off) :: r) else Panic P_SLICE_INDEX
  end.

Fixpoint iter_slice (v : vview) (ms : list root) : R (list vrange) :=
  match v with
  | WBase => Ok (init_ranges 0 ms)
  | WSl v _ idx off => let! l := iter_slice v ms in cut_first (skipn idx l) off
  end.

Fixpoint iter_uninit (v : vview) (ms : list root) : R (list vrange) :=
  match v with
  | WBase => Ok (uninit_ranges 0 ms)
  | WSl v _ idx off => let! l := iter_uninit v ms in cut_first (skipn idx l) off
  end.

(* the loop of IoVectoredBuf::slice / IoVectoredBufMut::slice_mut *)
Fixpoint skip_count (lens : list nat) (offset idx : nat) : nat * nat :=
  match lens with
  | [] => (idx, offset)
  | len :: r => if offset <? len then (idx, offset) else skip_count r (offset - len) (S idx)
  end.

Definition mk_vslice (mutable : bool) (v : vview) (begin : nat) (ms : list root) : R vview :=
  let! l := (if mutable then iter_uninit v ms else iter_slice v ms) in
  let '(idx, off) := skip_count (map vr_len l) begin 0 in
  Ok (WSl v begin idx off).

Fixpoint vset_len (c : container) (v : vview) (len : nat) (ms : list root) : R (list root) :=
  match v with
  | WBase => container_set_len c ms len
  | WSl v b _ _ => vset_len c v (b + len) ms
  end.

Definition sum_len (l : list vrange) : nat := fold_right (fun x a => vr_len x + a) 0 l.

Definition total_len (v : vview) (ms : list root) : R nat :=
  let! l := iter_slice v ms in Ok (sum_len l).

(* SetLenExt::advance_vec_to *)
Definition advance_vec_to (c : container) (v : vview) (len : nat) (ms : list root)
  : R (list root) :=
  let! t := total_len v ms in
  if t <? len then vset_len c v len ms else Ok ms.

(* write [bs] into member [m] at [off] *)
Fixpoint write_member (ms : list root) (m off : nat) (bs : list byte) : list root :=
  match ms, m with
  | [], _ => []
  | x :: r, O => root_write off bs x :: r
  | x :: r, S k => x :: write_member r k off bs
  end.

(* a vectored read (readv): the bytes go into the writable ranges in order *)
Fixpoint scatter (rgs : list vrange) (bs : list byte) (ms : list root) : list root :=
  match rgs with
  | [] => ms
  | (m, o, n) :: r => scatter r (skipn n bs) (write_member ms m o (firstn n bs))
  end.

Definition vfill (c : container) (v : vview) (bs : list byte) (ms : list root)
  : R (list root) :=
  let! rgs := iter_uninit v ms in
  advance_vec_to c v (length bs) (scatter rgs bs ms).

(* repeated vectored fills of an unsliced Vec<T> *)
Fixpoint vfills (bss : list (list byte)) (ms : list root) : R (list root) :=
  match bss with
  | [] => Ok ms
  | bs :: t => let! ms1 := vfill CList WBase bs ms in vfills t ms1
  end.

(* ---------------------------------------------------------------------- *)
(* VectoredBufIter { buf, total_filled, index, len, filled }               *)

Record viter := mkiter { it_index : nat; it_len : nat; it_tf : nat; it_filled : nat }.

Definition viter_new (v : vview) (ms : list root) : R (option viter) :=
  let! l := iter_slice v ms in
  if length l =? 0 then Ok None else Ok (Some (mkiter 0 (length l) 0 0)).

Definition viter_next (it : viter) : option viter :=
  let i := S (it_index it) in
  if i <? it_len it then Some (mkiter i (it_len it) (it_tf it + it_filled it) 0) else None.

(* as_init = &curr[filled..], as_uninit = the whole member *)
Definition viter_init (v : vview) (it : viter) (ms : list root) : R vrange :=
  let! l := iter_slice v ms in
  match nth_error l (it_index it) with
  | None => Panic P_OTHER
  | Some (m, o, n) =>
    if it_filled it <=? n then Ok (m, o + it_filled it, n - it_filled it)
    else Panic P_SLICE_INDEX
  end.

Definition viter_uninit (v : vview) (it : viter) (ms : list root) : R vrange :=
  let! l := iter_uninit v ms in
  match nth_error l (it_index it) with
  | None => Panic P_OTHER
  | Some x => Ok x
  end.

Definition istate := (viter * list root)%type.

Definition viter_set_len (c : container) (v : vview) (k : nat) (s : istate) : R istate :=
  let '(it, ms) := s in
  let! ms' := vset_len c v (it_tf it + k) ms in
  Ok (mkiter (it_index it) (it_len it) (it_tf it) k, ms').

(* the iterator as a base buffer for Slice / Uninit views over it *)
Definition i_base_init (v : vview) (s : istate) : R (nat * nat) :=
  let! x := viter_init v (fst s) (snd s) in Ok (snd (fst x), snd x).
Definition i_base_uninit (v : vview) (s : istate) : R (nat * nat) :=
  let! x := viter_uninit v (fst s) (snd s) in Ok (snd (fst x), snd x).

Definition i_as_init (w : vview) := as_init (i_base_init w).
Definition i_as_uninit (w : vview) := as_uninit (i_base_init w) (i_base_uninit w).
Definition i_advance_to (c : container) (w : vview) :=
  advance_to (i_base_init w) (viter_set_len c w).
Definition i_advance (c : container) (w : vview) :=
  advance (i_base_init w) (viter_set_len c w).
Definition i_set_len (c : container) (w : vview) := set_len (viter_set_len c w).
Definition i_mk_slice (w : vview) := mk_slice (i_base_init w).
Definition i_mk_uninit (w : vview) := mk_uninit (i_base_init w).

(* VectoredBufIter has the DEFAULT reserve *)
Definition i_base_reserve (w : vview) (k : nat) (s : istate) : R (rsv * istate) :=
  let! i := i_base_init w s in
  let! u := i_base_uninit w s in
  let! spare := usub (snd u) (snd i) in
  if k <=? spare then Ok (RsOk, s) else Ok (RsNotSupported, s).
Definition i_base_write (w : vview) (off : nat) (bs : list byte) (s : istate) : istate :=
  match viter_uninit w (fst s) (snd s) with
  | Ok x => (fst s, write_member (snd s) (fst (fst x)) off bs)
  | Panic _ => s
  end.
Definition i_base_alloc (w : vview) (s : istate) : nat :=
  match viter_uninit w (fst s) (snd s) with
  | Ok x => match nth_error (snd s) (fst (fst x)) with Some m => length (rcells m) | None => 0 end
  | Panic _ => 0
  end.
Definition i_extend (c : container) (w : vview) :=
  extend_from_slice (i_base_init w) (i_base_uninit w) (viter_set_len c w)
                    (i_base_reserve w) (i_base_write w) (i_base_alloc w).

(* a fill through (a view over) the iterator: write at the start of the
   writable region of the current member, record with advance_to *)
Definition i_fill (c : container) (w : vview) (v : view) (bs : list byte) (s : istate)
  : R istate :=
  let! rg := i_as_uninit w v s in
  let! x := viter_uninit w (fst s) (snd s) in
  i_advance_to c w v (length bs) (fst s, write_member (snd s) (fst (fst x)) (fst rg) bs).

(* fill pattern of the harness: fill number j, byte i *)
Definition pat (j i : nat) : byte := NN (1 + ((j * 17 + i) mod 120)).
Fixpoint pat_from (j i n : nat) : list byte :=
  match n with O => [] | S k => pat j i :: pat_from j (S i) k end.
