(* RunC17.v — acceptor of recorded histories of the real blocking pool
   (harness/rt/src/bin/c17.rs) by the LTS of model/Asyncify.v ([step], the
   protocol of the code as it is).

   Input:  [L; D; njobs; (owner panics runner first)*; nev; (kind a b)*]
   Output: [1; jobs; completed entries; max alive workers <= L ?; all dispatchers idle ?; wakes]
           when the history is a run of the model, else [0; index of the first
           event that is not enabled; its kind].

   The pool's operations on `counter` are recorded atomically with the
   operation (verif::section), so RESERVE_* and GUARD_DROP are in the exact
   order of the counter; the channel rendezvous is not observable, it is
   performed at the first event that proves it has happened (JOB_START of the
   job on its worker, or the return of dispatch), entering recv on the worker's
   behalf just before.  Events:
     1 CALL d j | 2 RET_OK d j | 3 RET_REJ d j | 4 RET_REJ_WRONG d j
     5 RESERVE_OK d counter | 6 RESERVE_FAIL d counter | 7 WORKER_START t _
     8 JOB_START t j | 9 JOB_END t j | 10 GUARD_DROP t counter
     11 WOKEN t j (the worker has sent the result and woken the submitter)  *)
From Compio.Model Require Import Base Asyncify.

Record jinfo := mk_ji { ji_owner : nat; ji_panics : bool; ji_runner : nat; ji_first : bool }.

Record ast := mk_ast {
  ms : st;
  wmap : list (nat * nat)      (* harness worker id -> index in [work] *)
}.

Fixpoint lookup (m : list (nat * nat)) (t : nat) : option nat :=
  match m with
  | [] => None
  | (k, v) :: r => if k =? t then Some v else lookup r t
  end.

Definition do_step (a : ast) (e : ev) : option ast :=
  match step (ms a) e with
  | Some s => Some (mk_ast s (wmap a))
  | None => None
  end.

Definition obind {A B} (x : option A) (f : A -> option B) : option B :=
  match x with Some a => f a | None => None end.

(* push_blocking's loop: a rejected closure is dispatched again *)
Definition retry_if_rejected (a : ast) (d : nat) : option ast :=
  match nth_error (disp (ms a)) d with
  | Some (DRejected _) => do_step a (ERetry d)
  | _ => Some a
  end.

(* make sure job j has reached the worker that (according to the history) ran it *)
Definition ensure_handed (tbl : list jinfo) (a : ast) (j : nat) : option ast :=
  match nth_error tbl j with
  | None => None
  | Some ji =>
    let d := ji_owner ji in
    let a1 := match nth_error (disp (ms a)) d with
              | Some (DRejected k) => if k =? j then do_step a (ERetry d) else Some a
              | _ => Some a
              end in
    obind a1 (fun a1 =>
    match nth_error (disp (ms a1)) d with
    | Some (DTry k) =>
      if k =? j then
        match lookup (wmap a1) (ji_runner ji) with
        | None => None
        | Some w =>
          let a2 := match nth_error (work (ms a1)) w with
                    | Some WLoop => do_step a1 (ERecvEnter w)
                    | _ => Some a1
                    end in
          obind a2 (fun a2 => do_step a2 (ETrySendOk d w))
        end
      else Some a1
    | Some (DSpawn k) =>
      if k =? j then
        match lookup (wmap a1) (ji_runner ji) with
        | Some _ => None            (* a spawned worker is a new thread *)
        | None =>
          if ji_first ji then
            match do_step a1 (ESpawn d) with
            | Some a2 => Some (mk_ast (ms a2) ((ji_runner ji, length (work (ms a1))) :: wmap a2))
            | None => None
            end
          else None
        end
      else Some a1
    | _ => Some a1
    end)
  end.

Fixpoint find_first (tbl : list jinfo) (t : nat) (i : nat) : option nat :=
  match tbl with
  | [] => None
  | ji :: r => if (ji_runner ji =? t) && ji_first ji then Some i else find_first r t (S i)
  end.

Definition check_counter (v : nat) (a : ast) : option ast :=
  if counter (ms a) =? v then Some a else None.

Definition handle (tbl : list jinfo) (a : ast) (kind x y : nat) : option ast :=
  match kind with
  | 1 =>
    if y =? length (jobs (ms a)) then
      match nth_error tbl y with
      | Some ji => if ji_owner ji =? x then do_step a (ECall x (ji_panics ji)) else None
      | None => None
      end
    else None
  | 2 =>
    obind (ensure_handed tbl a y) (fun a' =>
      match nth_error (disp (ms a')) x with Some DIdle => Some a' | _ => None end)
  | 3 =>
    match nth_error (disp (ms a)) x with
    | Some (DRejected k) => if k =? y then Some a else None
    | _ => None
    end
  | 5 =>
    obind (retry_if_rejected a x) (fun a1 =>
    obind (do_step a1 (ETrySendFull x)) (fun a2 =>
    obind (do_step a2 (ECheckOk x)) (check_counter y)))
  | 6 =>
    obind (retry_if_rejected a x) (fun a1 =>
    obind (do_step a1 (ETrySendFull x)) (fun a2 =>
    obind (do_step a2 (ECheckFail x)) (check_counter y)))
  | 7 =>
    match find_first tbl x 0 with
    | Some j => ensure_handed tbl a j
    | None => None
    end
  | 8 =>
    obind (ensure_handed tbl a y) (fun a' =>
      match lookup (wmap a') x with
      | Some w =>
        match nth_error (work (ms a')) w with
        | Some (WRun k) => if k =? y then do_step a' (EStart w) else None
        | _ => None
        end
      | None => None
      end)
  | 9 =>
    match lookup (wmap a) x with
    | Some w =>
      match nth_error (work (ms a)) w with
      | Some (WRunning k) => if k =? y then do_step a (EEnd w) else None
      | _ => None
      end
    | None => None
    end
  | 10 =>
    match lookup (wmap a) x with
    | Some w =>
      let a1 := match nth_error (work (ms a)) w with
                | Some WLoop => do_step a (ERecvEnter w)
                | _ => Some a
                end in
      obind a1 (fun a1 =>
      obind (do_step a1 (ETimeout w)) (fun a2 =>
      obind (do_step a2 (EGuardDrop w)) (check_counter y)))
    | None => None
    end
  | 11 =>
    match lookup (wmap a) x with
    | Some w =>
      match nth_error (work (ms a)) w with
      | Some (WSent _ k) => if k =? y then do_step a (EWake w) else None
      | _ => None
      end
    | None => None
    end
  | _ => None
  end.

(* replay; [mx] = the largest number of live pool threads seen *)
Fixpoint replay (tbl : list jinfo) (a : ast) (mx : nat) (evs : list (nat * nat * nat)) (i : nat)
  : (ast * nat) + (nat * nat) :=
  match evs with
  | [] => inl (a, mx)
  | (k, x, y) :: r =>
    match handle tbl a k x y with
    | Some a' => replay tbl a' (Nat.max mx (alive (ms a'))) r (S i)
    | None => inr (i, k)
    end
  end.

Fixpoint dec_table (n : nat) (l : list N) : option (list jinfo * list N) :=
  match n with
  | O => Some ([], l)
  | S n' =>
    match l with
    | o :: p :: t :: f :: r =>
      match dec_table n' r with
      | Some (tb, rest) => Some (mk_ji (nn o) (N.eqb p 1) (nn t) (N.eqb f 1) :: tb, rest)
      | None => None
      end
    | _ => None
    end
  end.

Fixpoint dec_events (n : nat) (l : list N) : option (list (nat * nat * nat)) :=
  match n with
  | O => match l with [] => Some [] | _ => None end
  | S n' =>
    match l with
    | k :: x :: y :: r =>
      match dec_events n' r with
      | Some es => Some ((nn k, nn x, nn y) :: es)
      | None => None
      end
    | _ => None
    end
  end.

Definition b2N (b : bool) : N := if b then 1%N else 0%N.

Definition run_c17 (l : list N) : list N :=
  match l with
  | lim :: d :: nj :: r =>
    match dec_table (nn nj) r with
    | Some (tbl, nev :: r2) =>
      match dec_events (nn nev) r2 with
      | Some evs =>
        match replay tbl (mk_ast (init (nn lim) (nn d)) []) 0 evs 0 with
        | inl (a, mx) =>
          [1%N; NN (length (jobs (ms a))); NN (length (completed (ms a)));
           b2N (mx <=? nn lim); b2N (all_idle (ms a)); NN (length (wakes (ms a)))]
        | inr (i, k) => [0%N; NN i; NN k]
        end
      | None => BAD_CASE
      end
    | _ => BAD_CASE
    end
  | _ => BAD_CASE
  end.
