(* RunC04.v — case interpreter for the C04 correspondence check.

   kind 0 (exact comparison): a single-threaded program on one executor.
     case   = [0; max_interval; nops; (op a b c)*]
     ops    = 1 mode n end : spawn a future: it returns Pending n times, then
                              Ready (end 0) / panics (end 1); end 2 = never ends.
                              mode 0: each Pending poll stores a clone of its waker
                              (for `wake`), mode 1: each Pending poll wakes itself,
                              mode 2: every poll wakes itself, the last one (Ready /
                              panic) included.
              2 i          : wake task i through its stored waker (wake_by_ref)
              3 i          : drop the stored waker of task i
              4            : tick
              5 i fresh    : poll JoinHandle i (fresh 1: with a new waker object)
              6 i          : JoinHandle::cancel(i), polled once
              7 i          : drop JoinHandle i
              8 i          : detach JoinHandle i
              9            : drop the executor
     at the end the remaining handles, stored wakers and the executor are
     dropped in this order.
     result = 100 n id.. hot   per tick: the tasks polled, in order; has_hot
              101 i code       per handle poll: 0 Pending 1 Ok 2 Panicked 3 Cancelled 9 no handle
              102 i code       per cancel: 1 Some 0 None 9 no handle
              103 n (polls fut_drops out_taken out_dropped handle_wakes)* bad err
     Every operation is executed as the sequence of labels of Task.step that the
     real code performs for it on one thread (the model is deterministic here);
     the queue is Queue.v.

   kind >= 1 (oracle only): cross-thread scenarios; the model prints the
     oracle-normalised summary every interleaving must produce:
     200 kind futures_dropped_once outputs_once home_thread_only no_stale_shared no_hang *)
From Compio.Model Require Import Base Task Queue.

Record beh := mkbeh { bmode : N; bn : nat; bend : N }.
(* [tadj]: results the handle took and JoinHandle::cancel's `.ok()` dropped at once
   (a panic payload): the harness sees them as dropped *)
Record tk := mktk { ts : st; tb : beh; tadj : nat }.

(* the world the tick loop threads through: tasks + "the model got stuck" *)
Definition world := (list tk * bool * list nat)%type.   (* ... and the order of the polls *)

Definition upd_task (l : list tk) (i : nat) (t : tk) : list tk :=
  firstn i l ++ t :: skipn (S i) l.

(* the labels a thread performs without anybody else's doing: the rest of
   Task::run / Task::drop / Drop for Task and the final drop *)
Definition next_auto (s : st) : option label :=
  match fp s with
  | FRes _ _ => Some FinRes
  | FWk _ => Some FinWk
  | FDealloc => Some FinDealloc
  | _ =>
    match ep s with
    | EWrite _ => Some EWriteRes
    | EFinish => Some EFinishRun
    | EWake _ => Some EWakeH
    | EDropSet _ => Some EDropSetL
    | EDropNull _ _ _ => Some EDropNullL
    | EDropFut _ _ _ => Some EDropFutL
    | EDropWk _ _ => Some EDropWkL
    | EWait => Some EWaitDone
    | EDec => Some EDecr
    | _ => None
    end
  end.

Fixpoint settle (fuel : nat) (s : st) : option st :=
  match fuel with
  | O => None
  | S f =>
    match next_auto s with
    | None => Some s
    | Some l => match step fixed s l with Some s' => settle f s' | None => None end
    end
  end.

Definition FUEL : nat := 32.

Definition do_labels (ls : list label) (s : st) : option st :=
  match steps fixed s ls with Some s' => settle FUEL s' | None => None end.

(* Task::run of task [c] inside tick *)
Definition run_task (w : world) (c : nat) : world * list qop * bool :=
  let '(l, e, pl) := w in
  match nth_error l c with
  | None => ((l, true, pl), [], true)
  | Some t =>
    let b := tb t in
    let stuck := ((l, true, pl), [], true) in
    match step fixed (ts t) ERunStart with
    | None => stuck
    | Some s1 =>
      match ep s1 with
      | ERun _ =>
        match step fixed s1 EPollBegin with
        | None => stuck
        | Some s2 =>
          let k := polls s1 in
          if Nat.ltb k (bn b) || N.eqb (bend b) 2 then
            let inside := if N.eqb (bmode b) 0
                          then LCloneW :: (if Nat.ltb 0 (lw s2) then [LDropW] else [])
                          else [LWake] in
            match steps fixed s2 (inside ++ [EPollEnd OPending]) with
            | None => stuck
            | Some s3 => ((upd_task l c (mktk s3 b (tadj t)), e, pl ++ [c]),
                          if N.eqb (bmode b) 0 then [] else [QHot c], false)
            end
          else
            (* mode 2: the final poll wakes itself too, just before it returns / panics *)
            let selfw := N.eqb (bmode b) 2 in
            match do_labels ((if selfw then [LWake] else [])
                             ++ [EPollEnd (if N.eqb (bend b) 1 then OPanic else OReady)]) s2 with
            | None => stuck
            | Some s3 => ((upd_task l c (mktk s3 b (tadj t)), e, pl ++ [c]),
                          if selfw then [QHot c] else [], true)
            end
        end
      | _ =>   (* cancelled: Task::run returns Ready at once, tick drops the task *)
        match settle FUEL s1 with
        | None => stuck
        | Some s3 => ((upd_task l c (mktk s3 b (tadj t)), e, pl), [], true)
        end
      end
    end
  end.

Record sys := mksys {
  tasks : list tk;
  qu : queue;
  mi : nat;
  xdropped : bool;
  err : bool
}.

Definition pres_code (r : option pres) : N :=
  match r with
  | Some PPending => 0 | Some POk => 1 | Some PPanicked => 2 | Some PCancelled => 3 | None => 8
  end%N.

(* a handle / waker operation on task i: labels, then what follows by itself *)
Definition on_task (y : sys) (i : nat) (ls : list label) (hotter : bool) : sys :=
  match nth_error (tasks y) i with
  | None => y
  | Some t =>
    match do_labels ls (ts t) with
    | None => mksys (tasks y) (qu y) (mi y) (xdropped y) true
    | Some s' =>
      mksys (upd_task (tasks y) i (mktk s' (tb t) (tadj t)))
            (if hotter && negb (shnull (ts t)) then make_hot (qu y) i else qu y)
            (mi y) (xdropped y) (err y)
    end
  end.

Definition task_st (y : sys) (i : nat) : option st :=
  match nth_error (tasks y) i with Some t => Some (ts t) | None => None end.

Definition handle_alive (y : sys) (i : nat) : bool :=
  match task_st y i with Some s => is_HIdle (hp s) | None => false end.
Definition has_saved (y : sys) (i : nat) : bool :=
  match task_st y i with Some s => Nat.ltb 0 (lw s) | None => false end.

Definition teardown_task (t : tk) : option tk :=
  let s := ts t in
  let r := match ep s with
           | EIdle => match do_labels [ETeardown] s with
                      | Some s1 => step fixed s1 ESharedFree
                      | None => None
                      end
           | EGone => steps fixed s [ETeardownGone; ESharedFree]
           | _ => None
           end in
  match r with Some s' => Some (mktk s' (tb t) (tadj t)) | None => None end.

Fixpoint teardown_all (l : list tk) : list tk * bool :=
  match l with
  | [] => ([], false)
  | t :: r =>
    let '(r', e) := teardown_all r in
    match teardown_task t with Some t' => (t' :: r', e) | None => (t :: r', true) end
  end.

Definition drop_exec (y : sys) : sys :=
  if xdropped y then y else
  let '(l, e) := teardown_all (tasks y) in
  mksys l (clear (qu y)) (mi y) true (err y || e).

Inductive opres := Next (y : sys) (out : list N) | Crash (code : N).

Definition do_op (y : sys) (op a b c : N) : opres :=
  let i := nn a in
  match op with
  | 1%N =>
    if xdropped y then Next y [] else
    let '(q', _) := insert (qu y) in
    Next (mksys (tasks y ++ [mktk init (mkbeh a (nn b) c) 0]) q' (mi y) (xdropped y) (err y)) []
  | 2%N => Next (if has_saved y i then on_task y i [LWake] true else y) []
  | 3%N => Next (if has_saved y i then on_task y i [LDropW] false else y) []
  | 4%N =>
    if xdropped y then Next y [] else
    match tick run_task (mi y) (qu y) (tasks y, err y, []) with
    | Panic code => Crash code
    | Ok (q', (l, e, pl), _) =>
      Next (mksys l q' (mi y) (xdropped y) e)
           ([100%N; NN (length pl)] ++ map NN pl ++ [if has_hot q' then 1%N else 0%N])
    end
  | 5%N =>
    if handle_alive y i then
      let y' := on_task y i [LPoll (negb (N.eqb b 1))] false in
      Next y' [101%N; a; pres_code (match task_st y' i with Some s => hlast s | None => None end)]
    else Next y [101%N; a; 9%N]
  | 6%N =>
    if handle_alive y i then
      let y0 := on_task y i [LCancel; LPoll true] true in
      let y' := match nth_error (tasks y0) i with
                | Some t => match hlast (ts t) with
                            | Some PPanicked =>
                              mksys (upd_task (tasks y0) i (mktk (ts t) (tb t) (S (tadj t))))
                                    (qu y0) (mi y0) (xdropped y0) (err y0)
                            | _ => y0
                            end
                | None => y0
                end in
      Next y' [102%N; a;
               match task_st y' i with
               | Some s => match hlast s with Some POk => 1%N | _ => 0%N end
               | None => 0%N
               end]
    else Next y [102%N; a; 9%N]
  | 7%N => Next (if handle_alive y i then on_task y i [LDropH] true else y) []
  | 8%N => Next (if handle_alive y i then on_task y i [LDetach] false else y) []
  | 9%N => Next (drop_exec y) []
  | _ => Next y []
  end.

Fixpoint run_ops (fuel : nat) (y : sys) (l : list N) (acc : list N) : option (sys * list N) + N :=
  match fuel with
  | O => match l with [] => inl (Some (y, acc)) | _ => inl None end
  | S f =>
    match l with
    | [] => inl (Some (y, acc))
    | op :: a :: b :: c :: r =>
      match do_op y op a b c with
      | Next y' out => run_ops f y' r (acc ++ out)
      | Crash code => inr code
      end
    | _ => inl None
    end
  end.

(* the implicit end of every program *)
Fixpoint drop_handles (n : nat) (y : sys) : sys :=
  match n with
  | O => y
  | S k => let y' := drop_handles k y in
           if handle_alive y' k then on_task y' k [LDropH] true else y'
  end.
Fixpoint drop_saved (n : nat) (y : sys) : sys :=
  match n with
  | O => y
  | S k => let y' := drop_saved k y in
           if has_saved y' k then on_task y' k [LDropW] false else y'
  end.

Definition b2N (b : bool) : N := if b then 1%N else 0%N.

Definition summary (y : sys) : list N :=
  [103%N; NN (length (tasks y))]
  ++ flat_map (fun t => let s := ts t in
                        [NN (polls s); NN (fdrops s); NN (rtakes s - tadj t); NN (rdrops s + tadj t); NN (wakes s)])
              (tasks y)
  ++ [b2N (existsb (fun t => bad (ts t)) (tasks y)); b2N (err y)].

Definition well_formed_ops (l : list N) : bool :=
  Nat.eqb (Nat.modulo (length l) 4) 0.

Definition run_single (l : list N) : list N :=
  match l with
  | m :: nops :: r =>
    if negb (N.eqb (N.of_nat (length r)) (4 * nops)) then BAD_CASE else
    match run_ops (length r) (mksys [] qempty (nn m) false false) r [] with
    | inr code => [2%N; code]
    | inl None => BAD_CASE
    | inl (Some (y, out)) =>
      let n := length (tasks y) in
      let y1 := drop_exec (drop_saved n (drop_handles n y)) in
      out ++ summary y1
    end
  | _ => BAD_CASE
  end.

Definition run_c04 (l : list N) : list N :=
  match l with
  | 0%N :: r => run_single r
  | k :: _ => [200%N; k; 1%N; 1%N; 1%N; 1%N; 1%N]
  | [] => BAD_CASE
  end.
