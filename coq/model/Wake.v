(* Wake.v — cross-thread wake-ups as an interleaving labelled transition system
   (compio-driver AwakeFlag + notifier, compio-executor Remote::schedule /
   drain_sync / tick, compio-runtime block_on, compio-compat external loop).

   One atomic memory operation (or one system call) of the code is one label
   (thread, action); the interleaving semantics is SEQUENTIAL CONSISTENCY.
   Weak-memory reorderings permitted by the Acquire/Release/AcqRel orderings
   of the code are OUTSIDE this model.

   Threads:
     - the runtime thread, program counter [rpc] through
         block_on:      poll main future -> tick (drain_sync, run hot tasks)
                        -> Driver::poll = reset -> [arm notifier] -> enter
                        (block?) -> set_awake -> poll_entries (clear eventfd per
                        NOTIFY cqe) -> set_awake
         external loop: ... tick -> flush = [arm notifier] + submit + reset
                        -> external wait on the driver fd -> poll(zero)
     - N waker threads, one wake each (a thread that wakes R times is R model
       threads: dropping program order between them only adds interleavings),
       through Remote::schedule and Notify::wake_by_ref
     - the kernel (environment): notifier CQEs, other CQEs, multishot end.

   Two notifier flavours: [uring] = eventfd + multishot PollAdd (io_uring
   driver), otherwise Poller::notify (polling driver; the poller's wait drains
   its own notification).

   Left out: task completion/cancellation (tasks stay alive), the blocking
   pool, SQ overflow inside arm_notifier, the drain_sync piggy-backed on a
   local wake (a local wake is one atomic label here).  No proofs here. *)
From Compio.Model Require Import Base.
From Compio.Gen Require Import Consts.

(* ---------------------------------------------------------------------- *)
(* AwakeFlag (compio-driver/src/sys/driver/mod.rs)                         *)

Definition has_notified (f : N) : bool := negb (N.eqb (N.land f AWAKE_NOTIFIED) 0).
Definition fl_wake (f : N) : N := N.lor f AWAKE_NOTIFIED.      (* fetch_or(NOTIFIED) *)
Definition fl_idle (f : N) : bool := N.eqb f AWAKE_IDLE.       (* prior == 0: must notify *)

(* ---------------------------------------------------------------------- *)

Inductive cqe := CNotify | CFinal | COther.
(* CNotify: NOTIFY cqe with MORE; CFinal: NOTIFY cqe without MORE (multishot ended) *)

Inductive cont := KSpin | KPushed | KMain.
Inductive wpc :=
| WIdle                 (* wake() not yet called *)
| WCoal                 (* start_scheduling saw SCHEDULED (and SCHEDULING clear): next finish_scheduling *)
| WSection              (* flipped SCHEDULED while another waker holds SCHEDULING: retry start_scheduling *)
| WReserve              (* next pending.fetch_add(1) *)
| WPush (nt : bool)     (* next sync.push; nt = the driver was already woken (queue was full) *)
| WFetch (k : cont)     (* Notify::wake_by_ref: next fetch_or(NOTIFIED) *)
| WWrite (k : cont)     (* prior was IDLE: next write(eventfd) / Poller::notify *)
| WFinish               (* next finish_scheduling *)
| WDone.

Record wst := mk_w {
  tgt : option nat;      (* Some t = waker of task t, None = waker of the main future *)
  wp : wpc;
  seen : bool            (* ghost: the runtime began a poll of the target after this wake took effect *)
}.

Inductive rpc :=
| RMain0 | RMain1
| RDrainLoad | RDrainPop | RDrainSub | RRun | RRunning
| RFlushArm | RFlushSubmit | RFlushReset | RExtWait
| RReset | RArm | REnter | RWait
| RSetAwake1 | RPollEntries | RClear | RSetAwake2.

Record cfg := mk_cfg {
  uring : bool;          (* notifier flavour *)
  ext : bool;            (* driven by an external event loop (compio-compat) *)
  qcap : nat;            (* capacity of the cross-thread queue *)
  maxi : nat             (* max_interval: hot tasks run per tick *)
}.

Record drv := mk_drv {
  flag : N;              (* AwakeFlag *)
  efd : nat;             (* eventfd counter / poller notified (0,1) *)
  karmed : bool;         (* kernel: the multishot poll on the eventfd is live *)
  sqarm : bool;          (* the PollAdd SQE is queued, not yet submitted *)
  need_push : bool;      (* DriverFlags::NEED_PUSH_NOTIFIER *)
  cq : list cqe          (* completion queue (polling: ready events) *)
}.

Record exe := mk_exe {
  queue : list (nat * nat);   (* Shared::sync: (task id, ghost: pushing thread) *)
  pending : nat;              (* Shared::pending *)
  sched : list bool;          (* per task: SCHEDULED *)
  sching : list bool;         (* per task: SCHEDULING *)
  hot : list nat
}.

Record rts := mk_rt {
  pc : rpc;
  nw : bool;             (* need_wait = !reset() *)
  rem : bool;            (* remaining_tasks *)
  todo : list cqe;       (* poll_entries: the entries of this pass *)
  drained : nat;
  budget : nat
}.

Record st := mk_st { c : cfg; d : drv; e : exe; r : rts; wk : list wst }.

(* field updates *)
Definition d_flag x (a : drv) := mk_drv x (efd a) (karmed a) (sqarm a) (need_push a) (cq a).
Definition d_efd x (a : drv) := mk_drv (flag a) x (karmed a) (sqarm a) (need_push a) (cq a).
Definition d_karmed x (a : drv) := mk_drv (flag a) (efd a) x (sqarm a) (need_push a) (cq a).
Definition d_sqarm x (a : drv) := mk_drv (flag a) (efd a) (karmed a) x (need_push a) (cq a).
Definition d_need x (a : drv) := mk_drv (flag a) (efd a) (karmed a) (sqarm a) x (cq a).
Definition d_cq x (a : drv) := mk_drv (flag a) (efd a) (karmed a) (sqarm a) (need_push a) x.

Definition e_queue x (a : exe) := mk_exe x (pending a) (sched a) (sching a) (hot a).
Definition e_pending x (a : exe) := mk_exe (queue a) x (sched a) (sching a) (hot a).
Definition e_sched x (a : exe) := mk_exe (queue a) (pending a) x (sching a) (hot a).
Definition e_sching x (a : exe) := mk_exe (queue a) (pending a) (sched a) x (hot a).
Definition e_hot x (a : exe) := mk_exe (queue a) (pending a) (sched a) (sching a) x.

Definition r_pc x (a : rts) := mk_rt x (nw a) (rem a) (todo a) (drained a) (budget a).
Definition r_nw x (a : rts) := mk_rt (pc a) x (rem a) (todo a) (drained a) (budget a).
Definition r_rem x (a : rts) := mk_rt (pc a) (nw a) x (todo a) (drained a) (budget a).
Definition r_todo x (a : rts) := mk_rt (pc a) (nw a) (rem a) x (drained a) (budget a).
Definition r_drained x (a : rts) := mk_rt (pc a) (nw a) (rem a) (todo a) x (budget a).
Definition r_budget x (a : rts) := mk_rt (pc a) (nw a) (rem a) (todo a) (drained a) x.

Definition s_d x (s : st) := mk_st (c s) x (e s) (r s) (wk s).
Definition s_e x (s : st) := mk_st (c s) (d s) x (r s) (wk s).
Definition s_r x (s : st) := mk_st (c s) (d s) (e s) x (wk s).
Definition s_wk x (s : st) := mk_st (c s) (d s) (e s) (r s) x.
Definition goto (p : rpc) (s : st) := s_r (r_pc p (r s)) s.

Definition upd {A} (l : list A) (i : nat) (x : A) : list A :=
  if Nat.ltb i (length l) then firstn i l ++ x :: skipn (S i) l else l.

Definition isnil {A} (l : list A) : bool := match l with [] => true | _ => false end.

Definition make_hot (t : nat) (h : list nat) : list nat :=
  if existsb (Nat.eqb t) h then h else h ++ [t].

Definition w_wp p (w : wst) := mk_w (tgt w) p (seen w).
Definition w_seen b (w : wst) := mk_w (tgt w) (wp w) b.

(* the wake of this thread has taken effect: the poll that starts now observes it *)
Definition main_effective (p : wpc) : bool :=
  match p with WWrite KMain | WDone => true | _ => false end.
Definition task_effective (p : wpc) : bool :=
  match p with WIdle => false | _ => true end.

Definition consume_main (w : wst) : wst :=
  match tgt w with
  | None => if main_effective (wp w) then w_seen true w else w
  | Some _ => w
  end.
Definition consume_task (t : nat) (w : wst) : wst :=
  match tgt w with
  | Some t' => if Nat.eqb t t' && task_effective (wp w) then w_seen true w else w
  | None => w
  end.

(* code variants: the current code, the two earlier ones and one hypothetical
   one, kept for the refutation lemmas only *)
Record variant := mk_v {
  v_flush_arms : bool;       (* Driver::flush arms the notifier (since 43c7a63) *)
  v_wake_after_spin : bool;  (* Remote::schedule wakes the driver after a push that had to wait (since 98ca18e) *)
  v_local_wakes : bool       (* Local::schedule (a wake on the runtime's own thread) wakes the driver *)
}.
Definition current : variant := mk_v true true true.
Definition old_flush : variant := mk_v false true true.
Definition old_spin : variant := mk_v true false true.
Definition no_local_wake : variant := mk_v true true false.

Inductive label :=
| LR                 (* the runtime thread's next step *)
| LTimeout           (* the runtime's blocking wait ends by timeout / signal *)
| LSkip              (* polling driver: no events and a timeout: return before the second set_awake *)
| LLocal (t : nat)   (* task t is woken on the runtime thread: by the future being polled, or - external
                        loop - by a host-loop callback / foreign task between the runtime's calls *)
| LKNotify           (* kernel: the multishot poll posts a NOTIFY cqe *)
| LKOther            (* kernel: some other completion / readiness event *)
| LKTerm             (* kernel: the multishot poll ends (final cqe without MORE) *)
| LW (i : nat).      (* waker thread i's next step *)

Definition ready (s : st) : bool :=
  negb (isnil (cq (d s))) || (negb (uring (c s)) && Nat.ltb 0 (efd (d s))).

(* the kernel wait returned with something to process *)
Definition return_ok (s : st) : st :=
  let d1 := if uring (c s) then d s else d_cq [] (d_efd 0 (d s)) in
  goto RSetAwake1 (s_d d1 s).

Definition arm (a : drv) : drv :=
  if need_push a then d_need false (d_sqarm true a) else a.
Definition submit (a : drv) : drv :=
  d_sqarm false (d_karmed (karmed a || sqarm a) a).

Definition do_reset (next : rpc) (s : st) : st :=
  let f := flag (d s) in
  s_r (r_pc next (r_nw (negb (has_notified f)) (r s))) (s_d (d_flag AWAKE_IDLE (d s)) s).

Definition apply_cqe (x : cqe) (a : drv) : drv :=
  match x with
  | CNotify => d_efd 0 a
  | CFinal => d_efd 0 (d_need true a)
  | COther => a
  end.

Definition rt_step (v : variant) (s : st) : option st :=
  let cf := c s in
  match pc (r s) with
  | RMain0 => Some (goto RMain1 (s_wk (map consume_main (wk s)) s))
  | RMain1 => Some (goto RDrainLoad s)
  | RDrainLoad =>
    if Nat.eqb (pending (e s)) 0
    then Some (s_r (r_pc RRun (r_budget (maxi cf) (r s))) s)
    else Some (s_r (r_pc RDrainPop (r_drained 0 (r s))) s)
  | RDrainPop =>
    match queue (e s) with
    | [] => Some (goto RDrainSub s)
    | (t, _) :: q =>
      Some (s_r (r_drained (S (drained (r s))) (r s))
              (s_e (e_hot (make_hot t (hot (e s))) (e_queue q (e s))) s))
    end
  | RDrainSub =>
    Some (s_r (r_pc RRun (r_budget (maxi cf) (r_drained 0 (r s))))
            (s_e (e_pending (pending (e s) - drained (r s)) (e s)) s))
  | RRun =>
    match budget (r s), hot (e s) with
    | S b, t :: h =>
      Some (s_r (r_pc RRunning (r_budget b (r s)))
              (s_wk (map (consume_task t) (wk s))
                 (s_e (e_sched (upd (sched (e s)) t false) (e_hot h (e s))) s)))
    | _, _ =>
      Some (s_r (r_pc (if ext cf then RFlushArm else RReset)
                      (r_rem (negb (isnil (hot (e s)))) (r s))) s)
    end
  | RRunning => Some (goto RRun s)
  | RReset => Some (do_reset (if uring cf then RArm else REnter) s)
  | RArm => Some (goto REnter (s_d (arm (d s)) s))
  | REnter =>
    let s1 := s_d (submit (d s)) s in
    if nw (r s) && negb (rem (r s)) && negb (ext cf) then Some (goto RWait s1)
    else if uring cf && nw (r s) && isnil (cq (d s1)) then Some (goto RMain0 s1)  (* TimedOut: no set_awake *)
    else Some (return_ok s1)
  | RWait => if ready s then Some (return_ok s) else None
  | RSetAwake1 =>
    Some (goto (if uring cf then RPollEntries else RSetAwake2) (s_d (d_flag AWAKE_AWAKE (d s)) s))
  | RPollEntries =>
    Some (s_r (r_pc RClear (r_todo (cq (d s)) (r s))) (s_d (d_cq [] (d s)) s))
  | RClear =>
    match todo (r s) with
    | [] => Some (goto RSetAwake2 s)
    | x :: rest => Some (s_r (r_todo rest (r s)) (s_d (apply_cqe x (d s)) s))
    end
  | RSetAwake2 => Some (goto RMain0 (s_d (d_flag AWAKE_AWAKE (d s)) s))
  | RFlushArm =>
    if uring cf
    then Some (goto RFlushSubmit (if v_flush_arms v then s_d (arm (d s)) s else s))
    else Some (goto RFlushReset s)
  | RFlushSubmit => Some (goto RFlushReset (s_d (submit (d s)) s))
  | RFlushReset => Some (do_reset RExtWait s)
  | RExtWait =>
    if ready s || rem (r s) || negb (nw (r s)) then Some (goto RReset s) else None
  end.

Definition rt_timeout (s : st) : option st :=
  match pc (r s) with
  | RWait => if uring (c s) then Some (goto RMain0 s) else Some (return_ok s)
  | RExtWait => Some (goto RReset s)
  | _ => None
  end.

Definition notify_efd (cf : cfg) (n : nat) : nat := if uring cf then S n else 1.

(* Notify::wake_by_ref as executed in one piece by the runtime thread itself *)
Definition local_notify (s : st) : st :=
  let f := flag (d s) in
  let d1 := d_flag (fl_wake f) (d s) in
  s_d (if fl_idle f then d_efd (notify_efd (c s) (efd d1)) d1 else d1) s.

(* the program points at which code other than the runtime's own calls runs on
   the runtime thread: inside a poll of a future, and - when an external event
   loop drives the runtime - between run / flush / the wait on the descriptor /
   poll(zero).  At RExtWait the host loop has not gone to sleep yet, or woke up
   for a reason of its own and is about to sleep again. *)
Definition local_point (s : st) : bool :=
  match pc (r s) with
  | RMain1 | RRunning => true
  | RFlushArm | RExtWait => true
  | RMain0 | RReset => ext (c s)
  | _ => false
  end.

(* Local::schedule: make_hot, then wake the driver *)
Definition rt_local (v : variant) (t : nat) (s : st) : option st :=
  if local_point s && Nat.ltb t (length (sched (e s))) then
    let s1 := s_e (e_hot (make_hot t (hot (e s))) (e s)) s in
    Some (if v_local_wakes v then local_notify s1 else s1)
  else None.

Definition after (k : cont) : wpc :=
  match k with KSpin => WPush true | KPushed => WFinish | KMain => WDone end.

Definition set_w (s : st) (i : nat) (w : wst) : st := s_wk (upd (wk s) i w) s.

Definition w_step (v : variant) (s : st) (i : nat) : option st :=
  match nth_error (wk s) i with
  | None => None
  | Some w =>
    match wp w, tgt w with
    | WIdle, None => Some (set_w s i (w_wp (WFetch KMain) w))
    | WIdle, Some t =>
      (* start_scheduling: fetch_or(SCHEDULED | SCHEDULING) *)
      match nth_error (sched (e s)) t with
      | None => None
      | Some prior =>
        let held := match nth_error (sching (e s)) t with Some b => b | None => false end in
        let e1 := e_sching (upd (sching (e s)) t true) (e_sched (upd (sched (e s)) t true) (e s)) in
        Some (set_w (s_e e1 s) i
                (w_wp (if prior then (if held then WDone else WCoal)     (* coalesced *)
                       else (if held then WSection else WReserve)) w))
      end
    | WSection, Some t =>
      (* yield, then start_scheduling again until the SCHEDULING section is free *)
      let held := match nth_error (sching (e s)) t with Some b => b | None => false end in
      let e1 := e_sching (upd (sching (e s)) t true) (e_sched (upd (sched (e s)) t true) (e s)) in
      Some (set_w (s_e e1 s) i (w_wp (if held then WSection else WReserve) w))
    | WCoal, Some t | WFinish, Some t =>
      Some (set_w (s_e (e_sching (upd (sching (e s)) t false) (e s)) s) i (w_wp WDone w))
    | WReserve, Some _ =>
      Some (set_w (s_e (e_pending (S (pending (e s))) (e s)) s) i (w_wp (WPush false) w))
    | WPush nt, Some t =>
      if Nat.ltb (length (queue (e s))) (qcap (c s))
      then Some (set_w (s_e (e_queue (queue (e s) ++ [(t, i)]) (e s)) s) i
                   (w_wp (if nt && negb (v_wake_after_spin v) then WFinish else WFetch KPushed) w))
      else if nt then Some s                       (* full: yield and retry *)
      else Some (set_w s i (w_wp (WFetch KSpin) w))  (* full: wake the driver once *)
    | WFetch k, _ =>
      let f := flag (d s) in
      Some (set_w (s_d (d_flag (fl_wake f) (d s)) s) i
              (w_wp (if fl_idle f then WWrite k else after k) w))
    | WWrite k, _ =>
      Some (set_w (s_d (d_efd (notify_efd (c s) (efd (d s))) (d s)) s) i (w_wp (after k) w))
    | _, _ => None
    end
  end.

Definition step_v (v : variant) (s : st) (l : label) : option st :=
  match l with
  | LR => rt_step v s
  | LTimeout => rt_timeout s
  | LSkip =>
    match pc (r s) with
    | RSetAwake2 => if uring (c s) then None else Some (goto RMain0 s)
    | _ => None
    end
  | LLocal t => rt_local v t s
  | LKNotify =>
    if uring (c s) && karmed (d s) && Nat.ltb 0 (efd (d s))
    then Some (s_d (d_cq (cq (d s) ++ [CNotify]) (d s)) s) else None
  | LKOther => Some (s_d (d_cq (cq (d s) ++ [COther]) (d s)) s)
  | LKTerm =>
    if uring (c s) && karmed (d s)
    then Some (s_d (d_cq (cq (d s) ++ [CFinal]) (d_karmed false (d s))) s) else None
  | LW i => w_step v s i
  end.

Definition step := step_v current.

Fixpoint steps_v (v : variant) (s : st) (ls : list label) : option st :=
  match ls with
  | [] => Some s
  | l :: rest => match step_v v s l with Some s' => steps_v v s' rest | None => None end
  end.
Definition steps := steps_v current.

Definition init (cf : cfg) (ntasks : nat) (targets : list (option nat)) : st :=
  mk_st cf
    (mk_drv AWAKE_IDLE 0 false false true [])
    (mk_exe [] 0 (repeat false ntasks) (repeat false ntasks) [])
    (mk_rt RMain0 true false [] 0 0)
    (map (fun tg => mk_w tg WIdle false) targets).

(* ---------------------------------------------------------------------- *)
(* observations used by the theorems                                       *)

(* the runtime thread sits in a wait that only an event can end *)
Definition at_wait (s : st) : bool :=
  match pc (r s) with
  | RWait => true
  | RExtWait => nw (r s) && negb (rem (r s))
  | _ => false
  end.

(* a waker thread whose next step is enabled and is not a retry (full queue,
   SCHEDULING section held by another waker) *)
Definition in_flight (s : st) (w : wst) : bool :=
  match wp w with
  | WCoal | WReserve | WPush false | WFetch _ | WWrite _ | WFinish => true
  | WPush true => Nat.ltb (length (queue (e s))) (qcap (c s))
  | WSection =>
    match tgt w with
    | Some t => match nth_error (sching (e s)) t with Some b => negb b | None => false end
    | None => false
    end
  | _ => false
  end.
Definition some_in_flight (s : st) : bool := existsb (in_flight s) (wk s).

Definition knotify_enabled (s : st) : bool :=
  uring (c s) && karmed (d s) && Nat.ltb 0 (efd (d s)).

(* the wait cannot be ended by anything but a timeout: nothing is ready, the
   kernel has nothing to post, no waker thread is on its way *)
Definition stuck (s : st) : bool :=
  at_wait s && negb (ready s) && negb (knotify_enabled s) && negb (some_in_flight s).

(* a completed wake the runtime has not consumed *)
Definition owed (s : st) : bool :=
  existsb (fun w => match wp w with WDone => negb (seen w) | _ => false end) (wk s).

(* measure of the runtime's own steps until it polls the main future again,
   from a program point after the kernel wait *)
Definition rank (p : rpc) : nat :=
  match p with
  | RMain0 => 1
  | RSetAwake2 => 2
  | RClear => 3
  | RPollEntries => 4
  | RSetAwake1 => 5
  | REnter => 6
  | RArm => 7
  | RReset => 8
  | _ => 0
  end.
Definition mu_main (s : st) : nat :=
  rank (pc (r s)) + length (todo (r s))
  + match pc (r s) with
    | RMain0 | RSetAwake2 | RClear => 0
    | _ => length (cq (d s))
    end.
