(* QuicWakers.v — executable model of compio-quic's own part of a connection:
   the per-connection waker tables, the event -> wake mapping of the connection
   worker loop, terminate / close, and the futures that register a waker when
   the protocol state machine says "blocked" and try again when woken.
   No proofs in this file.

   compio-quic/src/connection.rs   ConnectionState { error, connected, on_connected,
       on_handshake_data, datagram_received, datagrams_unblocked, stream_opened[2],
       stream_available[2], writable, readable, stopped }, terminate, close, the
       `while let Some(event) = state.conn.poll()` loop of ConnectionInner::run,
       Connecting::poll / handshake_data, accepted_0rtt, poll_recv_datagram,
       try_send_datagram, poll_open_stream, poll_accept_stream
   compio-quic/src/send_stream.rs  execute_poll_write, stopped, Drop
   compio-quic/src/recv_stream.rs  execute_poll_read, received_reset, Drop

   quinn-proto (the QUIC state machine) is NOT modelled: it is an environment
   that emits events and answers every poll of a future with "ready" or
   "blocked".  Wakers are natural numbers (the identity of the waiting task);
   stream ids are natural numbers. *)
From Compio.Model Require Import Base.

Definition waker := nat.
Definition sid := nat.

(* HashMap<StreamId, Waker>: insert replaces the entry of the same stream *)
Definition smap := list (sid * waker).

Fixpoint sm_remove (k : sid) (m : smap) : smap :=
  match m with
  | [] => []
  | (k', w) :: r => if Nat.eqb k k' then sm_remove k r else (k', w) :: sm_remove k r
  end.
Definition sm_insert (k : sid) (w : waker) (m : smap) : smap := (k, w) :: sm_remove k m.
Fixpoint sm_get (k : sid) (m : smap) : option waker :=
  match m with
  | [] => None
  | (k', w) :: r => if Nat.eqb k k' then Some w else sm_get k r
  end.
Definition sm_wakers (m : smap) : list waker := map snd m.

(* a two-element array indexed by Dir (false = Bi = 0, true = Uni = 1) *)
Definition dir := bool.
Definition pair_get {A} (d : dir) (p : A * A) : A := if d then snd p else fst p.
Definition pair_set {A} (d : dir) (x : A) (p : A * A) : A * A :=
  if d then (fst p, x) else (x, snd p).

Record conn := mkconn {
  error : option N;                 (* the stored ConnectionError *)
  connected : bool;
  on_connected : list waker;       (* tasks in Connecting::poll / accepted_0rtt *)
  on_handshake_data : option waker;
  datagram_received : list waker;
  datagrams_unblocked : list waker;
  stream_opened : list waker * list waker;
  stream_available : list waker * list waker;
  writable : smap;
  readable : smap;
  stopped : smap
}.

Definition conn0 : conn :=
  mkconn None false [] None [] [] ([], []) ([], []) [] [] [].

Definition opt_wakers (o : option waker) : list waker := match o with Some w => [w] | None => [] end.

(* every waker currently registered anywhere *)
Definition registered (c : conn) : list waker :=
  opt_wakers (on_handshake_data c) ++ on_connected c ++
  datagram_received c ++ datagrams_unblocked c ++
  fst (stream_opened c) ++ snd (stream_opened c) ++
  fst (stream_available c) ++ snd (stream_available c) ++
  sm_wakers (writable c) ++ sm_wakers (readable c) ++ sm_wakers (stopped c).

(* ConnectionState::terminate: store the error, wake everything (in this order) *)
Definition E_LOCALLY_CLOSED : N := 7.

Definition terminate (c : conn) (reason : N) : conn * list waker :=
  (mkconn (Some reason) false [] None [] [] ([], []) ([], []) [] [] [],
   registered c).

(* wake_stream / wake_all_streams *)
Definition wake_stream (k : sid) (m : smap) : smap * list waker :=
  (sm_remove k m, opt_wakers (sm_get k m)).

(* ---------------------------------------------------------------------- *)
(* events of the protocol state machine, as handled by the worker loop      *)

Inductive qevent :=
| QHandshakeDataReady
| QConnected (rejected_0rtt : bool)   (* client && !accepted_0rtt: stream wakers are woken too *)
| QConnectionLost (reason : N)
| QReadable (s : sid)
| QWritable (s : sid)
| QFinished (s : sid)
| QStopped (s : sid)
| QAvailable (d : dir)
| QOpened (d : dir)
| QDatagramReceived
| QDatagramsUnblocked.

Definition set_tables (c : conn) (w r s : smap) : conn :=
  mkconn (error c) (connected c) (on_connected c) (on_handshake_data c) (datagram_received c)
         (datagrams_unblocked c) (stream_opened c) (stream_available c) w r s.

Definition handle_event (c : conn) (e : qevent) : conn * list waker :=
  match e with
  | QHandshakeDataReady =>
    (mkconn (error c) (connected c) (on_connected c) None (datagram_received c)
            (datagrams_unblocked c) (stream_opened c) (stream_available c)
            (writable c) (readable c) (stopped c),
     opt_wakers (on_handshake_data c))
  | QConnected rejected =>
    let c1 := mkconn (error c) true [] (on_handshake_data c) (datagram_received c)
                     (datagrams_unblocked c) (stream_opened c) (stream_available c)
                     (writable c) (readable c) (stopped c) in
    if rejected then
      (set_tables c1 [] [] [],
       on_connected c ++ sm_wakers (writable c) ++ sm_wakers (readable c)
         ++ sm_wakers (stopped c))
    else (c1, on_connected c)
  | QConnectionLost reason => terminate c reason
  | QReadable k =>
    let '(m, ws) := wake_stream k (readable c) in (set_tables c (writable c) m (stopped c), ws)
  | QWritable k =>
    let '(m, ws) := wake_stream k (writable c) in (set_tables c m (readable c) (stopped c), ws)
  | QFinished k =>
    let '(m, ws) := wake_stream k (stopped c) in (set_tables c (writable c) (readable c) m, ws)
  | QStopped k =>
    let '(m1, ws1) := wake_stream k (stopped c) in
    let '(m2, ws2) := wake_stream k (writable c) in
    (set_tables c m2 (readable c) m1, ws1 ++ ws2)
  | QAvailable d =>
    (mkconn (error c) (connected c) (on_connected c) (on_handshake_data c) (datagram_received c)
            (datagrams_unblocked c) (stream_opened c) (pair_set d [] (stream_available c))
            (writable c) (readable c) (stopped c),
     pair_get d (stream_available c))
  | QOpened d =>
    (mkconn (error c) (connected c) (on_connected c) (on_handshake_data c) (datagram_received c)
            (datagrams_unblocked c) (pair_set d [] (stream_opened c)) (stream_available c)
            (writable c) (readable c) (stopped c),
     pair_get d (stream_opened c))
  | QDatagramReceived =>
    (mkconn (error c) (connected c) (on_connected c) (on_handshake_data c) []
            (datagrams_unblocked c) (stream_opened c) (stream_available c)
            (writable c) (readable c) (stopped c),
     datagram_received c)
  | QDatagramsUnblocked =>
    (mkconn (error c) (connected c) (on_connected c) (on_handshake_data c) (datagram_received c)
            [] (stream_opened c) (stream_available c)
            (writable c) (readable c) (stopped c),
     datagrams_unblocked c)
  end.

(* ---------------------------------------------------------------------- *)
(* the futures.  [ready] is the protocol state machine's answer to this poll:
   true = it has something to return (data, end of stream, a stream id, a
   datagram, a stop code, ...), false = "blocked".  The result says whether the
   poll returned Ready and whether it returned the stored connection error. *)

Inductive waiter :=
| WConnecting                  (* Connecting::poll, Connection::accepted_0rtt *)
| WHandshakeData               (* Connecting::handshake_data *)
| WRecvDatagram                (* Connection::recv_datagram *)
| WSendDatagram                (* Connection::send_datagram_wait *)
| WOpen (d : dir)              (* open_uni_wait / open_bi_wait *)
| WAccept (d : dir)            (* accept_uni / accept_bi *)
| WWrite (s : sid)             (* SendStream writes *)
| WStopped (s : sid)           (* SendStream::stopped *)
| WRead (s : sid).             (* RecvStream reads, received_reset *)

Inductive presult :=
| PData            (* Ready with what the state machine had *)
| PError (e : N)   (* Ready(Err(stored connection error)) *)
| PWait.           (* Pending: the waker has been registered *)

(* the table entry a waiter uses, as (table number of the hook, key) *)
Definition reg_waiter (c : conn) (x : waiter) (w : waker) : conn :=
  match x with
  | WConnecting =>
    (* `if !on_connected.iter().any(|x| x.will_wake(w)) { push_back(w) }` *)
    mkconn (error c) (connected c)
           (if existsb (Nat.eqb w) (on_connected c) then on_connected c else on_connected c ++ [w])
           (on_handshake_data c) (datagram_received c)
           (datagrams_unblocked c) (stream_opened c) (stream_available c)
           (writable c) (readable c) (stopped c)
  | WHandshakeData =>
    mkconn (error c) (connected c) (on_connected c) (Some w) (datagram_received c)
           (datagrams_unblocked c) (stream_opened c) (stream_available c)
           (writable c) (readable c) (stopped c)
  | WRecvDatagram =>
    mkconn (error c) (connected c) (on_connected c) (on_handshake_data c)
           (datagram_received c ++ [w])
           (datagrams_unblocked c) (stream_opened c) (stream_available c)
           (writable c) (readable c) (stopped c)
  | WSendDatagram =>
    mkconn (error c) (connected c) (on_connected c) (on_handshake_data c) (datagram_received c)
           (datagrams_unblocked c ++ [w]) (stream_opened c) (stream_available c)
           (writable c) (readable c) (stopped c)
  | WOpen d =>
    mkconn (error c) (connected c) (on_connected c) (on_handshake_data c) (datagram_received c)
           (datagrams_unblocked c) (stream_opened c)
           (pair_set d (pair_get d (stream_available c) ++ [w]) (stream_available c))
           (writable c) (readable c) (stopped c)
  | WAccept d =>
    mkconn (error c) (connected c) (on_connected c) (on_handshake_data c) (datagram_received c)
           (datagrams_unblocked c)
           (pair_set d (pair_get d (stream_opened c) ++ [w]) (stream_opened c))
           (stream_available c) (writable c) (readable c) (stopped c)
  | WWrite k => set_tables c (sm_insert k w (writable c)) (readable c) (stopped c)
  | WStopped k => set_tables c (writable c) (readable c) (sm_insert k w (stopped c))
  | WRead k => set_tables c (writable c) (sm_insert k w (readable c)) (stopped c)
  end.

(* does this future look at the stored error before asking the state machine?
   (try_state()? at the top: everything except reads, stopped, received_reset,
   which first hand out what the state machine still has) *)
Definition error_first (x : waiter) : bool :=
  match x with WRead _ | WStopped _ => false | _ => true end.

Definition poll_waiter (c : conn) (x : waiter) (w : waker) (ready : bool) : conn * presult :=
  match x with
  | WConnecting =>
    match error c with
    | Some e => (c, PError e)
    | None => if connected c then (c, PData) else (reg_waiter c x w, PWait)
    end
  | _ =>
    match error c, error_first x with
    | Some e, true => (c, PError e)
    | _, _ =>
      if ready then (c, PData) else
      match error c with
      | Some e => (c, PError e)
      | None => (reg_waiter c x w, PWait)
      end
    end
  end.

(* Drop of a stream handle removes its entries *)
Definition drop_send (c : conn) (k : sid) : conn :=
  set_tables c (sm_remove k (writable c)) (readable c) (sm_remove k (stopped c)).
Definition drop_recv (c : conn) (k : sid) : conn :=
  set_tables c (writable c) (sm_remove k (readable c)) (stopped c).

(* ---------------------------------------------------------------------- *)
(* the labelled transition system                                           *)

Inductive label :=
| LEvent (e : qevent)                               (* the worker handles an event *)
| LClose                                            (* Connection::close / Endpoint::close *)
| LPoll (x : waiter) (w : waker) (ready : bool)     (* a future is polled *)
| LDropSend (s : sid)
| LDropRecv (s : sid).

Inductive output :=
| OWoken (ws : list waker)
| OPoll (r : presult)
| ONone.

Definition step (c : conn) (l : label) : conn * output :=
  match l with
  | LEvent e => let '(c1, ws) := handle_event c e in (c1, OWoken ws)
  | LClose => let '(c1, ws) := terminate c E_LOCALLY_CLOSED in (c1, OWoken ws)
  | LPoll x w ready => let '(c1, r) := poll_waiter c x w ready in (c1, OPoll r)
  | LDropSend k => (drop_send c k, ONone)
  | LDropRecv k => (drop_recv c k, ONone)
  end.

Fixpoint run (c : conn) (ls : list label) : conn * list output :=
  match ls with
  | [] => (c, [])
  | l :: r => let '(c1, o) := step c l in let '(c2, os) := run c1 r in (c2, o :: os)
  end.

(* the waker a waiter has in the table, if any *)
Definition lookup (c : conn) (x : waiter) : list waker :=
  match x with
  | WConnecting => on_connected c
  | WHandshakeData => opt_wakers (on_handshake_data c)
  | WRecvDatagram => datagram_received c
  | WSendDatagram => datagrams_unblocked c
  | WOpen d => pair_get d (stream_available c)
  | WAccept d => pair_get d (stream_opened c)
  | WWrite k => opt_wakers (sm_get k (writable c))
  | WStopped k => opt_wakers (sm_get k (stopped c))
  | WRead k => opt_wakers (sm_get k (readable c))
  end.

(* the event that makes the state machine's answer to a waiter change *)
Definition matches (e : qevent) (x : waiter) : bool :=
  match e, x with
  | QConnected _, WConnecting => true
  | QHandshakeDataReady, WHandshakeData => true
  | QDatagramReceived, WRecvDatagram => true
  | QDatagramsUnblocked, WSendDatagram => true
  | QAvailable d, WOpen d' => Bool.eqb d d'
  | QOpened d, WAccept d' => Bool.eqb d d'
  | QWritable k, WWrite k' => Nat.eqb k k'
  | QStopped k, WWrite k' => Nat.eqb k k'
  | QFinished k, WStopped k' => Nat.eqb k k'
  | QStopped k, WStopped k' => Nat.eqb k k'
  | QReadable k, WRead k' => Nat.eqb k k'
  | _, _ => false
  end.

(* table sizes, in the order of compio_quic::verif::Event::sizes *)
Definition b2n (b : bool) : N := if b then 1%N else 0%N.
Definition sizes (c : conn) : list N :=
  [ NN (length (on_connected c));
    b2n (match on_handshake_data c with Some _ => true | None => false end);
    NN (length (datagram_received c)); NN (length (datagrams_unblocked c));
    NN (length (fst (stream_opened c))); NN (length (snd (stream_opened c)));
    NN (length (fst (stream_available c))); NN (length (snd (stream_available c)));
    NN (length (writable c)); NN (length (readable c)); NN (length (stopped c));
    b2n (match error c with Some _ => true | None => false end);
    b2n (connected c) ].

(* ---------------------------------------------------------------------- *)
(* Drop for SendStream (send_stream.rs): unless the connection is dead (error
   stored, or a rejected 0-RTT stream), `finish()`; if that reports that the
   peer has stopped the stream, `reset(reason)`; wake the worker when something
   has to be sent.  The protocol state machine's view of a send stream is the
   environment: open, stopped by the peer, finished, reset. *)

Inductive send_st := SOpen | SStopped (code : N) | SFinished | SReset (code : N).
Inductive finish_answer := FOk | FStopped (code : N) | FClosed.

Definition sm_finish (st : send_st) : finish_answer * send_st :=
  match st with
  | SOpen => (FOk, SFinished)
  | SStopped c => (FStopped c, st)
  | _ => (FClosed, st)
  end.

Definition sm_reset (st : send_st) (c : N) : bool * send_st :=
  match st with
  | SOpen | SStopped _ => (true, SReset c)
  | _ => (false, st)
  end.

(* result: the stream's state afterwards, whether the worker was woken *)
Definition send_drop (dead : bool) (st : send_st) : send_st * bool :=
  if dead then (st, false) else
  match sm_finish st with
  | (FOk, st1) => (st1, true)
  | (FStopped r, st1) => let '(ok, st2) := sm_reset st1 r in (st2, ok)
  | (FClosed, st1) => (st1, false)
  end.

Definition closed_towards_peer (st : send_st) : bool :=
  match st with SFinished | SReset _ => true | _ => false end.

(* ---------------------------------------------------------------------- *)
(* RecvStream::read_to_end (recv_stream.rs): unordered chunks (offset, bytes)
   are collected until the end of the stream; the result has length
   end - start, where start is the lowest offset and end the highest end seen,
   and every chunk is copied to position offset - start. *)

Definition chunk := (nat * list byte)%type.

Fixpoint rte_min (cs : list chunk) (m : nat) : nat :=
  match cs with [] => m | c :: r => rte_min r (Nat.min m (fst c)) end.
Fixpoint rte_max (cs : list chunk) (m : nat) : nat :=
  match cs with [] => m | c :: r => rte_max r (Nat.max m (fst c + length (snd c))) end.

Definition rte_start (cs : list chunk) : nat :=
  match cs with [] => 0 | c :: r => rte_min r (fst c) end.
Definition rte_end (cs : list chunk) : nat := rte_max cs 0.

Definition read_to_end_assemble (cs : list chunk) : list byte :=
  let s := rte_start cs in
  let e := rte_end cs in
  if Nat.leb e s then [] else
  fold_left (fun buf c => write_at buf (fst c - s) (snd c)) cs (repeat_b 0%N (e - s)).
