(* CancelTok.v — the RUNTIME-level cancellation routes of compio-runtime:

     src/future/combinator/mod.rs       Ext { personality, cancel }, with_personality / with_cancel
     src/future/combinator/cancel.rs    WithCancel, WithCancelFailFast (listener polled first)
     src/future/combinator/personality.rs
     src/waker/ext.rs                   the Ext travels to the operation inside the waker
     src/future/future.rs               Submit: Idle -> Submitted -> Ready; registers the key with the
                                        context's token right after the first submit; PinnedDrop cancels
     src/cancel.rs                      CancelToken { tokens, is_cancelled, notify }: register / cancel
     src/time/future.rs                 Timeout: inner future first, then the sleep; Elapsed => the inner
                                        future is dropped with the Timeout
     compio-driver/src/lib.rs           Proactor::cancel / cancel_token (the `cancelled` flag makes every
                                        later request a no-op; a completed operation is not cancelled)
     local-event 0.1.3                  Event::listen / notify_all / EventListener poll + Drop
                                        (a notified listener dropped unconsumed hands its notification on)

   One task awaits ONE operation future wrapped in a nesting of combinators
   ([fexp]).  The system is a labelled transition system ([step]); the
   environment (kernel completions, timers) is a label, never a default.
   No proofs here. *)
From Compio.Model Require Import Base.
Local Open Scope nat_scope.

Definition tok := nat.    (* CancelToken identity (Rc pointer) *)
Definition pers := nat.   (* personality number *)
Definition key := nat.    (* operation = task number: every task owns one Submit *)

(* ---------------------------------------------------------------------- *)
(* the context carried by the waker                                        *)

Record ext := mk_ext { e_pers : option pers; e_tok : option tok }.
Definition ext_default : ext := mk_ext None None.
Definition ext_with_personality (p : pers) (e : ext) : ext := mk_ext (Some p) (e_tok e).
Definition ext_with_cancel (t : tok) (e : ext) : ext := mk_ext (e_pers e) (Some t).

Inductive dur := DZero | DShort | DLong.

(* future expressions: the leaf is the Submit future of the operation *)
Inductive fexp :=
| Op
| WithCancel (t : tok) (f : fexp)          (* f.with_cancel(t) *)
| WithPersonality (p : pers) (f : fexp)    (* f.with_personality(p) *)
| FailFast (t : tok) (f : fexp)            (* f.with_cancel(t).fail_fast() *)
| Timeout (d : dur) (f : fexp).            (* time::timeout(d, f) *)

(* the context that reaches the leaf when the expression is polled with [e] *)
Fixpoint leaf_ext (e : ext) (f : fexp) : ext :=
  match f with
  | Op => e
  | WithCancel t f' => leaf_ext (ext_with_cancel t e) f'
  | WithPersonality p f' => leaf_ext (ext_with_personality p e) f'
  | FailFast t f' => leaf_ext (ext_with_cancel t e) f'
  | Timeout _ f' => leaf_ext e f'
  end.

(* the syntactic reading: the innermost enclosing with_cancel / with_personality *)
Fixpoint innermost_tok (f : fexp) : option tok :=
  match f with
  | Op => None
  | WithCancel t f' | FailFast t f' =>
      match innermost_tok f' with Some t' => Some t' | None => Some t end
  | WithPersonality _ f' | Timeout _ f' => innermost_tok f'
  end.

Fixpoint innermost_pers (f : fexp) : option pers :=
  match f with
  | Op => None
  | WithPersonality p f' =>
      match innermost_pers f' with Some p' => Some p' | None => Some p end
  | WithCancel _ f' | FailFast _ f' | Timeout _ f' => innermost_pers f'
  end.

(* ---------------------------------------------------------------------- *)
(* CancelToken: flag, registered keys, and the local_event::Event          *)

Definition lid := (key * nat)%type.  (* listener = (task, depth of its FailFast node) *)
Definition lid_eqb (a b : lid) : bool := Nat.eqb (fst a) (fst b) && Nat.eqb (snd a) (snd b).

Record tokst := mk_tok {
  fired : bool;                 (* is_cancelled *)
  regs : list key;              (* tokens: HashSet<Cancel> *)
  lst : list (lid * bool);      (* Event listeners in id order, notified? *)
  cnt : nat                     (* Event: notified and not yet consumed *)
}.
Definition tok_init : tokst := mk_tok false [] [] 0.

Fixpoint l_find (id : lid) (l : list (lid * bool)) : option bool :=
  match l with
  | [] => None
  | (x, n) :: r => if lid_eqb id x then Some n else l_find id r
  end.

Fixpoint l_remove (id : lid) (l : list (lid * bool)) : list (lid * bool) :=
  match l with
  | [] => []
  | (x, n) :: r => if lid_eqb id x then r else (x, n) :: l_remove id r
  end.

(* mark the first listener that is not notified; None when there is none *)
Fixpoint l_notify_first (l : list (lid * bool)) : option (list (lid * bool)) :=
  match l with
  | [] => None
  | (x, true) :: r =>
      match l_notify_first r with Some r' => Some ((x, true) :: r') | None => None end
  | (x, false) :: r => Some ((x, true) :: r)
  end.

Definition ev_listen (id : lid) (ts : tokst) : tokst :=
  mk_tok (fired ts) (regs ts) (lst ts ++ [(id, false)]) (cnt ts).

Definition ev_notify_all (ts : tokst) : tokst :=
  mk_tok (fired ts) (regs ts) (map (fun x => (fst x, true)) (lst ts))
         (cnt ts + length (filter (fun x => negb (snd x)) (lst ts))).

(* EventListener::poll: Ready consumes the entry *)
Definition ev_poll (id : lid) (ts : tokst) : bool * tokst :=
  match l_find id (lst ts) with
  | Some true => (true, mk_tok (fired ts) (regs ts) (l_remove id (lst ts)) (cnt ts - 1))
  | _ => (false, ts)
  end.

(* EventListener::drop: a notified, unconsumed listener hands the notification on *)
Definition ev_drop (id : lid) (ts : tokst) : tokst :=
  match l_find id (lst ts) with
  | None => ts
  | Some n =>
    let l1 := l_remove id (lst ts) in
    if n && (0 <? cnt ts) then
      match l_notify_first l1 with
      | Some l2 => mk_tok (fired ts) (regs ts) l2 (cnt ts)
      | None => mk_tok (fired ts) (regs ts) l1 (cnt ts - 1)
      end
    else mk_tok (fired ts) (regs ts) l1 (cnt ts)
  end.

Definition add_reg (i : key) (ts : tokst) : tokst :=
  mk_tok (fired ts) (if existsb (Nat.eqb i) (regs ts) then regs ts else i :: regs ts) (lst ts) (cnt ts).

(* ---------------------------------------------------------------------- *)
(* the operation's key and the Submit future                               *)

Inductive sub := SIdle | SSubmitted | SDone.
Inductive kres := KData | KCancelled | KErr (e : N).

Record kst := mk_kst {
  k_sub : sub;               (* Submit::state (SDone = None: result handed out) *)
  k_flag : bool;             (* Key::set_cancelled *)
  k_res : option kres;       (* result stored in the key, not yet popped *)
  k_ext : ext;               (* the context the operation was submitted with *)
  k_dc : nat;                (* Driver::cancel calls issued for this key *)
  k_live : bool;             (* the Submit future still exists *)
  k_infl : bool;             (* the driver still owns the operation (no completion yet) *)
  k_reg : bool               (* CancelToken::register was called for it *)
}.
Definition key_init : kst := mk_kst SIdle false None ext_default 0 true false false.

Definition set_sub v k := mk_kst v (k_flag k) (k_res k) (k_ext k) (k_dc k) (k_live k) (k_infl k) (k_reg k).
Definition set_flag v k := mk_kst (k_sub k) v (k_res k) (k_ext k) (k_dc k) (k_live k) (k_infl k) (k_reg k).
Definition set_res v k := mk_kst (k_sub k) (k_flag k) v (k_ext k) (k_dc k) (k_live k) (k_infl k) (k_reg k).
Definition set_ext v k := mk_kst (k_sub k) (k_flag k) (k_res k) v (k_dc k) (k_live k) (k_infl k) (k_reg k).
Definition set_dc v k := mk_kst (k_sub k) (k_flag k) (k_res k) (k_ext k) v (k_live k) (k_infl k) (k_reg k).
Definition set_live v k := mk_kst (k_sub k) (k_flag k) (k_res k) (k_ext k) (k_dc k) v (k_infl k) (k_reg k).
Definition set_infl v k := mk_kst (k_sub k) (k_flag k) (k_res k) (k_ext k) (k_dc k) (k_live k) v (k_reg k).
Definition set_reg v k := mk_kst (k_sub k) (k_flag k) (k_res k) (k_ext k) (k_dc k) (k_live k) (k_infl k) v.

(* Proactor::cancel_token, and Proactor::cancel on a clone of the key (register on a
   fired token): the flag is set first; a request reaches the driver only when the flag
   was clear and the operation has not completed *)
Definition cancel_by_token (k : kst) : kst :=
  if k_flag k then k
  else if k_infl k then set_dc (S (k_dc k)) (set_flag true k)
  else set_flag true k.

(* Proactor::cancel(key) from Submit's PinnedDrop: the same rule; the handle (and a
   result that is already there) goes away *)
Definition cancel_by_drop (k : kst) : kst :=
  let k0 := set_res None (set_live false k) in
  if k_flag k then k0
  else if k_infl k then set_dc (S (k_dc k)) (set_flag true k0)
  else set_flag true k0.

(* PinnedDrop of Submit: only State::Submitted cancels *)
Definition drop_submit (k : kst) : kst :=
  match k_sub k with
  | SSubmitted => cancel_by_drop k
  | _ => set_live false k
  end.

Inductive result := RData | RErr (e : N) | RElapsed | RCancelled.
Definition E_CANCELED : N := 125.
Definition res_of (r : kres) : result :=
  match r with KData => RData | KCancelled => RErr E_CANCELED | KErr e => RErr e end.

Inductive pollres := Pending | Ready (r : result) | PollPanic.

Fixpoint updl {A} (l : list A) (i : nat) (f : A -> A) : list A :=
  match l, i with
  | [], _ => []
  | x :: r, O => f x :: r
  | x :: r, S j => x :: updl r j f
  end.

(* CancelToken::register *)
Definition register (t : tok) (i : key) (k : kst) (tl : list tokst) : kst * list tokst :=
  match nth_error tl t with
  | None => (k, tl)          (* tokens are created before the futures that name them *)
  | Some ts =>
    let k1 := set_reg true k in
    if fired ts then (cancel_by_token k1, tl)
    else (k1, updl tl t (add_reg i))
  end.

(* Proactor::pop *)
Definition pop (k : kst) : kst * pollres :=
  match k_res k with
  | Some r => (set_sub SDone (set_res None k), Ready (res_of r))
  | None => (k, Pending)
  end.

(* Submit::poll with context [e].  [eager] = what Proactor::push answered when it
   completed the operation inline (PushEntry::Ready), None = PushEntry::Pending *)
Definition submit_poll (e : ext) (eager : option kres) (i : key) (k : kst) (tl : list tokst)
  : kst * list tokst * pollres :=
  match k_sub k with
  | SDone => (k, tl, PollPanic)           (* "Cannot poll after ready" *)
  | SSubmitted => let (k', r) := pop k in (k', tl, r)
  | SIdle =>
    match eager with
    | Some r => (set_sub SDone (set_ext e k), tl, Ready (res_of r))
    | None =>
      let k1 := set_infl true (set_sub SSubmitted (set_ext e k)) in
      let (k2, tl2) :=
        match e_tok e with
        | Some t => register t i k1 tl
        | None => (k1, tl)
        end in
      let (k3, r) := pop k2 in (k3, tl2, r)
    end
  end.

Definition elapsed (d : dur) (short : bool) : bool :=
  match d with DZero => true | DShort => short | DLong => false end.

(* Future::poll of the expression; [d] = depth (identity of the FailFast listeners) *)
Fixpoint poll_f (f : fexp) (d : nat) (e : ext) (short : bool) (eager : option kres)
    (i : key) (k : kst) (tl : list tokst) : kst * list tokst * pollres :=
  match f with
  | Op => submit_poll e eager i k tl
  | WithCancel t f' => poll_f f' (S d) (ext_with_cancel t e) short eager i k tl
  | WithPersonality p f' => poll_f f' (S d) (ext_with_personality p e) short eager i k tl
  | FailFast t f' =>
    match nth_error tl t with
    | None => poll_f f' (S d) (ext_with_cancel t e) short eager i k tl
    | Some ts =>
      let (n, ts') := ev_poll (i, d) ts in
      if n then (k, updl tl t (fun _ => ts'), Ready RCancelled)
      else poll_f f' (S d) (ext_with_cancel t e) short eager i k tl
    end
  | Timeout dd f' =>
    match poll_f f' (S d) e short eager i k tl with
    | (k', tl', Pending) =>
        if elapsed dd short then (k', tl', Ready RElapsed) else (k', tl', Pending)
    | other => other
    end
  end.

(* the FailFast listeners of an expression, outermost first *)
Fixpoint listeners (f : fexp) (d : nat) : list (tok * nat) :=
  match f with
  | Op => []
  | WithCancel _ f' | WithPersonality _ f' | Timeout _ f' => listeners f' (S d)
  | FailFast t f' => (t, d) :: listeners f' (S d)
  end.

Definition drop_listeners (i : key) (f : fexp) (tl : list tokst) : list tokst :=
  fold_left (fun tl0 (x : tok * nat) => updl tl0 (fst x) (ev_drop (i, snd x))) (listeners f 0) tl.

(* construction: the wrappers are applied innermost first *)
Definition make_listeners (i : key) (f : fexp) (tl : list tokst) : list tokst :=
  fold_left (fun tl0 (x : tok * nat) => updl tl0 (fst x) (ev_listen (i, snd x))) (rev (listeners f 0)) tl.

(* ---------------------------------------------------------------------- *)
(* tasks and the system                                                    *)

Record task := mk_task {
  t_exp : fexp;
  t_key : kst;
  t_short : bool;              (* the short sleeps of its Timeout wrappers are ready *)
  t_out : option result;       (* what the task reported *)
  t_gone : bool                (* the future was dropped without a result (JoinHandle drop) *)
}.
Definition set_key k tk := mk_task (t_exp tk) k (t_short tk) (t_out tk) (t_gone tk).
Definition set_short b tk := mk_task (t_exp tk) (t_key tk) b (t_out tk) (t_gone tk).
Definition set_out o tk := mk_task (t_exp tk) (t_key tk) (t_short tk) o (t_gone tk).
Definition set_gone b tk := mk_task (t_exp tk) (t_key tk) (t_short tk) (t_out tk) b.

Definition t_done (tk : task) : bool :=
  match t_out tk with Some _ => true | None => t_gone tk end.

Record sys := mk_sys { tasks : list task; toks : list tokst; s_panic : bool }.
Definition sys_init (ntok : nat) : sys := mk_sys [] (repeat tok_init ntok) false.

Definition spawn (f : fexp) (s : sys) : sys :=
  let i := length (tasks s) in
  mk_sys (tasks s ++ [mk_task f key_init false None false]) (make_listeners i f (toks s)) (s_panic s).

Definition poll_task (eager : option kres) (i : key) (s : sys) : sys :=
  match nth_error (tasks s) i with
  | None => s
  | Some tk =>
    if t_done tk then s else
    match poll_f (t_exp tk) 0 ext_default (t_short tk) eager i (t_key tk) (toks s) with
    | (k', tl', Pending) => mk_sys (updl (tasks s) i (set_key k')) tl' (s_panic s)
    | (k', tl', Ready r) =>
        (* the task's future completes: everything inside it is dropped *)
        mk_sys (updl (tasks s) i (fun x => set_out (Some r) (set_key (drop_submit k') x)))
               (drop_listeners i (t_exp tk) tl') (s_panic s)
    | (k', tl', PollPanic) => mk_sys (updl (tasks s) i (set_key k')) tl' true
    end
  end.

(* the executor drops the future of a task whose JoinHandle was dropped *)
Definition drop_task (i : key) (s : sys) : sys :=
  match nth_error (tasks s) i with
  | None => s
  | Some tk =>
    if t_done tk then s else
    mk_sys (updl (tasks s) i (fun x => set_gone true (set_key (drop_submit (t_key x)) x)))
           (drop_listeners i (t_exp tk) (toks s)) (s_panic s)
  end.

Definition upd_key (i : key) (f : kst -> kst) (s : sys) : sys :=
  mk_sys (updl (tasks s) i (fun x => set_key (f (t_key x)) x)) (toks s) (s_panic s).

(* CancelToken::cancel *)
Definition fire (t : tok) (s : sys) : sys :=
  match nth_error (toks s) t with
  | None => s
  | Some ts =>
    let ts1 := ev_notify_all ts in
    if fired ts then mk_sys (tasks s) (updl (toks s) t (fun _ => ts1)) (s_panic s)
    else
      let s2 := mk_sys (tasks s) (updl (toks s) t (fun _ => mk_tok true [] (lst ts1) (cnt ts1))) (s_panic s) in
      fold_left (fun s0 k => upd_key k cancel_by_token s0) (regs ts) s2
  end.

(* environment: the driver completes operation i with r *)
Definition complete (i : key) (r : kres) (s : sys) : sys :=
  upd_key i (fun k =>
    if k_infl k then set_infl false (if k_live k then set_res (Some r) k else k) else k) s.

(* environment: the short sleeps of task i become ready *)
Definition elapse (i : key) (s : sys) : sys :=
  mk_sys (updl (tasks s) i (set_short true)) (toks s) (s_panic s).

Inductive step :=
| StSpawn (f : fexp)
| StPoll (i : key) (eager : option kres)
| StFire (t : tok)
| StDrop (i : key)
| StComplete (i : key) (r : kres)
| StElapse (i : key).

Definition do_step (s : sys) (st : step) : sys :=
  match st with
  | StSpawn f => spawn f s
  | StPoll i eager => poll_task eager i s
  | StFire t => fire t s
  | StDrop i => drop_task i s
  | StComplete i r => complete i r s
  | StElapse i => elapse i s
  end.

Definition do_steps (s : sys) (l : list step) : sys := fold_left do_step l s.

(* the storage of the operation is released: nobody holds the key any more *)
Definition k_created (k : kst) : bool := match k_sub k with SIdle => false | _ => true end.
Definition k_freed (k : kst) : bool :=
  k_created k && negb (k_infl k) && (match k_sub k with SDone => true | _ => negb (k_live k) end).
