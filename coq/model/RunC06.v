(* RunC06.v — case interpreter for the C06 correspondence check.
   The Rust harness (harness/rt/src/bin/c06.rs) decodes the same line and runs
   the real types; see there for the meaning of the observations.

   kind 1  [1; (op arg)*]      SharedFd<OwnedFd> programs, no runtime
   kind 2  [2; drv; obj; (op arg)*]  File (pipe Receiver) / UnixStream programs inside a
                               Runtime (drv: 0 io_uring, 1 polling); after every
                               step the runtime is driven until submitted close
                               operations have run ("settle")
     ops:  1 clone   2 drop handle   3 start op   4 finish op   5 take() (raw)
           6 close() future (kind 2)   7 c poll   8 c drop future   9 c drop the T obtained
           11 try_unwrap   12 cancel op (its storage is released: same as 4)
           13 c  closer c's future is polled with a fresh waker from now on (moved to another task)
     per step:  ok  open  res  wmask  wgen
       ok    1 = the step was possible
       open  1 = the descriptor is open
       res   poll: 0 Pending 1 Ready(Some) 2 Ready(None) 3 Ready(Ok(()));  try_unwrap: 1 = got it
       wmask bit c = closer c's future exists and its CURRENT waker was woken since its last poll
       wgen  hex digit c = 1 + the generation (number of op 13 before it) of closer c's waker that was
             woken since its last poll, 0 = none
     then, after dropping everything that is left:  open
   kind 3  [3; drv; (op)*]     accept: 1 poll future  2 drop future  3 client connects
                               4 driver turn  5 drop the accepted stream  6 drop the runtime
     per step:  ok  unheld  res     (unheld = open descriptors the program does not hold;
                                     res: poll 0 Pending 1 Ready(Ok) 2 Ready(Err))
     then, after the teardown (drop future, two driver turns, drop stream, drop runtime):  unheld
   kind 5  [5; drv; (op)*]     multishot accept (TcpListener::incoming): 1 poll_next  2 drop stream
                               3 a peer connects  4 driver turn  5 drop a delivered connection  6 drop the runtime
     per step:  ok  unheld  res     (res: 1 = a connection was delivered)
     then, after the teardown:  unheld  peers whose server side is still open
   kind 4  oracle-only programs (timing dependent): the model answers [0; 4]
   Every result line starts with [0; kind]. *)
From Compio.Model Require Import Base SharedFd.

Definition b2N (b : bool) : N := if b then 1%N else 0%N.

Definition fut_alive (p : cpc) : bool :=
  match p with CUnpolled | CCreated | CPending | CClosing | CClosed => true | _ => false end.

(* bit c of [wmask]: closer c's future exists and the waker it is polled with NOW holds a
   notification; hex digit c of [wgen]: 1 + the generation of its waker that holds one (0 = none) *)
Fixpoint mask_from (i : nat) (ws : wst) (l : list closer) : N :=
  match l with
  | [] => 0%N
  | x :: r =>
    ((if fut_alive (pc x) && winner x && wwoken (base ws) && Nat.eqb (fst (wok ws)) i
         && Nat.eqb (snd (wok ws)) (gen ws i)
      then N.pow 2 (NN i) else 0) + mask_from (S i) ws r)%N
  end.
Fixpoint wgen_from (i : nat) (ws : wst) (l : list closer) : N :=
  match l with
  | [] => 0%N
  | x :: r =>
    ((if fut_alive (pc x) && winner x && wwoken (base ws) && Nat.eqb (fst (wok ws)) i
      then NN (S (snd (wok ws))) * N.pow 16 (NN i) else 0) + wgen_from (S i) ws r)%N
  end.

Definition wmask (ws : wst) : N := mask_from 0 ws (closers (base ws)).
Definition wgen (ws : wst) : N := wgen_from 0 ws (closers (base ws)).

Definition is_open (s : st) : bool := negb (is_closed (fd s)).

Definition wtry (g : cfg) (ws : wst) (l : wulabel) : wst :=
  match wustep g ws l with Some ws' => ws' | None => ws end.

(* submitted close operations run *)
Fixpoint settle_from (g : cfg) (k : nat) (i : nat) (ws : wst) : wst :=
  match k with
  | O => ws
  | S k' => settle_from g k' (S i) (wtry g ws (WU (UKClose i)))
  end.
Definition settle_all (g : cfg) (ws : wst) : wst := settle_from g (length (closers (base ws))) 0 ws.

Definition poll_res (s : st) (c : nat) : N :=
  match nth_error (closers s) c with
  | Some x =>
    match pc x with
    | CSome => 1%N
    | CGone => if cf x then 3%N else 2%N
    | CDone => 3%N
    | _ => 0%N
    end
  | None => 0%N
  end.

Definition run_op (g : cfg) (rt : bool) (ws : wst) (op arg : N) : option (wst * N) :=
  let c := nn arg in
  let plain (l : ulabel) := option_map (fun ws' => (ws', 0%N)) (wustep g ws (WU l)) in
  match op with
  | 1%N => plain UClone
  | 2%N => plain UDropHandle
  | 3%N => plain UOpStart
  | 4%N | 12%N => plain UOpFinish
  | 5%N => plain (UTake false)
  | 6%N => if rt then plain (UTake true) else None
  | 7%N => option_map (fun ws' => (ws', poll_res (base ws') c)) (wustep g ws (WU (UPoll c)))
  | 8%N => plain (UFutDrop c)
  | 9%N => plain (UOwnerDrop c)
  | 11%N =>
    option_map (fun ws' => (ws', b2N (negb (Nat.eqb (length (closers (base ws'))) (length (closers (base ws)))))))
               (wustep g ws (WU UTryUnwrap))
  | 13%N => if Nat.leb 13 (gen ws c) then None
            else option_map (fun ws' => (ws', 0%N)) (wustep g ws (WSwitch c))
  | _ => None
  end.

Fixpoint run_ops (g : cfg) (rt : bool) (ws : wst) (l : list N) : option (wst * list N) :=
  match l with
  | [] => Some (ws, [])
  | op :: arg :: r =>
    let '(s1, ok, res) :=
      match run_op g rt ws op arg with
      | Some (s', res) => (s', true, res)
      | None => (ws, false, 0%N)
      end in
    let s2 := if rt then settle_all g s1 else s1 in
    match run_ops g rt s2 r with
    | Some (sf, out) =>
      Some (sf, b2N ok :: b2N (is_open (base s2)) :: res :: wmask s2 :: wgen s2 :: out)
    | None => None
    end
  | _ => None
  end.

(* drop everything that is left: futures, obtained descriptors, operations, handles *)
Fixpoint drop_closers (g : cfg) (k i : nat) (ws : wst) : wst :=
  match k with
  | O => ws
  | S k' => drop_closers g k' (S i) (wtry g (wtry g ws (WU (UFutDrop i))) (WU (UOwnerDrop i)))
  end.
Fixpoint repeat_u (g : cfg) (k : nat) (l : ulabel) (ws : wst) : wst :=
  match k with
  | O => ws
  | S k' => match wustep g ws (WU l) with Some s' => repeat_u g k' l s' | None => ws end
  end.
Definition cleanup (g : cfg) (ws : wst) : wst :=
  let s1 := drop_closers g (length (closers (base ws))) 0 ws in
  let s2 := repeat_u g (ops (base s1)) UOpFinish s1 in
  let s3 := repeat_u g (handles (base s2)) UDropHandle s2 in
  settle_all g s3.

(* op codes the harness accepts (try_unwrap only on bare SharedFd programs) *)
Fixpoint valid_ops (rt : bool) (l : list N) : bool :=
  match l with
  | [] => true
  | op :: _ :: r =>
    (match op with
     | 1%N | 2%N | 3%N | 4%N | 5%N | 6%N | 7%N | 8%N | 9%N | 12%N | 13%N => true
     | 11%N => negb rt
     | _ => false
     end) && valid_ops rt r
  | _ => false
  end.

Definition run_fd (rt : bool) (l : list N) : list N :=
  if negb (valid_ops rt l) then BAD_CASE else
  match run_ops current rt winit l with
  | Some (s, out) => out ++ [b2N (is_open (base (cleanup current s)))]
  | None => BAD_CASE
  end.

(* ---- kind 3 ----------------------------------------------------------- *)

Definition dec_plabel (op : N) : option plabel :=
  match op with
  | 1%N => Some PPoll
  | 2%N => Some PFutDrop
  | 3%N => Some PReady
  | 4%N => Some PDrive
  | 5%N => Some PCallerDrop
  | 6%N => Some PDriverDrop
  | _ => None
  end.

Definition ppoll_res (before after : pst) : N :=
  match pf before, pf after with
  | PTaken, _ => 0%N
  | _, PTaken => match pd after with PCaller => 1%N | _ => 2%N end
  | _, _ => 0%N
  end.

(* teardown: drop the future, two driver turns, drop the delivered stream, drop the runtime *)
Definition ptry (s : pst) (l : plabel) : pst :=
  match pstep s l with Some s' => s' | None => s end.
Definition pcleanup (s : pst) : pst :=
  ptry (ptry (ptry (ptry (ptry s PFutDrop) PDrive) PDrive) PCallerDrop) PDriverDrop.

Fixpoint run_pops (s : pst) (l : list N) : option (list N) :=
  match l with
  | [] => Some [b2N (p_unheld_open (pcleanup s))]
  | op :: r =>
    match dec_plabel op with
    | None => None
    | Some lab =>
      let '(s1, ok) := match pstep s lab with Some s' => (s', true) | None => (s, false) end in
      let res := match lab with PPoll => if ok then ppoll_res s s1 else 0%N | _ => 0%N end in
      match run_pops s1 r with
      | Some out => Some (b2N ok :: b2N (p_unheld_open s1) :: res :: out)
      | None => None
      end
    end
  end.

(* ---- kind 5: multishot accept ------------------------------------------ *)

Definition dec_mlabel (op : N) : option mlabel :=
  match op with
  | 1%N => Some MPoll
  | 2%N => Some MDrop
  | 3%N => Some MConnect
  | 4%N => Some MDrive
  | 5%N => Some MUserDrop
  | 6%N => Some MDriverDrop
  | _ => None
  end.

Definition mtry (s : mst) (l : mlabel) : mst :=
  match mstep s l with Some s' => s' | None => s end.
Fixpoint mrepeat (k : nat) (l : mlabel) (s : mst) : mst :=
  match k with O => s | S k' => mrepeat k' l (mtry s l) end.
(* teardown: drop the stream, two driver turns, drop what was delivered, drop the runtime *)
Definition mcleanup (s : mst) : mst :=
  let s1 := mtry (mtry (mtry s MDrop) MDrive) MDrive in
  mtry (mrepeat (held s1) MUserDrop s1) MDriverDrop.

Fixpoint run_mops (s : mst) (l : list N) : option (list N) :=
  match l with
  | [] => let f := mcleanup s in Some [NN (m_unheld f); NN (m_unheld f + held f)]
  | op :: r =>
    match dec_mlabel op with
    | None => None
    | Some lab =>
      let '(s1, ok) := match mstep s lab with Some s' => (s', true) | None => (s, false) end in
      let res := match lab with MPoll => if ok && Nat.ltb (held s) (held s1) then 1%N else 0%N | _ => 0%N end in
      match run_mops s1 r with
      | Some out => Some (b2N ok :: NN (m_unheld s1) :: res :: out)
      | None => None
      end
    end
  end.

(* every result line starts with [0; kind] *)
Definition tag (k : N) (out : list N) : list N :=
  match out with
  | [99999%N] => out
  | _ => 0%N :: k :: out
  end.

Definition run_c06 (l : list N) : list N :=
  match l with
  | 1%N :: r => tag 1 (run_fd false r)
  | 2%N :: drv :: obj :: r =>
    if (N.leb drv 1 && N.leb obj 1)%bool then tag 2 (run_fd true r) else BAD_CASE
  | 3%N :: drv :: r =>
    if (N.leb drv 1 && Nat.leb (count_occ N.eq_dec r 3%N) 1)%bool then
      match run_pops (pinit (N.eqb drv 0) false false) r with
      | Some out => tag 3 out
      | None => BAD_CASE
      end
    else BAD_CASE
  | 4%N :: _ => [0%N; 4%N]
  | 5%N :: drv :: r =>
    if (N.leb drv 1 && Nat.leb (count_occ N.eq_dec r 3%N) 6)%bool then
      match run_mops (minit (N.eqb drv 0)) r with
      | Some out => tag 5 out
      | None => BAD_CASE
      end
    else BAD_CASE
  | _ => BAD_CASE
  end.
