(* RunC06.v — case interpreter for the C06 correspondence check.
   The Rust harness (harness/rt/src/bin/c06.rs) decodes the same line and runs
   the real types; see there for the meaning of the observations.

   kind 1  [1; (op arg)*]      SharedFd<OwnedFd> programs, no runtime
   kind 2  [2; drv; obj; (op arg)*]  File (pipe Receiver) / UnixStream programs inside a
                               Runtime (drv: 0 io_uring, 1 polling); after every
                               step the runtime is driven until submitted close
                               operations have run ("settle")
     ops:  1 clone   2 drop handle   3 start op   4 finish op   5 take() (raw)
           6 close() future (kind 2)   7 c poll   8 c drop future   9 c drop the T obtained
           11 try_unwrap   12 cancel op (its storage is released: same as 4)
     per step:  ok  open  res  wmask
       ok    1 = the step was possible
       open  1 = the descriptor is open
       res   poll: 0 Pending 1 Ready(Some) 2 Ready(None) 3 Ready(Ok(()));  try_unwrap: 1 = got it
       wmask bit c = closer c's future exists and its waker was woken since its last poll
     then, after dropping everything that is left:  open
   kind 3  [3; drv; (op)*]     accept: 1 poll future  2 drop future  3 client connects
                               4 driver turn  5 drop the accepted stream  6 drop the runtime
     per step:  ok  unheld  res     (unheld = open descriptors the program does not hold;
                                     res: poll 0 Pending 1 Ready(Ok) 2 Ready(Err))
     then, after the teardown (drop future, two driver turns, drop stream, drop runtime):  unheld
   kind 4  oracle-only programs (timing dependent): the model answers [0; 4]
   Every result line starts with [0; kind]. *)
From Compio.Model Require Import Base SharedFd.

Definition b2N (b : bool) : N := if b then 1%N else 0%N.

Definition fut_alive (p : cpc) : bool :=
  match p with CUnpolled | CCreated | CPending | CClosing | CClosed => true | _ => false end.

Fixpoint wmask_from (i : nat) (ww : bool) (l : list closer) : N :=
  match l with
  | [] => 0%N
  | x :: r =>
    ((if fut_alive (pc x) && winner x && ww then N.pow 2 (NN i) else 0) + wmask_from (S i) ww r)%N
  end.

Definition wmask (s : st) : N := wmask_from 0 (wwoken s) (closers s).

Definition is_open (s : st) : bool := negb (is_closed (fd s)).

(* submitted close operations run *)
Fixpoint settle_from (g : cfg) (k : nat) (i : nat) (s : st) : st :=
  match k with
  | O => s
  | S k' =>
    let s1 := match ustep g s (UKClose i) with Some s' => s' | None => s end in
    settle_from g k' (S i) s1
  end.
Definition settle_all (g : cfg) (s : st) : st := settle_from g (length (closers s)) 0 s.

Definition poll_res (s : st) (c : nat) : N :=
  match nth_error (closers s) c with
  | Some x =>
    match pc x with
    | CSome => 1%N
    | CGone => if cf x then 3%N else 2%N
    | CDone => 3%N
    | _ => 0%N
    end
  | None => 0%N
  end.

Definition run_op (g : cfg) (rt : bool) (s : st) (op arg : N) : option (st * N) :=
  let c := nn arg in
  match op with
  | 1%N => option_map (fun s' => (s', 0%N)) (ustep g s UClone)
  | 2%N => option_map (fun s' => (s', 0%N)) (ustep g s UDropHandle)
  | 3%N => option_map (fun s' => (s', 0%N)) (ustep g s UOpStart)
  | 4%N | 12%N => option_map (fun s' => (s', 0%N)) (ustep g s UOpFinish)
  | 5%N => option_map (fun s' => (s', 0%N)) (ustep g s (UTake false))
  | 6%N => if rt then option_map (fun s' => (s', 0%N)) (ustep g s (UTake true)) else None
  | 7%N => option_map (fun s' => (s', poll_res s' c)) (ustep g s (UPoll c))
  | 8%N => option_map (fun s' => (s', 0%N)) (ustep g s (UFutDrop c))
  | 9%N => option_map (fun s' => (s', 0%N)) (ustep g s (UOwnerDrop c))
  | 11%N =>
    option_map (fun s' => (s', b2N (negb (Nat.eqb (length (closers s')) (length (closers s))))))
               (ustep g s UTryUnwrap)
  | _ => None
  end.

Fixpoint run_ops (g : cfg) (rt : bool) (s : st) (l : list N) : option (st * list N) :=
  match l with
  | [] => Some (s, [])
  | op :: arg :: r =>
    let '(s1, ok, res) :=
      match run_op g rt s op arg with
      | Some (s', res) => (s', true, res)
      | None => (s, false, 0%N)
      end in
    let s2 := if rt then settle_all g s1 else s1 in
    match run_ops g rt s2 r with
    | Some (sf, out) => Some (sf, b2N ok :: b2N (is_open s2) :: res :: wmask s2 :: out)
    | None => None
    end
  | _ => None
  end.

(* drop everything that is left: futures, obtained descriptors, operations, handles *)
Fixpoint drop_closers (g : cfg) (k i : nat) (s : st) : st :=
  match k with
  | O => s
  | S k' =>
    let s1 := match ustep g s (UFutDrop i) with Some s' => s' | None => s end in
    let s2 := match ustep g s1 (UOwnerDrop i) with Some s' => s' | None => s1 end in
    drop_closers g k' (S i) s2
  end.
Fixpoint repeat_u (g : cfg) (k : nat) (l : ulabel) (s : st) : st :=
  match k with
  | O => s
  | S k' => match ustep g s l with Some s' => repeat_u g k' l s' | None => s end
  end.
Definition cleanup (g : cfg) (s : st) : st :=
  let s1 := drop_closers g (length (closers s)) 0 s in
  let s2 := repeat_u g (ops s1) UOpFinish s1 in
  let s3 := repeat_u g (handles s2) UDropHandle s2 in
  settle_all g s3.

(* op codes the harness accepts (try_unwrap only on bare SharedFd programs) *)
Fixpoint valid_ops (rt : bool) (l : list N) : bool :=
  match l with
  | [] => true
  | op :: _ :: r =>
    (match op with
     | 1%N | 2%N | 3%N | 4%N | 5%N | 6%N | 7%N | 8%N | 9%N | 12%N => true
     | 11%N => negb rt
     | _ => false
     end) && valid_ops rt r
  | _ => false
  end.

Definition run_fd (rt : bool) (l : list N) : list N :=
  if negb (valid_ops rt l) then BAD_CASE else
  match run_ops current rt init l with
  | Some (s, out) => out ++ [b2N (is_open (cleanup current s))]
  | None => BAD_CASE
  end.

(* ---- kind 3 ----------------------------------------------------------- *)

Definition dec_plabel (op : N) : option plabel :=
  match op with
  | 1%N => Some PPoll
  | 2%N => Some PFutDrop
  | 3%N => Some PReady
  | 4%N => Some PDrive
  | 5%N => Some PCallerDrop
  | 6%N => Some PDriverDrop
  | _ => None
  end.

Definition ppoll_res (before after : pst) : N :=
  match pf before, pf after with
  | PTaken, _ => 0%N
  | _, PTaken => match pd after with PCaller => 1%N | _ => 2%N end
  | _, _ => 0%N
  end.

(* teardown: drop the future, two driver turns, drop the delivered stream, drop the runtime *)
Definition ptry (s : pst) (l : plabel) : pst :=
  match pstep s l with Some s' => s' | None => s end.
Definition pcleanup (s : pst) : pst :=
  ptry (ptry (ptry (ptry (ptry s PFutDrop) PDrive) PDrive) PCallerDrop) PDriverDrop.

Fixpoint run_pops (s : pst) (l : list N) : option (list N) :=
  match l with
  | [] => Some [b2N (p_unheld_open (pcleanup s))]
  | op :: r =>
    match dec_plabel op with
    | None => None
    | Some lab =>
      let '(s1, ok) := match pstep s lab with Some s' => (s', true) | None => (s, false) end in
      let res := match lab with PPoll => if ok then ppoll_res s s1 else 0%N | _ => 0%N end in
      match run_pops s1 r with
      | Some out => Some (b2N ok :: b2N (p_unheld_open s1) :: res :: out)
      | None => None
      end
    end
  end.

(* every result line starts with [0; kind] *)
Definition tag (k : N) (out : list N) : list N :=
  match out with
  | [99999%N] => out
  | _ => 0%N :: k :: out
  end.

Definition run_c06 (l : list N) : list N :=
  match l with
  | 1%N :: r => tag 1 (run_fd false r)
  | 2%N :: drv :: obj :: r =>
    if (N.leb drv 1 && N.leb obj 1)%bool then tag 2 (run_fd true r) else BAD_CASE
  | 3%N :: drv :: r =>
    if (N.leb drv 1 && Nat.leb (count_occ N.eq_dec r 3%N) 1)%bool then
      match run_pops (pinit (N.eqb drv 0) false false) r with
      | Some out => tag 3 out
      | None => BAD_CASE
      end
    else BAD_CASE
  | 4%N :: _ => [0%N; 4%N]
  | _ => BAD_CASE
  end.
