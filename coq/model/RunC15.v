(* RunC15.v — case interpreter for the C15 correspondence check.

   The protocol engines are environments, so the model is run on what the
   implementation was OBSERVED to be asked (tools/p_c15.py builds the input from
   the event log of harness/ext/src/bin/c15.rs): for every callback the engine
   made into the would-block shim — its kind and argument and the answers the
   transport gave while it ran — the model (model/TlsShim.v, [cb_run] over the
   scripted pipe) says which transport calls the shim makes, what it returns to
   the engine and what the flags are afterwards; for every end of an engine API
   call it says what the poll entry point returns.  At the end of a side it
   gives the counts of the no-stall statement and the flush-before-wait verdict
   of its own log.

   input : 1 nsides side*          side  = ntok tok*
           tok = 1 kind arg nans (akind an)*   callback: kind 1 read(cap) 2 write(len) 3 flush;
                                               answer: 0 ok n | 1 pending | 2 error
               | 2                             finish_handshake
               | 3 r                           API call ended: 0 done 1 would-block 2 failure
   output: per tok
               1 ncalls (ckind carg)* rkind rn flags unused   (unused answers; 777 = too few)
             | 2 flags
             | 3 poll wb_ok            poll: 0 ready-ok 1 pending 2 ready-err;
                                       wb_ok: would-block only right after a callback said so
           then 9 nwb np ncalls ncb fbw_ok held
   Any other first integer: [0] (cases without a model part). *)
From Compio.Model Require Import Base IoHelpers Compat TlsShim.

Definition obind {A B} (o : option A) (f : A -> option B) : option B :=
  match o with Some a => f a | None => None end.
Notation "'let?' x ':=' o 'in' k" := (obind o (fun x => k))
  (at level 200, x binder, right associativity).

Definition dec_ans (k n : N) : cans :=
  match k with
  | 0%N => CA (AChunk (nn n))
  | 1%N => CPending
  | _ => CA (AErr E_OTHER)
  end.

(* n answers: (kind, count) pairs; also the number of bytes they carry *)
Fixpoint dec_answers (n : nat) (l : list N) : option (list cans * nat * list N) :=
  match n with
  | O => Some ([], 0, l)
  | S k =>
    match l with
    | ak :: an :: r =>
      let? '(s, tot, r') := dec_answers k r in
      Some (dec_ans ak an :: s, (match ak with 0%N => nn an | _ => 0 end) + tot, r')
    | _ => None
    end
  end.

Definition enc_tcall (e : ev) : list N :=
  match e with
  | EvT (TcRead cap) _ => [1%N; NN cap]
  | EvT (TcWrite d) _ => [2%N; NN (length d)]
  | EvT TcFlush _ => [3%N; 0%N]
  | _ => []
  end.

Definition enc_ret (r : cbret) : list N :=
  match r with
  | ROk bs => [0%N; NN (length bs)]
  | RWouldBlock => [1%N; 0%N]
  | RErr _ => [2%N; 0%N]
  end.

Definition enc_flags (s : shim) : N :=
  ((if written s then 1 else 0) + (if handshaken s then 2 else 0))%N.

Definition dec_cb (kind arg : N) : option cb :=
  match kind with
  | 1%N => Some (CbRead (nn arg))
  | 2%N => Some (CbWrite (repeat_b 0%N (nn arg)))
  | 3%N => Some CbFlush
  | _ => None
  end.

Definition dec_eend (r : N) : option eend :=
  match r with
  | 0%N => Some EDone
  | 1%N => Some EWouldBlock
  | 2%N => Some EFail
  | _ => None
  end.

Definition enc_hres (h : hres) : N := match h with HOk => 0%N | HPend => 1%N | HErr => 2%N end.

Definition is_wb (r : option cbret) : bool :=
  match r with Some RWouldBlock => true | _ => false end.

Record sidest := mkss {
  ss_shim : shim;
  ss_log : list ev;
  ss_last : option cbret;     (* result of the last callback of the current API call *)
  ss_nwb : nat                (* API calls that ended with would-block *)
}.

Fixpoint run_side (ntok : nat) (l : list N) (st : sidest) (acc : list N)
  : option (list N * sidest * list N) :=
  match ntok with
  | O => Some (acc, st, l)
  | S k =>
    match l with
    | 1%N :: kind :: arg :: na :: r =>
      let? c := dec_cb kind arg in
      let? '(answers, bytes, r') := dec_answers (nn na) r in
      match cb_run pipe_tp (ss_shim st) c (mkpipe answers (repeat_b 0%N bytes) []) [] with
      | Panic _ => None
      | Ok (ret, s1, p1, new) =>
        let ncalls := count is_tcall new in
        let unused := if Nat.ltb (nn na) ncalls then 777 else nn na - ncalls in
        run_side k r'
          (mkss s1 (ss_log st ++ new) (Some ret) (ss_nwb st))
          (acc ++ [1%N; NN ncalls] ++ flat_map enc_tcall new ++ enc_ret ret
               ++ [enc_flags s1; NN unused])
      end
    | 2%N :: r =>
      let s1 := finish_handshake (ss_shim st) in
      run_side k r (mkss s1 (ss_log st ++ [EvFinish]) (ss_last st) (ss_nwb st))
               (acc ++ [2%N; enc_flags s1])
    | 3%N :: e :: r =>
      let? en := dec_eend e in
      let wb_ok := match en with EWouldBlock => is_wb (ss_last st) | _ => true end in
      run_side k r
        (mkss (ss_shim st) (ss_log st ++ [EvApi en]) None
              (ss_nwb st + match en with EWouldBlock => 1 | _ => 0 end))
        (acc ++ [3%N; enc_hres (poll_of en); if wb_ok then 1%N else 0%N])
    | _ => None
    end
  end.

Definition enc_summary (st : sidest) : list N :=
  let log := ss_log st in
  [9%N; NN (ss_nwb st); NN (count is_tpend log); NN (count is_tcall log); NN (count is_cb log);
   if fbw_ok log then 1%N else 0%N; NN (length (unflushed log))].

Fixpoint run_sides (n : nat) (l : list N) (acc : list N) : option (list N) :=
  match n with
  | O => Some acc
  | S k =>
    match l with
    | ntok :: r =>
      let? '(out, st, r') := run_side (nn ntok) r (mkss shim0 [] None 0) [] in
      run_sides k r' (acc ++ out ++ enc_summary st)
    | [] => None
    end
  end.

Definition run_c15 (l : list N) : list N :=
  match l with
  | 1%N :: nsides :: r =>
    match run_sides (nn nsides) r [] with Some o => o | None => BAD_CASE end
  | _ => [0%N]
  end.
