(* RunC08.v — the model side of the C08 differential run: an interpreter of
   operation sequences over the reference of model/FileSpec.v.
   A case is [nops; op ...]; the result is the token list the harness
   (harness/rt/src/bin/c08.rs) prints for its designated run, then the final
   tree, then the agreement flags of the other three runs (all 1 / 0 here).

   op encodings (slot < 4, pipe < 2, path = [k; c1..ck], 1 <= k <= 3, c < 6):
    1 slot path bits seq      open (bits: 1 read 2 write 4 O_APPEND 8 truncate 16 create 32 create_new)
    2 slot                    close
    3 slot off rbuf           read_at          4 slot off wbuf   write_at
    5 slot off rvec           read_vectored_at 6 slot off wvec   write_vectored_at
    7 slot n                  set_len          8 slot which      sync_all / sync_data
    9 slot                    File::metadata  10 path follow     metadata / symlink_metadata
   11 path create_dir  12 path create_dir_all  13 path remove_file  14 path remove_dir
   15 a b rename  16 a b hard_link  17 target link symlink  18 path ro set_permissions
   19 slot rbuf  20 slot wbuf  21 slot rvec  22 slot wvec   sequential (cursor) forms, AsyncFd
   23 p pipe  24 p wbuf write  25 p rbuf read  26 p rvec read_vectored  27 p wvec write_vectored
   28 p close sender  29 p close receiver
   30 slot off k              read_at into a Vec of capacity 2^32 + k (k may itself be >= 2^32)
   31 path n bytes            fs::write       32 path   fs::read
   33 slot path bits mode custom   OpenOptions with .mode(mode).custom_flags(custom), custom a subset of
                              O_APPEND | O_EXCL | O_NOFOLLOW | O_DIRECTORY | __O_TMPFILE; the result of a
                              successful open is [0; st_mode & 0o7777 of the handle]
   rbuf = [shape; len; cap; a; b]   wbuf = [shape; extra; a; b; n; bytes..]
   shape 0 Vec, 1 .slice(a..), 2 .slice(a..b), 3 .uninit()
   rvec = [nm; (len cap)*]          wvec = [nm; (extra n bytes..)*]
   result tokens: 3 = skipped (empty / wrong kind of slot), 4 = would block (pipe),
   [0; n] / [1; kind] otherwise, a read followed by [len'; cells..] per buffer. *)
From Compio.Model Require Import Base Buf PipeSpec FileSpec.

Definition obind {A B} (o : option A) (f : A -> option B) : option B :=
  match o with Some a => f a | None => None end.
Notation "'let?' x ':=' o 'in' k" := (obind o (fun x => k))
  (at level 200, x binder, right associativity).

(* ---- decoders --------------------------------------------------------- *)

Definition NSLOTS : nat := 4.
Definition NPIPES : nat := 2.
Definition NNAMES : nat := 6.
Definition PIPE_CAP : nat := 65536.
Definition PIPE_SOFT : nat := 4096.   (* the runs never hold more than this in a pipe *)

Definition dec_bytes (l : list N) : option (list N * list N) :=
  let? '(n, r) := take1 l in takeN (nn n) r.

Fixpoint dec_list {A} (n : nat) (f : list N -> option (A * list N)) (l : list N)
  : option (list A * list N) :=
  match n with
  | O => Some ([], l)
  | S k => let? '(a, r) := f l in let? '(s, r') := dec_list k f r in Some (a :: s, r')
  end.

Definition dec_path (l : list N) : option (path * list N) :=
  let? '(k, r) := take1 l in
  if (1 <=? nn k) && (nn k <=? 3) then
    let? '(cs, r') := takeN (nn k) r in
    if forallb (fun c => nn c <? NNAMES) cs then Some (map nn cs, r') else None
  else None.

Definition dec_slot (l : list N) : option (nat * list N) :=
  let? '(s, r) := take1 l in if nn s <? NSLOTS then Some (nn s, r) else None.
Definition dec_pipe (l : list N) : option (nat * list N) :=
  let? '(s, r) := take1 l in if nn s <? NPIPES then Some (nn s, r) else None.

Definition mk_view (shape a b : nat) (len : nat) : option view :=
  match shape with
  | 0 => Some VBase
  | 1 => if a <=? len then Some (VSlice VBase a None) else None
  | 2 => if (a <=? len) && (a <=? b) then Some (VSlice VBase a (Some b)) else None
  | 3 => Some (VUninit VBase len)
  | _ => None
  end.

(* [shape; len; cap; a; b] -> canary-filled Vec + view *)
Definition dec_rbuf (l : list N) : option ((view * root) * list N) :=
  match l with
  | shape :: len :: cap :: a :: b :: r =>
    if nn len <=? nn cap then
      let? v := mk_view (nn shape) (nn a) (nn b) (nn len) in
      Some ((v, mkroot KVec (canaries_from 0 (nn cap)) (nn len) 0), r)
    else None
  | _ => None
  end.

(* [shape; extra; a; b; n; bytes..] -> Vec with that content, capacity n + extra *)
Definition dec_wbuf (l : list N) : option ((view * root) * list N) :=
  match l with
  | shape :: extra :: a :: b :: r =>
    let? '(bs, r') := dec_bytes r in
    let n := length bs in
    let? v := mk_view (nn shape) (nn a) (nn b) n in
    Some ((v, mkroot KVec (bs ++ canaries_from n (nn extra)) n 0), r')
  | _ => None
  end.

Definition dec_rmember (l : list N) : option (root * list N) :=
  match l with
  | len :: cap :: r =>
    if nn len <=? nn cap then Some (mkroot KVec (canaries_from 0 (nn cap)) (nn len) 0, r) else None
  | _ => None
  end.
Definition dec_rvec (l : list N) : option (list root * list N) :=
  let? '(nm, r) := take1 l in dec_list (nn nm) dec_rmember r.

Definition dec_wmember (l : list N) : option (root * list N) :=
  match l with
  | extra :: r =>
    let? '(bs, r') := dec_bytes r in
    Some (mkroot KVec (bs ++ canaries_from (length bs) (nn extra)) (length bs) 0, r')
  | _ => None
  end.
Definition dec_wvec (l : list N) : option (list root * list N) :=
  let? '(nm, r) := take1 l in dec_list (nn nm) dec_wmember r.

(* ---- encoders --------------------------------------------------------- *)

Definition enc_root (r : root) : list N := NN (rlen r) :: rcells r.
Definition enc_roots (ms : list root) : list N := flat_map enc_root ms.
Definition enc_path (p : path) : list N := NN (length p) :: map NN p.
Definition b2n (b : bool) : N := if b then 1%N else 0%N.

Definition enc_unit (r : res unit) : list N :=
  match r with Rok _ => [0; 0] | Rerr e => [1; e] end%N.

Definition SKIP : list N := [3%N].
Definition BLOCK : list N := [4%N].

Definition enc_node (fs : fsys) (x : path * node) : list N :=
  enc_path (fst x) ++
  match snd x with
  | NFile i => let ino := get_inode fs i in
               [0%N; imode ino; NN (length (idata ino))] ++ idata ino
  | NDir => [1%N]
  | NLink t => 2%N :: enc_path t
  end.

Definition enc_tree (fs : fsys) : list N :=
  NN (length (nodes fs)) :: flat_map (enc_node fs) (nodes fs).

(* ---- the world -------------------------------------------------------- *)

Record world := mkw {
  w_fs : fsys;
  w_slots : list (option handle);
  w_pipes : list (option pipe)
}.

Definition world0 : world :=
  mkw fs_empty (repeat None NSLOTS) (repeat None NPIPES).

Definition slot_of (w : world) (s : nat) : option handle := nth s (w_slots w) None.
Definition pipe_of (w : world) (s : nat) : option pipe := nth s (w_pipes w) None.
Definition with_fs (w : world) (fs : fsys) : world := mkw fs (w_slots w) (w_pipes w).
Definition with_slot (w : world) (s : nat) (h : option handle) : world :=
  mkw (w_fs w) (set_nth (w_slots w) s h) (w_pipes w).
Definition with_pipe (w : world) (s : nat) (p : option pipe) : world :=
  mkw (w_fs w) (w_slots w) (set_nth (w_pipes w) s p).

Definition set_pos (h : handle) (p : nat) : handle :=
  mkh (hk h) (h_r h) (h_w h) (h_app h) (h_seq h) p.

Definition CUSTOM_ALLOWED : N := 4392064.   (* O_APPEND|O_EXCL|O_NOFOLLOW|O_DIRECTORY|__O_TMPFILE *)

Definition opts_of_bits (bits : N) : oopts :=
  mkopts (N.testbit bits 0) (N.testbit bits 1) (N.testbit bits 3)
         (N.testbit bits 4) (N.testbit bits 5)
         (if N.testbit bits 2 then O_APPEND else 0%N).

(* a read through the glue: [os k] = the OS answer for an offer of k bytes *)
Definition do_read (v : view) (r : root) (os : nat -> res (list byte)) : R (nat * list N) :=
  let! rg := offer_read v r in
  match os (snd rg) with
  | Rerr e => Ok (0, [1%N; e] ++ enc_root r)
  | Rok bs =>
    let! x := glue_read v r (fun _ => bs) in
    Ok (fst x, [0%N; NN (fst x)] ++ enc_root (snd x))
  end.

Definition do_readv (ms : list root) (os : list nat -> res (list (list byte))) : R (nat * list N) :=
  match os (voffer_read ms) with
  | Rerr e => Ok (0, [1%N; e] ++ enc_roots ms)
  | Rok chunks =>
    let! x := glue_readv ms (fun _ => concat chunks) in
    Ok (fst x, [0%N; NN (fst x)] ++ enc_roots (snd x))
  end.

Definition enc_wres (r : res nat) : list N :=
  match r with Rok n => [0%N; NN n] | Rerr e => [1%N; e] end.

(* the OS answer of a pipe read for an offer of k bytes *)
Definition pipe_os_read (p : pipe) (k : nat) : option (pipe * list byte) :=
  match pipe_read p k with
  | (p', ROk bs) => Some (p', bs)
  | (_, RBlock) => None
  end.

Definition pipe_do_write (w : world) (pi : nat) (p : pipe) (d : list byte) : world * list N :=
  if PIPE_SOFT <? length (pq p) + length d then (w, BLOCK) else
  match pipe_write p d with
  | (p', WOk n) => (with_pipe w pi (Some p'), [0%N; NN n])
  | (_, WBlock) => (w, BLOCK)
  | (_, WErr e) => (w, [1%N; e])
  end.

(* ---- one operation ---------------------------------------------------- *)

Definition step (w : world) (l : list N) : option (R (world * list N) * list N) :=
  let fs := w_fs w in
  let ret (x : world * list N) (r : list N) := Some (Ok x, r) in
  let? '(op, l) := take1 l in
  match op with
  | 1%N =>
    let? '(s, l) := dec_slot l in
    let? '(p, l) := dec_path l in
    let? '(bits, l) := take1 l in
    let? '(seq, l) := take1 l in
    let w := with_slot w s None in
    match open_flags (opts_of_bits bits) with
    | Rerr e => ret (w, [1%N; e]) l
    | Rok flags =>
      match fs_open fs p flags DEFAULT_MODE (negb (seq =? 0)%N) with
      | (fs', Rok h) => ret (with_slot (with_fs w fs') s (Some h), [0; 0]%N) l
      | (fs', Rerr e) => ret (with_fs w fs', [1%N; e]) l
      end
    end
  | 2%N =>
    let? '(s, l) := dec_slot l in
    match slot_of w s with
    | None => ret (w, SKIP) l
    | Some _ => ret (with_slot w s None, [0; 0]%N) l
    end
  | 3%N =>
    let? '(s, l) := dec_slot l in
    let? '(off, l) := take1 l in
    let? '(vr, l) := dec_rbuf l in
    match slot_of w s with
    | Some h =>
      if h_seq h then ret (w, SKIP) l else
      Some (let! x := do_read (fst vr) (snd vr) (fun k => h_read fs h (nn off) k) in
            Ok (w, snd x), l)
    | None => ret (w, SKIP) l
    end
  | 4%N =>
    let? '(s, l) := dec_slot l in
    let? '(off, l) := take1 l in
    let? '(vr, l) := dec_wbuf l in
    match slot_of w s with
    | Some h =>
      if h_seq h then ret (w, SKIP) l else
      Some (let! d := write_payload (fst vr) (snd vr) in
            let '(fs', r) := h_write fs h (nn off) d in
            Ok (with_fs w fs', enc_wres r), l)
    | None => ret (w, SKIP) l
    end
  | 5%N =>
    let? '(s, l) := dec_slot l in
    let? '(off, l) := take1 l in
    let? '(ms, l) := dec_rvec l in
    match slot_of w s with
    | Some h =>
      if h_seq h then ret (w, SKIP) l else
      Some (let! x := do_readv ms (fun caps => h_readv fs h (nn off) caps) in
            Ok (w, snd x), l)
    | None => ret (w, SKIP) l
    end
  | 6%N =>
    let? '(s, l) := dec_slot l in
    let? '(off, l) := take1 l in
    let? '(ms, l) := dec_wvec l in
    match slot_of w s with
    | Some h =>
      if h_seq h then ret (w, SKIP) l else
      let '(fs', r) := h_writev fs h (nn off) (voffer_write ms) in
      ret (with_fs w fs', enc_wres r) l
    | None => ret (w, SKIP) l
    end
  | 7%N =>
    let? '(s, l) := dec_slot l in
    let? '(n, l) := take1 l in
    match slot_of w s with
    | Some h =>
      if h_seq h then ret (w, SKIP) l else
      let '(fs', r) := h_truncate fs h (nn n) in ret (with_fs w fs', enc_unit r) l
    | None => ret (w, SKIP) l
    end
  | 8%N =>
    let? '(s, l) := dec_slot l in
    let? '(_, l) := take1 l in
    match slot_of w s with
    | Some h => if h_seq h then ret (w, SKIP) l else ret (w, [0; 0]%N) l
    | None => ret (w, SKIP) l
    end
  | 9%N =>
    let? '(s, l) := dec_slot l in
    match slot_of w s with
    | Some h =>
      if h_seq h then ret (w, SKIP) l else
      let '(len, k, ro) := h_stat fs h in ret (w, [0%N; NN len; k; b2n ro]) l
    | None => ret (w, SKIP) l
    end
  | 10%N =>
    let? '(p, l) := dec_path l in
    let? '(follow, l) := take1 l in
    match fs_stat fs p (negb (follow =? 0)%N) with
    | Rok (len, k, ro) => ret (w, [0%N; NN len; k; b2n ro]) l
    | Rerr e => ret (w, [1%N; e]) l
    end
  | 11%N =>
    let? '(p, l) := dec_path l in
    let '(fs', r) := fs_mkdir fs p in ret (with_fs w fs', enc_unit r) l
  | 12%N =>
    let? '(p, l) := dec_path l in
    let '(fs', r) := fs_mkdir_all 8 fs p in ret (with_fs w fs', enc_unit r) l
  | 13%N =>
    let? '(p, l) := dec_path l in
    let '(fs', r) := fs_unlink fs p in ret (with_fs w fs', enc_unit r) l
  | 14%N =>
    let? '(p, l) := dec_path l in
    let '(fs', r) := fs_rmdir fs p in ret (with_fs w fs', enc_unit r) l
  | 15%N =>
    let? '(a, l) := dec_path l in
    let? '(b, l) := dec_path l in
    let '(fs', r) := fs_rename fs a b in ret (with_fs w fs', enc_unit r) l
  | 16%N =>
    let? '(a, l) := dec_path l in
    let? '(b, l) := dec_path l in
    let '(fs', r) := fs_link fs a b in ret (with_fs w fs', enc_unit r) l
  | 17%N =>
    let? '(a, l) := dec_path l in
    let? '(b, l) := dec_path l in
    let '(fs', r) := fs_symlink fs a b in ret (with_fs w fs', enc_unit r) l
  | 18%N =>
    let? '(p, l) := dec_path l in
    let? '(ro, l) := take1 l in
    match fs_chmod fs p (negb (ro =? 0)%N) with
    | None => ret (w, SKIP) l
    | Some (fs', r) => ret (with_fs w fs', enc_unit r) l
    end
  | 19%N =>
    let? '(s, l) := dec_slot l in
    let? '(vr, l) := dec_rbuf l in
    match slot_of w s with
    | Some h =>
      if negb (h_seq h) then ret (w, SKIP) l else
      Some (let! x := do_read (fst vr) (snd vr) (fun k => h_read fs h (h_pos h) k) in
            Ok (with_slot w s (Some (set_pos h (h_pos h + fst x))), snd x), l)
    | None => ret (w, SKIP) l
    end
  | 20%N =>
    let? '(s, l) := dec_slot l in
    let? '(vr, l) := dec_wbuf l in
    match slot_of w s with
    | Some h =>
      if negb (h_seq h) then ret (w, SKIP) l else
      Some (let! d := write_payload (fst vr) (snd vr) in
            let '(fs', r) := h_write fs h (h_pos h) d in
            let h' := match r, hk h with
                      | Rok _, HFile i =>
                        set_pos h (snd (seq_write (idata (get_inode fs i)) (h_pos h) (h_app h) d))
                      | _, _ => h
                      end in
            Ok (with_slot (with_fs w fs') s (Some h'), enc_wres r), l)
    | None => ret (w, SKIP) l
    end
  | 21%N =>
    let? '(s, l) := dec_slot l in
    let? '(ms, l) := dec_rvec l in
    match slot_of w s with
    | Some h =>
      if negb (h_seq h) then ret (w, SKIP) l else
      Some (let! x := do_readv ms (fun caps => h_readv fs h (h_pos h) caps) in
            Ok (with_slot w s (Some (set_pos h (h_pos h + fst x))), snd x), l)
    | None => ret (w, SKIP) l
    end
  | 22%N =>
    let? '(s, l) := dec_slot l in
    let? '(ms, l) := dec_wvec l in
    match slot_of w s with
    | Some h =>
      if negb (h_seq h) then ret (w, SKIP) l else
      let '(fs', r) := h_writev fs h (h_pos h) (voffer_write ms) in
      let h' := match r, hk h with
                | Rok _, HFile i =>
                  set_pos h (snd (seq_write (idata (get_inode fs i)) (h_pos h) (h_app h)
                                            (concat (voffer_write ms))))
                | _, _ => h
                end in
      ret (with_slot (with_fs w fs') s (Some h'), enc_wres r) l
    | None => ret (w, SKIP) l
    end
  | 23%N =>
    let? '(pi, l) := dec_pipe l in
    ret (with_pipe w pi (Some (pipe_new PIPE_CAP)), [0; 0]%N) l
  | 24%N =>
    let? '(pi, l) := dec_pipe l in
    let? '(vr, l) := dec_wbuf l in
    match pipe_of w pi with
    | Some p =>
      if wclosed p then ret (w, SKIP) l else
      Some (let! d := write_payload (fst vr) (snd vr) in Ok (pipe_do_write w pi p d), l)
    | None => ret (w, SKIP) l
    end
  | 25%N =>
    let? '(pi, l) := dec_pipe l in
    let? '(vr, l) := dec_rbuf l in
    match pipe_of w pi with
    | Some p =>
      if rclosed p then ret (w, SKIP) l else
      Some (let! rg := offer_read (fst vr) (snd vr) in
            match pipe_os_read p (snd rg) with
            | None => Ok (w, BLOCK)
            | Some (p', bs) =>
              let! x := do_read (fst vr) (snd vr) (fun _ => Rok bs) in
              Ok (with_pipe w pi (Some p'), snd x)
            end, l)
    | None => ret (w, SKIP) l
    end
  | 26%N =>
    let? '(pi, l) := dec_pipe l in
    let? '(ms, l) := dec_rvec l in
    match pipe_of w pi with
    | Some p =>
      if rclosed p then ret (w, SKIP) l else
      match pipe_os_read p (sum_nat (voffer_read ms)) with
      | None => ret (w, BLOCK) l
      | Some (p', bs) =>
        Some (let! x := do_readv ms (fun _ => Rok [bs]) in
              Ok (with_pipe w pi (Some p'), snd x), l)
      end
    | None => ret (w, SKIP) l
    end
  | 27%N =>
    let? '(pi, l) := dec_pipe l in
    let? '(ms, l) := dec_wvec l in
    match pipe_of w pi with
    | Some p =>
      if wclosed p then ret (w, SKIP) l
      else ret (pipe_do_write w pi p (concat (voffer_write ms))) l
    | None => ret (w, SKIP) l
    end
  | 28%N =>
    let? '(pi, l) := dec_pipe l in
    match pipe_of w pi with
    | Some p => if wclosed p then ret (w, SKIP) l
                else ret (with_pipe w pi (Some (pipe_close_w p)), [0; 0]%N) l
    | None => ret (w, SKIP) l
    end
  | 29%N =>
    let? '(pi, l) := dec_pipe l in
    match pipe_of w pi with
    | Some p => if rclosed p then ret (w, SKIP) l
                else ret (with_pipe w pi (Some (pipe_close_r p)), [0; 0]%N) l
    | None => ret (w, SKIP) l
    end
  | 30%N =>
    let? '(s, l) := dec_slot l in
    let? '(off, l) := take1 l in
    let? '(k, l) := take1 l in
    match slot_of w s with
    | Some h =>
      if h_seq h then ret (w, SKIP) l else
      (* capacity 2^32 + k; the driver clamps the offer; the answer is bounded by the file *)
      let offer := sqe_len DIoUring (4294967296 + k)%N in
      let flen := match hk h with HFile i => length (idata (get_inode fs i)) | HDir => 0 end in
      let eff := nn (N.min offer (NN flen)) in
      match h_read fs h (nn off) eff with
      | Rerr e => ret (w, [1%N; e]) l
      | Rok bs => ret (w, [0%N; NN (length bs)] ++ bs) l
      end
    | None => ret (w, SKIP) l
    end
  | 31%N =>
    let? '(p, l) := dec_path l in
    let? '(bs, l) := dec_bytes l in
    (* File::create(path) then write_all_at(buf, 0) *)
    match open_flags (mkopts false true true true false 0%N) with
    | Rerr e => ret (w, [1%N; e]) l
    | Rok flags =>
      match fs_open fs p flags DEFAULT_MODE false with
      | (fs', Rerr e) => ret (with_fs w fs', [1%N; e]) l
      | (fs', Rok h) =>
        let '(fs'', r) := h_write fs' h 0 bs in
        ret (with_fs w fs'', match r with Rok _ => [0; 0]%N | Rerr e => [1%N; e] end) l
      end
    end
  | 32%N =>
    let? '(p, l) := dec_path l in
    match open_flags (mkopts true false false false false 0%N) with
    | Rerr e => ret (w, [1%N; e]) l
    | Rok flags =>
      match fs_open fs p flags DEFAULT_MODE false with
      | (_, Rerr e) => ret (w, [1%N; e]) l
      | (_, Rok h) =>
        match h_read fs h 0 (match hk h with HFile i => length (idata (get_inode fs i)) | HDir => 0 end) with
        | Rerr e => ret (w, [1%N; e]) l
        | Rok bs => ret (w, [0%N; NN (length bs)] ++ bs) l
        end
      end
    end
  | 33%N =>
    let? '(s, l) := dec_slot l in
    let? '(p, l) := dec_path l in
    let? '(bits, l) := take1 l in
    let? '(mode, l) := take1 l in
    let? '(custom, l) := take1 l in
    if negb ((mode <=? 4095) && (N.ldiff custom CUSTOM_ALLOWED =? 0) && (bits <? 64))%N then None else
    let w := with_slot w s None in
    let o := opts_of_bits bits in
    let o := mkopts (oo_read o) (oo_write o) (oo_truncate o) (oo_create o) (oo_create_new o)
                    (N.lor (oo_custom o) custom) in
    match open_request o mode with
    | Rerr e => ret (w, [1%N; e]) l
    | Rok (flags, m) =>
      match fs_open fs p flags m false with
      | (fs', Rok h) => ret (with_slot (with_fs w fs') s (Some h), [0%N; h_perm fs' h]) l
      | (fs', Rerr e) => ret (with_fs w fs', [1%N; e]) l
      end
    end
  | _ => None
  end.

Fixpoint run_ops (n : nat) (w : world) (l : list N) (acc : list N) : option (R (world * list N)) :=
  match n with
  | O => match l with [] => Some (Ok (w, acc)) | _ => None end
  | S k =>
    let? '(r, l') := step w l in
    match r with
    | Panic c => Some (Panic c)
    | Ok (w', out) => run_ops k w' l' (acc ++ out)
    end
  end.

Definition FLAGS_OK : list N := [1; 0; 1; 0; 1; 0]%N.

Definition run_c08 (l : list N) : list N :=
  match l with
  | n :: l' =>
    match run_ops (nn n) world0 l' [] with
    | None => BAD_CASE
    | Some (Panic c) => [2%N; c]
    | Some (Ok (w, out)) => out ++ enc_tree (w_fs w) ++ FLAGS_OK
    end
  | [] => BAD_CASE
  end.
