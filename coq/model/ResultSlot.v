(* ResultSlot.v — the per-operation result slot of compio-driver/src/key.rs
   (RawOp::result : PushEntry<Option<Waker>, io::Result<usize>>) and the waker
   discipline of set_waker / set_result / take_result; plus an acceptor for the
   observed history of (set_waker, set_result, wake) events.                    *)
From Compio.Model Require Import Base.

Inductive slot :=
| SPending (w : option N)     (* Pending(waker) *)
| SReady (r : N)              (* Ready(result) *)
| STaken.                     (* result handed out by take_result *)

(* key.rs set_waker: only a pending slot stores the waker; an equal waker
   (will_wake) is kept, any other REPLACES the stored one *)
Definition set_waker (s : slot) (w : N) : slot :=
  match s with
  | SPending (Some w0) => if N.eqb w0 w then s else SPending (Some w)
  | SPending None => SPending (Some w)
  | _ => s
  end.

(* key.rs set_result: stores the result, returns the waker to invoke;
   a second result for one operation is not a step *)
Definition set_result (s : slot) (r : N) : option (slot * option N) :=
  match s with
  | SPending w => Some (SReady r, w)
  | _ => None
  end.

Definition take_result (s : slot) : option (slot * N) :=
  match s with
  | SReady r => Some (STaken, r)
  | _ => None
  end.

Definition set_wakers (s : slot) (ws : list N) : slot := fold_left set_waker ws s.

(* ---------------------------------------------------------------------- *)
(* acceptor over the observed history.  Events are raw triples
   (kind, key, arg): 108 = set_waker(key, waker id), 6 = SET_RESULT(key),
   109 = the waker [key] was invoked.  After a SET_RESULT on a slot that holds
   waker w, the invocation of w is owed: it must be observed before the driver
   thread does anything else that the acceptor knows (next set_waker,
   set_result, or user-level event).                                          *)

Fixpoint lookup (m : list (N * slot)) (k : N) : slot :=
  match m with
  | [] => SPending None
  | (k0, s) :: r => if N.eqb k0 k then s else lookup r k
  end.

Fixpoint update (m : list (N * slot)) (k : N) (s : slot) : list (N * slot) :=
  match m with
  | [] => [(k, s)]
  | (k0, s0) :: r => if N.eqb k0 k then (k0, s) :: r else (k0, s0) :: update r k s
  end.

Record wst := mk_wst { slots : list (N * slot); owed : option N }.

Definition winit : wst := mk_wst [] None.

(* events of the driver thread that must not happen while a wake is owed *)
Definition wstrict (kind : N) : bool :=
  N.eqb kind 6 || N.eqb kind 108 || (N.leb 101 kind && negb (N.eqb kind 109)).

Definition wstep (s : wst) (kind key arg : N) : option wst :=
  if N.eqb kind 109 then
    (* an invocation: discharges the owed wake when it is that waker; any other
       invocation is a spurious wake-up, which is allowed *)
    match owed s with
    | Some w => if N.eqb w key then Some (mk_wst (slots s) None) else Some s
    | None => Some s
    end
  else
  match owed s with
  | Some _ => if wstrict kind then None else Some s
  | None =>
    if N.eqb kind 108 then
      Some (mk_wst (update (slots s) key (set_waker (lookup (slots s) key) arg)) None)
    else if N.eqb kind 6 then
      match set_result (lookup (slots s) key) arg with
      | Some (sl, w) => Some (mk_wst (update (slots s) key sl) w)
      | None => None
      end
    else Some s
  end.

Fixpoint wreplay (s : wst) (l : list N) (fuel i : nat) : wst + nat :=
  match fuel with
  | O => inl s
  | S f =>
    match l with
    | kind :: key :: arg :: r =>
      match wstep s kind key arg with
      | Some s' => wreplay s' r f (S i)
      | None => inr i
      end
    | _ => inl s
    end
  end.

(* accepted, and no wake left owed at the end of the history *)
Definition waccept (l : list N) : option nat :=
  match wreplay winit l (length l) 0 with
  | inl s => match owed s with None => None | Some _ => Some (length l / 3) end
  | inr i => Some i
  end.
