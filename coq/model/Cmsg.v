(* Cmsg.v — executable model of compio-io's ancillary (control message) codec
   (compio-io/src/ancillary/{mod,sys}.rs) over the Linux x86_64 layout:
     struct cmsghdr { size_t cmsg_len; int cmsg_level; int cmsg_type; }   16 bytes
     CMSG_ALIGN(n) = (n + 7) & !7,  CMSG_LEN(n) = 16 + n,  CMSG_SPACE(n) = 16 + ALIGN(n)
     CMSG_FIRSTHDR / CMSG_NXTHDR as libc 0.2.189 defines them (gnu).
   A control buffer is a byte list; pointers are offsets into it.
   No proofs in this file. *)
From Compio.Model Require Import Base Frame.

Definition HDR : nat := 16.                  (* sizeof(cmsghdr) = CMSG_LEN(0) = CMSG_SPACE(0) *)
Definition ISIZE_MAX : N := 9223372036854775807%N.

(* a panic inside libc's `extern "C"` helpers cannot unwind, and a failed
   unsafe-precondition check never unwinds: the process aborts (runner: `2 4`) *)
Definition P_ABORT : N := 4.

Definition align8 (n : nat) : nat := (n + 7) / 8 * 8.
Definition cmsg_len (size : nat) : nat := HDR + size.
Definition cmsg_space (size : nat) : nat := align8 size + HDR.

(* little-endian fields *)
Definition get_le (k off : nat) (buf : list byte) : N := le_value (firstn k (skipn off buf)).

Record msg := mkmsg { m_level : N; m_type : N; m_data : list byte }.

(* ---------------------------------------------------------------------- *)
(* CMsgIter: { len; offset }                                                *)

(* CMsgIter::new: assert!(len >= CMSG_SPACE(0), "buffer too short"); the
   buffers of the harness are aligned; CMSG_FIRSTHDR then is the start *)
Definition iter_new (len : nat) : R (option nat) :=
  if Nat.ltb len HDR then Panic P_OTHER else Ok (Some 0).

(* CMSG_NXTHDR for the header at [o] whose cmsg_len field holds [clen].
   User-space addresses are below 2^47, so a wrapped pointer sum is smaller
   than the header's address (=> null) exactly when the unwrapped sum is
   beyond the buffer (=> null as well); the one address-dependent value of
   clen for which `next + 16` itself overflows is not modelled. *)
Definition nxthdr (len o : nat) (clen : N) : R (option nat) :=
  if (clen <? NN HDR)%N then Ok None else
  (* CMSG_ALIGN: `len + 7` in checked usize arithmetic, inside an extern "C" fn *)
  if (USIZE_MAX <? clen + 7)%N then Panic P_ABORT else
  let aligned := ((clen + 7) / 8 * 8)%N in
  if (NN len <? NN o + aligned + NN HDR)%N then Ok None
  else Ok (Some (o + nn aligned)).

(* CMsgIter::is_space_enough *)
Definition space_enough (len : nat) (off : option nat) (size : nat) : bool :=
  match off with
  | Some o => Nat.leb (o + cmsg_space size) len
  | None => false
  end.

(* ---------------------------------------------------------------------- *)
(* AncillaryBuilder over a buffer of capacity [length b_cells]               *)

Record builder := mkb { b_cells : list byte; b_len : nat; b_off : option nat }.

(* AncillaryBuilder::new: set_len(0), ensure_init (zero fill), CMsgIter::new *)
Definition builder_new (cap : nat) : R builder :=
  let! off := iter_new cap in
  Ok (mkb (repeat 0%N cap) 0 off).

Definition hdr_bytes (m : msg) : list byte :=
  le_bytes 8 (NN (cmsg_len (length (m_data m)))) ++ le_bytes 4 (m_level m) ++ le_bytes 4 (m_type m).

(* AncillaryBuilder::push: None = refused with CodecError::BufferTooSmall *)
Definition push (b : builder) (m : msg) : R (option builder) :=
  let size := length (m_data m) in
  if negb (space_enough (length (b_cells b)) (b_off b) size) then Ok None else
  match b_off b with
  | None => Ok None
  | Some o =>
    let cells := write_at (b_cells b) o (hdr_bytes m ++ m_data m) in
    (* buffer.advance(CMSG_SPACE(size)); AncillaryBuf::set_len debug_asserts len <= N *)
    let len' := b_len b + cmsg_space size in
    if Nat.ltb (length cells) len' then Panic P_ASSERT else
    let! off' := nxthdr (length cells) o (NN (cmsg_len size)) in
    Ok (Some (mkb cells len' off'))
  end.

(* push every message; status 0 = pushed, 1 = refused *)
Fixpoint push_all (b : builder) (ms : list msg) : R (list N * builder) :=
  match ms with
  | [] => Ok ([], b)
  | m :: ms' =>
    let! o := push b m in
    match o with
    | None => let! '(st, b') := push_all b ms' in Ok (1%N :: st, b')
    | Some b1 => let! '(st, b') := push_all b1 ms' in Ok (0%N :: st, b')
    end
  end.

(* the part of the buffer that is handed to sendmsg / to the iterator *)
Definition filled (b : builder) : list byte := firstn (b_len b) (b_cells b).

Definition build (cap : nat) (ms : list msg) : R (list N * list byte) :=
  let! b := builder_new cap in
  let! '(st, b') := push_all b ms in
  Ok (st, filled b').

(* the messages that were accepted, in order *)
Fixpoint accepted (st : list N) (ms : list msg) : list msg :=
  match st, ms with
  | s :: st', m :: ms' => if N.eqb s 0 then m :: accepted st' ms' else accepted st' ms'
  | _, _ => []
  end.

(* ---------------------------------------------------------------------- *)
(* AncillaryIter / AncillaryRef                                             *)

Inductive dstatus :=
| DOk (bytes : list byte)     (* T::decode succeeded and read these bytes        *)
| DTooSmall                   (* CodecError::BufferTooSmall                      *)
| DSkipped.                   (* harness: the read would leave the buffer        *)

Record citem := mkci {
  ci_level : N; ci_type : N; ci_len : N;    (* the header fields               *)
  ci_off : nat;                              (* start of the slice given to decode *)
  ci_slen : N;                               (* its length                      *)
  ci_typed : dstatus                         (* decode of a type of the wanted size *)
}.

(* CMsgRef::decode_data: which slice AncillaryData::decode is handed
   (data pointer, cmsg_len - CMSG_LEN(0), saturating) *)
Definition data_slice (o : nat) (clen : N) : nat * N := (o + HDR, (clen - NN HDR)%N).

(* the same before commit 22bb801 (D14): length = cmsg_len, header included *)
Definition data_slice_v0 (o : nat) (clen : N) : nat * N := (o + HDR, clen).

Definition decode_item (buf : list byte) (o : nat) (clen : N) (want : nat) : R citem :=
  let '(off, slen) := data_slice o clen in
  (* slice::from_raw_parts checks len <= isize::MAX when debug assertions are on *)
  if (ISIZE_MAX <? slen)%N then Panic P_ABORT else
  let typed :=
    if (slen <? NN want)%N then DTooSmall
    else if Nat.ltb (length buf) (off + want) then DSkipped
    else DOk (sub_list buf off want) in
  Ok (mkci (get_le 4 (o + 8) buf) (get_le 4 (o + 12) buf) clen off slen typed).

(* AncillaryIter::next until None; [wants]: size of the type decoded from the
   i-th message ([dw] when the list is exhausted); [fuel] = buffer length *)
Fixpoint iter_loop (fuel : nat) (buf : list byte) (o : nat) (wants : list nat) (dw : nat)
  : R (list citem) :=
  match fuel with
  | O => Panic P_HANG
  | S k =>
    let clen := get_le 8 o buf in
    let! nxt := nxthdr (length buf) o clen in
    let! it := decode_item buf o clen (hd dw wants) in
    match nxt with
    | None => Ok [it]
    | Some o' => let! r := iter_loop k buf o' (tl wants) dw in Ok (it :: r)
    end
  end.

Definition iterate (buf : list byte) (wants : list nat) (dw : nat) : R (list citem) :=
  let! off := iter_new (length buf) in
  match off with
  | None => Ok []
  | Some o => iter_loop (length buf) buf o wants dw
  end.

(* what a reader recovers from an item: level, type, data *)
Definition item_msg (buf : list byte) (it : citem) : msg :=
  mkmsg (ci_level it) (ci_type it) (sub_list buf (ci_off it) (nn (ci_slen it))).
