(* RunC18.v — replay of a recorded dispatcher run through the LTS of
   model/Dispatch.v (C18).

   The harness records, in one total order, what is visible from outside:
   the return of every dispatch call (in channel order: the harness serialises
   the sends), the first poll and the end of every closure with the worker it
   ran on, the start and the return of join.  What the worker loop does in
   between (receive, spawn, leave, the thread's end, a panic of its driver) is
   not visible; the replay inserts those steps at the latest possible moment,
   each of them a step of the LTS:
     - before a closure starts on worker w, every spawnable queued before it is
       received and spawned by the worker it later starts on (FIFO channel);
     - before a dispatch that found no receiver, and before join returns, the
       workers end (ELeave/EExit, or EPanic for a worker whose driver is broken).
   Every recorded history must be a run, and the receiver states / the join
   result the model ends with are compared with the observed ones.

   input : [workers; concurrent; broken_driver; (kind a b)*]
     kind 1: dispatch returned: a = closure id, b = ok + 10 * (worker it later starts on + 1)
     kind 2: closure a called on worker b     kind 3: closure a ends (b = 1) / panics (b = 0)
     kind 4: join called                      kind 5: join returned (a = 1: a panic was re-raised)
   output: [1; events; accepted; (1 result | 2 canceled | 3 nothing)*; join (1 ok, 2 panic, 0 none)]
        or [0; index of the rejected event; its kind]
   No proofs here. *)
From Compio.Model Require Import Base Dispatch.

Record rs := mk_rs {
  r_st : dst;
  r_ids : list nat;        (* closure id of task 0, 1, ... (acceptance order) *)
  r_owner : list nat       (* worker + 1 the task later starts on, 0 = never started *)
}.

Definition do1 (s : dst) (e : ev) : option dst := step s e.

Fixpoint do_all (s : dst) (es : list ev) : option dst :=
  match es with
  | [] => Some s
  | e :: r => match step s e with Some s' => do_all s' r | None => None end
  end.

Fixpoint index_of (h : nat) (l : list nat) (i : nat) : option nat :=
  match l with
  | [] => None
  | x :: r => if Nat.eqb x h then Some i else index_of h r (S i)
  end.

(* receive and spawn queued tasks, oldest first, until task t has been spawned *)
Fixpoint pop_until (fuel : nat) (s : dst) (owner : list nat) (t : nat) : option dst :=
  match fuel with
  | O => None
  | S f =>
    match nth_error (ts s) t with
    | Some x =>
      match ph x with
      | TQueued =>
        match q s with
        | [] => None
        | u :: _ =>
          match nth u owner 0 with
          | O => None                       (* a task that never starts would have to be received *)
          | S w =>
            match do_all s [ERecv w u; ESpawn w u] with
            | Some s' => pop_until f s' owner t
            | None => None
            end
          end
        end
      | _ => Some s
      end
    | None => None
    end
  end.

(* the workers end: broken ones panic (where they wait), the others leave *)
Fixpoint end_workers (s : dst) (broken : bool) (w n : nat) : option dst :=
  match n with
  | O => Some s
  | S k =>
    match nth_error (ws s) w with
    | Some (WDead _) => end_workers s broken (S w) k
    | Some _ =>
      match (if broken then do_all s [EPanic w] else do_all s [ELeave w; EExit w]) with
      | Some s' => end_workers s' broken (S w) k
      | None => None
      end
    | None => None
    end
  end.

Definition owner_of_task (s : dst) (t : nat) : option nat :=
  match nth_error (ts s) t with
  | Some x => match ph x with
              | TSpawned w | TRunning w => Some w
              | _ => None
              end
  | None => None
  end.

Definition vstep (broken : bool) (r : rs) (k a b : nat) : option rs :=
  let s := r_st r in
  match k with
  | 1 =>
    if Nat.eqb (b mod 10) 1 then
      match step s (EDispatch true) with
      | Some s' => Some (mk_rs s' (r_ids r ++ [a]) (r_owner r ++ [b / 10]))
      | None => None
      end
    else
      (* Err(DispatchError): every receiver is gone *)
      match end_workers s broken 0 (length (ws s)) with
      | Some s1 => match step s1 (EDispatch false) with
                   | Some s' => Some (mk_rs s' (r_ids r) (r_owner r))
                   | None => None
                   end
      | None => None
      end
  | 2 =>
    match index_of a (r_ids r) 0 with
    | Some t =>
      match pop_until (S (length (ts s))) s (r_owner r) t with
      | Some s1 => match step s1 (EStart b t) with
                   | Some s' => Some (mk_rs s' (r_ids r) (r_owner r))
                   | None => None
                   end
      | None => None
      end
    | None => None
    end
  | 3 =>
    match index_of a (r_ids r) 0 with
    | Some t =>
      match owner_of_task s t with
      | Some w => match step s (EFinish w t (Nat.eqb b 1)) with
                  | Some s' => Some (mk_rs s' (r_ids r) (r_owner r))
                  | None => None
                  end
      | None => None
      end
    | None => None
    end
  | 4 => match step s EJoinBegin with
         | Some s' => Some (mk_rs s' (r_ids r) (r_owner r))
         | None => None
         end
  | 5 =>
    (* a worker with a broken driver panics only if it went idle before the
       channel closed; the join result tells whether one did *)
    match end_workers s (broken && Nat.eqb a 1) 0 (length (ws s)) with
    | Some s1 => match step s1 (EJoinReturn (Nat.eqb a 1)) with
                 | Some s' => Some (mk_rs s' (r_ids r) (r_owner r))
                 | None => None
                 end
    | None => None
    end
  | _ => None
  end.

Fixpoint replay (broken : bool) (r : rs) (l : list N) (i : nat) (fuel : nat) : rs + (nat * N) :=
  match fuel with
  | O => inl r
  | S f =>
    match l with
    | k :: a :: b :: rest =>
      match vstep broken r (nn k) (nn a) (nn b) with
      | Some r' => replay broken r' rest (S i) f
      | None => inr (i, k)
      end
    | _ => inl r
    end
  end.

Fixpoint boot_all (s : dst) (w n : nat) : option dst :=
  match n with
  | O => Some s
  | S k => match step s (EBoot w true) with Some s' => boot_all s' (S w) k | None => None end
  end.

Definition rcv_code (x : task) : N :=
  match rc x with RResult => 1 | RCanceled => 2 | RNone => 3 end%N.

Definition run_c18 (l : list N) : list N :=
  match l with
  | w :: c :: br :: evs =>
    if negb (Nat.eqb (length evs mod 3) 0) then BAD_CASE else
    match boot_all (init (N.eqb c 1) (nn w)) 0 (nn w) with
    | None => BAD_CASE
    | Some s0 =>
      let n := length evs / 3 in
      match replay (N.eqb br 1) (mk_rs s0 [] []) evs 0 n with
      | inl r =>
        let s := r_st r in
        [1%N; NN n; NN (length (ts s))] ++ map rcv_code (ts s)
        ++ [match jp s with JReturned false => 1 | JReturned true => 2 | _ => 0 end%N]
      | inr (i, k) => [0%N; NN i; k]
      end
    end
  | _ => BAD_CASE
  end.
