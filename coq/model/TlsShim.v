(* TlsShim.v — executable model of compio's own logic around the TLS and
   WebSocket protocol engines.  No proofs in this file.

   compio-tls/src/compat/common.rs
     OpensslInner  : `written` / `handshaken`; while handshaking, poll_read first
                     flushes what was written and poll_flush does nothing.
     AllowStd      : the would-block shim: the synchronous engine calls
                     Read::read / Write::write / Write::flush; a Pending poll of
                     the transport becomes io::ErrorKind::WouldBlock.
   compio-tls/src/compat/native.rs
     TlsStream::with_context : the engine's WouldBlock becomes Poll::Pending.
     StartedHandshakeFuture / MidHandshake / handshake : the driving loop: first
                     call, resume on every poll until the engine is done, then
                     finish_handshake and flush.
     poll_close    : shutdown once, then flush until the alert has left.
   compio-ws/src/lib.rs
     Stream::poll_next : an item taken from the protocol engine is parked in
                     `next_item` and handed out only after the engine's write
                     queue and the transport have been flushed.
     Sink::poll_flush  : engine flush, then transport flush.

   The protocol engines (OpenSSL behind native-tls, tungstenite) are NOT
   modelled: an engine is a Section variable — a resumable process that issues
   I/O callbacks — and the theorems quantify over every such process (some of
   them under written-down hypotheses).  The transport is an interface record
   with two instances: a scripted in-memory pipe (schedule of answers + payload)
   and the poll adapter of compio-io (model/Compat.v, property C12). *)
From Compio.Model Require Import Base IoHelpers Compat.

(* ---------------------------------------------------------------------- *)
(* transport interface                                                      *)

Inductive tres :=
| TOk (bs : list byte)   (* read: the bytes delivered ([] = end of stream);
                            write: the prefix accepted; flush: [] *)
| TPend                  (* Poll::Pending: the transport keeps the waker *)
| TErr (k : N).

Record transport (T : Type) := mktransport {
  t_read  : T -> nat -> R (tres * T);
  t_write : T -> list byte -> R (tres * T);
  t_flush : T -> R (tres * T);
  t_wake  : T -> T            (* the environment between two polls of the task *)
}.
Arguments t_read {T}. Arguments t_write {T}. Arguments t_flush {T}. Arguments t_wake {T}.

Inductive tcall := TcRead (cap : nat) | TcWrite (d : list byte) | TcFlush.

(* ---------------------------------------------------------------------- *)
(* the shim: OpensslInner + AllowStd                                        *)

Record shim := mkshim { written : bool; handshaken : bool }.
Definition shim0 : shim := mkshim false false.
Definition set_written (s : shim) (b : bool) : shim := mkshim b (handshaken s).
Definition finish_handshake (s : shim) : shim := mkshim (written s) true.

(* the engine's callbacks (std::io::{Read, Write} on AllowStd) *)
Inductive cb := CbRead (cap : nat) | CbWrite (d : list byte) | CbFlush.
Inductive cbret := ROk (bs : list byte) | RWouldBlock | RErr (k : N).

(* AllowStd::with_context: Ready(r) => r, Pending => Err(WouldBlock) *)
Definition ret_of (r : tres) : cbret :=
  match r with TOk bs => ROk bs | TPend => RWouldBlock | TErr k => RErr k end.

(* what the engine finally reports for one API call (handshake / read / write
   / shutdown), and what the poll entry point makes of it *)
Inductive eend := EDone | EWouldBlock | EFail.
Inductive hres := HOk | HPend | HErr.
(* TlsStream::with_context / MidHandshake::poll *)
Definition poll_of (e : eend) : hres :=
  match e with EDone => HOk | EWouldBlock => HPend | EFail => HErr end.

Inductive ev :=
| EvT (c : tcall) (r : tres)              (* transport call and its answer *)
| EvCb (c : cb) (r : cbret) (s : shim)    (* callback, its result, flags after *)
| EvFinish                                (* finish_handshake *)
| EvApi (e : eend)                        (* an engine API call ended *)
| EvPoll (r : hres)                       (* a poll entry point returned *)
| EvWake.                                 (* the environment woke the task *)

Definition P_POLLED_AFTER_COMPLETION : N := 9.

(* what the engine does next: ask for a callback, or end the API call *)
Inductive eact := ACall (c : cb) | AEnd (e : eend).

(* states of the `handshake()` future *)
Inductive hs_st := HsStart | HsMid | HsFlushing | HsDone | HsFailed.

Section Shim.
  Context {T : Type} (tp : transport T).

  (* OpensslInner::poll_read: `loop { if !handshaken && written { flush .. }
     else { break inner.poll_read } }` with an iteration budget *)
  Fixpoint inner_read (fuel : nat) (s : shim) (cap : nat) (t : T) (log : list ev)
    : R (tres * shim * T * list ev) :=
    match fuel with
    | O => Panic P_HANG
    | S f =>
      if negb (handshaken s) && written s then
        let! '(r, t1) := t_flush tp t in
        let log1 := log ++ [EvT TcFlush r] in
        match r with
        | TOk _ => inner_read f (set_written s false) cap t1 log1
        | _ => Ok (r, s, t1, log1)
        end
      else
        let! '(r, t1) := t_read tp t cap in
        Ok (r, s, t1, log ++ [EvT (TcRead cap) r])
    end.

  Definition READ_FUEL : nat := 2.

  (* OpensslInner::poll_write *)
  Definition inner_write (s : shim) (d : list byte) (t : T) (log : list ev)
    : R (tres * shim * T * list ev) :=
    let! '(r, t1) := t_write tp t d in
    let s1 := match r with TOk _ => set_written s true | _ => s end in
    Ok (r, s1, t1, log ++ [EvT (TcWrite d) r]).

  (* OpensslInner::poll_flush *)
  Definition inner_flush (s : shim) (t : T) (log : list ev)
    : R (tres * shim * T * list ev) :=
    if handshaken s then
      let! '(r, t1) := t_flush tp t in
      Ok (r, s, t1, log ++ [EvT TcFlush r])
    else Ok (TOk [], s, t, log).

  (* one callback of the engine through AllowStd *)
  Definition cb_run_fuel (fuel : nat) (s : shim) (c : cb) (t : T) (log : list ev)
    : R (cbret * shim * T * list ev) :=
    let! '(r, s1, t1, log1) :=
      match c with
      | CbRead cap => inner_read fuel s cap t log
      | CbWrite d => inner_write s d t log
      | CbFlush => inner_flush s t log
      end in
    Ok (ret_of r, s1, t1, log1 ++ [EvCb c (ret_of r) s1]).
  Definition cb_run := cb_run_fuel READ_FUEL.

  (* -------------------------------------------------------------------- *)
  (* the protocol engine: a resumable process.  [eng e None] enters (or
     re-enters, after WouldBlock) the API function; [eng e (Some r)] returns r
     from the callback the engine asked for. *)
  Variable E : Type.
  Variable eng : E -> option cbret -> E * eact.

  (* one API call: run the engine until it reports; [fuel] bounds the number of
     callbacks (running out = the call does not return) *)
  Fixpoint api_loop (fuel : nat) (e : E) (inp : option cbret) (s : shim) (t : T) (log : list ev)
    : R (eend * E * shim * T * list ev) :=
    match fuel with
    | O => Panic P_HANG
    | S f =>
      match eng e inp with
      | (e1, AEnd r) => Ok (r, e1, s, t, log ++ [EvApi r])
      | (e1, ACall c) =>
        let! '(ret, s1, t1, log1) := cb_run s c t log in
        api_loop f e1 (Some ret) s1 t1 log1
      end
    end.

  Definition api_call (fuel : nat) (e : E) (s : shim) (t : T) (log : list ev) :=
    api_loop fuel e None s t log.

  (* a poll entry point of the established stream (poll_read / poll_write):
     TlsStream::with_context *)
  Definition top_poll (fuel : nat) (e : E) (s : shim) (t : T) (log : list ev)
    : R (hres * E * shim * T * list ev) :=
    let! '(r, e1, s1, t1, log1) := api_call fuel e s t log in
    Ok (poll_of r, e1, s1, t1, log1 ++ [EvPoll (poll_of r)]).

  (* TlsStream::poll_flush: native_tls::TlsStream::flush goes straight to
     AllowStd::flush *)
  Definition hres_of_cb (r : cbret) : hres :=
    match r with ROk _ => HOk | RWouldBlock => HPend | RErr _ => HErr end.

  Definition flush_poll (s : shim) (t : T) (log : list ev)
    : R (hres * shim * T * list ev) :=
    let! '(r, s1, t1, log1) := cb_run s CbFlush t log in
    Ok (hres_of_cb r, s1, t1, log1 ++ [EvPoll (hres_of_cb r)]).

  (* TlsStream::poll_close: `if !sent { ready!(shutdown)?; sent = true }; flush` *)
  Definition close_poll (fuel : nat) (sent : bool) (e : E) (s : shim) (t : T) (log : list ev)
    : R (hres * bool * E * shim * T * list ev) :=
    if sent then
      let! '(r, s1, t1, log1) := flush_poll s t log in Ok (r, true, e, s1, t1, log1)
    else
      let! '(r, e1, s1, t1, log1) := api_call fuel e s t log in
      match r with
      | EDone =>
        let! '(r2, s2, t2, log2) := flush_poll s1 t1 log1 in Ok (r2, true, e1, s2, t2, log2)
      | _ => Ok (poll_of r, false, e1, s1, t1, log1 ++ [EvPoll (poll_of r)])
      end.

  (* -------------------------------------------------------------------- *)
  (* the handshake future: `handshake()` of native.rs as a state machine     *)

  (* finish_handshake(); stream.flush().await *)
  Definition hs_finish_flush (first : bool) (s : shim) (t : T) (log : list ev)
    : R (hres * hs_st * shim * T * list ev) :=
    let s0 := if first then finish_handshake s else s in
    let log0 := if first then log ++ [EvFinish] else log in
    let! '(r, s1, t1, log1) := cb_run s0 CbFlush t log0 in
    match r with
    | ROk _ => Ok (HOk, HsDone, s1, t1, log1)
    | RWouldBlock => Ok (HPend, HsFlushing, s1, t1, log1)
    | RErr _ => Ok (HErr, HsFailed, s1, t1, log1)
    end.

  Definition hs_after (r : eend) (e : E) (s : shim) (t : T) (log : list ev)
    : R (hres * hs_st * E * shim * T * list ev) :=
    match r with
    | EDone =>
      let! '(h, st, s1, t1, log1) := hs_finish_flush true s t log in Ok (h, st, e, s1, t1, log1)
    | EWouldBlock => Ok (HPend, HsMid, e, s, t, log)
    | EFail => Ok (HErr, HsFailed, e, s, t, log)
    end.

  (* one poll of the future, up to the value it returns *)
  Definition hs_poll_body (fuel : nat) (st : hs_st) (e : E) (s : shim) (t : T) (log : list ev)
    : R (hres * hs_st * E * shim * T * list ev) :=
    match st with
    | HsStart =>
      (* StartedHandshakeFuture: the first call; Mid => MidHandshake is polled
         at once, within the same poll of the task *)
      let! '(r, e1, s1, t1, log1) := api_call fuel e s t log in
      match r with
      | EWouldBlock =>
        let! '(r2, e2, s2, t2, log2) := api_call fuel e1 s1 t1 log1 in
        hs_after r2 e2 s2 t2 log2
      | _ => hs_after r e1 s1 t1 log1
      end
    | HsMid =>
      let! '(r, e1, s1, t1, log1) := api_call fuel e s t log in
      hs_after r e1 s1 t1 log1
    | HsFlushing =>
      let! '(h, st1, s1, t1, log1) := hs_finish_flush false s t log in
      Ok (h, st1, e, s1, t1, log1)
    | HsDone | HsFailed => Panic P_POLLED_AFTER_COMPLETION
    end.

  Definition hs_poll (fuel : nat) (st : hs_st) (e : E) (s : shim) (t : T) (log : list ev)
    : R (hres * hs_st * E * shim * T * list ev) :=
    let! '(h, st1, e1, s1, t1, log1) := hs_poll_body fuel st e s t log in
    Ok (h, st1, e1, s1, t1, log1 ++ [EvPoll h]).

  (* the task: polled again after every wake-up until the future is ready;
     [polls] bounds the number of polls *)
  Fixpoint hs_run (polls fuel : nat) (st : hs_st) (e : E) (s : shim) (t : T) (log : list ev)
    : R (hres * hs_st * E * shim * T * list ev) :=
    match polls with
    | O => Panic P_HANG
    | S p =>
      let! '(h, st1, e1, s1, t1, log1) := hs_poll fuel st e s t log in
      match h with
      | HPend => hs_run p fuel st1 e1 s1 (t_wake tp t1) (log1 ++ [EvWake])
      | _ => Ok (h, st1, e1, s1, t1, log1)
      end
    end.

End Shim.

(* ---------------------------------------------------------------------- *)
(* observers on the event log                                               *)

(* bytes the engine was told it wrote / read *)
Definition eng_wrote_of (e : ev) : list byte :=
  match e with EvCb (CbWrite d) (ROk bs) _ => bs | _ => [] end.
Definition eng_read_of (e : ev) : list byte :=
  match e with EvCb (CbRead _) (ROk bs) _ => bs | _ => [] end.
(* bytes the transport accepted / delivered *)
Definition tr_accepted_of (e : ev) : list byte :=
  match e with EvT (TcWrite d) (TOk bs) => bs | _ => [] end.
Definition tr_delivered_of (e : ev) : list byte :=
  match e with EvT (TcRead _) (TOk bs) => bs | _ => [] end.

Definition eng_wrote (log : list ev) := flat_map eng_wrote_of log.
Definition eng_read (log : list ev) := flat_map eng_read_of log.
Definition tr_accepted (log : list ev) := flat_map tr_accepted_of log.
Definition tr_delivered (log : list ev) := flat_map tr_delivered_of log.

(* ghost: bytes accepted by the transport since its last completed flush —
   what a transport that holds data back until flushed is still holding *)
Definition unflushed_step (u : list byte) (e : ev) : list byte :=
  match e with
  | EvT (TcWrite _) (TOk bs) => u ++ bs
  | EvT TcFlush (TOk _) => []
  | _ => u
  end.
Definition unflushed (log : list ev) : list byte := fold_left unflushed_step log [].

(* the flush-before-wait checker: scans a log keeping (handshaken?, held-back
   bytes, verdict); the verdict turns false at a transport read issued in
   handshake mode while bytes are held back *)
Definition is_nil {A} (l : list A) : bool := match l with [] => true | _ => false end.
Definition fbw_step (st : bool * list byte * bool) (e : ev) : bool * list byte * bool :=
  let '(hs, u, ok) := st in
  match e with
  | EvFinish => (true, u, ok)
  | EvT (TcRead _) _ => (hs, u, ok && (hs || is_nil u))
  | _ => (hs, unflushed_step u e, ok)
  end.
Definition fbw (log : list ev) : bool * list byte * bool := fold_left fbw_step log (false, [], true).
Definition fbw_ok (log : list ev) : bool := snd (fbw log).

(* number of transport calls / of Pending answers in a log *)
Definition is_tcall (e : ev) : bool := match e with EvT _ _ => true | _ => false end.
Definition is_tpend (e : ev) : bool := match e with EvT _ TPend => true | _ => false end.
Definition is_pollpend (e : ev) : bool := match e with EvPoll HPend => true | _ => false end.
Definition is_cb (e : ev) : bool := match e with EvCb _ _ _ => true | _ => false end.
Definition is_finish (e : ev) : bool := match e with EvFinish => true | _ => false end.
Definition count {A} (f : A -> bool) (l : list A) : nat := length (filter f l).

(* ---------------------------------------------------------------------- *)
(* instance 1: a scripted in-memory pipe.  Every call takes the next answer of
   the schedule ([CPending] = Poll::Pending); reads deliver from [psrc]; what
   writes accept is appended to [psink].  An exhausted schedule answers like a
   closed pipe (read 0 bytes, write 0 bytes, flush ok). *)

Record pipe := mkpipe { psched : list cans; psrc : list byte; psink : list byte }.

Definition pipe_next (p : pipe) : option cans * list cans :=
  match psched p with [] => (None, []) | a :: r => (Some a, r) end.

Definition pipe_read (p : pipe) (cap : nat) : R (tres * pipe) :=
  match pipe_next p with
  | (None, r) => Ok (TOk [], mkpipe r (psrc p) (psink p))
  | (Some CPending, r) => Ok (TPend, mkpipe r (psrc p) (psink p))
  | (Some (CA a), r) =>
    match reader_step a cap (psrc p) with
    | (RN _, bs, src') => Ok (TOk bs, mkpipe r src' (psink p))
    | (RE k, _, src') => Ok (TErr k, mkpipe r src' (psink p))
    end
  end.

Definition pipe_write (p : pipe) (d : list byte) : R (tres * pipe) :=
  match pipe_next p with
  | (None, r) => Ok (TOk [], mkpipe r (psrc p) (psink p))
  | (Some CPending, r) => Ok (TPend, mkpipe r (psrc p) (psink p))
  | (Some (CA a), r) =>
    match writer_step a d with
    | (RN _, bs) => Ok (TOk bs, mkpipe r (psrc p) (psink p ++ bs))
    | (RE k, _) => Ok (TErr k, mkpipe r (psrc p) (psink p))
    end
  end.

Definition pipe_flush (p : pipe) : R (tres * pipe) :=
  match pipe_next p with
  | (None, r) => Ok (TOk [], mkpipe r (psrc p) (psink p))
  | (Some CPending, r) => Ok (TPend, mkpipe r (psrc p) (psink p))
  | (Some (CA (AErr k)), r) => Ok (TErr k, mkpipe r (psrc p) (psink p))
  | (Some (CA _), r) => Ok (TOk [], mkpipe r (psrc p) (psink p))
  end.

Definition pipe_tp : transport pipe := mktransport pipe pipe_read pipe_write pipe_flush (fun p => p).

(* ---------------------------------------------------------------------- *)
(* instance 2: compio_io::compat::AsyncStream (model/Compat.v).  One waker (the
   task's); between two polls the environment completes the blocked inner
   operations (PWakeR, PWakeW).  [cfuel] is the loop budget of the adapter. *)

Definition TASK_WAKER : nat := 0.

Definition compat_read (cfuel : nat) (s : stream) (cap : nat) : R (tres * stream) :=
  let! '(o, s1) := poll_step_fuel cfuel (PRead E_READ TASK_WAKER cap) s in
  match o with
  | ORd (PRBytes bs) => Ok (TOk bs, s1)
  | ORd (PRErr k) => Ok (TErr k, s1)
  | ORd PRPending => Ok (TPend, s1)
  | _ => Panic P_OTHER
  end.

Definition compat_write (cfuel : nat) (s : stream) (d : list byte) : R (tres * stream) :=
  let! '(o, s1) := poll_step_fuel cfuel (PWrite TASK_WAKER d) s in
  match o with
  | OWr _ (PRCount k) => Ok (TOk (firstn k d), s1)
  | OWr _ (PRErr k) => Ok (TErr k, s1)
  | OWr _ PRPending => Ok (TPend, s1)
  | _ => Panic P_OTHER
  end.

Definition compat_flush (cfuel : nat) (s : stream) : R (tres * stream) :=
  let! '(o, s1) := poll_step_fuel cfuel (PFlush TASK_WAKER) s in
  match o with
  | OCtl (PRCount _) => Ok (TOk [], s1)
  | OCtl (PRErr k) => Ok (TErr k, s1)
  | OCtl PRPending => Ok (TPend, s1)
  | _ => Panic P_OTHER
  end.

Definition compat_wake (s : stream) : stream :=
  let '(_, h1) := rd_wake (rh s) in
  let '(_, h2) := wr_wake (wh s) in
  mkst h1 h2.

Definition compat_tp (cfuel : nat) : transport stream :=
  mktransport stream (compat_read cfuel) (compat_write cfuel) (compat_flush cfuel) compat_wake.

(* the program of adapter calls a log stands for *)
Definition pop_of_ev (e : ev) : list pop :=
  match e with
  | EvT (TcRead cap) _ => [PRead E_READ TASK_WAKER cap]
  | EvT (TcWrite d) _ => [PWrite TASK_WAKER d]
  | EvT TcFlush _ => [PFlush TASK_WAKER]
  | EvWake => [PWakeR; PWakeW]
  | _ => []
  end.
Definition pops_of (log : list ev) : list pop := flat_map pop_of_ev log.

(* ---------------------------------------------------------------------- *)
(* a toy engine (used to show that the hypotheses about engines can be met):
   it writes three bytes, flushes, then needs one read to succeed; a callback
   that would block ends the API call with would-block and is retried on
   re-entry. *)

Inductive toy := TyStart | TyWrote | TyFlushed | TyReading | TyDone.

Definition toy_eng (e : toy) (inp : option cbret) : toy * eact :=
  match e, inp with
  | TyStart, None => (TyWrote, ACall (CbWrite [1; 2; 3]%N))
  | TyWrote, Some (ROk _) => (TyFlushed, ACall CbFlush)
  | TyWrote, Some RWouldBlock => (TyStart, AEnd EWouldBlock)
  | TyFlushed, Some (ROk _) => (TyReading, ACall (CbRead 4))
  | TyReading, None => (TyReading, ACall (CbRead 4))
  | TyReading, Some (ROk _) => (TyDone, AEnd EDone)
  | TyReading, Some RWouldBlock => (TyReading, AEnd EWouldBlock)
  | TyDone, _ => (TyDone, AEnd EDone)
  | _, _ => (e, AEnd EFail)
  end.

(* ---------------------------------------------------------------------- *)
(* compio-ws: Stream::poll_next and Sink::poll_flush around the protocol
   engine (async-tungstenite's stream) and the transport.  The environment is
   two schedules of answers: one for the engine's poll_next, one for the flush
   calls (engine flush and transport flush draw from the same one, in call
   order).  An exhausted schedule: the stream has ended / the flush succeeds. *)

Inductive nans :=
| NItem (m : N)      (* inner.poll_next: Ready(Some(item)); m identifies the item
                        (a message or an error of the engine) *)
| NEnd               (* inner.poll_next: Ready(None) *)
| NPend.
Inductive fans := FOk | FPend | FErr (k : N).

Inductive wcall := WcNext | WcFlushEngine | WcFlushTransport.

Inductive wres :=
| WYield (item : option N)    (* Ready(next_item): Some m / None = end of stream *)
| WYieldErr (k : N)           (* Ready(Some(Err(k))) from a failed flush *)
| WPending.

Definition nnext (ns : list nans) : nans * list nans :=
  match ns with [] => (NEnd, []) | a :: r => (a, r) end.
Definition fnext (fs : list fans) : fans * list fans :=
  match fs with [] => (FOk, []) | a :: r => (a, r) end.

(* `ready!(inner.poll_flush(cx))?; ready!(transport.poll_flush(cx))?` *)
Definition ws_flush2 (fs : list fans) (calls : list wcall) : fans * list fans * list wcall :=
  let '(a1, r1) := fnext fs in
  let calls1 := calls ++ [WcFlushEngine] in
  match a1 with
  | FOk =>
    let '(a2, r2) := fnext r1 in
    (a2, r2, calls1 ++ [WcFlushTransport])
  | _ => (a1, r1, calls1)
  end.

(* `loop { if next_item.is_some() { flush engine; flush transport;
            break Ready(next_item.take()) }
          else { next_item = Some(ready!(inner.poll_next)) } }`
   None as a result = the iteration budget ran out *)
Fixpoint ws_poll_next (fuel : nat) (next_item : option (option N)) (ns : list nans)
  (fs : list fans) (calls : list wcall)
  : option (wres * option (option N) * list nans * list fans * list wcall) :=
  match fuel with
  | O => None
  | S f =>
    match next_item with
    | Some item =>
      match ws_flush2 fs calls with
      | (FOk, fs1, calls1) => Some (WYield item, None, ns, fs1, calls1)
      | (FPend, fs1, calls1) => Some (WPending, next_item, ns, fs1, calls1)
      | (FErr k, fs1, calls1) => Some (WYieldErr k, next_item, ns, fs1, calls1)
      end
    | None =>
      let '(a, ns1) := nnext ns in
      let calls1 := calls ++ [WcNext] in
      match a with
      | NItem m => ws_poll_next f (Some (Some m)) ns1 fs calls1
      | NEnd => ws_poll_next f (Some None) ns1 fs calls1
      | NPend => Some (WPending, None, ns1, fs, calls1)
      end
    end
  end.

Definition WS_FUEL : nat := 2.

(* Sink::poll_flush *)
Definition ws_poll_flush (fs : list fans) (calls : list wcall) : wres * list fans * list wcall :=
  match ws_flush2 fs calls with
  | (FOk, fs1, calls1) => (WYield None, fs1, calls1)
  | (FPend, fs1, calls1) => (WPending, fs1, calls1)
  | (FErr k, fs1, calls1) => (WYieldErr k, fs1, calls1)
  end.

(* a reader task: poll_next again after every wake-up (and after an error,
   which it may retry); collects what was handed out; the flag says whether it
   saw the end of the stream *)
Fixpoint ws_reader (polls : nat) (next_item : option (option N)) (ns : list nans)
  (fs : list fans) (got : list N) (calls : list wcall)
  : list N * option (option N) * list nans * list fans * list wcall * bool :=
  match polls with
  | O => (got, next_item, ns, fs, calls, false)
  | S p =>
    match ws_poll_next WS_FUEL next_item ns fs calls with
    | None => (got, next_item, ns, fs, calls, false)
    | Some (WYield (Some m), ni, ns1, fs1, c) => ws_reader p ni ns1 fs1 (got ++ [m]) c
    | Some (WYield None, ni, ns1, fs1, c) => (got, ni, ns1, fs1, c, true)
    | Some (_, ni, ns1, fs1, c) => ws_reader p ni ns1 fs1 got c
    end
  end.

(* items the engine produces, in schedule order; the item parked in next_item *)
Definition nitem_of (a : nans) : list N := match a with NItem m => [m] | _ => [] end.
Definition nitems (ns : list nans) : list N := flat_map nitem_of ns.
Definition parked (ni : option (option N)) : list N :=
  match ni with Some (Some m) => [m] | _ => [] end.
