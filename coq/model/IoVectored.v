(* IoVectored.v — executable model of compio-io's vectored-exact reads
   (compio-io/src/read/ext.rs: read_vectored_exact, read_vectored_exact_at,
   macro loop_read_exact!; read/mod.rs: the DEFAULT AsyncRead::read_vectored /
   AsyncReadAt::read_vectored_at = macro loop_read_vectored! over
   VectoredBufIter, and <[u8] as AsyncReadAt>::read_vectored_at).
   No proofs in this file.

   The vectored buffer is Buf.v's model (members = roots, VectoredSlice from
   slice_mut(read), VectoredBufIter, set_len / advance_to / advance_vec_to), so
   the known C10 findings are part of this model wherever they are reachable.
   The scripted inner reader is IoHelpers' schedule of answers. *)
From Compio.Model Require Import Base IoHelpers Buf.

(* loop_read_vectored!: advance the iterator to the first member whose
   buf_capacity() (= as_uninit().len()) is not 0 *)
Fixpoint viter_seek (fuel : nat) (w : vview) (it : viter) (ms : list root)
  : R (option (viter * nat)) :=
  match fuel with
  | O => Ok None
  | S f =>
    let! rg := i_as_uninit w VBase (it, ms) in
    if 0 <? snd rg then Ok (Some (it, snd rg)) else
    match viter_next it with
    | Some it' => viter_seek f w it' ms
    | None => Ok None
    end
  end.

(* one call of the default read_vectored on the vectored view [w].  [a] is the
   inner reader's answer (None = script exhausted = Ok(0)); the first component
   is None when the reader was not called at all (no member has capacity) *)
Definition default_read_vectored (w : vview) (a : option answer) (src : list byte)
  (ms : list root) : R (option rres * list root * list byte) :=
  let! oi := viter_new w ms in
  match oi with
  | None => Ok (None, ms, src)
  | Some it =>
    let! pos := viter_seek (it_len it) w it ms in
    match pos with
    | None => Ok (None, ms, src)
    | Some (it', capacity) =>
      match a with
      | None => Ok (Some (RN 0), ms, src)
      | Some a =>
        match reader_step a capacity src with
        | (RN O, _, src') => Ok (Some (RN 0), ms, src')
        | (RN k, bs, src') =>
            (* the reader writes at the start of as_uninit() and advance_to(k) *)
            let! s' := i_fill CList w VBase bs (it', ms) in
            Ok (Some (RN k), snd s', src')
        | (RE e, _, src') => Ok (Some (RE e), ms, src')
        end
      end
    end
  end.

Definition total_capacity (ms : list root) : nat :=
  fold_right (fun m a => rcap m + a) 0 ms.

(* AsyncReadExt::read_vectored_exact: loop_read_exact!(buf, total_capacity, read,
   loop self.read_vectored(buf.slice_mut(read))) *)
Fixpoint rve_loop (sched : list answer) (src : list byte) (ms : list root) (len read : nat)
  : R (outcome * list root * list byte * list answer) :=
  if len <=? read then Ok (OOk read, ms, src, sched) else
  match sched with
  | [] =>
    let! w := mk_vslice true WBase read ms in
    let! '(_, ms', src') := default_read_vectored w None src ms in
    Ok (OErr E_UNEXPECTED_EOF, ms', src', [])
  | a :: sched' =>
    let! w := mk_vslice true WBase read ms in
    let! '(r, ms', src') := default_read_vectored w (Some a) src ms in
    match r with
    | None => Ok (OErr E_UNEXPECTED_EOF, ms', src', sched)
    | Some (RN O) => Ok (OErr E_UNEXPECTED_EOF, ms', src', sched')
    | Some (RN k) => rve_loop sched' src' ms' len (read + k)
    | Some (RE e) =>
      if is_intr e then rve_loop sched' src' ms' len read
      else Ok (OErr e, ms', src', sched')
    end
  end.

Definition read_vectored_exact (sched : list answer) (src : list byte) (ms : list root) :=
  rve_loop sched src ms (total_capacity ms) 0.

(* <[u8] as AsyncReadAt>::read_vectored_at on the vectored view [w]: copy into
   iter_uninit_slice() in order, then advance_vec_to(count) *)
Definition mem_read_vectored_at_view (this : list byte) (w : vview) (pos : nat)
  (ms : list root) : R (nat * list root) :=
  let s := skipn (Nat.min pos (length this)) this in
  let! rgs := iter_uninit w ms in
  let n := Nat.min (length s) (sum_len rgs) in
  let! ms' := advance_vec_to CList w n (scatter rgs (firstn n s) ms) in
  Ok (n, ms').

(* AsyncReadAtExt::read_vectored_exact_at over a byte slice.  Every productive
   iteration consumes source bytes, so [fuel] = length this + 2 is never exhausted *)
Fixpoint rvea_loop (fuel : nat) (this : list byte) (pos : nat) (ms : list root)
  (len read : nat) : R (outcome * list root) :=
  if len <=? read then Ok (OOk read, ms) else
  match fuel with
  | O => Panic P_OTHER
  | S f =>
    let! w := mk_vslice true WBase read ms in
    let! '(n, ms') := mem_read_vectored_at_view this w (pos + read) ms in
    match n with
    | O => Ok (OErr E_UNEXPECTED_EOF, ms')
    | _ => rvea_loop f this pos ms' len (read + n)
    end
  end.

Definition read_vectored_exact_at (this : list byte) (pos : nat) (ms : list root) :=
  rvea_loop (length this + 2) this pos ms (total_capacity ms) 0.

(* the default read_vectored on the whole buffer, once *)
Definition read_vectored_once (a : option answer) (src : list byte) (ms : list root) :=
  default_read_vectored WBase a src ms.
