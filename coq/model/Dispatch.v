(* Dispatch.v — compio-dispatcher as a labelled transition system (C18).
   compio-dispatcher/src/lib.rs: Dispatcher::{new_impl, dispatch, join} and the
   worker loop; compio-runtime/src/lib.rs: block_on_at (catch_unwind, the final
   run(), executor.clear()) and Drop for Runtime; compio-executor: a task's
   panic is caught by the task (the oneshot sender is dropped with it).

   State: the unbounded MPMC queue of spawnables (flume::unbounded, assumed a
   linearizable FIFO), W worker threads with program counters

       boot -> loop { recv -> spawn onto its runtime -> detach | await } -> leave -> dead

   the tasks with the state of their oneshot receiver, and join:
   drop the sender -> the workers drain the queue, leave block_on, the runtime
   drop cancels what is still running -> every thread has ended -> a worker's
   panic is re-raised.  Any number of threads may dispatch: a dispatch is the
   single atomic send of (closure, oneshot sender), so its label carries no
   thread.  No proofs here. *)
From Compio.Model Require Import Base.

Inductive rcv := RNone | RResult | RCanceled.     (* what the caller's oneshot::Receiver holds *)

Inductive tph :=
| TQueued                 (* in the channel *)
| TTaken (w : nat)        (* received by worker w, not yet spawned *)
| TSpawned (w : nat)      (* a task of runtime w, not polled yet *)
| TRunning (w : nat)      (* the closure was called; the future is pending (yield / sleep / I/O) *)
| TDone (w : nat)         (* ran to completion: callback.send(result) *)
| TPanicked (w : nat)     (* unwound inside the task: the sender is dropped *)
| TCancelled (w : nat)    (* dropped with runtime w (executor.clear()) *)
| TDropped.               (* freed with the channel, never received *)

Record task := mk_task {
  ph : tph;
  rc : rcv;
  recvs : nat;     (* how often a worker received it *)
  spawns : nat;    (* how often it was spawned onto a runtime *)
  starts : nat     (* how often the closure was called *)
}.

Inductive wpc :=
| WBoot                   (* thread started, runtime not built yet *)
| WRecv                   (* receiver.recv_async().await *)
| WSpawn (t : nat)        (* holds spawnable t *)
| WAwait (t : nat)        (* sequential mode: task.await *)
| WLeaving                (* recv returned Err: the loop is over, block_on runs its last tick *)
| WDead (panicked : bool). (* the thread has ended; its runtime and receiver are gone *)

Inductive jpc := JIdle | JWaiting | JReturned (panic : bool).

Record dst := mk_dst {
  conc : bool;            (* DispatcherBuilder::concurrent *)
  sender : bool;          (* the Dispatcher's flume Sender exists *)
  q : list nat;           (* channel content, oldest first *)
  ws : list wpc;
  ts : list task;
  jp : jpc
}.

Definition init (concurrent : bool) (workers : nat) : dst :=
  mk_dst concurrent true [] (repeat WBoot workers) [] JIdle.

Definition upd {A} (l : list A) (k : nat) (y : A) : list A :=
  match nth_error l k with
  | Some _ => firstn k l ++ y :: skipn (S k) l
  | None => l
  end.

Definition w_q v s := mk_dst (conc s) (sender s) v (ws s) (ts s) (jp s).
Definition w_ws v s := mk_dst (conc s) (sender s) (q s) v (ts s) (jp s).
Definition w_ts v s := mk_dst (conc s) (sender s) (q s) (ws s) v (jp s).
Definition w_jp v s := mk_dst (conc s) (sender s) (q s) (ws s) (ts s) v.
Definition w_sender v s := mk_dst (conc s) v (q s) (ws s) (ts s) (jp s).

Definition is_dead (p : wpc) : bool := match p with WDead _ => true | _ => false end.
Definition is_panicked (p : wpc) : bool := match p with WDead true => true | _ => false end.
Definition all_dead (s : dst) : bool := forallb is_dead (ws s).
Definition any_alive (s : dst) : bool := existsb (fun p => negb (is_dead p)) (ws s).

(* task x belongs to runtime w and is not finished *)
Definition on_rt (w : nat) (x : task) : bool :=
  match ph x with TSpawned v | TRunning v => Nat.eqb v w | _ => false end.

Definition set_ph (p : tph) (x : task) : task := mk_task p (rc x) (recvs x) (spawns x) (starts x).
Definition set_rc (r : rcv) (x : task) : task := mk_task (ph x) r (recvs x) (spawns x) (starts x).

(* executor.clear(): every unfinished task of runtime w is dropped, and with it
   the oneshot sender it owns *)
Definition cancel_on (w : nat) (x : task) : task :=
  if on_rt w x then set_rc RCanceled (set_ph (TCancelled w) x) else x.

Definition drop_queued (x : task) : task :=
  match ph x with TQueued => set_rc RCanceled (set_ph TDropped x) | _ => x end.

(* the channel is freed when the sender and every receiver are gone *)
Definition cleanup (s : dst) : dst :=
  if negb (sender s) && all_dead s then w_q [] (w_ts (map drop_queued (ts s)) s) else s.

Inductive ev :=
| EDispatch (ok : bool)          (* Dispatcher::dispatch; false = Err(DispatchError(f)): no receiver left *)
| EBoot (w : nat) (ok : bool)    (* Runtime::builder().build(); false = the expect() panics *)
| ERecv (w t : nat)
| ESpawn (w t : nat)             (* f.spawn(rt, meta); then detach (concurrent) or await *)
| EStart (w t : nat)             (* first poll: func() is called *)
| EFinish (w t : nat) (ok : bool)(* Ready: callback.send(res) / the task unwound *)
| ELeave (w : nat)               (* recv_async returned Err: channel empty and disconnected *)
| EExit (w : nat)                (* block_on returned, Runtime dropped, thread ended *)
| EPanic (w : nat)               (* the worker's driver poll panicked inside block_on *)
| EJoinBegin                     (* join(): drop(self.sender) *)
| EJoinReturn (panic : bool).    (* every thread joined; resume_unwind if one had panicked *)

Definition alive_wpc (p : wpc) : bool := negb (is_dead p).

Definition step (s : dst) (e : ev) : option dst :=
  match e with
  | EDispatch ok =>
    match jp s with
    | JIdle =>
      if any_alive s
      then (if ok then Some (w_q (q s ++ [length (ts s)])
                               (w_ts (ts s ++ [mk_task TQueued RNone 0 0 0]) s))
            else None)
      else (if ok then None else Some s)
    | _ => None          (* join consumed the dispatcher *)
    end
  | EBoot w ok =>
    match nth_error (ws s) w with
    | Some WBoot => Some (cleanup (w_ws (upd (ws s) w (if ok then WRecv else WDead true)) s))
    | _ => None
    end
  | ERecv w t =>
    match nth_error (ws s) w, q s with
    | Some WRecv, h :: r =>
      if Nat.eqb h t then
        match nth_error (ts s) t with
        | Some x => Some (w_q r (w_ws (upd (ws s) w (WSpawn t))
                            (w_ts (upd (ts s) t (mk_task (TTaken w) (rc x) (S (recvs x)) (spawns x) (starts x))) s)))
        | None => None
        end
      else None
    | _, _ => None
    end
  | ESpawn w t =>
    match nth_error (ws s) w, nth_error (ts s) t with
    | Some (WSpawn t'), Some x =>
      match ph x with
      | TTaken w' =>
        if Nat.eqb t' t && Nat.eqb w' w then
          Some (w_ws (upd (ws s) w (if conc s then WRecv else WAwait t))
                 (w_ts (upd (ts s) t (mk_task (TSpawned w) (rc x) (recvs x) (S (spawns x)) (starts x))) s))
        else None
      | _ => None
      end
    | _, _ => None
    end
  | EStart w t =>
    match nth_error (ws s) w, nth_error (ts s) t with
    | Some p, Some x =>
      match ph x with
      | TSpawned w' =>
        if alive_wpc p && Nat.eqb w' w
        then Some (w_ts (upd (ts s) t (mk_task (TRunning w) (rc x) (recvs x) (spawns x) (S (starts x)))) s)
        else None
      | _ => None
      end
    | _, _ => None
    end
  | EFinish w t ok =>
    match nth_error (ws s) w, nth_error (ts s) t with
    | Some p, Some x =>
      match ph x with
      | TRunning w' =>
        if alive_wpc p && Nat.eqb w' w then
          let x' := mk_task (if ok then TDone w else TPanicked w) (if ok then RResult else RCanceled)
                            (recvs x) (spawns x) (starts x) in
          let ws' := match p with
                     | WAwait t' => if Nat.eqb t' t then upd (ws s) w WRecv else ws s
                     | _ => ws s
                     end in
          Some (w_ws ws' (w_ts (upd (ts s) t x') s))
        else None
      | _ => None
      end
    | _, _ => None
    end
  | ELeave w =>
    match nth_error (ws s) w, q s with
    | Some WRecv, [] => if sender s then None else Some (w_ws (upd (ws s) w WLeaving) s)
    | _, _ => None
    end
  | EExit w =>
    match nth_error (ws s) w with
    | Some WLeaving =>
      Some (cleanup (w_ws (upd (ws s) w (WDead false)) (w_ts (map (cancel_on w) (ts s)) s)))
    | _ => None
    end
  | EPanic w =>
    match nth_error (ws s) w with
    | Some WRecv | Some (WAwait _) =>
      Some (cleanup (w_ws (upd (ws s) w (WDead true)) (w_ts (map (cancel_on w) (ts s)) s)))
    | _ => None
    end
  | EJoinBegin =>
    match jp s with
    | JIdle => Some (cleanup (w_jp JWaiting (w_sender false s)))
    | _ => None
    end
  | EJoinReturn p =>
    match jp s with
    | JWaiting =>
      if all_dead s && Bool.eqb p (existsb is_panicked (ws s)) then Some (w_jp (JReturned p) s) else None
    | _ => None
    end
  end.

Fixpoint steps (s : dst) (es : list ev) : option dst :=
  match es with
  | [] => Some s
  | e :: r => match step s e with Some s' => steps s' r | None => None end
  end.

(* a task that ran to the end, either way *)
Definition finished (x : task) : bool :=
  match ph x with TDone _ | TPanicked _ => true | _ => false end.
