(* Asyncify.v — the blocking thread pool (compio-driver/src/asyncify.rs) and the
   driver-side retry loop (push_blocking in sys/driver/{iour,poll}/mod.rs) as an
   interleaving labelled transition system.  Sequential consistency: every
   atomic operation of the code (one flume channel operation, one operation on
   `counter`, one thread::spawn, one run of a closure) is one label
   (thread, action); threads carry program counters in the state.

   Two transition functions over the same state and labels:

   [step]      the protocol of the code as it is now (after the two `fix:`
               commits): dispatch = try_send; on Full the DISPATCHER reserves the
               worker slot with a compare-exchange loop (fetch_update:
               counter < limit -> counter + 1, else hand the closure back), then
               spawns a worker that owns the CounterGuard and runs the closure it
               was spawned with before entering its recv_timeout loop.
   [step_old]  the protocol before the fixes (kept for the refutation lemmas):
               on Full the dispatcher only LOADS the counter, spawns, then does
               a blocking send on the rendezvous channel; the worker increments
               the counter itself as its first action.

   The channel is flume::bounded(0): try_send succeeds only against a receiver
   blocked in recv (label carries both parties); a blocking send waits for one.
   A timeout of recv_timeout is an environment label (any idle timeout).
   Jobs have identities (index into [jobs]); a job whose closure panics is
   caught by the closure push_blocking builds (catch_unwind_io) and travels to
   the submitter's completed channel as an io::Error.  Delivery is the pair
   `completed.send(entry); waker.wake()` of that closure: two consecutive labels
   of the worker (EEnd, EWake), the wake without any condition.  The bound is a
   property of ONE pool object ([st] is one pool): submitters that are to share
   a limit (the runtimes of a compio-dispatcher and its dispatch_blocking) must
   be dispatchers of the same [st].  No proofs here. *)
From Compio.Model Require Import Base.

(* program counter of a dispatcher thread (a driver thread inside
   push_blocking, or any thread calling AsyncifyPool::dispatch) *)
Inductive dpc :=
| DIdle
| DTry (j : nat)        (* in dispatch(f): about to try_send f                          *)
| DFull (j : nat)       (* try_send returned Full(f)                                    *)
| DSpawn (j : nat)      (* slot reserved (old: load saw counter < limit): about to spawn *)
| DSend (j : nat)       (* old only: worker spawned, about to call the blocking send    *)
| DSendWait (j : nat)   (* old only: blocked in send, f offered to the channel          *)
| DRejected (j : nat)   (* dispatch returned Err(DispatchError(f))                      *)
| DFailed (j : nat)     (* thread::spawn panicked ("failed to spawn thread"): dispatch unwinds
                           to the submitter, the closure j is destroyed with the unwinding,
                           the CounterGuard inside it has given the slot back               *)
| DPanicked.            (* thread_limit = 0: panic!("the thread pool is needed ...")    *)

(* program counter of a pool worker thread *)
Inductive wpc :=
| WSpawned              (* old only: thread created, fetch_add not yet executed *)
| WRun (j : nat)        (* holds closure j, about to call f.run()               *)
| WRunning (j : nat)    (* inside f.run()                                       *)
| WSent (d j : nat)     (* the result of job j is in submitter d's completed channel;
                           about to call waker.wake() of d's driver             *)
| WLoop                 (* between jobs: about to call recv_timeout             *)
| WRecv                 (* blocked in recv_timeout: a waiting receiver          *)
| WExiting              (* recv_timeout returned Err(Timeout); guard not yet dropped *)
| WExited.              (* CounterGuard dropped (fetch_sub), thread gone        *)

Record job := mk_job {
  owner : nat;          (* the submitter (dispatcher thread / runtime) *)
  panics : bool;        (* the blocking operation panics               *)
  runs : nat            (* how many times the closure was started      *)
}.

Record st := mk_st {
  limit : nat;                          (* thread_limit                         *)
  counter : nat;                        (* AsyncifyPool::counter                *)
  disp : list dpc;
  work : list wpc;
  jobs : list job;
  completed : list (nat * nat * bool);  (* completed channels: (submitter, job, result is the panic error) *)
  wakes : list (nat * nat)              (* waker.wake() calls: (submitter whose driver is woken, job) *)
}.

Definition init (l d : nat) : st := mk_st l 0 (repeat DIdle d) [] [] [] [].

Inductive ev :=
| ECall (d : nat) (p : bool)   (* submitter d builds a closure (job id = number of jobs so far) and calls dispatch *)
| ETrySendOk (d w : nat)       (* try_send meets worker w blocked in recv: Ok(())                  *)
| ETrySendFull (d : nat)       (* no receiver is waiting: Err(Full(f))                             *)
| ECheckOk (d : nat)           (* new: fetch_update reserved a slot; old: load saw counter < limit *)
| ECheckFail (d : nat)         (* counter >= limit: Err(DispatchError(f)), the same f               *)
| ENoPool (d : nat)            (* thread_limit = 0: panic                                          *)
| ESpawn (d : nat)             (* thread::spawn(worker(..))                                        *)
| ESpawnFail (d : nat)         (* the OS refuses the thread (EAGAIN/ENOMEM): thread::spawn panics   *)
| ERetry (d : nat)             (* push_blocking: closure = e.0; yield_now(); dispatch(closure)      *)
| ESendNow (d w : nat)         (* old: blocking send meets worker w blocked in recv                *)
| ESendBlock (d : nat)         (* old: blocking send finds no receiver and waits                   *)
| EWorkerInc (w : nat)         (* old: counter.fetch_add(1) in the worker                          *)
| EStart (w : nat)             (* f.run() starts                                                   *)
| EEnd (w : nat)               (* the operation returns: completed.send(Entry(result or caught panic)) *)
| EWake (w : nat)              (* waker.wake(): the submitter's driver is woken, unconditionally    *)
| ERecvEnter (w : nat)         (* recv_timeout: nothing offered, the worker waits                  *)
| ERecvTake (w d : nat)        (* old: recv_timeout takes the closure of sender d blocked in send  *)
| ETimeout (w : nat)           (* recv_timeout returns Err(Timeout)                                *)
| EGuardDrop (w : nat).        (* CounterGuard::drop: counter.fetch_sub(1)                         *)

Fixpoint upd {A} (l : list A) (k : nat) (x : A) : list A :=
  match l, k with
  | [], _ => []
  | _ :: t, O => x :: t
  | h :: t, S k' => h :: upd t k' x
  end.

Definition set_d (s : st) (d : nat) (p : dpc) : st :=
  mk_st (limit s) (counter s) (upd (disp s) d p) (work s) (jobs s) (completed s) (wakes s).
Definition set_w (s : st) (w : nat) (p : wpc) : st :=
  mk_st (limit s) (counter s) (disp s) (upd (work s) w p) (jobs s) (completed s) (wakes s).
Definition set_counter (s : st) (c : nat) : st :=
  mk_st (limit s) c (disp s) (work s) (jobs s) (completed s) (wakes s).
Definition add_worker (s : st) (p : wpc) : st :=
  mk_st (limit s) (counter s) (disp s) (work s ++ [p]) (jobs s) (completed s) (wakes s).
Definition add_job (s : st) (x : job) : st :=
  mk_st (limit s) (counter s) (disp s) (work s) (jobs s ++ [x]) (completed s) (wakes s).
Definition set_jobs (s : st) (l : list job) : st :=
  mk_st (limit s) (counter s) (disp s) (work s) l (completed s) (wakes s).
Definition add_wake (s : st) (x : nat * nat) : st :=
  mk_st (limit s) (counter s) (disp s) (work s) (jobs s) (completed s) (wakes s ++ [x]).
Definition add_completed (s : st) (x : nat * nat * bool) : st :=
  mk_st (limit s) (counter s) (disp s) (work s) (jobs s) (completed s ++ [x]) (wakes s).

Definition is_recv (p : wpc) : bool := match p with WRecv => true | _ => false end.
Definition is_sendwait (p : dpc) : bool := match p with DSendWait _ => true | _ => false end.
Definition any_recv (s : st) : bool := existsb is_recv (work s).
Definition any_sendwait (s : st) : bool := existsb is_sendwait (disp s).

Definition started (x : job) : job := mk_job (owner x) (panics x) (S (runs x)).

(* ---------------------------------------------------------------------- *)
(* labels common to both protocols: submission, try_send, retry, worker loop *)

Definition step_common (s : st) (e : ev) : option st :=
  match e with
  | ECall d p =>
    match nth_error (disp s) d with
    | Some DIdle => Some (add_job (set_d s d (DTry (length (jobs s)))) (mk_job d p 0))
    | _ => None
    end
  | ETrySendOk d w =>
    match nth_error (disp s) d, nth_error (work s) w with
    | Some (DTry j), Some WRecv => Some (set_w (set_d s d DIdle) w (WRun j))
    | _, _ => None
    end
  | ETrySendFull d =>
    match nth_error (disp s) d with
    | Some (DTry j) => if any_recv s then None else Some (set_d s d (DFull j))
    | _ => None
    end
  | ENoPool d =>
    match nth_error (disp s) d with
    | Some (DFull j) => if limit s =? 0 then Some (set_d s d DPanicked) else None
    | _ => None
    end
  | ECheckFail d =>
    match nth_error (disp s) d with
    | Some (DFull j) =>
      if limit s =? 0 then None
      else if limit s <=? counter s then Some (set_d s d (DRejected j)) else None
    | _ => None
    end
  | ERetry d =>
    match nth_error (disp s) d with
    | Some (DRejected j) => Some (set_d s d (DTry j))
    | _ => None
    end
  | EStart w =>
    match nth_error (work s) w with
    | Some (WRun j) =>
      match nth_error (jobs s) j with
      | Some x => Some (set_jobs (set_w s w (WRunning j)) (upd (jobs s) j (started x)))
      | None => None
      end
    | _ => None
    end
  | EEnd w =>
    match nth_error (work s) w with
    | Some (WRunning j) =>
      match nth_error (jobs s) j with
      | Some x => Some (add_completed (set_w s w (WSent (owner x) j)) (owner x, j, panics x))
      | None => None
      end
    | _ => None
    end
  | EWake w =>
    (* the closure built by push_blocking: `completed.send(entry); waker.wake();` —
       nothing between the two, no condition on the wake *)
    match nth_error (work s) w with
    | Some (WSent d j) => Some (add_wake (set_w s w WLoop) (d, j))
    | _ => None
    end
  | ETimeout w =>
    match nth_error (work s) w with
    | Some WRecv => Some (set_w s w WExiting)
    | _ => None
    end
  | EGuardDrop w =>
    match nth_error (work s) w with
    | Some WExiting =>
      (* fetch_sub on 0 would wrap; the label is then not enabled (the theorems
         show the counter is >= 1 here in every reachable state) *)
      match counter s with
      | S c => Some (set_counter (set_w s w WExited) c)
      | O => None
      end
    | _ => None
    end
  | _ => None
  end.

(* ---------------------------------------------------------------------- *)
(* the protocol of the code as it is (after the fixes) *)

Definition step (s : st) (e : ev) : option st :=
  match e with
  | ECheckOk d =>
    match nth_error (disp s) d with
    | Some (DFull j) =>
      if limit s =? 0 then None
      else if counter s <? limit s
           then Some (set_counter (set_d s d (DSpawn j)) (S (counter s))) else None
    | _ => None
    end
  | ESpawn d =>
    match nth_error (disp s) d with
    | Some (DSpawn j) => Some (add_worker (set_d s d DIdle) (WRun j))
    | _ => None
    end
  | ESpawnFail d =>
    (* environment label: the closure `worker(receiver, guard, timeout, f)` is dropped by the
       failing spawn: guard -> fetch_sub, f destroyed; the panic leaves dispatch *)
    match nth_error (disp s) d with
    | Some (DSpawn j) =>
      match counter s with
      | S c => Some (set_counter (set_d s d (DFailed j)) c)
      | O => None
      end
    | _ => None
    end
  | ERecvEnter w =>
    match nth_error (work s) w with
    | Some WLoop => Some (set_w s w WRecv)
    | _ => None
    end
  | ESendNow _ _ | ESendBlock _ | EWorkerInc _ | ERecvTake _ _ => None
  | _ => step_common s e
  end.

(* ---------------------------------------------------------------------- *)
(* the protocol before the fixes *)

Definition step_old (s : st) (e : ev) : option st :=
  match e with
  | ECheckOk d =>
    match nth_error (disp s) d with
    | Some (DFull j) =>
      if limit s =? 0 then None
      else if counter s <? limit s then Some (set_d s d (DSpawn j)) else None
    | _ => None
    end
  | ESpawn d =>
    match nth_error (disp s) d with
    | Some (DSpawn j) => Some (add_worker (set_d s d (DSend j)) WSpawned)
    | _ => None
    end
  | ESendNow d w =>
    match nth_error (disp s) d, nth_error (work s) w with
    | Some (DSend j), Some WRecv => Some (set_w (set_d s d DIdle) w (WRun j))
    | _, _ => None
    end
  | ESendBlock d =>
    match nth_error (disp s) d with
    | Some (DSend j) => if any_recv s then None else Some (set_d s d (DSendWait j))
    | _ => None
    end
  | EWorkerInc w =>
    match nth_error (work s) w with
    | Some WSpawned => Some (set_counter (set_w s w WLoop) (S (counter s)))
    | _ => None
    end
  | ERecvEnter w =>
    match nth_error (work s) w with
    | Some WLoop => if any_sendwait s then None else Some (set_w s w WRecv)
    | _ => None
    end
  | ERecvTake w d =>
    match nth_error (work s) w, nth_error (disp s) d with
    | Some WLoop, Some (DSendWait j) => Some (set_w (set_d s d DIdle) w (WRun j))
    | _, _ => None
    end
  | _ => step_common s e
  end.

Fixpoint steps_with (f : st -> ev -> option st) (s : st) (es : list ev) : option st :=
  match es with
  | [] => Some s
  | e :: r => match f s e with Some s' => steps_with f s' r | None => None end
  end.

Definition steps := steps_with step.
Definition steps_old := steps_with step_old.

(* ---------------------------------------------------------------------- *)
(* observations the theorems and the acceptor talk about *)

Fixpoint sumf {A} (f : A -> nat) (l : list A) : nat :=
  match l with [] => 0 | x :: r => f x + sumf f r end.

Definition b2n (b : bool) : nat := if b then 1 else 0.

(* the closure of job j is in the hands of this thread *)
Definition hd (j : nat) (p : dpc) : nat :=
  match p with
  | DTry k | DFull k | DSpawn k | DSend k | DSendWait k | DRejected k | DFailed k => b2n (k =? j)
  | DIdle | DPanicked => 0
  end.
Definition hw (j : nat) (p : wpc) : nat :=
  match p with
  | WRun k | WRunning k => b2n (k =? j)
  | _ => 0
  end.
Definition rw (j : nat) (p : wpc) : nat :=
  match p with WRunning k => b2n (k =? j) | _ => 0 end.

Definition holders (s : st) (j : nat) : nat := sumf (hd j) (disp s) + sumf (hw j) (work s).
Definition running_j (s : st) (j : nat) : nat := sumf (rw j) (work s).
Definition is_entry (j : nat) (x : nat * nat * bool) : nat := b2n (snd (fst x) =? j).
Definition delivered (s : st) (j : nat) : nat := sumf (is_entry j) (completed s).

Definition alive_w (p : wpc) : nat := match p with WExited => 0 | _ => 1 end.
Definition counted_w (p : wpc) : nat := match p with WExited | WSpawned => 0 | _ => 1 end.
Definition running_w (p : wpc) : nat := match p with WRunning _ => 1 | _ => 0 end.
Definition reserved_d (p : dpc) : nat := match p with DSpawn _ => 1 | _ => 0 end.

Definition alive (s : st) : nat := sumf alive_w (work s).       (* pool threads that exist *)
Definition running (s : st) : nat := sumf running_w (work s).   (* pool threads inside a job *)
Definition reserved (s : st) : nat := sumf reserved_d (disp s).

Definition sw (j : nat) (p : wpc) : nat := match p with WSent _ k => b2n (k =? j) | _ => 0 end.
Definition sending (s : st) (j : nat) : nat := sumf (sw j) (work s).      (* sent, wake still to come *)
Definition is_wake (j : nat) (x : nat * nat) : nat := b2n (snd x =? j).
Definition woken (s : st) (j : nat) : nat := sumf (is_wake j) (wakes s).

Definition all_exited (s : st) : bool := forallb (fun p => match p with WExited => true | _ => false end) (work s).
Definition all_idle (s : st) : bool := forallb (fun p => match p with DIdle => true | _ => false end) (disp s).
