(* ProcSpec.v — reference semantics of child-process stdio and of waiting for a
   child (C20).  No proofs in this file.

   The operating system is an ENVIRONMENT here: kernel pipes follow
   PipeSpec.v, the child program and the moment it exits are environment
   steps.  What compio-process adds on top (compio-process/src/{lib,unix,
   linux}.rs) is glue:
     * ChildStdout / ChildStderr :: read   = one sequential Read op = one read(2)
       of at most the buffer capacity, result recorded by map_advanced;
     * ChildStdin :: write                 = one sequential Write op = one write(2)
       that may be partial;
     * dropping ChildStdin                 = close of the write end;
     * Child::wait(self) / wait_with_output(self) consume the Child; a ChildStdin
       still inside it is closed first (nobody else could close it any more);
     * Child::wait(self)                   = linux.rs: with a pidfd, PollOnce
       (readable) on the pidfd and then child.wait(); otherwise unix.rs:
       child.wait() (a blocking waitpid) on the blocking pool.
   The schedules below let the environment choose every chunk size and every
   interleaving; the theorems (thm/ProcSpecThm.v, prop/C20.v) hold for all of
   them. *)
From Compio.Model Require Import Base PipeSpec.

(* ====================================================================== *)
(* (a) one direction: a producer holding the bytes still to be written, a  *)
(*     pipe, a consumer accumulating what it has read                      *)

Record chan := mkchan {
  cpipe : pipe;
  ctodo : list byte;     (* producer: not yet written, in order      *)
  cgot  : list byte;     (* consumer: everything read so far         *)
  ceof  : bool           (* consumer: a read of k > 0 returned 0     *)
}.

Inductive step :=
| Prod (k : nat)         (* one write(2) of the next (at most) k bytes *)
| Cons (k : nat)         (* one read(2) of at most k bytes             *)
| CloseW.                (* the producer closes its end                *)

Definition chan_init (cap : nat) (data : list byte) : chan :=
  mkchan (pipe_new cap) data [] false.

Definition is_nil {A} (l : list A) : bool :=
  match l with [] => true | _ => false end.

(* a blocked step (full pipe for a writer, empty pipe for a reader) leaves the
   state unchanged: the caller stays suspended; a producer that has closed its
   end cannot write *)
Definition chan_step (c : chan) (s : step) : chan :=
  match s with
  | Prod k =>
    if wclosed (cpipe c) then c else
    match pipe_write (cpipe c) (firstn k (ctodo c)) with
    | (p', WOk n) => mkchan p' (skipn n (ctodo c)) (cgot c) (ceof c)
    | (_, WBlock) => c
    | (_, WErr _) => c
    end
  | Cons k =>
    match pipe_read (cpipe c) k with
    | (p', ROk bs) =>
      mkchan p' (ctodo c) (cgot c ++ bs) (ceof c || (negb (k =? 0) && is_nil bs))
    | (_, RBlock) => c
    end
  | CloseW => mkchan (pipe_close_w (cpipe c)) (ctodo c) (cgot c) (ceof c)
  end.

Fixpoint run (sch : list step) (c : chan) : chan :=
  match sch with
  | [] => c
  | s :: r => run r (chan_step c s)
  end.

(* a step that changes nothing is not enabled (blocked or pointless) *)
Definition chan_eqb_progress (c c' : chan) : bool :=
  (length (ctodo c') <? length (ctodo c))
  || (length (cgot c) <? length (cgot c'))
  || (negb (wclosed (cpipe c)) && wclosed (cpipe c'))
  || (negb (ceof c) && ceof c').

Definition enabled (c : chan) (s : step) : bool := chan_eqb_progress c (chan_step c s).

Definition is_cons (s : step) : bool := match s with Cons _ => true | _ => false end.

(* the fair round-robin schedule used by the simulation: [rounds] times one
   write of at most kw and one read of at most kr, then close and a last read *)
Fixpoint fair (rounds kw kr : nat) : list step :=
  match rounds with
  | O => [CloseW; Cons kr]
  | S r => Prod kw :: Cons kr :: fair r kw kr
  end.

(* ---------------------------------------------------------------------- *)
(* the three standard streams of one child: independent pipes, steps tagged *)

Inductive fdn := FIn | FOut | FErr.

Definition fdn_eqb (a b : fdn) : bool :=
  match a, b with
  | FIn, FIn | FOut, FOut | FErr, FErr => true
  | _, _ => false
  end.

Record stdio3 := mk3 { s_in : chan; s_out : chan; s_err : chan }.

Definition step3 (s : stdio3) (x : fdn * step) : stdio3 :=
  match fst x with
  | FIn  => mk3 (chan_step (s_in s) (snd x)) (s_out s) (s_err s)
  | FOut => mk3 (s_in s) (chan_step (s_out s) (snd x)) (s_err s)
  | FErr => mk3 (s_in s) (s_out s) (chan_step (s_err s) (snd x))
  end.

Fixpoint run3 (sch : list (fdn * step)) (s : stdio3) : stdio3 :=
  match sch with
  | [] => s
  | x :: r => run3 r (step3 s x)
  end.

Definition proj (f : fdn) (sch : list (fdn * step)) : list step :=
  map snd (filter (fun x => fdn_eqb (fst x) f) sch).

(* ---------------------------------------------------------------------- *)
(* the echo system (child = cat): parent -> pipe A -> child buffer -> pipe  *)
(* B -> parent; both directions are active at once                          *)

Record echo := mkecho {
  ea : pipe;               (* parent's ChildStdin  -> child's stdin  *)
  eb : pipe;               (* child's stdout       -> parent's ChildStdout *)
  etodo : list byte;       (* parent: not yet written            *)
  ebuf : list byte;        (* child: read, not yet written back  *)
  ein_eof : bool;          (* child: saw end of file on stdin    *)
  egot : list byte;        (* parent: read back so far           *)
  eeof : bool              (* parent: saw end of file on stdout  *)
}.

Inductive estep :=
| EWrite (k : nat)         (* parent: one write of at most k bytes to A   *)
| ECloseIn                 (* parent: drops ChildStdin                    *)
| EChildRead (k : nat)     (* child: one read of at most k bytes from A   *)
| EChildWrite (k : nat)    (* child: one write of at most k bytes to B    *)
| EChildExit               (* child: end of input seen and buffer empty:
                              exits, which closes its end of B            *)
| ERead (k : nat).         (* parent: one read of at most k bytes from B  *)

Definition echo_init (capa capb : nat) (data : list byte) : echo :=
  mkecho (pipe_new capa) (pipe_new capb) data [] false [] false.

Definition echo_step (e : echo) (s : estep) : echo :=
  match s with
  | EWrite k =>
    if wclosed (ea e) then e else
    match pipe_write (ea e) (firstn k (etodo e)) with
    | (a', WOk n) => mkecho a' (eb e) (skipn n (etodo e)) (ebuf e) (ein_eof e) (egot e) (eeof e)
    | (_, _) => e
    end
  | ECloseIn =>
    mkecho (pipe_close_w (ea e)) (eb e) (etodo e) (ebuf e) (ein_eof e) (egot e) (eeof e)
  | EChildRead k =>
    if wclosed (eb e) then e else
    match pipe_read (ea e) k with
    | (a', ROk bs) =>
      mkecho a' (eb e) (etodo e) (ebuf e ++ bs)
             (ein_eof e || (negb (k =? 0) && is_nil bs)) (egot e) (eeof e)
    | (_, RBlock) => e
    end
  | EChildWrite k =>
    if wclosed (eb e) then e else
    match pipe_write (eb e) (firstn k (ebuf e)) with
    | (b', WOk n) => mkecho (ea e) b' (etodo e) (skipn n (ebuf e)) (ein_eof e) (egot e) (eeof e)
    | (_, _) => e
    end
  | EChildExit =>
    if ein_eof e && is_nil (ebuf e)
    then mkecho (ea e) (pipe_close_w (eb e)) (etodo e) (ebuf e) (ein_eof e) (egot e) (eeof e)
    else e
  | ERead k =>
    match pipe_read (eb e) k with
    | (b', ROk bs) =>
      mkecho (ea e) b' (etodo e) (ebuf e) (ein_eof e) (egot e ++ bs)
             (eeof e || (negb (k =? 0) && is_nil bs))
    | (_, RBlock) => e
    end
  end.

Fixpoint erun (sch : list estep) (e : echo) : echo :=
  match sch with
  | [] => e
  | s :: r => erun r (echo_step e s)
  end.

Definition is_eread (s : estep) : bool := match s with ERead _ => true | _ => false end.
Definition is_closein (s : estep) : bool := match s with ECloseIn => true | _ => false end.

(* ====================================================================== *)
(* (b) waiting for the child: the state machine of linux.rs / unix.rs      *)

(* an exit status is the raw wait status: code * 256 for a normal exit, the
   signal number (1..127) for a death by signal *)
Definition status := N.

Inductive child_st :=
| CRunning
| CZombie (st : status)    (* exited, not yet reaped *)
| CReaped.

Inductive wait_mode :=
| MPidfd                   (* linux.rs with a pidfd: PollOnce, then child.wait()      *)
| MBlocking.               (* unix.rs: spawn_blocking(child.wait()) on the pool       *)

Inductive wait_st :=
| WIdle                    (* the caller owns the Child; wait not called             *)
| WPollArmed               (* pidfd: PollOnce(readable) submitted                    *)
| WPollReady               (* pidfd: PollOnce completed                              *)
| WQueued                  (* blocking: closure dispatched to the pool               *)
| WInWaitpid               (* some thread is inside child.wait() = waitpid(pid)      *)
| WGot (st : status)       (* waitpid returned; future not yet resolved              *)
| WFailed (e : N)          (* the OS refused (poll or waitpid error)                 *)
| WDone.                   (* result handed to the caller; Child consumed            *)

Record wstate := mkw { wchild : child_st; wwait : wait_st }.

Inductive wlabel :=
| EnvExit (st : status)    (* environment: the child exits or is killed              *)
| StartWait (m : wait_mode)(* Child::wait(self) is called                            *)
| PollReady                (* kernel: the pidfd is readable                          *)
| EnterWaitpid             (* a thread calls child.wait()                            *)
| WaitpidReturn (st : status) (* kernel: waitpid returns the status and reaps        *)
| OsFail (e : N)           (* kernel: poll / waitpid fails                           *)
| Deliver (st : status)    (* the wait future resolves to Ok(status)                 *)
| DeliverErr (e : N)       (* the wait future resolves to Err(e)                     *)
| EnvJobCancelled          (* environment fault: the pool job is dropped unrun       *)
| EnvTakeFails.            (* environment fault: SharedFd::take finds another owner  *)

Definition winit : wstate := mkw CRunning WIdle.

(* panic codes of the two expect()s *)
Definition P_WAIT_CANCELLED : N := 9.   (* "shouldn't be cancelled"           *)
Definition P_WAIT_TAKE      : N := 9.   (* "cannot retrieve the child back"   *)

Definition is_zombie (c : child_st) : bool :=
  match c with CZombie _ => true | _ => false end.

Definition wstep (s : wstate) (l : wlabel) : option (R wstate) :=
  match l, wchild s, wwait s with
  (* the environment owns the exit: once *)
  | EnvExit st, CRunning, w => Some (Ok (mkw (CZombie st) w))
  (* Child::wait(self) consumes the handle: only from WIdle *)
  | StartWait MPidfd, c, WIdle => Some (Ok (mkw c WPollArmed))
  | StartWait MBlocking, c, WIdle => Some (Ok (mkw c WQueued))
  (* a pidfd polls readable only once the process has terminated *)
  | PollReady, CZombie st, WPollArmed => Some (Ok (mkw (CZombie st) WPollReady))
  | EnterWaitpid, c, WPollReady => Some (Ok (mkw c WInWaitpid))
  | EnterWaitpid, c, WQueued => Some (Ok (mkw c WInWaitpid))
  (* waitpid returns only for a terminated child, with its status, and reaps it *)
  | WaitpidReturn st, CZombie st', WInWaitpid =>
    if N.eqb st st' then Some (Ok (mkw CReaped (WGot st))) else None
  | OsFail e, c, WPollArmed => Some (Ok (mkw c (WFailed e)))
  | OsFail e, c, WInWaitpid => Some (Ok (mkw c (WFailed e)))
  | Deliver st, c, WGot st' =>
    if N.eqb st st' then Some (Ok (mkw c WDone)) else None
  | DeliverErr e, c, WFailed e' =>
    if N.eqb e e' then Some (Ok (mkw c WDone)) else None
  | EnvJobCancelled, _, WQueued => Some (Panic P_WAIT_CANCELLED)
  | EnvTakeFails, _, WPollReady => Some (Panic P_WAIT_TAKE)
  | _, _, _ => None
  end.

(* a run: after a panic nothing is enabled *)
Fixpoint wrun (s : wstate) (tr : list wlabel) : option (R wstate) :=
  match tr with
  | [] => Some (Ok s)
  | l :: r =>
    match wstep s l with
    | None => None
    | Some (Panic c) => match r with [] => Some (Panic c) | _ => None end
    | Some (Ok s') => wrun s' r
    end
  end.

Definition is_deliver (l : wlabel) : bool :=
  match l with Deliver _ => true | _ => false end.

Definition is_exit (l : wlabel) : bool :=
  match l with EnvExit _ => true | _ => false end.

(* a wait was started and has neither produced nor failed yet *)
Definition wait_pending (w : wait_st) : bool :=
  match w with WPollArmed | WPollReady | WQueued | WInWaitpid => true | _ => false end.

Definition is_env_fault (l : wlabel) : bool :=
  match l with EnvJobCancelled | EnvTakeFails | OsFail _ => true | _ => false end.

(* the continuation that finishes a started wait once the child has exited *)
Definition finish_wait (w : wait_st) (st : status) : list wlabel :=
  match w with
  | WPollArmed => [PollReady; EnterWaitpid; WaitpidReturn st; Deliver st]
  | WPollReady | WQueued => [EnterWaitpid; WaitpidReturn st; Deliver st]
  | WInWaitpid => [WaitpidReturn st; Deliver st]
  | _ => []
  end.

Definition status_code (st : status) : N :=
  if N.eqb (N.modulo st 128) 0 then N.modulo (N.div st 256) 256 else 256.
Definition status_signal (st : status) : N := N.modulo st 128.

(* ====================================================================== *)
(* (c) the request length of one sequential Read / Write                   *)

(* compio-driver/src/sys/op/general/iour.rs: the SQE carries a u32 length,
   `slice.len().try_into().unwrap_or(u32::MAX)`: a buffer of 2^32 bytes or more
   (exactly 2^32, a multiple of it, 2^32 + k) is CLAMPED, never truncated modulo
   2^32.  The polling driver hands the full usize to read(2) / write(2). *)
Definition U32_MAX : N := 4294967295.
Definition request_len (uring : bool) (n : N) : N :=
  if uring then N.min n U32_MAX else n.

(* what one write(2) / read(2) of a request of r bytes moves through a pipe
   (the count side of PipeSpec.pipe_write / pipe_read, for payloads too large
   to be written out as lists) *)
Definition write_accepts (p : pipe) (r : N) : N := N.min r (N.of_nat (pipe_free p)).
Definition read_returns (p : pipe) (r : N) : N := N.min r (N.of_nat (length (pq p))).
