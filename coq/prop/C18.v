(* C18 — The dispatcher starts every accepted task exactly once.
   Model: model/Dispatch.v — the unbounded MPMC channel of spawnables, W worker
   threads with program counters, the tasks with their oneshot receivers, and
   join, as an LTS whose labels are the atomic steps of
   compio-dispatcher/src/lib.rs (and of block_on / Drop for Runtime).  A dispatch
   is one atomic send, so [steps (init c n) es = Some s] ranges over any number
   of dispatching threads, every worker count n, both modes c, every
   interleaving with the workers, the tasks' polls (closures that yield, sleep
   or wait for I/O finish any number of steps later) and every join point.
   Tie: ./check C18.  Statements only. *)
From Compio.Model Require Import Base Dispatch.
From Compio.Thm Require Import DispatchThm.

(* every accepted closure is received by at most one worker, spawned at most
   once, called at most once — however the dispatching threads interleave *)
Theorem C18_started_once : forall c n es s t x,
  steps (init c n) es = Some s -> nth_error (ts s) t = Some x ->
  recvs x <= 1 /\ spawns x <= 1 /\ starts x <= 1 /\ spawns x <= recvs x /\ starts x <= spawns x.
Proof. exact started_once. Qed.
Print Assumptions C18_started_once.

(* ... and it is polled only by the runtime of the worker that received it *)
Theorem C18_polled_by_owner : forall s w t s' ok,
  (step s (EStart w t) = Some s' \/ step s (EFinish w t ok) = Some s') ->
  exists x, nth_error (ts s) t = Some x /\ on_rt w x = true.
Proof. exact polled_by_owner. Qed.
Print Assumptions C18_polled_by_owner.

(* exactly once: when join has returned and at least one worker left its loop
   normally, every accepted closure was received once and spawned once *)
Theorem C18_started_exactly_once : forall c n es s p w t x,
  steps (init c n) es = Some s -> jp s = JReturned p ->
  nth_error (ws s) w = Some (WDead false) -> nth_error (ts s) t = Some x ->
  recvs x = 1 /\ spawns x = 1.
Proof. exact started_exactly_once. Qed.
Print Assumptions C18_started_exactly_once.

(* once join has returned (Ok or by re-raising a panic) every receiver holds the
   result or Canceled — never nothing *)
Theorem C18_result_or_cancel : forall c n es s p t x,
  steps (init c n) es = Some s -> jp s = JReturned p -> nth_error (ts s) t = Some x ->
  rc x = RResult \/ rc x = RCanceled.
Proof. exact result_or_cancel. Qed.
Print Assumptions C18_result_or_cancel.

(* sequential mode: a worker never has two unfinished tasks *)
Theorem C18_sequential_no_overlap : forall n es s w t1 t2 x1 x2,
  steps (init false n) es = Some s ->
  nth_error (ts s) t1 = Some x1 -> nth_error (ts s) t2 = Some x2 ->
  on_rt w x1 = true -> on_rt w x2 = true -> t1 = t2.
Proof. exact sequential_no_overlap. Qed.
Print Assumptions C18_sequential_no_overlap.

(* sequential mode: when join returns Ok every accepted closure ran to its end
   (its result is in its receiver; a closure that panicked reports Canceled) *)
Theorem C18_sequential_all_finish : forall n es s t x,
  steps (init false n) es = Some s -> jp s = JReturned false -> nth_error (ts s) t = Some x ->
  (exists w, ph x = TDone w /\ rc x = RResult) \/
  (exists w, ph x = TPanicked w /\ rc x = RCanceled).
Proof. exact sequential_all_finish. Qed.
Print Assumptions C18_sequential_all_finish.

(* join returns only after every worker thread has ended, and re-raises a
   worker's panic (and only a worker's) *)
Theorem C18_join_after_exit : forall c n es s p s',
  steps (init c n) es = Some s -> step s (EJoinReturn p) = Some s' ->
  all_dead s = true /\ (p = true <-> exists w, nth_error (ws s) w = Some (WDead true)) /\
  jp s' = JReturned p.
Proof. exact join_after_exit. Qed.
Print Assumptions C18_join_after_exit.

Theorem C18_joined_all_dead : forall c n es s p,
  steps (init c n) es = Some s -> jp s = JReturned p ->
  all_dead s = true /\ p = existsb is_panicked (ws s).
Proof. exact joined_all_dead. Qed.
Print Assumptions C18_joined_all_dead.

Theorem C18_no_dispatch_after_join : forall s ok, jp s <> JIdle -> step s (EDispatch ok) = None.
Proof. exact no_dispatch_after_join. Qed.
Print Assumptions C18_no_dispatch_after_join.

(* a closure's panic — inside its future, or synchronously at its first poll
   before it has returned one: both are the label EFinish _ _ false — stays in
   its task: no worker dies by it, channel, sender, join state and every other
   task are untouched, and the set of panicked workers (what join re-raises,
   C18_join_after_exit) does not change *)
Theorem C18_task_panic_confined : forall s w t ok s',
  step s (EFinish w t ok) = Some s' ->
  q s' = q s /\ sender s' = sender s /\ jp s' = jp s /\
  (forall u, u <> t -> nth_error (ts s') u = nth_error (ts s) u) /\
  (forall v p, nth_error (ws s') v = Some p -> is_dead p = true -> nth_error (ws s) v = Some p) /\
  existsb is_panicked (ws s') = existsb is_panicked (ws s).
Proof. exact task_panic_confined. Qed.
Print Assumptions C18_task_panic_confined.

(* none stranded: a task spawned on a runtime that still exists can be started,
   however many others were spawned in the same poll of the worker's loop and
   without any further event from outside (no later dispatch, wake-up or join) *)
Theorem C18_spawned_task_startable : forall c n es s t x w,
  steps (init c n) es = Some s -> nth_error (ts s) t = Some x -> ph x = TSpawned w ->
  exists s', step s (EStart w t) = Some s' /\
             exists x', nth_error (ts s') t = Some x' /\ ph x' = TRunning w /\ starts x' = 1.
Proof. exact spawned_task_startable. Qed.
Print Assumptions C18_spawned_task_startable.

(* one worker: a closure panics at its first poll; the closures accepted behind
   it on the same worker still run, later dispatches are accepted, join returns Ok *)
Example C18_sync_panic_example :
  exists s, steps (init true 1)
    [EBoot 0 true; EDispatch true; EDispatch true; ERecv 0 0; ESpawn 0 0; ERecv 0 1; ESpawn 0 1;
     EStart 0 0; EFinish 0 0 false; EStart 0 1; EFinish 0 1 true; EDispatch true; ERecv 0 2;
     ESpawn 0 2; EStart 0 2; EFinish 0 2 true; EJoinBegin; ELeave 0; EExit 0; EJoinReturn false]
    = Some s /\
    map rc (ts s) = [RCanceled; RResult; RResult] /\ jp s = JReturned false /\
    ws s = [WDead false].
Proof. eexists. split; [vm_compute; reflexivity|]. vm_compute. repeat split. Qed.
Print Assumptions C18_sync_panic_example.

(* non-vacuity: concurrent mode, two workers, three closures; worker 0 takes
   two of them; one finishes, one is still pending when join is called and is
   cancelled with its runtime; the third ran on worker 1 and panicked *)
Example C18_concurrent_example :
  exists s, steps (init true 2)
    [EBoot 0 true; EBoot 1 true; EDispatch true; EDispatch true; EDispatch true;
     ERecv 0 0; ESpawn 0 0; ERecv 1 1; ERecv 0 2; ESpawn 1 1; ESpawn 0 2;
     EStart 0 0; EStart 0 2; EStart 1 1; EFinish 1 1 false; EFinish 0 0 true;
     EJoinBegin; ELeave 0; ELeave 1; EExit 1; EExit 0; EJoinReturn false] = Some s /\
    jp s = JReturned false /\
    map rc (ts s) = [RResult; RCanceled; RCanceled] /\
    map ph (ts s) = [TDone 0; TPanicked 1; TCancelled 0] /\
    map starts (ts s) = [1; 1; 1].
Proof. eexists. split; [vm_compute; reflexivity|]. vm_compute. repeat split. Qed.
Print Assumptions C18_concurrent_example.

(* sequential mode: the second closure cannot be received by the busy worker;
   a worker does not leave a non-empty channel *)
Example C18_sequential_example :
  steps (init false 1) [EBoot 0 true; EDispatch true; EDispatch true; ERecv 0 0; ESpawn 0 0; ERecv 0 1] = None /\
  steps (init false 1) [EBoot 0 true; EDispatch true; EJoinBegin; ELeave 0] = None /\
  exists s, steps (init false 1)
    [EBoot 0 true; EDispatch true; EDispatch true; EJoinBegin; ERecv 0 0; ESpawn 0 0; EStart 0 0;
     EFinish 0 0 true; ERecv 0 1; ESpawn 0 1; EStart 0 1; EFinish 0 1 true; ELeave 0; EExit 0;
     EJoinReturn false] = Some s /\ map rc (ts s) = [RResult; RResult].
Proof.
  split; [vm_compute; reflexivity|]. split; [vm_compute; reflexivity|].
  eexists. split; vm_compute; reflexivity.
Qed.
Print Assumptions C18_sequential_example.

(* a worker whose driver panics: its awaited task is cancelled, a queued closure
   is dropped with the channel, join cannot return Ok and re-raises *)
Example C18_panic_example :
  exists s, steps (init false 1)
    [EBoot 0 true; EDispatch true; EDispatch true; ERecv 0 0; ESpawn 0 0; EStart 0 0; EPanic 0;
     EJoinBegin] = Some s /\
    step s (EJoinReturn false) = None /\
    exists s', step s (EJoinReturn true) = Some s' /\
               map rc (ts s') = [RCanceled; RCanceled] /\ map ph (ts s') = [TCancelled 0; TDropped].
Proof.
  eexists. split; [vm_compute; reflexivity|]. split; [vm_compute; reflexivity|].
  eexists. split; [vm_compute; reflexivity|]. vm_compute. split; reflexivity.
Qed.
Print Assumptions C18_panic_example.
