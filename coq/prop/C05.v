(* C05 — cancellation is prompt, honest and local.
   Model: model/DriverKeys.v.  Promptness and honesty of the kernel's answer
   are environment behaviour, judged on the real driver by ./check C05; what
   compio itself must guarantee is that the cancel request is never dropped
   (so the kernel gets to answer), that it touches only its own operation,
   and that the result slot is written once. *)
From Compio.Model Require Import Base DriverKeys.
From Compio.Thm Require Import DriverKeysThm.
From Compio.Model Require Import PollDrv.
From Compio.Thm Require Import PollDrvThm.
From Compio.Gen Require Frag.
From Compio.Thm Require FragWakeThm.

(* the cancel request goes through the same overflow loop as any entry:
   for every capacity >= 1 it is queued or submitted, never dropped *)
Theorem C05_cancel_request_never_dropped : forall cap xs c,
  1 <= cap ->
  let q := fold_left (sq_push_raw cap) (xs ++ [c]) (mk_sq [] []) in
  In c (submitted q ++ sq q).
Proof.
  intros cap xs c Hcap.
  destruct (sq_overflow_lossless cap (xs ++ [c]) Hcap) as [H _]. cbv zeta.
  unfold sq_all in H. rewrite H. apply in_or_app. right. left. reflexivity.
Qed.
Print Assumptions C05_cancel_request_never_dropped.

(* (the pre-fix bare push did drop it: witness) *)
Theorem C05_bare_push_refuted :
  exists cap q x, 1 <= cap /\ length (sq q) <= cap /\
    snd (sq_push_bare cap q x) = false /\ ~ In x (sq_all (fst (sq_push_bare cap q x))).
Proof. exact sq_push_bare_loses. Qed.
Print Assumptions C05_bare_push_refuted.

(* local: the driver-side cancel events of operation k leave every other
   operation's record, and the driver state, untouched *)
Theorem C05_cancel_is_local : forall s e k s' j,
  cancel_ev e k -> step s e = Some s' -> j <> k ->
  nth_error (keys s') j = nth_error (keys s) j /\
  ring_open s' = ring_open s /\ dropping s' = dropping s.
Proof. exact cancel_is_local. Qed.
Print Assumptions C05_cancel_is_local.

(* honest bookkeeping: cancelling never fabricates a second result *)
Theorem C05_no_second_result : forall s k x,
  nth_error (keys s) k = Some x -> 0 < results x -> step s (ESetResult k) = None.
Proof. exact second_result_rejected. Qed.
Print Assumptions C05_no_second_result.

(* cancelling twice, and cancelling after completion, are runs of the model *)
Example C05_nonvacuous_twice :
  exists s, steps (init true) [EKeyNew 0; ESubmit 0; EUserToken 0; ECancelPush 0 true;
                               EUserToken 0; ECqeFinal 0; ESetResult 0; EUserToken 0;
                               EUserPop 0 true; EKeyFree 0] = Some s /\ quiescent s = true.
Proof. eexists. split; vm_compute; reflexivity. Qed.
Print Assumptions C05_nonvacuous_twice.

(* ====================================================================== *)
(* RUNTIME-LEVEL ROUTES (compio-runtime): CancelToken, the with_cancel /
   with_personality / fail_fast combinators, Submit's drop, time::timeout.
   Model: model/CancelTok.v (LTS over future expressions); the programs of the
   correspondence check (model/RunC05RT.v vs harness/rt/src/bin/c05rt.rs) are
   runs of that LTS (C05_run_is_lts_run), so everything stated "for all step
   sequences" below covers them. *)
From Compio.Model Require Import CancelTok RunC05RT.
From Compio.Thm Require Import CancelTokThm.
Local Open Scope nat_scope.

(* with_personality / timeout / any nesting never lose or replace the token (or the
   personality) coming from outside; only an inner with_cancel (with_personality)
   replaces it, deliberately: what reaches the operation is the innermost one *)
Theorem C05_combinators_preserve_token : forall f e,
  e_tok (leaf_ext e f) = match innermost_tok f with Some t => Some t | None => e_tok e end /\
  e_pers (leaf_ext e f) = match innermost_pers f with Some p => Some p | None => e_pers e end.
Proof. intros f e. split; [exact (leaf_ext_tok f e)|exact (leaf_ext_pers f e)]. Qed.
Print Assumptions C05_combinators_preserve_token.

(* ... and that context is what Submit::poll registers / submits with, whatever the
   nesting, the listeners, the timers and the answer of the driver *)
Theorem C05_context_reaches_op : forall f d e short eager i k tl k' tl' r,
  k_sub k = SIdle -> poll_f f d e short eager i k tl = (k', tl', r) ->
  k_sub k' <> SIdle -> k_ext k' = leaf_ext e f.
Proof. exact poll_f_ext. Qed.
Print Assumptions C05_context_reaches_op.

(* one cancel request on one key (Proactor::cancel_token): the flag is set, the driver is
   asked exactly when the flag was clear and the operation had not completed, nothing else moves *)
Theorem C05_cancel_request_effect : forall k,
  let k' := cancel_by_token k in
  k_flag k' = true /\
  k_dc k' = (if negb (k_flag k) && k_infl k then S (k_dc k) else k_dc k) /\
  k_sub k' = k_sub k /\ k_res k' = k_res k /\ k_ext k' = k_ext k /\ k_live k' = k_live k /\
  k_infl k' = k_infl k /\ k_reg k' = k_reg k.
Proof. exact cancel_by_token_spec. Qed.
Print Assumptions C05_cancel_request_effect.

(* CancelToken::cancel after ANY step sequence: the registered set of t is exactly the
   not-yet-cancelled operations submitted under t as their innermost token; cancel applies
   one cancel request to each of them and leaves every other operation (other token, no
   token, not yet submitted) exactly as it was *)
Theorem C05_token_exact : forall ntok l t ts,
  let s := do_steps (sys_init ntok) l in
  nth_error (toks s) t = Some ts ->
  let s' := fire t s in
  (forall i tk, nth_error (tasks s) i = Some tk ->
     (In i (regs ts) ->
        fired ts = false /\ innermost_tok (t_exp tk) = Some t /\ k_reg (t_key tk) = true) /\
     (k_reg (t_key tk) = true -> innermost_tok (t_exp tk) = Some t -> k_flag (t_key tk) = false ->
        In i (regs ts))) /\
  (forall i, nth_error (tasks s') i =
     option_map (fun tk => if negb (fired ts) && existsb (Nat.eqb i) (regs ts)
                           then set_key (cancel_by_token (t_key tk)) tk else tk)
                (nth_error (tasks s) i)).
Proof. exact token_exact. Qed.
Print Assumptions C05_token_exact.

(* an operation polled for the first time after its token fired is cancelled at
   registration: one driver cancel on the spot, nothing added to the (cleared) set —
   unless a notified fail-fast listener above it ends the future before the operation
   is submitted at all *)
Theorem C05_token_registered_after_fire : forall ntok l i tk t ts,
  let s := do_steps (sys_init ntok) l in
  nth_error (tasks s) i = Some tk -> t_done tk = false -> k_sub (t_key tk) = SIdle ->
  innermost_tok (t_exp tk) = Some t -> nth_error (toks s) t = Some ts -> fired ts = true ->
  let s' := poll_task None i s in
  exists tk', nth_error (tasks s') i = Some tk' /\
    map (fun x => (fired x, regs x)) (toks s') = map (fun x => (fired x, regs x)) (toks s) /\
    ((t_out tk' = Some RCancelled /\ k_sub (t_key tk') = SIdle) \/
     (k_sub (t_key tk') = SSubmitted /\ k_flag (t_key tk') = true /\ k_dc (t_key tk') = 1 /\
      k_reg (t_key tk') = true /\ e_tok (k_ext (t_key tk')) = Some t)).
Proof. exact registered_after_fire. Qed.
Print Assumptions C05_token_registered_after_fire.

(* cancelling twice = cancelling once (any state) ... *)
Theorem C05_cancel_idempotent : forall t s, fire t (fire t s) = fire t s.
Proof. exact cancel_idempotent. Qed.
Print Assumptions C05_cancel_idempotent.

(* ... and a cancel of a token that already fired touches no operation and no registration *)
Theorem C05_cancel_again_noop : forall t s ts,
  nth_error (toks s) t = Some ts -> fired ts = true ->
  tasks (fire t s) = tasks s /\
  map (fun x => (fired x, regs x)) (toks (fire t s)) = map (fun x => (fired x, regs x)) (toks s) /\
  s_panic (fire t s) = s_panic s.
Proof. exact cancel_again_noop. Qed.
Print Assumptions C05_cancel_again_noop.

(* the future-dropped route: a Submit dropped while Submitted (not yet cancelled, still in
   flight) issues exactly one driver cancel; dropped while Idle or after Ready, or when a
   token already cancelled it, or when it has completed, issues none; nobody else is touched *)
Theorem C05_drop_cancels : forall s i tk,
  nth_error (tasks s) i = Some tk -> t_done tk = false ->
  let s' := drop_task i s in
  let k := t_key tk in
  (exists tk', nth_error (tasks s') i = Some tk' /\ t_gone tk' = true /\ k_live (t_key tk') = false /\
     let k' := t_key tk' in
     (k_sub k = SSubmitted -> k_flag k = false -> k_infl k = true ->
        k_dc k' = S (k_dc k) /\ k_flag k' = true) /\
     (k_sub k = SSubmitted -> k_flag k = true \/ k_infl k = false -> k_dc k' = k_dc k) /\
     (k_sub k <> SSubmitted -> k_dc k' = k_dc k /\ k_flag k' = k_flag k)) /\
  (forall j, j <> i -> nth_error (tasks s') j = nth_error (tasks s) j) /\
  map (fun x => (fired x, regs x)) (toks s') = map (fun x => (fired x, regs x)) (toks s).
Proof. exact drop_cancels. Qed.
Print Assumptions C05_drop_cancels.

(* over all routes together (token, registration after the fire, drop, fail-fast, timeout,
   in any order and any number of times) the driver is asked at most once per operation,
   and never for an operation that was not submitted *)
Theorem C05_at_most_one_driver_cancel : forall ntok l i tk,
  nth_error (tasks (do_steps (sys_init ntok) l)) i = Some tk ->
  k_dc (t_key tk) <= 1 /\ (k_dc (t_key tk) = 1 -> k_flag (t_key tk) = true) /\
  (k_sub (t_key tk) = SIdle -> k_dc (t_key tk) = 0).
Proof. exact at_most_one_driver_cancel. Qed.
Print Assumptions C05_at_most_one_driver_cancel.

(* timeout = drop: when the sleep is ready and the inner future pending, the task reports
   Elapsed and its operation and every token end up exactly as if the inner future had
   been polled once and the task then dropped *)
Theorem C05_timeout_is_drop : forall s i tk dd f eager k1 tl1,
  nth_error (tasks s) i = Some tk -> t_done tk = false -> t_exp tk = Timeout dd f ->
  elapsed dd (t_short tk) = true ->
  poll_f f 1 ext_default (t_short tk) eager i (t_key tk) (toks s) = (k1, tl1, Pending) ->
  let s' := poll_task eager i s in
  let s_in := mk_sys (updl (tasks s) i (set_key k1)) tl1 (s_panic s) in
  let s_dr := drop_task i s_in in
  (exists tk' tk'', nth_error (tasks s') i = Some tk' /\ nth_error (tasks s_dr) i = Some tk'' /\
      t_out tk' = Some RElapsed /\ t_key tk' = t_key tk'' /\ t_key tk' = drop_submit k1) /\
  toks s' = toks s_dr /\
  (forall j, j <> i -> nth_error (tasks s') j = nth_error (tasks s_dr) j).
Proof. exact timeout_is_drop. Qed.
Print Assumptions C05_timeout_is_drop.

(* honest: whatever the nesting, a future reports data only when the driver completed
   the operation with data (inline at push, or stored in the key) *)
Theorem C05_no_fabricated_success : forall f d e short eager i k tl k' tl',
  poll_f f d e short eager i k tl = (k', tl', Ready RData) ->
  eager = Some KData \/ k_res k = Some KData.
Proof. exact no_fabricated_success. Qed.
Print Assumptions C05_no_fabricated_success.

(* Submit is never polled after it handed out its result ("Cannot poll after ready") *)
Theorem C05_no_poll_after_ready : forall ntok l, s_panic (do_steps (sys_init ntok) l) = false.
Proof. exact no_poll_after_ready. Qed.
Print Assumptions C05_no_poll_after_ready.

(* the tie: every program of the correspondence check is executed as a run of the LTS *)
Theorem C05_run_is_lts_run : forall poll kinds ntok ps,
  let h := run_prog poll kinds ntok ps in
  h_sys h = do_steps (sys_init ntok) (h_log h).
Proof. exact run_is_lts_run. Qed.
Print Assumptions C05_run_is_lts_run.

(* ---- non-vacuity ------------------------------------------------------- *)

(* four operations: 0 and 1 share token 0 (1 below a personality and a long timeout),
   2 is under token 1, 3 under none; all submitted; token 0 fires: exactly 0 and 1 get
   one driver cancel, 2 and 3 are untouched; firing again changes nothing *)
Definition ex_shared : list step :=
  [StSpawn (WithCancel 0 Op);
   StSpawn (Timeout DLong (WithPersonality 1 (WithCancel 0 Op)));
   StSpawn (WithCancel 1 (WithPersonality 0 Op));
   StSpawn Op;
   StPoll 0 None; StPoll 1 None; StPoll 2 None; StPoll 3 None].

Example C05_nonvacuous_token_exact :
  let s := do_steps (sys_init 2) ex_shared in
  map regs (toks s) = [[1; 0]; [2]] /\
  map (fun tk => k_dc (t_key tk)) (tasks (fire 0 s)) = [1; 1; 0; 0] /\
  map (fun tk => k_flag (t_key tk)) (tasks (fire 0 s)) = [true; true; false; false] /\
  map regs (toks (fire 0 s)) = [[]; [2]] /\
  fire 0 (fire 0 s) = fire 0 s.
Proof. vm_compute. repeat split; reflexivity. Qed.
Print Assumptions C05_nonvacuous_token_exact.

(* the hypotheses of C05_token_registered_after_fire are met: token 0 fired, then an
   operation nested three deep under it is polled for the first time *)
Example C05_nonvacuous_registered_after_fire :
  let s := do_steps (sys_init 1) [StFire 0; StSpawn (WithPersonality 1 (WithCancel 0 (Timeout DLong Op)))] in
  let s' := poll_task None 0 s in
  option_map (fun ts => fired ts) (nth_error (toks s) 0) = Some true /\
  option_map (fun tk => (k_sub (t_key tk), k_flag (t_key tk), k_dc (t_key tk), k_ext (t_key tk)))
             (nth_error (tasks s') 0)
    = Some (SSubmitted, true, 1, mk_ext (Some 1) (Some 0)) /\
  map regs (toks s') = [[]].
Proof. vm_compute. repeat split; reflexivity. Qed.
Print Assumptions C05_nonvacuous_registered_after_fire.

(* both orders of with_personality / with_cancel, an inner with_cancel replacing the outer one *)
Example C05_nonvacuous_nesting :
  leaf_ext ext_default (WithCancel 0 (WithPersonality 1 Op)) = mk_ext (Some 1) (Some 0) /\
  leaf_ext ext_default (WithPersonality 1 (WithCancel 0 Op)) = mk_ext (Some 1) (Some 0) /\
  leaf_ext ext_default (WithCancel 0 (Timeout DShort (WithPersonality 2 (FailFast 1 (WithPersonality 0 Op)))))
    = mk_ext (Some 0) (Some 1).
Proof. vm_compute. repeat split; reflexivity. Qed.
Print Assumptions C05_nonvacuous_nesting.

(* drop: Submitted -> one driver cancel; Idle -> none; after Ready -> none *)
Example C05_nonvacuous_drop :
  let dc l := map (fun tk => k_dc (t_key tk)) (tasks (do_steps (sys_init 1) l)) in
  dc [StSpawn (WithCancel 0 Op); StPoll 0 None; StDrop 0] = [1] /\
  dc [StSpawn (WithCancel 0 Op); StDrop 0; StPoll 0 None] = [0] /\
  dc [StSpawn (WithCancel 0 Op); StPoll 0 None; StComplete 0 KData; StPoll 0 None; StDrop 0] = [0] /\
  dc [StSpawn (WithCancel 0 Op); StPoll 0 None; StFire 0; StDrop 0; StFire 0] = [1].
Proof. vm_compute. repeat split; reflexivity. Qed.
Print Assumptions C05_nonvacuous_drop.

(* timeout: the hypotheses of C05_timeout_is_drop are met and the drop issues the cancel *)
Example C05_nonvacuous_timeout :
  let s := do_steps (sys_init 1) [StSpawn (Timeout DShort (WithCancel 0 Op)); StPoll 0 None; StElapse 0] in
  let s' := poll_task None 0 s in
  option_map (fun tk => (t_out tk, k_dc (t_key tk), k_live (t_key tk))) (nth_error (tasks s') 0)
    = Some (Some RElapsed, 1, false) /\
  option_map (fun tk => k_dc (t_key tk)) (nth_error (tasks s) 0) = Some 0.
Proof. vm_compute. repeat split; reflexivity. Qed.
Print Assumptions C05_nonvacuous_timeout.

(* a fail-fast listener created after the fire is not notified, the operation is
   cancelled at registration instead; a notified one dropped unconsumed hands on *)
Example C05_nonvacuous_failfast :
  let out l := map t_out (tasks (do_steps (sys_init 1) l)) in
  out [StSpawn (FailFast 0 Op); StPoll 0 None; StFire 0; StPoll 0 None] = [Some RCancelled] /\
  out [StFire 0; StSpawn (FailFast 0 Op); StPoll 0 None; StComplete 0 KCancelled; StPoll 0 None]
    = [Some (RErr E_CANCELED)] /\
  out [StSpawn (FailFast 0 Op); StFire 0; StSpawn (FailFast 0 Op); StDrop 0; StPoll 1 None]
    = [None; Some RCancelled].
Proof. vm_compute. repeat split; reflexivity. Qed.
Print Assumptions C05_nonvacuous_failfast.

(* the interpreter on a corpus program (io_uring; token shared by two operations, a
   neighbour on the same socket that gets its data afterwards) *)
Example C05_nonvacuous_run :
  run_c05rt [0; 1; 0; 1; 8;  1;0;1;1;1;0;  1;0;1;1;1;0;  1;0;1;0;  5;  3;0;  5;  2;0;0;  5]%N
  = [0; 3;  2;2;0;0;  2;2;0;0;  3;1;0;0;  1; 0;  1;1; 1;1; 0;1;  1; 1;1]%N.
Proof. vm_compute. reflexivity. Qed.
Print Assumptions C05_nonvacuous_run.

(* ---- polling driver: cancellation is local to the cancelled operation
   (model/PollDrv.v remove_one) ---- *)
Theorem C05_poll_cancel_keeps_other_waiters : forall s k fd q,
  alookup (reg s) fd = Some q ->
  let q' := get_q (fst (remove_one s k fd)) fd in
  rq q' = filter (fun x => negb (Nat.eqb x k)) (rq q) /\
  wq q' = filter (fun x => negb (Nat.eqb x k)) (wq q).
Proof. exact remove_one_keeps_others. Qed.
Print Assumptions C05_poll_cancel_keeps_other_waiters.

(* ... and the invariant "armed iff waiting, user data queued" survives any mix of
   cancellations with pushes and readiness events *)
Theorem C05_poll_invariant_every_reachable_state : forall os,
  PollDrv.PInv (fold_left PollDrv.pstep os PollDrv.pinit).
Proof. exact reachable_pinv. Qed.
Print Assumptions C05_poll_invariant_every_reachable_state.

(* ---- source tie (translated from the Rust source on every run by tools/rs2v.py
        into gen/Frag.v; an edit of the function changes the generated definition) ---- *)
(* Proactor::cancel_token (compio-driver/src/lib.rs): the guard in front of Driver::cancel, as the
   source has it now (`key.set_cancelled() || key.has_result()`: set_cancelled reports whether the
   operation had been cancelled before), lets the request through exactly when the operation was
   neither cancelled before nor completed: cancelling twice or after completion never reaches the
   driver, so it cannot turn a genuine result into ECANCELED *)
Theorem C05_cancel_token_guard_is_source : forall was_cancelled has_result : bool,
  Frag.cancel_token_skips was_cancelled has_result = (was_cancelled || has_result)%bool
  /\ (Frag.cancel_token_skips was_cancelled has_result = false <-> was_cancelled = false /\ has_result = false).
Proof. exact FragWakeThm.cancel_token_guard_tie. Qed.
Print Assumptions C05_cancel_token_guard_is_source.
