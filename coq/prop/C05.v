(* C05 — cancellation is prompt, honest and local.
   Model: model/DriverKeys.v.  Promptness and honesty of the kernel's answer
   are environment behaviour, judged on the real driver by ./check C05; what
   compio itself must guarantee is that the cancel request is never dropped
   (so the kernel gets to answer), that it touches only its own operation,
   and that the result slot is written once. *)
From Compio.Model Require Import Base DriverKeys.
From Compio.Thm Require Import DriverKeysThm.

(* the cancel request goes through the same overflow loop as any entry:
   for every capacity >= 1 it is queued or submitted, never dropped *)
Theorem C05_cancel_request_never_dropped : forall cap xs c,
  1 <= cap ->
  let q := fold_left (sq_push_raw cap) (xs ++ [c]) (mk_sq [] []) in
  In c (submitted q ++ sq q).
Proof.
  intros cap xs c Hcap.
  destruct (sq_overflow_lossless cap (xs ++ [c]) Hcap) as [H _]. cbv zeta.
  unfold sq_all in H. rewrite H. apply in_or_app. right. left. reflexivity.
Qed.
Print Assumptions C05_cancel_request_never_dropped.

(* (the pre-fix bare push did drop it: witness) *)
Theorem C05_bare_push_refuted :
  exists cap q x, 1 <= cap /\ length (sq q) <= cap /\
    snd (sq_push_bare cap q x) = false /\ ~ In x (sq_all (fst (sq_push_bare cap q x))).
Proof. exact sq_push_bare_loses. Qed.
Print Assumptions C05_bare_push_refuted.

(* local: the driver-side cancel events of operation k leave every other
   operation's record, and the driver state, untouched *)
Theorem C05_cancel_is_local : forall s e k s' j,
  cancel_ev e k -> step s e = Some s' -> j <> k ->
  nth_error (keys s') j = nth_error (keys s) j /\
  ring_open s' = ring_open s /\ dropping s' = dropping s.
Proof. exact cancel_is_local. Qed.
Print Assumptions C05_cancel_is_local.

(* honest bookkeeping: cancelling never fabricates a second result *)
Theorem C05_no_second_result : forall s k x,
  nth_error (keys s) k = Some x -> 0 < results x -> step s (ESetResult k) = None.
Proof. exact second_result_rejected. Qed.
Print Assumptions C05_no_second_result.

(* cancelling twice, and cancelling after completion, are runs of the model *)
Example C05_nonvacuous_twice :
  exists s, steps (init true) [EKeyNew 0; ESubmit 0; EUserToken 0; ECancelPush 0 true;
                               EUserToken 0; ECqeFinal 0; ESetResult 0; EUserToken 0;
                               EUserPop 0 true; EKeyFree 0] = Some s /\ quiescent s = true.
Proof. eexists. split; vm_compute; reflexivity. Qed.
Print Assumptions C05_nonvacuous_twice.
