(* C15 — the TLS and WebSocket layers preserve the stream over any transport
   behaviour.   PARTIAL: the protocol engines (OpenSSL behind native-tls, rustls
   behind futures-rustls, tungstenite) are environments, not models.  What is
   proved here is compio's OWN logic around an engine — the would-block shim,
   the handshake driving loop, flush-before-wait, poll_close, compio-ws'
   flush-before-yield — for EVERY engine (a Section variable: a resumable
   process issuing I/O callbacks), every transport and every schedule.
   End-to-end behaviour with the real engines is reached only by the
   correspondence runs (harness/ext/src/bin/c15.rs).

   Statements only; lemmas in thm/TlsShimThm.v, model in model/TlsShim.v.

   Reading guide.  [hs_run tp E eng polls fuel HsStart e shim0 t []] runs the
   future returned by TlsConnector::connect / TlsAcceptor::accept (native-tls
   back-end) as a task over the transport [tp] in state [t]: it is polled, and
   polled again after every wake-up, until it is Ready ([polls] bounds the
   polls, [fuel] the callbacks of one engine call; running out = Panic P_HANG).
   The log records every transport call with its answer ([EvT call answer]),
   every callback of the engine with the value returned to it ([EvCb]),
   finish_handshake ([EvFinish]), the end of every engine call and every poll
   result ([EvPoll]).  [unflushed pre] = the bytes the transport accepted since
   its last completed flush, i.e. what a transport that holds data back until
   flushed is still holding after the prefix [pre] of the log. *)
From Compio.Model Require Import Base IoHelpers Compat TlsShim.
From Compio.Thm Require Import CompatThm TlsShimThm.

(* ---------------------------------------------------------------------- *)
(* C15_no_stall.  For every engine that (1) gives up with would-block only
   right after a callback told it would-block and (2) ends each call within B
   callbacks, for EVERY schedule of the scripted pipe (per-call transfer limits,
   errors, end of stream, Pending answers anywhere) and every payload: the
   handshake future is Ready after at most (#Pending answers + 1) polls — it
   never hangs; the polls that returned Pending never outnumber the Pending
   answers of the transport (each such poll left the task's waker with the
   transport: no deadlock, no spin); and the layer makes at most two transport
   calls per callback. *)
Theorem C15_no_stall : forall (E : Type) (eng : E -> option cbret -> E * eact) (B : nat),
  (forall e inp e1, eng e inp = (e1, AEnd EWouldBlock) -> inp = Some RWouldBlock) ->
  (forall e, ends_within E eng B e None) ->
  forall sched src e,
  exists h st1 e1 s1 p1 log,
    hs_run pipe_tp E eng (S (count is_cpending sched)) B HsStart e shim0 (mkpipe sched src []) [] =
      Ok (h, st1, e1, s1, p1, log) /\
    h <> HPend /\
    count is_pollpend log <= count is_tpend log /\
    count is_tcall log <= 2 * count is_cb log.
Proof. exact hs_no_stall. Qed.
Print Assumptions C15_no_stall.

(* the same accounting over ANY transport (also the C12 adapter), whenever the
   run returns: Pending polls are covered by Pending answers *)
Theorem C15_no_stall_pending : forall (T : Type) (tp : transport T) (E : Type)
    (eng : E -> option cbret -> E * eact),
  (forall e inp e1, eng e inp = (e1, AEnd EWouldBlock) -> inp = Some RWouldBlock) ->
  forall polls fuel st e s t log h st1 e1 s1 t1 log1,
    hs_run tp E eng polls fuel st e s t log = Ok (h, st1, e1, s1, t1, log1) ->
    count is_pollpend log1 + count is_tpend log <= count is_pollpend log + count is_tpend log1.
Proof. exact (@hs_run_pending). Qed.
Print Assumptions C15_no_stall_pending.

(* would-block shim: a callback reports WouldBlock to the engine exactly after
   the transport call it made last answered Pending *)
Theorem C15_wouldblock_shim : forall (T : Type) (tp : transport T) s c t log s1 t1 log1,
  cb_run tp s c t log = Ok (RWouldBlock, s1, t1, log1) ->
  exists pre c', log1 = log ++ pre ++ [EvT c' TPend; EvCb c RWouldBlock s1].
Proof. exact (@cb_wouldblock_registered). Qed.
Print Assumptions C15_wouldblock_shim.

(* no spin inside the layer's own loops: the read loop of the shim and the
   poll_next loop of compio-ws need two iterations at most, whatever the budget *)
Theorem C15_loops_bounded :
  (forall (T : Type) (tp : transport T) f s cap t log,
     inner_read tp (S (S f)) s cap t log = inner_read tp 2 s cap t log) /\
  (forall f ni ns fs calls,
     ws_poll_next (S (S f)) ni ns fs calls = ws_poll_next 2 ni ns fs calls /\
     exists res, ws_poll_next 2 ni ns fs calls = Some res).
Proof. exact (conj (@inner_read_fuel) ws_poll_next_fuel). Qed.
Print Assumptions C15_loops_bounded.

(* ---------------------------------------------------------------------- *)
(* C15_flush_before_wait.  For EVERY engine, transport and schedule: during the
   handshake, whenever a transport call answers Pending (the layer starts
   waiting) it is a flush or a write still going on, or nothing is held back;
   no transport read is issued while bytes are held back; and when the future
   returns Ok the stream has left handshake mode and everything the engine
   wrote has been flushed. *)
Theorem C15_flush_before_wait : forall (T : Type) (tp : transport T) (E : Type)
    (eng : E -> option cbret -> E * eact) polls fuel e t h st1 e1 s1 t1 log,
  hs_run tp E eng polls fuel HsStart e shim0 t [] = Ok (h, st1, e1, s1, t1, log) ->
  (forall pre c post, log = pre ++ EvT c TPend :: post -> existsb is_finish pre = false ->
     c = TcFlush \/ (exists d, c = TcWrite d) \/ unflushed pre = []) /\
  (forall pre cap a post, log = pre ++ EvT (TcRead cap) a :: post -> existsb is_finish pre = false ->
     unflushed pre = []) /\
  (h = HOk -> st1 = HsDone /\ handshaken s1 = true /\ unflushed log = []).
Proof. exact (@hs_flush_before_wait). Qed.
Print Assumptions C15_flush_before_wait.

(* established stream: poll_flush = Ready(Ok) means the transport has flushed
   everything it accepted; so does poll_close = Ready(Ok) (close_notify has
   left), and close_notify is not sent twice *)
Theorem C15_flush_delivers : forall (T : Type) (tp : transport T) s t log s1 t1 log1,
  flush_poll tp s t log = Ok (HOk, s1, t1, log1) -> handshaken s = true -> unflushed log1 = [].
Proof. exact (@flush_poll_ok). Qed.
Print Assumptions C15_flush_delivers.

Theorem C15_close_delivers : forall (T : Type) (tp : transport T) (E : Type)
    (eng : E -> option cbret -> E * eact) fuel sent e s t log sent1 e1 s1 t1 log1,
  close_poll tp E eng fuel sent e s t log = Ok (HOk, sent1, e1, s1, t1, log1) ->
  handshaken s = true -> unflushed log1 = [] /\ sent1 = true.
Proof. exact (@close_poll_ok). Qed.
Print Assumptions C15_close_delivers.

(* ---------------------------------------------------------------------- *)
(* C15_bytes_preserved.  For EVERY engine and transport: the bytes the engine
   was told it wrote are exactly the bytes the transport accepted, the bytes it
   was told it read exactly the bytes the transport delivered (once, in order). *)
Theorem C15_bytes_preserved : forall (T : Type) (tp : transport T) (E : Type)
    (eng : E -> option cbret -> E * eact) polls fuel e t h st1 e1 s1 t1 log,
  hs_run tp E eng polls fuel HsStart e shim0 t [] = Ok (h, st1, e1, s1, t1, log) ->
  eng_wrote log = tr_accepted log /\ eng_read log = tr_delivered log /\
  fbw_ok log = true /\ count is_tcall log <= 2 * count is_cb log.
Proof. exact (@hs_run_safe). Qed.
Print Assumptions C15_bytes_preserved.

(* ... and over compio-io's AsyncStream (the adapter of C12) on top of ANY inner
   stream: by refinement to the FIFO pair of C12, what the engine read is a
   prefix of the inner reader's payload — the rest is buffered or undelivered —
   and what the inner writer received plus what the adapter still holds is what
   the engine wrote *)
Theorem C15_bytes_preserved_over_compat : forall (E : Type) (eng : E -> option cbret -> E * eact)
    cfuel base mx rs src ws polls fuel e h st1 e1 s1 t1 log,
  hs_run (compat_tp cfuel) E eng polls fuel HsStart e shim0 (st_new base mx rs src ws) [] =
    Ok (h, st1, e1, s1, t1, log) ->
  eng_read log ++ buf_pending (rb (rh t1)) ++ rsrc (rh t1) = src /\
  sink_bytes (wlog (wh t1)) ++ buf_pending (wb (wh t1)) = eng_wrote log.
Proof. exact hs_over_compat_fifo. Qed.
Print Assumptions C15_bytes_preserved_over_compat.

(* ---------------------------------------------------------------------- *)
(* compio-ws (the protocol engine and the transport are answer schedules)    *)

(* flush before yield: poll_next hands an item out only in a call that has just
   flushed the engine's write queue and then the transport, both successfully *)
Theorem C15_ws_flush_before_yield : forall ni ns fs calls item ni1 ns1 fs1 calls1,
  ws_poll_next WS_FUEL ni ns fs calls = Some (WYield item, ni1, ns1, fs1, calls1) ->
  ni1 = None /\ exists pre, calls1 = pre ++ [WcFlushEngine; WcFlushTransport].
Proof. exact ws_yield_after_flush. Qed.
Print Assumptions C15_ws_flush_before_yield.

(* messages reach the caller unchanged, in order, exactly once: handed out ++
   parked in next_item ++ not yet produced is invariant, for every schedule,
   across Pending results and failed flushes *)
Theorem C15_ws_messages_fifo : forall polls ni ns fs got calls got1 ni1 ns1 fs1 calls1 fin,
  ws_reader polls ni ns fs got calls = (got1, ni1, ns1, fs1, calls1, fin) ->
  got1 ++ parked ni1 ++ nitems ns1 = got ++ parked ni ++ nitems ns.
Proof. exact ws_reader_fifo. Qed.
Print Assumptions C15_ws_messages_fifo.

(* no stall: a reader reaches the end of the stream within (answers + 2) polls;
   a Pending result left the waker with the engine or the transport *)
Theorem C15_ws_no_stall : forall polls ni ns fs got calls,
  ws_measure ni ns fs < polls ->
  exists got1 ni1 ns1 fs1 calls1,
    ws_reader polls ni ns fs got calls = (got1, ni1, ns1, fs1, calls1, true).
Proof. exact ws_reader_completes. Qed.
Print Assumptions C15_ws_no_stall.

Theorem C15_ws_pending_registered : forall ni ns fs calls ni1 ns1 fs1 calls1,
  ws_poll_next WS_FUEL ni ns fs calls = Some (WPending, ni1, ns1, fs1, calls1) ->
  (exists pre, ns = pre ++ NPend :: ns1 /\ fs1 = fs) \/
  (exists pre, fs = pre ++ FPend :: fs1 /\ ni1 <> None).
Proof. exact ws_pending_registered. Qed.
Print Assumptions C15_ws_pending_registered.

(* ---------------------------------------------------------------------- *)
(* non-vacuity: the hypotheses about engines are satisfiable (a toy engine
   meets both), and a concrete run does what the statements say             *)

Example C15_toy_engine_meets_hypotheses :
  (forall e inp e1, toy_eng e inp = (e1, AEnd EWouldBlock) -> inp = Some RWouldBlock) /\
  (forall e, ends_within toy toy_eng 4 e None).
Proof. exact (conj toy_wb toy_bound). Qed.
Print Assumptions C15_toy_engine_meets_hypotheses.

(* partial write accepted, the flush before the first read, two Pending reads
   (one poll returns Pending), data, final flush *)
Example C15_nonvacuous_handshake :
  exists s1 p1 log,
    hs_run pipe_tp toy toy_eng 3 4 HsStart TyStart shim0
      (mkpipe [CA (AChunk 9); CA (AChunk 0); CPending; CPending; CA (AChunk 9); CA (AChunk 0)]
              [7; 8; 9; 10; 11]%N []) []
    = Ok (HOk, HsDone, TyDone, s1, p1, log) /\
    handshaken s1 = true /\ psink p1 = [1; 2; 3]%N /\ eng_read log = [7; 8; 9; 10]%N /\
    count is_pollpend log = 1 /\ count is_tpend log = 2 /\ unflushed log = [] /\
    count is_tcall log = 6.
Proof. vm_compute. eexists _, _, _. repeat split; reflexivity. Qed.
Print Assumptions C15_nonvacuous_handshake.

(* over the C12 adapter: the inner reader delivers in two chunks with a Pending
   in between, the inner writer takes the three bytes in two pieces *)
Example C15_nonvacuous_over_compat :
  exists s1 t1 log,
    hs_run (compat_tp 8) toy toy_eng 4 4 HsStart TyStart shim0
      (st_new 8 16 [CPending; CA (AChunk 2); CA (AChunk 9)] [7; 8; 9; 10; 11]%N
              [CA (AChunk 1); CA (AChunk 9)]) []
    = Ok (HOk, HsDone, TyDone, s1, t1, log) /\
    sink_bytes (wlog (wh t1)) = [1; 2; 3]%N /\ eng_read log = [7; 8]%N.
Proof. vm_compute. eexists _, _, _. repeat split; reflexivity. Qed.
Print Assumptions C15_nonvacuous_over_compat.

Example C15_nonvacuous_ws :
  ws_reader 6 None [NItem 5; NPend; NItem 6; NEnd] [FPend; FOk; FOk; FErr 4] [] []
  = ([5; 6]%N, None, [], [],
     [WcNext; WcFlushEngine; WcFlushEngine; WcFlushTransport; WcNext; WcNext; WcFlushEngine;
      WcFlushEngine; WcFlushTransport; WcNext; WcFlushEngine; WcFlushTransport], true).
Proof. vm_compute. reflexivity. Qed.
Print Assumptions C15_nonvacuous_ws.
