(* C19 — Actors: serial FIFO handling, ordered lifecycle, unique names.
   Models: model/Actor.v (one actor + mailbox as an LTS whose labels are the
   atomic operations of mailbox/{mod,receiver,call}.rs, actor/deliver.rs and
   cluster/spawn.rs; the registry of cluster/registry.rs; ProcessGroup::send as
   a pure function).  [steps (init c) es = Some s] ranges over every
   interleaving of any number of sending / calling / stopping threads with the
   actor task, for every capacity c.  Tie: ./check C19.  Statements only. *)
From Compio.Model Require Import Base Actor.
From Compio.Thm Require Import ActorThm.
From Compio.Gen Require Frag.
From Compio.Thm Require FragMiscThm.

(* ---------------------------------------------------------------------- *)
(* serial FIFO                                                              *)

(* the accepted sequence is, in this order: the handled messages, the ones the
   receiver dropped when the actor ended, the ones still queued.  So the
   handled sequence is a prefix of the accepted sequence: in acceptance order,
   each at most once.  Nothing is dropped while the actor runs, and at most one
   handler is in progress: everything handled before it has finished. *)
Theorem C19_serial_fifo : forall c es s,
  steps (init c) es = Some s ->
  accepted s = handled s ++ drained s ++ queue s /\
  (pre_drain (pc s) = true -> drained s = []) /\
  match pc s with
  | PHandling m => handled s = released s ++ [m]
  | _ => released s = handled s ++ drained s
  end.
Proof. exact serial_fifo. Qed.
Print Assumptions C19_serial_fifo.

(* no message is skipped: polling a non-empty channel can only start the
   handler of the oldest queued message (or the task is cancelled) *)
Theorem C19_next_is_head : forall s m q e s',
  pc s = PSelMsg -> queue s = m :: q -> actor_ev e = true -> step s e = Some s' ->
  e = ECancel \/
  (e = ESelMsg (Some m) /\ handled s' = handled s ++ [m] /\ queue s' = q /\ pc s' = PHandling m).
Proof. exact next_is_head. Qed.
Print Assumptions C19_next_is_head.

(* one at a time: while a handler runs the actor task can only finish it *)
Theorem C19_one_at_a_time : forall s x e s',
  pc s = PHandling x -> actor_ev e = true -> step s e = Some s' ->
  e = ECancel \/ (e = EHandled x /\ released s' = released s ++ [x]).
Proof. exact handler_exclusive. Qed.
Print Assumptions C19_one_at_a_time.

(* all of them unless the actor stops or fails first: an actor waiting in its
   loop with an empty channel has handled everything it ever accepted ... *)
Theorem C19_idle_all_handled : forall c es s,
  steps (init c) es = Some s ->
  (pc s = PSelStop \/ pc s = PSelMsg) -> queue s = [] ->
  handled s = accepted s /\ released s = accepted s.
Proof. exact idle_all_handled. Qed.
Print Assumptions C19_idle_all_handled.

(* ... and when it takes the stop request, what it handled plus what is still
   queued is exactly what was accepted *)
Theorem C19_stop_point : forall c es s s',
  steps (init c) es = Some s -> step s (ESelStop true) = Some s' ->
  accepted s' = handled s' ++ queue s' /\ handled s' = handled s.
Proof. exact stop_point_prefix. Qed.
Print Assumptions C19_stop_point.

(* ---------------------------------------------------------------------- *)
(* lifecycle                                                                *)

(* every finished actor task ran its hooks in the documented order, once each:
   a failed pre_start runs nothing else; every other exit path (stop request,
   handler failure, failed post_start, spawner gone) ends with pre_stop and
   post_stop; handlers sit between a successful post_start and pre_stop.  A
   task cancelled by Cluster::join has run a prefix of that. *)
Theorem C19_lifecycle_order : forall c es s f,
  steps (init c) es = Some s -> pc s = PGone f ->
  match f with
  | FStartFailed => tr s = [LPreStart false] /\ handled s = []
  | FExit _ =>
    exists t a b, tr s = t ++ [LPreStop a; LPostStop b] /\
      ((t = [LPreStart true] /\ handled s = []) \/
       (t = [LPreStart true; LPostStart false] /\ handled s = []) \/
       t = LPreStart true :: LPostStart true :: map LHandle (handled s))
  | FCancelled =>
    (tr s = [] /\ handled s = []) \/
    ((tr s = [LPreStart true] /\ handled s = []) \/
     (tr s = [LPreStart true; LPostStart false] /\ handled s = []) \/
     tr s = LPreStart true :: LPostStart true :: map LHandle (handled s)) \/
    (exists t0 a, tr s = t0 ++ [LPreStop a] /\
      ((t0 = [LPreStart true] /\ handled s = []) \/
       (t0 = [LPreStart true; LPostStart false] /\ handled s = []) \/
       t0 = LPreStart true :: LPostStart true :: map LHandle (handled s)))
  end.
Proof. exact lifecycle_gone. Qed.
Print Assumptions C19_lifecycle_order.

Theorem C19_handlers_inside_loop : forall s m s',
  step s (ESelMsg (Some m)) = Some s' -> pc s = PSelMsg /\ pc s' = PHandling m.
Proof. exact handlers_inside_loop. Qed.
Print Assumptions C19_handlers_inside_loop.

(* ---------------------------------------------------------------------- *)
(* calls                                                                    *)

(* once the actor is gone the mailbox is closed: every later send or call is
   refused with an explicit error *)
Theorem C19_gone_closed : forall c es s,
  steps (init c) es = Some s -> is_gone s = true ->
  rx s = false /\ closed s = true /\ forall m, step s (ESendPass m) = None.
Proof. exact gone_closed. Qed.
Print Assumptions C19_gone_closed.

(* once the actor is gone, every message its mailbox accepted had its reply port
   used (the handler's reply) or dropped (explicit NoReply) — on every exit
   path, cancellation included — except a message pushed in the window
   between the receiver's drain and its disconnection ([late]) *)
Theorem C19_call_answered : forall c es s,
  steps (init c) es = Some s -> is_gone s = true ->
  forall m, In m (accepted s) -> In m (released s) \/ In m (late s).
Proof. exact call_answered. Qed.
Print Assumptions C19_call_answered.

(* on the exit paths through finish() only a send that was between its
   closed-check and its push when the mailbox closed can be late ... *)
Theorem C19_late_only_overlap : forall c es s x,
  steps (init c) es = Some s -> (pc s = PPostStop x \/ pc s = PGone (FExit x)) ->
  incl (late s) (overlap s).
Proof. exact late_only_overlap. Qed.
Print Assumptions C19_late_only_overlap.

(* ... so without such an overlapping send every accepted call is answered *)
Theorem C19_call_answered_quiet : forall c es s x,
  steps (init c) es = Some s -> pc s = PGone (FExit x) -> overlap s = [] ->
  forall m, In m (accepted s) -> In m (released s).
Proof. exact call_answered_quiet. Qed.
Print Assumptions C19_call_answered_quiet.

(* the code before the fix (step_unrepaired: the receiver is dropped without
   draining): a call queued behind a running handler when stop() is requested
   is accepted, never handled, never released — its caller waits for ever —
   with no overlapping send at all *)
Definition w1 := mk_msg 1 false BOk.
Definition w2 := mk_msg 2 true BOk.
Definition hang_trace : list ev :=
  [EPreStart true; EStartAck true; EPostStart true; ESelStop false;
   ESendPass w1; ESendPush w1 SOk; ESelMsg (Some w1);
   ESendPass w2; ESendPush w2 SOk; EStopSwap; EStopPush true;
   EHandled w1; ESelStop true; EBeginStop; EPreStop true].

Lemma C19_call_hangs_prefix_refuted :
  exists s, steps_gen false (init 2) (hang_trace ++ [EDropRx; EPostStop true]) = Some s /\
            is_gone s = true /\ In w2 (accepted s) /\ mcall w2 = true /\
            ~ In w2 (released s) /\ late s = [] /\ overlap s = [] /\ queue s = [w2].
Proof.
  eexists. split; [vm_compute; reflexivity|]. vm_compute.
  repeat split; auto. intros [H|[]]. discriminate H.
Qed.
Print Assumptions C19_call_hangs_prefix_refuted.

(* the same schedule on the current code: the drain releases the call *)
Example C19_call_answered_nonvacuous :
  exists s, steps (init 2) (hang_trace ++ [EDrain; EDropRx; EPostStop true]) = Some s /\
            pc s = PGone (FExit XStopped) /\ overlap s = [] /\
            accepted s = [w1; w2] /\ handled s = [w1] /\ released s = [w1; w2] /\
            tr s = [LPreStart true; LPostStart true; LHandle w1; LPreStop true; LPostStop true].
Proof. eexists. split; [vm_compute; reflexivity|]. vm_compute. repeat split. Qed.
Print Assumptions C19_call_answered_nonvacuous.

(* known finding C19-late-push: without the [late] exception the statement is
   false of the current code.  Witnesses (both forced on the real crate through
   the scheduling points of compio_actor::verif, corpus/C19 cases `4 1`, `4 2`):
   a call that passed its closed-check before stop() and pushes after the
   drain; a call arriving after the drain when Cluster::join cancels the task *)
Lemma C19_call_answered_no_exception_refuted :
  (exists s, steps (init 2)
               [EPreStart true; EStartAck true; EPostStart true; ESelStop false;
                ESendPass w2; EStopSwap; EStopPush true; ESelMsg None; ESelStop true;
                EBeginStop; EPreStop true; EDrain; ESendPush w2 SOk; EDropRx; EPostStop true]
             = Some s /\
             is_gone s = true /\ In w2 (accepted s) /\ ~ In w2 (released s) /\
             late s = [w2] /\ overlap s = [w2]) /\
  (exists s, steps (init 2)
               [EPreStart true; EStartAck true; EPostStart true; ESelStop false;
                ECancel; EDrain; ESendPass w2; ESendPush w2 SOk; EDropRx]
             = Some s /\
             is_gone s = true /\ In w2 (accepted s) /\ ~ In w2 (released s) /\
             late s = [w2] /\ overlap s = []).
Proof.
  split; (eexists; split; [vm_compute; reflexivity|]); vm_compute;
    (repeat split; auto); intros [].
Qed.
Print Assumptions C19_call_answered_no_exception_refuted.

(* the order inside finish(): the mailbox is closed, drained and disconnected
   BEFORE post_stop starts.  Whenever post_stop is about to run or running (it
   has not logged its end: the trace ends with pre_stop), the receiver is gone,
   nothing but late pushes is queued, and every accepted message already had its
   reply port used or dropped — the caller of a call that was still queued has
   its NoReply, so post_stop may wait for that caller without deadlock *)
Theorem C19_queued_calls_released_before_post_stop : forall c es s x,
  steps (init c) es = Some s -> pc s = PPostStop x ->
  rx s = false /\ closed s = true /\ queue s = late s /\
  (exists t a, tr s = t ++ [LPreStop a] /\
     ((t = [LPreStart true] /\ handled s = []) \/
      (t = [LPreStart true; LPostStart false] /\ handled s = []) \/
      t = LPreStart true :: LPostStart true :: map LHandle (handled s))) /\
  forall m, In m (accepted s) -> In m (released s) \/ In m (late s).
Proof. exact queued_calls_released_before_post_stop. Qed.
Print Assumptions C19_queued_calls_released_before_post_stop.

Theorem C19_post_stop_after_drop : forall s ok s',
  step s (EPostStop ok) = Some s' -> exists x, pc s = PPostStop x.
Proof. exact post_stop_after_drop. Qed.
Print Assumptions C19_post_stop_after_drop.

(* the same schedule as in C19_call_answered_nonvacuous, stopped where post_stop
   is waiting: the queued call w2 is already released *)
Example C19_released_before_post_stop_nonvacuous :
  exists s, steps (init 2) (hang_trace ++ [EDrain; EDropRx]) = Some s /\
            pc s = PPostStop XStopped /\ released s = [w1; w2] /\ handled s = [w1] /\
            tr s = [LPreStart true; LPostStart true; LHandle w1; LPreStop true].
Proof. eexists. split; [vm_compute; reflexivity|]. vm_compute. repeat split. Qed.
Print Assumptions C19_released_before_post_stop_nonvacuous.

(* ---------------------------------------------------------------------- *)
(* names                                                                    *)

(* in every reachable registry: a name is held by at most one spawn attempt (so
   maps to at most one live actor); a lookup finds only the holder; a holder's
   name is hidden (reserved) or shows the holder, and its activation — which the
   actor task performs after pre_start succeeded — cannot fail; dropping the
   Registration (exit, failed start, cancellation) hides the name and frees it *)
Theorem C19_names : forall es r,
  rsteps rinit es = Some r ->
  (forall a b n, kfind a (tokens r) = Some n -> kfind b (tokens r) = Some n -> a = b) /\
  (forall n a, lookup r n = Some a -> kfind a (tokens r) = Some n) /\
  (forall a n, kfind a (tokens r) = Some n ->
     (lookup r n = None \/ lookup r n = Some a) /\
     exists r', rstep r (RActivate a) = Some r' /\ lookup r' n = Some a) /\
  (forall a n r', kfind a (tokens r) = Some n -> rstep r (RRelease a) = Some r' ->
     lookup r' n = None /\
     forall b, kfind b (tokens r') = None -> exists r'', rstep r' (RReserve b n true) = Some r'').
Proof. exact names_summary. Qed.
Print Assumptions C19_names.

(* a name is held by at most one spawn attempt at a time *)
Theorem C19_names_unique : forall es r a b n,
  rsteps rinit es = Some r ->
  kfind a (tokens r) = Some n -> kfind b (tokens r) = Some n -> a = b.
Proof. exact names_unique. Qed.
Print Assumptions C19_names_unique.

(* the reservation is what excludes a second spawn of the name: while an attempt
   holds it — pre_start still running (not yet activated) or later — every other
   reservation is refused, and the refusal leaves the registry, hence the
   holder's registration, untouched *)
Theorem C19_names_reserved_excludes : forall es r a n b,
  rsteps rinit es = Some r -> kfind a (tokens r) = Some n ->
  rstep r (RReserve b n true) = None /\
  (forall r', rstep r (RReserve b n false) = Some r' -> r' = r /\ kfind a (tokens r') = Some n).
Proof. exact reserved_excludes. Qed.
Print Assumptions C19_names_reserved_excludes.

Example C19_names_window_nonvacuous :
  exists r, rsteps rinit [RReserve 0 7 true; RReserve 1 7 false; RLookup 7 None; RActivate 0;
                          RReserve 2 7 false; RLookup 7 (Some 0)] = Some r /\
            rsteps rinit [RReserve 0 7 true; RReserve 1 7 true] = None /\
            kfind 0 (tokens r) = Some 7 /\ kfind 1 (tokens r) = None.
Proof. eexists. split; [vm_compute; reflexivity|]. vm_compute. repeat split. Qed.
Print Assumptions C19_names_window_nonvacuous.

(* a lookup returns only the actor that holds the name *)
Theorem C19_names_lookup_is_holder : forall es r n a,
  rsteps rinit es = Some r -> lookup r n = Some a -> kfind a (tokens r) = Some n.
Proof. exact lookup_is_holder. Qed.
Print Assumptions C19_names_lookup_is_holder.

(* invisible until start-up succeeded: reserving shows nothing, and a name
   only ever becomes visible by the activation step of its holder *)
Theorem C19_names_reserved_invisible : forall r a n r',
  rstep r (RReserve a n true) = Some r' ->
  lookup r' n = None /\ kfind a (tokens r') = Some n.
Proof. exact reserved_is_invisible. Qed.
Print Assumptions C19_names_reserved_invisible.

Theorem C19_names_visible_only_by_activation : forall r e r' n a,
  rstep r e = Some r' -> lookup r' n = Some a -> lookup r n = Some a \/ e = RActivate a.
Proof. exact visible_only_by_activation. Qed.
Print Assumptions C19_names_visible_only_by_activation.

(* free again after exit or failed start (both drop the Registration) *)
Theorem C19_names_released_free : forall r a n r',
  kfind a (tokens r) = Some n -> rstep r (RRelease a) = Some r' ->
  lookup r' n = None /\ kfind a (tokens r') = None /\
  (forall b, kfind b (tokens r') = None -> exists r'', rstep r' (RReserve b n true) = Some r'').
Proof. exact released_is_free. Qed.
Print Assumptions C19_names_released_free.

(* the holder can always activate (the "registration disappeared" panic of
   Registration::activate is unreachable) and is then the one a lookup finds *)
Theorem C19_names_activate_ok : forall es r a n,
  rsteps rinit es = Some r -> kfind a (tokens r) = Some n ->
  exists r', rstep r (RActivate a) = Some r' /\ lookup r' n = Some a.
Proof. exact holder_can_activate. Qed.
Print Assumptions C19_names_activate_ok.

Example C19_names_nonvacuous :
  exists r, rsteps rinit [RReserve 0 7 true; RLookup 7 None; RReserve 1 7 false; RActivate 0;
                          RLookup 7 (Some 0); RRelease 0; RLookup 7 None; RReserve 2 7 true] = Some r /\
            kfind 2 (tokens r) = Some 7 /\ kfind 0 (tokens r) = None /\ lookup r 7 = None.
Proof. eexists. split; [vm_compute; reflexivity|]. vm_compute. repeat split. Qed.
Print Assumptions C19_names_nonvacuous.

(* ---------------------------------------------------------------------- *)
(* process groups                                                           *)

(* ProcessGroup::send, for every member list without duplicates, every cursor
   and every behaviour [out] of the members (Ok / Full / Closed): at most n
   attempts, no member tried twice; exactly the closed members that were tried
   are evicted; the message goes to exactly one member, which accepted it, and
   everyone tried before refused; it comes back only when every member was
   tried and nobody accepted — as Full iff some member was full *)
Theorem C19_group_route : forall out ms cursor r ms' cur' tried,
  NoDup ms -> gsend out ms cursor = (r, ms', cur', tried) ->
  length tried <= length ms /\ NoDup tried /\ incl tried ms /\ NoDup ms' /\
  (forall j, In j ms' <-> In j ms /\ ~ (In j tried /\ out j = MClosed)) /\
  match r with
  | GDelivered i =>
    In i ms /\ out i = MOk /\
    exists before, tried = before ++ [i] /\ forall j, In j before -> out j <> MOk
  | GBack full =>
    (forall j, In j ms -> out j <> MOk) /\ (forall j, In j ms -> In j tried) /\
    (full = true <-> exists j, In j ms /\ out j = MFull)
  end.
Proof. exact group_route. Qed.
Print Assumptions C19_group_route.

Example C19_group_nonvacuous :
  let out := fun j => match j with 10 => MFull | 11 => MClosed | 12 => MOk | _ => MClosed end in
  gsend out [10; 11; 12; 13] 4 = (GDelivered 12, [10; 12; 13], 5, [10; 11; 12]) /\
  gsend out [13; 10; 11] 2 = (GBack true, [10], 3, [11; 13; 10]).
Proof. split; vm_compute; reflexivity. Qed.
Print Assumptions C19_group_nonvacuous.

(* ---- source tie (translated from the Rust source on every run by tools/rs2v.py
        into gen/Frag.v; an edit of the function changes the generated definition) ---- *)
(* `index = (index + 1) % state.members.len()` of ProcessGroup::send
   (compio-actor/src/process_group/mod.rs) as the source has it now is the advance of the
   model's routing loop after a full member *)
Theorem C19_group_advance_is_source : forall out a ms idx sawf tried,
  ms <> [] -> out (nth idx ms 0) = MFull ->
  gloop out (S a) ms idx sawf tried
  = gloop out a ms (Frag.pg_next_index idx (length ms)) true (tried ++ [nth idx ms 0]).
Proof. exact FragMiscThm.pg_full_tie. Qed.
Print Assumptions C19_group_advance_is_source.
