(* C03 — a wake-up from any thread is never lost.
   Model: model/Wake.v, an interleaving LTS (sequential consistency; weak-memory
   reorderings are outside the model) of the runtime thread (block_on loop and
   external-loop mode), any number of waker threads going through
   Remote::schedule / Notify::wake_by_ref, and the kernel; both notifier
   flavours.  [steps (init cf n tg) ls = Some s]: s is reached by the label
   sequence ls from the initial state with configuration cf (any queue capacity,
   any max_interval), n tasks and one waker thread per element of tg (its
   target: Some task / None = the main future).  Tie to the code: ./check C03.
   Statements only. *)
From Compio.Model Require Import Base Wake.
From Compio.Gen Require Import Consts.
From Compio.Model Require Import RunC03.
From Compio.Gen Require Frag.
From Compio.Thm Require Import WakeThm WakeAcceptThm FragWakeThm.
Local Open Scope nat_scope.

(* In every reachable state: if some waker thread has completed a wake (of a
   task or of the main future) that the runtime has not consumed by starting a
   poll of the target, the runtime thread is not stuck in its wait: it is not at
   a blocking wait at all, or the wait is ready to return, or the kernel is
   about to post the notifier completion (eventfd non-zero and the multishot
   poll armed), or a waker thread is on its way to the eventfd. *)
Theorem C03_no_lost_wake : forall cf n tg ls s,
  1 <= qcap cf -> targets_ok n tg ->
  steps (init cf n tg) ls = Some s ->
  owed s = true -> stuck s = false.
Proof. exact no_lost_wake_reach. Qed.
Print Assumptions C03_no_lost_wake.

(* the protocol behind it, in the words of the property: an unconsumed
   completed wake of the main future / a queued task id whose waker is done
   means: the runtime is before its next reset and will poll / drain first
   (region Pre), or the flag has NOTIFIED, or the reset already saw NOTIFIED
   (the wait does not block); while the runtime is between that reset and the
   return of the wait, NOTIFIED implies the eventfd is non-zero or a waker is
   about to write it; and at the wait the notifier is armed in the kernel (or
   its final completion is in the queue) - in external-loop mode too. *)
Theorem C03_wake_protocol : forall cf n tg ls s,
  targets_ok n tg -> steps (init cf n tg) ls = Some s ->
  (forall i w, nth_error (wk s) i = Some w -> tgt w = None -> wp w = WDone -> seen w = false ->
     reg_main s = Pre \/ has_notified (flag (d s)) = true \/
     (reg_main s = Idle /\ nw (r s) = false)) /\
  (forall t i w, In (t, i) (queue (e s)) -> nth_error (wk s) i = Some w -> wp w = WDone ->
     reg_drain s = Pre \/ has_notified (flag (d s)) = true \/
     (reg_drain s = Idle /\ nw (r s) = false)) /\
  (reg_main s = Idle -> has_notified (flag (d s)) = true -> 0 < efd (d s) \/ writers s = true) /\
  (at_wait s = true -> uring (c s) = true -> karmed (d s) = true \/ In CFinal (cq (d s))).
Proof. intros. eapply wake_protocol. eapply reachable_inv; eauto. Qed.
Print Assumptions C03_wake_protocol.

(* bounded: after the wait the runtime thread's own steps are always enabled
   and strictly decrease the measure mu_main until it polls the main future;
   steps of waker threads leave the measure alone, a kernel completion adds at
   most one to it; a queued id forces drain_sync onto its slow path; a wait with
   a hot task is about to end (see C03_hot_never_sleeps) *)
Theorem C03_bounded : forall cf n tg ls s,
  targets_ok n tg -> steps (init cf n tg) ls = Some s ->
  (reg_main s = Pre ->
     exists s', step s LR = Some s' /\
                (pc (r s) = RMain0 \/ (reg_main s' = Pre /\ mu_main s' < mu_main s))) /\
  (forall l s', step s l = Some s' ->
     match l with
     | LW _ => mu_main s' = mu_main s /\ pc (r s') = pc (r s)
     | LKNotify | LKOther | LKTerm => mu_main s' <= S (mu_main s) /\ pc (r s') = pc (r s)
     | _ => True
     end) /\
  (queue (e s) <> [] -> pending (e s) <> 0) /\
  (at_wait s = true -> hot (e s) <> [] -> stuck s = false).
Proof.
  intros cf n tg ls s Hok Hs. pose proof (reachable_inv _ _ _ _ _ Hok Hs) as Hi.
  split; [apply bounded_main; exact Hi|]. split; [apply bounded_env|]. apply bounded_drain; exact Hi.
Qed.
Print Assumptions C03_bounded.

(* SCHEDULED suppresses a duplicate only while the task is hot, its id is
   queued, or a waker is in the middle of pushing it; and a wake is coalesced
   only when SCHEDULED was set *)
Theorem C03_coalesce_not_drop : forall cf n tg ls s,
  targets_ok n tg -> steps (init cf n tg) ls = Some s ->
  (forall t, nth_error (sched (e s)) t = Some true ->
     In t (hot (e s)) \/ (exists i, In (t, i) (queue (e s))) \/ pushing t (wk s) = true) /\
  (forall i w t s' w', nth_error (wk s) i = Some w -> wp w = WIdle -> tgt w = Some t ->
     step s (LW i) = Some s' -> nth_error (wk s') i = Some w' ->
     (wp w' = WCoal \/ wp w' = WDone) -> nth_error (sched (e s)) t = Some true).
Proof. intros. eapply coalesce_not_drop. eapply reachable_inv; eauto. Qed.
Print Assumptions C03_coalesce_not_drop.

(* a full queue makes the waker wait: its step is enabled, changes nothing in
   the executor state, and it keeps its reservation; `pending` is exactly
   queued + reserved + being drained, hence an upper bound of the queued ids;
   the capacity is respected *)
Theorem C03_full_queue_waits : forall cf n tg ls s,
  targets_ok n tg -> steps (init cf n tg) ls = Some s ->
  (pending (e s) = length (queue (e s)) + count (fun w => reserving (wp w)) (wk s) + drained (r s)) /\
  length (queue (e s)) <= qcap (c s) /\
  (forall i w t nt, nth_error (wk s) i = Some w -> wp w = WPush nt -> tgt w = Some t ->
     qcap (c s) <= length (queue (e s)) ->
     exists s', step s (LW i) = Some s' /\ e s' = e s /\
       exists w', nth_error (wk s') i = Some w' /\ reserving (wp w') = true /\ tgt w' = Some t).
Proof. intros. eapply full_queue_waits. eapply reachable_inv; eauto. Qed.
Print Assumptions C03_full_queue_waits.

(* nothing is discarded: ids enter the queue at the tail and leave it only at
   the head, into the hot list *)
Theorem C03_queue_fifo : forall s l s',
  step s l = Some s' ->
  queue (e s') = queue (e s) \/
  (exists x, queue (e s') = queue (e s) ++ [x]) \/
  (exists t i, queue (e s) = (t, i) :: queue (e s') /\ In t (hot (e s'))).
Proof. exact queue_fifo. Qed.
Print Assumptions C03_queue_fifo.

(* non-vacuity: external-loop mode, io_uring flavour: the runtime has flushed
   and waits on the driver descriptor, a thread has woken the main future: the
   hypotheses of C03_no_lost_wake hold and the kernel is about to post the
   completion *)
Example C03_nonvacuous_external :
  exists s, steps (init flush_cfg 0 [None]) flush_witness = Some s /\
            owed s = true /\ at_wait s = true /\ stuck s = false /\ knotify_enabled s = true.
Proof. exact flush_armed_ok. Qed.
Print Assumptions C03_nonvacuous_external.

(* non-vacuity: capacity 1, the second waker found the queue full, the runtime
   drained and went to sleep, then the push landed: the runtime is at a
   blocking wait with the id queued and the flag NOTIFIED *)
Example C03_nonvacuous_full_queue :
  exists s, steps (init spin_cfg 2 [Some 0; Some 1]) spin_witness = Some s /\
            at_wait s = true /\ stuck s = false /\ queue (e s) = [(1, 1)] /\
            has_notified (flag (d s)) = true.
Proof. exact spin_wake_ok. Qed.
Print Assumptions C03_nonvacuous_full_queue.

(* the code before fix 43c7a63 (flush did not arm the notifier): same schedule,
   the wake is lost *)
Lemma C03_flush_unarmed_refuted :
  exists s, steps_v old_flush (init flush_cfg 0 [None]) flush_witness = Some s /\
            owed s = true /\ stuck s = true /\
            pc (r s) = RExtWait /\ karmed (d s) = false /\ efd (d s) = 1.
Proof. exact flush_unarmed_refuted. Qed.
Print Assumptions C03_flush_unarmed_refuted.

(* the code before fix 98ca18e (no wake after a push that had to wait for a
   free slot): the id is stranded in the queue with the runtime asleep *)
Lemma C03_spin_wake_refuted :
  exists s, steps_v old_spin (init spin_cfg 2 [Some 0; Some 1]) spin_witness = Some s /\
            owed s = true /\ stuck s = true /\
            pc (r s) = RWait /\ queue (e s) = [(1, 1)] /\ flag (d s) = AWAKE_IDLE.
Proof. exact spin_wake_refuted. Qed.
Print Assumptions C03_spin_wake_refuted.

(* external event loop: a task can be woken ON THE RUNTIME'S OWN THREAD from
   outside run / flush / poll(zero) - by a host-loop callback or a foreign
   executor's task - in particular after flush() and before the loop sleeps on
   the driver's descriptor (label LLocal at RFlushArm / RExtWait / ext-mode
   RReset / RMain0).  Local::schedule makes the task hot and wakes the driver,
   so in no reachable state does the loop sleep un-notified with a hot task:
   whenever the runtime is at its wait and a task is hot, the wait is ready to
   return, or the kernel is about to post the notifier completion, or a
   notifier write is on its way. *)
Theorem C03_hot_never_sleeps : forall cf n tg ls s,
  targets_ok n tg -> steps (init cf n tg) ls = Some s ->
  at_wait s = true -> hot (e s) <> [] -> stuck s = false.
Proof. exact hot_never_sleeps_reach. Qed.
Print Assumptions C03_hot_never_sleeps.

(* non-vacuity: run, flush, a host-loop callback wakes task 0, the loop is about
   to sleep: hot task, flag NOTIFIED, eventfd written, notifier armed *)
Example C03_nonvacuous_host_wake :
  exists s, steps (init flush_cfg 1 []) host_witness = Some s /\
            at_wait s = true /\ hot (e s) = [0] /\ stuck s = false /\ knotify_enabled s = true.
Proof. exact local_wake_ok. Qed.
Print Assumptions C03_nonvacuous_host_wake.

(* a Local::schedule that does not wake the driver (hypothetical variant): same
   schedule, the external loop sleeps with a runnable task *)
Lemma C03_local_wake_refuted :
  exists s, steps_v no_local_wake (init flush_cfg 1 []) host_witness = Some s /\
            at_wait s = true /\ hot (e s) = [0] /\ stuck s = true.
Proof. exact local_wake_refuted. Qed.
Print Assumptions C03_local_wake_refuted.

(* the acceptor of ./check C03 (model/RunC03.v, [dstep]) is the restriction of
   this LTS to the driver-level variables: every run, projected to the hook
   events its steps emit ([trace], in the order of the atomic operations), is
   accepted, and the acceptor's state stays the projection of the LTS state
   (same flag, same NEED_PUSH_NOTIFIER, the driver thread's position in poll /
   flush, exactly the waker threads that still owe the notifier write) *)
Theorem C03_model_runs_accepted : forall cf n tg ls s,
  targets_ok n tg -> steps (init cf n tg) ls = Some s ->
  exists x, dsteps (uring cf) dinit (trace (init cf n tg) ls) = Some x /\
            dflag x = flag (d s) /\ dneed x = need_push (d s) /\
            (forall i, mem (tid i) (owing x) = true <->
                       exists w, nth_error (wk s) i = Some w /\ is_write (wp w) = true).
Proof. exact model_runs_accepted. Qed.
Print Assumptions C03_model_runs_accepted.


(* ---- source tie of the AwakeFlag operations (translated from
        compio-driver/src/sys/driver/mod.rs on every run by tools/rs2v.py into
        gen/Frag.v; a fragment is  old flag -> new flag * returned value) ----

   `set`, `reset` and `wake` as the source has them now are the flag transitions
   of the LTS above (store AWAKE; swap IDLE and report whether NOTIFIED was set;
   fetch_or NOTIFIED and report whether the old value was non-zero = "no system
   call needed"), and the cfg(compio_verif) variants of reset / wake, which the
   checks run, compute exactly what the production variants compute. *)
Theorem C03_awake_flag_ops_are_model_ops : forall f : N,
  Frag.awake_set f = (AWAKE_AWAKE, tt)
  /\ Frag.awake_reset f = (AWAKE_IDLE, has_notified f)
  /\ Frag.awake_wake f = (fl_wake f, negb (fl_idle f))
  /\ Frag.awake_reset_hooked f = Frag.awake_reset f
  /\ Frag.awake_wake_hooked f = Frag.awake_wake f.
Proof. exact awake_flag_tie. Qed.
Print Assumptions C03_awake_flag_ops_are_model_ops.

Theorem C03_awake_flag_values :
  AWAKE_IDLE = 0%N /\ N.land AWAKE_AWAKE AWAKE_NOTIFIED = 0%N
  /\ AWAKE_AWAKE <> 0%N /\ AWAKE_NOTIFIED <> 0%N
  /\ (forall f, (f < 4)%N -> (fl_wake f < 4)%N)
  /\ (forall f, has_notified (fl_wake f) = true).
Proof. exact awake_flag_values. Qed.
Print Assumptions C03_awake_flag_values.

(* the condition under which io_uring's poll_entries sets NEED_PUSH_NOTIFIER (translated from
   compio-driver/src/sys/driver/iour/mod.rs) is the model's: exactly the NOTIFY completion
   without MORE (the kernel ended the multishot poll, e.g. after a completion-queue overflow)
   makes the driver arm the notifier again; every NOTIFY completion clears the eventfd *)
Theorem C03_notifier_rearm_is_source : forall more a,
  need_push (apply_cqe (notify_cqe more) a) = (Frag.iour_notify_rearm more || need_push a)%bool
  /\ efd (apply_cqe (notify_cqe more) a) = 0.
Proof. exact notify_rearm_tie. Qed.
Print Assumptions C03_notifier_rearm_is_source.

(* Runtime::block_on_at (compio-runtime/src/lib.rs): the decision between a blocking wait in the
   driver and a zero-timeout poll, as the source has it now (`if remaining_tasks { poll_with(Some(ZERO)) }
   else { poll() }`), is the model's: in block_on mode the runtime thread enters its blocking wait
   exactly when no runnable task remains - with runnable tasks left it never sleeps *)
Theorem C03_block_on_wait_is_source : forall v s,
  pc (r s) = REnter -> ext (c s) = false -> nw (r s) = true ->
  exists s', rt_step v s = Some s' /\
    (pc (r s') = RWait <-> Frag.block_on_blocks (rem (r s)) = true).
Proof. exact block_on_wait_tie. Qed.
Print Assumptions C03_block_on_wait_is_source.
