(* C20 — child processes: complete stdio and the real exit status.  PARTIAL.
   Statements only: each theorem is closed by [exact lemma] and followed by
   Print Assumptions.  The lemmas live in thm/ProcSpecThm.v, the reference in
   model/ProcSpec.v over the shared pipe reference model/PipeSpec.v.

   What is proved here: the reference semantics of pipes (FIFO with capacity,
   partial writes, end of file after close) delivers every byte completely and
   in order under EVERY schedule, in every direction at once, and the wait state
   machine of compio-process (pidfd readiness then child.wait(), or a blocking
   waitpid on the pool) hands out the status once, equal to the one the child
   exited with, and never before the exit.
   What is NOT proved: that the kernel's pipes and waitpid behave like the
   reference and that compio's Read / Write / PollOnce / spawn_blocking glue
   drives them as the reference's steps — that is observed by the differential
   run of real child processes (harness/rt/src/bin/c20.rs vs model/RunC20.v). *)
From Compio.Model Require Import Base PipeSpec ProcSpec.
From Compio.Thm Require Import ProcSpecThm.
From Compio.Gen Require Frag.
From Compio.Thm Require FragIoThm.

(* One stream, for EVERY capacity, payload and schedule (any chunking of the
   writes and of the reads, any interleaving of producer, consumer and close
   steps): read so far ++ in the pipe ++ not yet written = the data — so what
   was read is a prefix, in order, nothing lost, duplicated or reordered; the
   pipe never holds more than its capacity; a read reports end of file only
   when the writer has closed and everything written was read; and once the
   writer has nothing left, end of file means the reader holds exactly the data. *)
Theorem C20_stdio_complete : forall (cap : nat) (data : list byte) (sch : list step),
  let c := run sch (chan_init cap data) in
  cgot c ++ pq (cpipe c) ++ ctodo c = data /\
  length (pq (cpipe c)) <= cap /\
  (ceof c = true -> wclosed (cpipe c) = true /\ pq (cpipe c) = [] /\ cgot c ++ ctodo c = data) /\
  (ceof c = true -> ctodo c = [] -> cgot c = data).
Proof. exact stdio_complete. Qed.
Print Assumptions C20_stdio_complete.

(* Progress: a stream that has not reached end of file always has an enabled
   step (one that moves a byte, closes, or reports end of file). *)
Theorem C20_progress : forall c,
  1 <= pcap (cpipe c) -> length (pq (cpipe c)) <= pcap (cpipe c) ->
  rclosed (cpipe c) = false -> ceof c = false ->
  exists s, enabled c s = true.
Proof. exact chan_progress. Qed.
Print Assumptions C20_progress.

(* The only blocked producer with data and an open end is one facing a full
   pipe ("the child is blocked because the parent does not read") ... *)
Theorem C20_blocked_producer : forall c k,
  rclosed (cpipe c) = false -> wclosed (cpipe c) = false ->
  0 < k -> ctodo c <> [] ->
  (enabled c (Prod k) = false <-> pcap (cpipe c) <= length (pq (cpipe c))).
Proof. exact prod_blocked_iff. Qed.
Print Assumptions C20_blocked_producer.

(* ... in which state a read is enabled, and without reads nothing ever moves
   (waiting for a child whose output exceeds the pipe capacity before draining
   it does not terminate: in the reference as in the operating system). *)
Theorem C20_full_pipe_read_enabled : forall c k,
  1 <= pcap (cpipe c) -> pcap (cpipe c) <= length (pq (cpipe c)) -> 0 < k ->
  enabled c (Cons k) = true.
Proof. exact full_pipe_read_enabled. Qed.
Print Assumptions C20_full_pipe_read_enabled.

Theorem C20_no_reader_no_progress : forall sch c,
  forallb (fun s => negb (is_cons s)) sch = true ->
  rclosed (cpipe c) = false ->
  pcap (cpipe c) <= length (pq (cpipe c)) ->
  ctodo (run sch c) = ctodo c /\ cgot (run sch c) = cgot c /\
  pq (cpipe (run sch c)) = pq (cpipe c).
Proof. exact no_reader_no_progress. Qed.
Print Assumptions C20_no_reader_no_progress.

(* Liveness of the reference: the fair round-robin schedule (one write of at
   most kw, one read of at most kr, repeated; then close and a last read)
   delivers the whole payload and end of file within 2 * |data| rounds, for
   every capacity >= 1 and all chunk sizes >= 1. *)
Theorem C20_fair_schedule_completes : forall (cap : nat) (data : list byte) (kw kr rounds : nat),
  1 <= cap -> 1 <= kw -> 1 <= kr -> 2 * length data <= rounds ->
  let c := run (fair rounds kw kr) (chan_init cap data) in
  cgot c = data /\ ceof c = true /\ ctodo c = [] /\ pq (cpipe c) = [].
Proof. exact fair_completes. Qed.
Print Assumptions C20_fair_schedule_completes.

(* The three streams of a child do not interfere: running any interleaved
   schedule on the triple = running each projection on its own pipe ... *)
Theorem C20_two_directions_independent : forall (sch : list (fdn * step)) (s : stdio3),
  run3 sch s = mk3 (run (proj FIn sch) (s_in s)) (run (proj FOut sch) (s_out s))
                   (run (proj FErr sch) (s_err s)).
Proof. exact run3_independent. Qed.
Print Assumptions C20_two_directions_independent.

(* ... hence completeness holds for stdin, stdout and stderr at once, for every
   interleaving *)
Theorem C20_all_directions_complete :
  forall (cap : nat) (din dout derr : list byte) (sch : list (fdn * step)),
  let s := run3 sch (mk3 (chan_init cap din) (chan_init cap dout) (chan_init cap derr)) in
  (cgot (s_in s) ++ pq (cpipe (s_in s)) ++ ctodo (s_in s) = din /\
   (ceof (s_in s) = true ->
      wclosed (cpipe (s_in s)) = true /\ pq (cpipe (s_in s)) = [] /\
      cgot (s_in s) ++ ctodo (s_in s) = din) /\
   (ceof (s_in s) = true -> ctodo (s_in s) = [] -> cgot (s_in s) = din)) /\
  (cgot (s_out s) ++ pq (cpipe (s_out s)) ++ ctodo (s_out s) = dout /\
   (ceof (s_out s) = true ->
      wclosed (cpipe (s_out s)) = true /\ pq (cpipe (s_out s)) = [] /\
      cgot (s_out s) ++ ctodo (s_out s) = dout) /\
   (ceof (s_out s) = true -> ctodo (s_out s) = [] -> cgot (s_out s) = dout)) /\
  (cgot (s_err s) ++ pq (cpipe (s_err s)) ++ ctodo (s_err s) = derr /\
   (ceof (s_err s) = true ->
      wclosed (cpipe (s_err s)) = true /\ pq (cpipe (s_err s)) = [] /\
      cgot (s_err s) ++ ctodo (s_err s) = derr) /\
   (ceof (s_err s) = true -> ctodo (s_err s) = [] -> cgot (s_err s) = derr)).
Proof. exact stdio3_complete. Qed.
Print Assumptions C20_all_directions_complete.

(* The echo system (child = cat; the parent writes stdin and reads stdout at
   the same time), for EVERY schedule, both capacities, every child buffering:
   read back ++ in flight ++ unwritten = the data; the parent sees end of file
   only after it closed stdin and everything came back; with nothing left to
   write the bytes read back are exactly the bytes written, in order. *)
Theorem C20_echo_complete : forall (capa capb : nat) (data : list byte) (sch : list estep),
  let e := erun sch (echo_init capa capb data) in
  egot e ++ pq (eb e) ++ ebuf e ++ pq (ea e) ++ etodo e = data /\
  (eeof e = true -> wclosed (ea e) = true /\ egot e ++ etodo e = data) /\
  (eeof e = true -> etodo e = [] -> egot e = data).
Proof. exact echo_complete. Qed.
Print Assumptions C20_echo_complete.

(* A child that copies its input to the end does not exit, and the parent never
   sees end of file on its output, unless the parent's end of the child's stdin
   gets closed — for every schedule without that close.  (A wait that consumes
   the Child together with its ChildStdin must therefore close it first.) *)
Theorem C20_echo_needs_close : forall (capa capb : nat) (data : list byte) (sch : list estep),
  forallb (fun s => negb (is_closein s)) sch = true ->
  let e := erun sch (echo_init capa capb data) in
  ein_eof e = false /\ wclosed (eb e) = false /\ eeof e = false.
Proof. exact echo_needs_close. Qed.
Print Assumptions C20_echo_needs_close.

(* Waiting, for EVERY label sequence the state machine accepts from the start
   (both modes, any interleaving with the environment): the status is delivered
   at most once; the child exits at most once; a delivered status is the one
   the child exited with, the exit came earlier, nothing at all is enabled after
   the delivery (a second wait does not exist); a panic can only come from an
   environment fault (pool job dropped unrun / fd still shared). *)
Theorem C20_wait_once : forall (tr : list wlabel) (r : R wstate),
  wrun winit tr = Some r ->
  length (filter is_deliver tr) <= 1 /\
  length (filter is_exit tr) <= 1 /\
  (forall pre st post, tr = pre ++ Deliver st :: post ->
     In (EnvExit st) pre /\ post = [] /\ r = Ok (mkw CReaped WDone)) /\
  (forall c, r = Panic c -> In EnvJobCancelled tr \/ In EnvTakeFails tr).
Proof. exact wait_once. Qed.
Print Assumptions C20_wait_once.

(* Liveness of waiting: from every reachable state in which the child has
   exited and a wait was started (and the OS did not fail the poll / waitpid),
   the delivery of that status is at most four fault-free steps away. *)
Theorem C20_wait_live : forall (tr : list wlabel) (s : wstate) (st : status),
  wrun winit tr = Some (Ok s) ->
  wchild s = CZombie st -> wwait s <> WIdle -> (forall e, ~ In (OsFail e) tr) ->
  exists k, length k <= 4 /\ In (Deliver st) k /\
            forallb (fun l => negb (is_env_fault l)) k = true /\
            wrun winit (tr ++ k) = Some (Ok (mkw CReaped WDone)).
Proof. exact wait_live. Qed.
Print Assumptions C20_wait_live.

(* Huge buffers.  The request length of one sequential Read / Write (the ops
   behind ChildStdin::write, ChildStdout::read, ChildStderr::read) for a buffer
   of n bytes: on io_uring min(n, 2^32 - 1) — a CLAMP, for n = 2^32, a multiple of
   it or 2^32 + k alike — on the polling driver n itself.  It is never 0 for a
   non-empty buffer, never more than the buffer, and the identity below 4 GiB. *)
Theorem C20_request_len : forall b n,
  (request_len b n <= n)%N /\
  ((0 < n)%N -> (0 < request_len b n)%N) /\
  ((n <= U32_MAX)%N -> request_len b n = n) /\
  ((U32_MAX <= n)%N -> request_len true n = U32_MAX) /\
  request_len false n = n.
Proof.
  intros b n. split; [exact (request_len_le b n)|]. split; [exact (request_len_pos b n)|].
  split; [exact (request_len_small b n)|]. split; [exact (request_len_huge n)|reflexivity].
Qed.
Print Assumptions C20_request_len.

(* Hence, for EVERY buffer length n > 0 (in particular n >= 2^32) on either
   driver: a write to a pipe that has room moves at least one byte — never Ok(0),
   never WriteZero — and at most n; a read with capacity n > 0 from a pipe that
   holds bytes returns at least one — never a premature end of file — and at
   most n.  The counts are those of the byte-level pipe reference. *)
Theorem C20_huge_buffers_make_progress :
  (forall b p n, (0 < n)%N -> 0 < pipe_free p ->
     (0 < write_accepts p (request_len b n))%N /\ (write_accepts p (request_len b n) <= n)%N) /\
  (forall b p cap, (0 < cap)%N -> pq p <> [] ->
     (0 < read_returns p (request_len b cap))%N /\ (read_returns p (request_len b cap) <= cap)%N) /\
  (forall p d, rclosed p = false -> d <> [] -> 0 < pipe_free p ->
     snd (pipe_write p d) = WOk (N.to_nat (write_accepts p (N.of_nat (length d))))) /\
  (forall p k, pq p <> [] -> 0 < k ->
     exists p' bs, pipe_read p k = (p', ROk bs) /\
                   length bs = N.to_nat (read_returns p (N.of_nat k))).
Proof.
  split; [exact write_accepts_pos|]. split; [exact read_returns_pos|].
  split; [exact write_accepts_is_pipe_write|exact read_returns_is_pipe_read].
Qed.
Print Assumptions C20_huge_buffers_make_progress.

(* ---------------------------------------------------------------------- *)
(* non-vacuity *)

(* 10 bytes through a pipe of capacity 4: partial writes (4 of 7 accepted),
   a blocked write, reads of 3; then close and end of file *)
Example C20_nonvacuous_above_capacity :
  let data := [1;2;3;4;5;6;7;8;9;10]%N in
  let c := run [Prod 7; Prod 7; Cons 3; Prod 7; Cons 3; Prod 7; Cons 3; Prod 7; Cons 3;
                Prod 7; Cons 3; CloseW; Cons 3; Cons 3] (chan_init 4 data) in
  cgot c = data /\ ceof c = true /\ ctodo c = [] /\
  ctodo (run [Prod 7] (chan_init 4 data)) = [5;6;7;8;9;10]%N /\
  enabled (run [Prod 7] (chan_init 4 data)) (Prod 7) = false /\
  enabled (run [Prod 7] (chan_init 4 data)) (Cons 3) = true.
Proof. vm_compute. repeat split; reflexivity. Qed.
Print Assumptions C20_nonvacuous_above_capacity.

Example C20_nonvacuous_fair :
  let data := [1;2;3;4;5;6;7;8;9;10]%N in
  let c := run (fair 20 7 3) (chan_init 4 data) in
  cgot c = data /\ ceof c = true.
Proof. vm_compute. split; reflexivity. Qed.
Print Assumptions C20_nonvacuous_fair.

Example C20_nonvacuous_echo :
  let data := [1;2;3;4;5;6]%N in
  let e := erun [EWrite 5; EChildRead 2; EWrite 5; EChildWrite 9; ERead 1; EChildRead 9;
                 EWrite 5; ECloseIn; EChildWrite 9; ERead 9; EChildWrite 9; EChildRead 9;
                 EChildRead 9; EChildWrite 9; ERead 9; EChildExit; EChildWrite 9; EChildExit;
                 ERead 9; ERead 9]
                (echo_init 3 2 data) in
  egot e = data /\ eeof e = true /\ etodo e = [].
Proof. vm_compute. repeat split; reflexivity. Qed.
Print Assumptions C20_nonvacuous_echo.

(* one accepted wait trace per mode; exit status 3 (code 3 = 768), signal 9 *)
Example C20_nonvacuous_wait_blocking :
  wrun winit [StartWait MBlocking; EnterWaitpid; EnvExit 768%N; WaitpidReturn 768%N; Deliver 768%N]
    = Some (Ok (mkw CReaped WDone)) /\
  wrun winit [StartWait MBlocking; EnterWaitpid; WaitpidReturn 768%N] = None /\
  wrun winit [StartWait MBlocking; EnterWaitpid; EnvExit 768%N; WaitpidReturn 0%N] = None /\
  wrun winit [EnvExit 9%N; StartWait MBlocking; EnterWaitpid; WaitpidReturn 9%N; Deliver 9%N;
              StartWait MBlocking] = None /\
  status_code 768%N = 3%N /\ status_signal 768%N = 0%N /\
  status_code 9%N = 256%N /\ status_signal 9%N = 9%N.
Proof. vm_compute. repeat split; reflexivity. Qed.
Print Assumptions C20_nonvacuous_wait_blocking.

Example C20_nonvacuous_wait_pidfd :
  wrun winit [StartWait MPidfd; EnvExit 9%N; PollReady; EnterWaitpid; WaitpidReturn 9%N; Deliver 9%N]
    = Some (Ok (mkw CReaped WDone)) /\
  wrun winit [StartWait MPidfd; PollReady] = None /\
  wrun winit [StartWait MPidfd; EnvExit 9%N; PollReady; EnvTakeFails] = Some (Panic P_WAIT_TAKE).
Proof. vm_compute. repeat split; reflexivity. Qed.
Print Assumptions C20_nonvacuous_wait_pidfd.

(* the hypotheses of C20_wait_live are met by a concrete reachable state *)
Example C20_nonvacuous_wait_live :
  exists s, wrun winit [StartWait MPidfd; EnvExit 9%N] = Some (Ok s) /\
            wchild s = CZombie 9%N /\ wwait s <> WIdle.
Proof. eexists. vm_compute. repeat split; try reflexivity; discriminate. Qed.
Print Assumptions C20_nonvacuous_wait_live.

(* 2^32, 2 * 2^32 and 2^32 + 5 bytes: clamped on io_uring (a truncation modulo
   2^32 would give 0, 0 and 5), untouched on polling; an empty 64 KiB pipe takes
   65536 of them *)
Example C20_nonvacuous_huge :
  request_len true 4294967296 = 4294967295%N /\
  request_len true 8589934592 = 4294967295%N /\
  request_len true 4294967301 = 4294967295%N /\
  request_len false 4294967301 = 4294967301%N /\
  write_accepts (pipe_new 65536) (request_len true 4294967296) = 65536%N /\
  read_returns (pipe_with_q (pipe_new 65536) [1; 2; 3]%N) (request_len true 8589934592) = 3%N.
Proof. vm_compute. repeat split; reflexivity. Qed.
Print Assumptions C20_nonvacuous_huge.

(* ---- source tie (translated from the Rust source on every run by tools/rs2v.py
        into gen/Frag.v; an edit of the function changes the generated definition) ---- *)
(* the length field of the io_uring Read / Write SQEs used by the child's pipes as the
   source has it now is the model's request_len on io_uring *)
Theorem C20_request_len_is_source : forall n : N,
  FileSpec.clamp_u32 n = Frag.iour_request_len n
  /\ request_len true n = Frag.iour_request_len n
  /\ Frag.iour_request_len_sock n = Frag.iour_request_len n.
Proof. exact FragIoThm.request_len_tie. Qed.
Print Assumptions C20_request_len_is_source.
