(* C04 — task and join-handle lifecycle.
   Model: model/Task.v (one task's allocation and every thread that can touch it,
   as an interleaving LTS; sequential consistency, weak memory out of scope),
   model/Queue.v (hot/cold run queue, tick).  [steps fixed init ls = Some s] =
   "s is reachable by the label interleaving ls of the current code".
   Tie: ./check C04 compares the extracted model with the real Executor
   (model/RunC04.v vs harness/rt/src/bin/c04.rs).  Statements only. *)
From Compio.Model Require Import Base Task Queue.
From Compio.Gen Require Consts Frag.
From Compio.Thm Require Import TaskThm TaskInvThm TaskSafeThm QueueThm FragTaskThm.
Local Open Scope nat_scope.

(* ---- layout tie of the state word to state.rs --------------------------- *)

Theorem C04_flag_layout :
  pairwise_disjoint flag_masks = true
  /\ forallb (fun m => N.ltb 0 m && N.ltb m Consts.RC_UNIT) flag_masks = true
  /\ Consts.RC_UNIT = N.shiftl 1 Consts.RC_SHIFT
  /\ forallb (fun m => N.eqb (N.land m Consts.RC_UNIT) 0) flag_masks = true.
Proof. exact flags_layout. Qed.
Print Assumptions C04_flag_layout.

Theorem C04_init_word_layout : forall n,
  encode (init_word n) = (Consts.TASK_INIT + Consts.RC_UNIT * N.of_nat n)%N.
Proof. exact init_word_layout. Qed.
Print Assumptions C04_init_word_layout.

Theorem C04_word_ops_are_bit_ops : forall a b c d e f g,
  let x := flag_word a b c d e f g in
  decode (encode x) = x
  /\ decode (fetch_or (encode x) (N.lor Consts.SCHEDULED Consts.SCHEDULING)) = start_scheduling x
  /\ decode (fetch_and_not (encode x) Consts.SCHEDULING) = finish_scheduling x
  /\ decode (fetch_and_not (encode x) Consts.SCHEDULED) = unschedule x
  /\ decode (fetch_and_not (encode x) Consts.NOT_CANCELLED) = set_cancelled x
  /\ decode (fetch_or (encode x) (N.lor Consts.COMPLETED Consts.HAS_RESULT)) = finish_running x
  /\ decode (fetch_and_not (encode x) Consts.NOT_SETTING_WAKER) = start_setting_waker x
  /\ decode (fetch_or (encode x) (N.lor Consts.NOT_SETTING_WAKER Consts.HAS_WAKER)) = finish_setting_waker true x
  /\ decode (fetch_or (encode x) Consts.NOT_SETTING_WAKER) = finish_setting_waker false x
  /\ decode (fetch_and_not (encode x) (N.lor Consts.HAS_WAKER Consts.NOT_CANCELLED)) = set_dropped x
  /\ decode (fetch_and_not (encode x) Consts.HAS_RESULT) = set_has_result false x
  /\ decode (fetch_or (encode x) Consts.HAS_WAKER) = set_has_waker true x.
Proof. exact flag_ops_layout. Qed.
Print Assumptions C04_word_ops_are_bit_ops.

Theorem C04_count_above_flags : forall a b c d e f g k,
  decode (encode (flag_word a b c d e f g) + Consts.RC_UNIT * N.of_nat k)%N
  = w_count k (flag_word a b c d e f g).
Proof. exact count_layout. Qed.
Print Assumptions C04_count_above_flags.

(* ---- source tie of the state word's methods (translated from state.rs on every run:
        gen/Frag.v is the output of tools/rs2v.py on compio-executor/src/task/state.rs) ----

   Every read-modify-write method of `State`, as the source has it now, applied
   to the word the code stores for a model word x (any flags, any reference count
   that fits the 57 bits above the flags) returns the stored word as its Snapshot
   and leaves the encoding of the model's record operation; every predicate of
   `Snapshot` reads the model's field. *)

Theorem C04_state_methods_are_model_ops : forall x, (N.of_nat (count x) < 2 ^ 57)%N ->
  Frag.st_start_scheduling (encode x) = (encode (start_scheduling x), encode x)
  /\ Frag.st_finish_scheduling (encode x) = (encode (finish_scheduling x), tt)
  /\ Frag.st_unschedule (encode x) = (encode (unschedule x), encode x)
  /\ Frag.st_set_cancelled (encode x) = (encode (set_cancelled x), encode x)
  /\ Frag.st_finish_running (encode x) = (encode (finish_running x), encode x)
  /\ Frag.st_start_setting_waker (encode x) = (encode (start_setting_waker x), encode x)
  /\ (forall b, Frag.st_finish_setting_waker b (encode x) = (encode (finish_setting_waker b x), encode x))
  /\ Frag.st_set_dropped (encode x) = (encode (set_dropped x), encode x)
  /\ (forall b, Frag.st_set_has_result b (encode x) = (encode (set_has_result b x), tt))
  /\ (forall b, Frag.st_set_has_waker b (encode x) = (encode (set_has_waker b x), tt))
  /\ Frag.st_inc (encode x) = (encode (inc_w x), encode x)
  /\ ((1 <= count x)%nat -> Frag.st_dec (encode x) = (encode (dec_w nat_arith x), encode x))
  /\ (encode x < 2 ^ 64)%N.
Proof. exact state_methods_tie. Qed.
Print Assumptions C04_state_methods_are_model_ops.

Theorem C04_snapshot_predicates_are_model_fields : forall x,
  Frag.snap_is_scheduled (encode x) = scheduled x
  /\ Frag.snap_is_scheduling (encode x) = scheduling x
  /\ Frag.snap_is_completed (encode x) = completed x
  /\ Frag.snap_is_cancelled (encode x) = cancelled x
  /\ Frag.snap_is_setting_waker (encode x) = negb (nsw x)
  /\ Frag.snap_has_waker (encode x) = has_waker x
  /\ Frag.snap_has_result (encode x) = has_result x
  /\ Frag.snap_count (encode x) = N.of_nat (count x).
Proof. exact tie_snapshot. Qed.
Print Assumptions C04_snapshot_predicates_are_model_fields.

Example C04_state_tie_nonvacuous :
  (N.of_nat (count (init_word 2)) < 2 ^ 57)%N
  /\ Frag.st_start_scheduling (encode (init_word 2)) = (encode (start_scheduling (init_word 2)), encode (init_word 2))
  /\ fst (Frag.st_start_scheduling (encode (init_word 2))) <> encode (init_word 2).
Proof. vm_compute. repeat split; congruence. Qed.
Print Assumptions C04_state_tie_nonvacuous.

(* ---- the invariant holds in every reachable state ------------------------ *)

Theorem C04_invariant : forall ls s, steps fixed init ls = Some s -> Inv s.
Proof. exact reachable_inv. Qed.
Print Assumptions C04_invariant.

(* ---- polled only at home, only while neither finished nor cancelled ------ *)

(* over all interleavings: the only label that polls the future is the
   executor thread's EPollBegin, it runs on a snapshot (taken by unschedule)
   that is not completed, with the future still in the storage *)
Theorem C04_poll_home_only : forall ls s l s',
  steps fixed init ls = Some s -> step fixed s l = Some s' -> polls s' <> polls s ->
  l = EPollBegin /\ thread_of l = THome /\ exec_label l = true
  /\ ep s = ERun false /\ stor s = SFuture /\ completed (wd s) = false.
Proof. exact poll_home_only. Qed.
Print Assumptions C04_poll_home_only.

(* ... and that snapshot is not cancelled: unschedule leads to the poll only then *)
Theorem C04_poll_snapshot_not_cancelled : forall s s' c,
  step fixed s ERunStart = Some s' -> ep s' = ERun c ->
  c = completed (wd s) /\ not_cancelled (wd s) = true.
Proof. exact run_snapshot. Qed.
Print Assumptions C04_poll_snapshot_not_cancelled.

(* ---- dropped exactly once ------------------------------------------------ *)

Theorem C04_drop_once : forall ls s, steps fixed init ls = Some s ->
  fdrops s <= 1 /\ rtakes s + rdrops s <= 1 /\ deallocs s <= 1
  /\ (deallocs s = 1 -> count (wd s) = 0 /\ alloc s = false)
  /\ (alloc s = false -> deallocs s = 1 /\ fp s = FDone)
  /\ (quiescent s = true ->
        fdrops s = 1 /\ deallocs s = 1 /\ rtakes s + rdrops s = b2n (completed (wd s))).
Proof. exact drop_once. Qed.
Print Assumptions C04_drop_once.

(* the future is dropped only by labels of the executor, on the home thread *)
Theorem C04_future_dropped_by_executor : forall s l s',
  step fixed s l = Some s' -> fdrops s' <> fdrops s ->
  exec_label l = true /\ thread_of l = THome.
Proof. exact fdrops_only_exec. Qed.
Print Assumptions C04_future_dropped_by_executor.

(* dealloc happens at reference count 0 ... *)
Theorem C04_dealloc_after_last_reference : forall ls s s',
  steps fixed init ls = Some s -> step fixed s FinDealloc = Some s' ->
  count (wd s) = 0 /\ alloc s = true /\ deallocs s = 0 /\ deallocs s' = 1 /\ alloc s' = false.
Proof. exact dealloc_after_last_ref. Qed.
Print Assumptions C04_dealloc_after_last_reference.

(* ... and afterwards no thread is left at a point from which it could touch
   the allocation.  PARTIAL: the stronger statement "the ghost flag [bad]
   (use after dealloc, storage read under the wrong tag, uninitialised waker
   slot, freed Shared used, count underflow) is false in every reachable state"
   is proved (bad_pres, by the same invariant) but its proof script is too slow
   for the check and is not part of this file yet. *)
Theorem C04_no_reference_after_dealloc_partial : forall ls s,
  steps fixed init ls = Some s -> alloc s = false ->
  ep s = EGone /\ hp s = HGone /\ lw s + wi s + we s + ws s + wl s + wh s + wf s = 0 /\ fp s = FDone.
Proof. exact nobody_after_dealloc. Qed.
Print Assumptions C04_no_reference_after_dealloc_partial.

(* ---- the completion reaches the handle ----------------------------------- *)

Theorem C04_output_reaches_handle : forall ls s, steps fixed init ls = Some s ->
  completed (wd s) = true -> hlast s = Some PPending ->
  woken s = true \/ (ep s = EWake true /\ exists s', step fixed s EWakeH = Some s' /\ woken s' = true).
Proof. exact output_reaches_handle. Qed.
Print Assumptions C04_output_reaches_handle.

(* Remote::poll before ae1ad32: completed, last poll Pending, never woken *)
Theorem C04_remote_poll_prefix_refuted :
  exists s, steps prefix_poll init witness_prefix_poll = Some s
            /\ completed (wd s) = true /\ hlast s = Some PPending
            /\ woken s = false /\ ep s = EGone /\ bad s = false.
Proof. exact remote_poll_prefix_refuted. Qed.
Print Assumptions C04_remote_poll_prefix_refuted.

(* ---- cancel / detach / panic --------------------------------------------- *)

Theorem C04_handle_drop_cancels : forall ls s, steps fixed init ls = Some s ->
  hdropped s = true -> not_cancelled (wd s) = false.
Proof. exact handle_drop_cancels. Qed.
Print Assumptions C04_handle_drop_cancels.

(* nobody but the handle (cancel, drop) and the executor's Task::drop cancels *)
Theorem C04_not_cancelled_unless : forall ls s, steps fixed init ls = Some s ->
  hcanc s = false -> e_past (ep s) = false -> not_cancelled (wd s) = true.
Proof. exact not_cancelled_unless. Qed.
Print Assumptions C04_not_cancelled_unless.

Theorem C04_detach_changes_nothing_else : forall s s', step fixed s LDetach = Some s' ->
  detached s' = true /\ hp s' = HGone /\ hcanc s' = hcanc s /\ ep s' = ep s /\ hot s' = hot s
  /\ stor s' = stor s /\ not_cancelled (wd s') = not_cancelled (wd s)
  /\ completed (wd s') = completed (wd s).
Proof. exact detach_keeps_running. Qed.
Print Assumptions C04_detach_changes_nothing_else.

(* a detached task runs to completion like any other (nobody cancelled it:
   C04_not_cancelled_unless) *)
Theorem C04_detached_task_completes : forall o, o <> OPending ->
  exists s s', steps fixed init [LDetach] = Some s /\ detached s = true /\ hcanc s = false
               /\ steps fixed s (run_to_completion o) = Some s' /\ completed (wd s') = true
               /\ has_result (wd s') = true /\ polls s' = 1.
Proof. exact detached_task_completes. Qed.
Print Assumptions C04_detached_task_completes.

Theorem C04_panic_confined : forall s,
  match step fixed s (EPollEnd OReady), step fixed s (EPollEnd OPanic) with
  | Some a, Some b => b = set_ep (EWrite true) a /\ ep a = EWrite false
  | None, None => True
  | _, _ => False
  end.
Proof. exact panic_confined. Qed.
Print Assumptions C04_panic_confined.

(* ---- teardown ------------------------------------------------------------ *)

Theorem C04_teardown : forall ls s, steps fixed init ls = Some s ->
  ((0 < wh s \/ h_hold (hp s) = true) ->
     shfreed s = false /\ scheduling (wd s) = true /\ e_passed (ep s) = false)
  /\ (shfreed s = true -> shnull s = true /\ wh s = 0 /\ h_hold (hp s) = false).
Proof. exact teardown_safe. Qed.
Print Assumptions C04_teardown.

(* Executor::tick before fd7e5a5 / Remote::schedule before 73f1b24: freed Shared is used *)
Theorem C04_tick_prefix_refuted :
  exists s, steps prefix_tickwait init witness_prefix_tickwait = Some s /\ bad s = true /\ shfreed s = true.
Proof. exact tick_prefix_refuted. Qed.
Print Assumptions C04_tick_prefix_refuted.

Theorem C04_schedule_prefix_refuted :
  exists s, steps prefix_owner init witness_prefix_owner = Some s /\ bad s = true /\ shfreed s = true.
Proof. exact schedule_prefix_refuted. Qed.
Print Assumptions C04_schedule_prefix_refuted.

(* the handle's waker is released with the task; before 87d5f4f it could leak *)
Theorem C04_waker_released : forall ls s,
  steps fixed init ls = Some s -> quiescent s = true -> slot s = false.
Proof. exact waker_released. Qed.
Print Assumptions C04_waker_released.

Theorem C04_waker_leak_prefix_refuted :
  exists s, steps prefix_wkleak init witness_prefix_wkleak = Some s
            /\ quiescent s = true /\ slot s = true /\ bad s = false.
Proof. exact waker_leak_prefix_refuted. Qed.
Print Assumptions C04_waker_leak_prefix_refuted.

(* ---- no starvation (Queue.v) --------------------------------------------- *)

(* PARTIAL: position 0 only (the head of the hot list runs in this tick, a tick
   runs at most max_interval tasks, whatever the tasks do to the queue) and
   under the hypothesis that the tick does not hit an expect()/debug_assert.
   Missing: positions p > 0 (within ceil((p+1)/max_interval) ticks, by induction
   over the live-link iteration) and panic-freedom of tick on a well-formed queue;
   the differential test compares the poll order of every tick with the model. *)
Theorem C04_no_starvation_partial :
  forall (W : Type) (run : W -> nat -> W * list qop * bool) mi q w x q' w' ran,
  1 <= mi -> nth_error (qhot q) 0 = Some x ->
  tick run mi q w = Ok (q', w', ran) -> In x ran /\ length ran <= mi.
Proof. exact @tick_runs_head. Qed.
Print Assumptions C04_no_starvation_partial.

(* ---- non-vacuity ---------------------------------------------------------- *)

(* a handle polled on the home thread (Pending), the task completes: the wake is due, then delivered *)
Example C04_output_reaches_nonvacuous :
  exists s, steps fixed init [LPoll true; ERunStart; EPollBegin; EPollEnd OReady; EWriteRes; EFinishRun] = Some s
            /\ completed (wd s) = true /\ hlast s = Some PPending /\ woken s = false /\ ep s = EWake true
            /\ exists s', step fixed s EWakeH = Some s' /\ woken s' = true.
Proof.
  eexists. split; [vm_compute; reflexivity|]. vm_compute. repeat split; try reflexivity.
  eexists. split; reflexivity.
Qed.
Print Assumptions C04_output_reaches_nonvacuous.

(* remote handle dropped while the future is being polled, the task still finishes:
   everything is dropped exactly once, the result by the final drop *)
Example C04_drop_once_nonvacuous :
  exists s, steps fixed init
              [ERunStart; EPollBegin; HCancelStart true; HSched ALoad; HSched APush; HSched AFin;
               HCanSetL; HDecr; EPollEnd OReady; EWriteRes; EFinishRun; EWakeH; EDropSetL; EDropNullL;
               EDropFutL; EDropWkL; EWaitDone; EDecr; FinRes; FinWk; FinDealloc] = Some s
            /\ quiescent s = true /\ fdrops s = 1 /\ rdrops s = 1 /\ rtakes s = 0 /\ deallocs s = 1
            /\ hdropped s = true /\ bad s = false.
Proof. eexists. split; [vm_compute; reflexivity|]. vm_compute. repeat split; reflexivity. Qed.
Print Assumptions C04_drop_once_nonvacuous.

(* teardown while a waker on another thread holds the pointer: the executor waits *)
Example C04_teardown_nonvacuous :
  exists s, steps fixed init
              [ERunStart; EPollBegin; LCloneW; EPollEnd OPending; WSendOut; WStart; WSched ALoad;
               ETeardown; EDropSetL; EDropNullL; EDropFutL; EDropWkL] = Some s
            /\ wh s = 1 /\ ep s = EWait /\ step fixed s EWaitDone = None
            /\ exists s', steps fixed s [WSched ABail; WSched AEarly; EWaitDone; EDecr; ESharedFree] = Some s'
                          /\ shfreed s' = true /\ bad s' = false.
Proof.
  eexists. split; [vm_compute; reflexivity|]. vm_compute. repeat split; try reflexivity.
  eexists. split; [reflexivity|]. split; reflexivity.
Qed.
Print Assumptions C04_teardown_nonvacuous.

(* a detached task runs to completion *)
Example C04_detach_nonvacuous :
  exists s, steps fixed init [LDetach] = Some s /\ hcanc s = false /\ ep s = EIdle /\ hot s = true
            /\ tearing s = false /\ detached s = true.
Proof. eexists. split; [vm_compute; reflexivity|]. vm_compute. repeat split; reflexivity. Qed.
Print Assumptions C04_detach_nonvacuous.

(* the queue: three self-waking tasks, max_interval 2: the head runs first, two per tick *)
Example C04_tick_nonvacuous :
  tick (fun (w : unit) c => (w, [QHot c], false)) 2 (mkq [0; 1; 2] [] [] 3) tt
  = Ok (mkq [2; 0; 1] [] [] 3, tt, [0; 1]).
Proof. vm_compute. reflexivity. Qed.
Print Assumptions C04_tick_nonvacuous.
