(* C13 — framing and ancillary codecs: round trip and hostile-input safety.
   Statements only: each theorem is closed by [exact lemma] and followed by
   Print Assumptions.  The lemmas live in thm/FrameThm.v and thm/CmsgThm.v, the
   models in model/Frame.v and model/Cmsg.v (tied to compio-io by the
   correspondence check c13).

   Vocabulary (model/Frame.v): [encode_stream fr frames] = what the Framed sink
   writes; [decode_stream fr sched bytes] = every poll of the Framed stream
   until it ends, the inner reader answering as [sched] says (RdChunk n = a read
   of at most n bytes, clipped to the spare capacity; RdChunk 0 = end of file;
   RdErr k = an I/O error; an exhausted schedule = end of file for ever); the
   result is (items, number of reads, bytes the reader still holds).
   [oks items] = the successfully decoded payloads, in order. *)
From Compio.Model Require Import Base Frame Cmsg RecvMsgOut.
From Compio.Model Require IoHelpers.
From Compio.Gen Require Consts.
From Compio.Thm Require Import FrameThm CmsgThm RecvMsgOutThm.
From Compio.Gen Require Frag.
From Compio.Thm Require FragIoThm.

(* ---------------------------------------------------------------------- *)
(* round trip                                                               *)

(* LengthDelimited, every width 1..8, both byte orders, EVERY frame list whose
   payload lengths fit the length field, EVERY schedule of the reader: never a
   panic; the decoded payloads are a prefix of the frame list (nothing merged,
   split, reordered or invented), and all of it once the reader has handed
   over the whole stream (nothing dropped). *)
Theorem C13_roundtrip_length_delimited : forall lfl be frames sched,
  1 <= lfl <= 8 ->
  Forall (fun p => (N.of_nat (length p) < 256 ^ N.of_nat lfl)%N) frames ->
  exists items reads rest n,
    decode_stream (LenDelim lfl be) sched (encode_stream (LenDelim lfl be) frames)
      = Ok (items, reads, rest) /\
    oks items = firstn n frames /\ (rest = [] -> oks items = frames).
Proof. exact roundtrip_length_delimited. Qed.
Print Assumptions C13_roundtrip_length_delimited.

(* AnyDelimited (CharDelimited<C> is AnyDelimited (utf8 C)), every non-empty
   delimiter, every frame list in which the first occurrence of the delimiter
   in payload ++ delimiter is the appended one, every schedule. *)
Theorem C13_roundtrip_delimiter : forall d frames sched,
  d <> [] ->
  Forall (fun p => find_sub d (p ++ d) = Some (length p)) frames ->
  exists items reads rest n,
    decode_stream (AnyDelim d) sched (encode_stream (AnyDelim d) frames) = Ok (items, reads, rest) /\
    oks items = firstn n frames /\ (rest = [] -> oks items = frames).
Proof. exact roundtrip_delimiter. Qed.
Print Assumptions C13_roundtrip_delimiter.

(* the condition on payloads, in familiar terms: a one-byte delimiter that does
   not occur in the payload; more generally a delimiter that has no border (no
   proper prefix equal to a suffix — every UTF-8 encoded char) and does not
   occur in the payload *)
Theorem C13_delimiter_free_one_byte : forall b p,
  ~ In b p -> find_sub [b] (p ++ [b]) = Some (length p).
Proof. exact payload_ok_single. Qed.
Print Assumptions C13_delimiter_free_one_byte.

Theorem C13_delimiter_free_unbordered : forall d p,
  ~ (exists k, 0 < k < length d /\ firstn k d = skipn (length d - k) d) ->
  (forall m, ~ exists a b, p = a ++ d ++ b /\ length a = m) ->
  find_sub d (p ++ d) = Some (length p).
Proof. exact payload_ok_unbordered. Qed.
Print Assumptions C13_delimiter_free_unbordered.

(* ALL fragmentations: whatever the sizes of the (non-empty) reads, as long as
   the reader is polled until the stream is drained, the decoder yields exactly
   the frame list *)
Theorem C13_roundtrip : forall fr frames ns,
  framer_ok fr -> delimited fr -> Forall (payload_ok fr) frames ->
  Forall (fun n => 1 <= n) ns -> length (encode_stream fr frames) <= length ns ->
  exists items reads,
    decode_stream fr (map RdChunk ns) (encode_stream fr frames) = Ok (items, reads, []) /\
    oks items = frames.
Proof. exact roundtrip_all_fragmentations. Qed.
Print Assumptions C13_roundtrip.

(* NoopFramer keeps no boundaries: the byte stream is preserved *)
Theorem C13_roundtrip_noop : forall mx frames sched,
  1 <= mx ->
  exists items reads rest,
    decode_stream (Noop mx) sched (encode_stream (Noop mx) frames) = Ok (items, reads, rest) /\
    concat (oks items) ++ rest = concat frames.
Proof. exact roundtrip_noop. Qed.
Print Assumptions C13_roundtrip_noop.

(* ---------------------------------------------------------------------- *)
(* hostile input                                                            *)

(* Framer::extract on EVERY byte string: no panic, and a returned frame is
   non-empty and lies inside the buffer, so that Frame::slice is exact.
   (LenDelim: width 1..8; AnyDelim: non-empty delimiter; Noop: max_size >= 1.) *)
Theorem C13_extract_total : forall fr w,
  framer_ok fr ->
  extract fr w = Ok None \/
  exists f, extract fr w = Ok (Some f) /\ 1 <= frame_len f /\ frame_len f <= length w.
Proof. exact extract_inside. Qed.
Print Assumptions C13_extract_total.

Theorem C13_extract_length_delimited_total : forall lfl be w,
  1 <= lfl <= 8 ->
  extract (LenDelim lfl be) w = Ok None \/
  exists f, extract (LenDelim lfl be) w = Ok (Some f) /\
            1 <= frame_len f /\ frame_len f <= length w.
Proof. exact extract_length_delimited_total. Qed.
Print Assumptions C13_extract_length_delimited_total.

Theorem C13_extract_payload_inside : forall fr w f,
  framer_ok fr -> extract fr w = Ok (Some f) ->
  f_prefix f + f_payload f <= length w /\
  frame_slice f w = Ok (firstn (f_payload f) (skipn (f_prefix f) w)) /\
  length (firstn (f_payload f) (skipn (f_prefix f) w)) = f_payload f.
Proof. exact extract_payload_inside. Qed.
Print Assumptions C13_extract_payload_inside.

(* The Framed stream on EVERY byte string under EVERY schedule: it produces
   items (frames or errors) and ends — never a panic, never [Panic P_HANG] (the
   inner loop is bounded by the buffered bytes and never exhausts the bound;
   the outer recursion is structural in the schedule) — within
   |schedule| + 2 reads and |stream| + |schedule| items. *)
Theorem C13_reader_terminates : forall fr sched src,
  framer_ok fr ->
  exists items reads rest,
    decode_stream fr sched src = Ok (items, reads, rest) /\
    reads <= length sched + 2 /\
    length items + length rest <= length src + length sched.
Proof. exact decode_stream_total. Qed.
Print Assumptions C13_reader_terminates.

(* ---------------------------------------------------------------------- *)
(* construction paths                                                       *)

(* new(), Default::default() and a Clone of either give the same framer, and
   it is the declared one (CharDelimited<C>: the UTF-8 encoding of C): every
   theorem of this file holds for framers however they were built *)
Theorem C13_constructors_agree : forall ct s, framer_via ct s = framer_via CNew s.
Proof. exact framer_via_new. Qed.
Print Assumptions C13_constructors_agree.

Theorem C13_constructor_declared : forall ct s,
  framer_via ct s =
  match s with
  | FLen lfl be => LenDelim lfl be
  | FAny d => AnyDelim d
  | FChar c => AnyDelim (utf8 c)
  | FNoop => Noop (nn Consts.NOOP_MAX_SIZE)
  end.
Proof. exact framer_via_declared. Qed.
Print Assumptions C13_constructor_declared.

(* ---------------------------------------------------------------------- *)
(* the sink with a codec that can fail                                      *)

(* Vocabulary (model/Frame.v): an item is a payload plus, for a flagged item,
   the number k of bytes the encoder appends to the buffer before it returns
   an error.  [sink_run fr ops sink_init ws []] drives a fresh Framed sink
   through a program of feed / send / flush / close against a scripted writer
   (short writes, Interrupted, errors, Ok(0)); it returns the result of every
   operation, the final state and the writer's event log. *)

(* `send` for EVERY list of items, with failures at arbitrary positions and
   arbitrary partial outputs, EVERY writer script under which no write error
   is reported: the bytes handed to the writer are exactly the concatenation
   of the framings of the successfully encoded items, each framed on its own;
   a failing item yields a codec error for that item only. *)
Theorem C13_sink_frames : forall fr items ws rs sk' log',
  sink_run fr (map SSend items) sink_init ws [] = (rs, sk', log') ->
  Forall (fun r => ~ io_err r) rs ->
  IoHelpers.sink_bytes log' = encode_stream fr (ok_payloads items) /\
  rs = map (fun it => match si_fail it with None => SOk | Some _ => SCodecErr end) items.
Proof. exact sink_send_all. Qed.
Print Assumptions C13_sink_frames.

(* the same for every program mixing feed, send, flush and close: what the
   writer got plus the frame still pending = the framings of the ok items *)
Theorem C13_sink_program : forall fr ops ws rs sk' log',
  sink_run fr ops sink_init ws [] = (rs, sk', log') ->
  Forall (fun r => ~ io_err r) rs ->
  rs = map expected_res ops /\
  IoHelpers.sink_bytes log' ++ pend sk' = concat (ok_frames fr ops).
Proof. exact sink_program_exact. Qed.
Print Assumptions C13_sink_program.

(* EVERY writer script, errors included: the writer only ever sees prefixes of
   the framings of successfully encoded items, in order — never a byte of a
   failed item, never a frame glued to what the buffer held before *)
Theorem C13_sink_no_leak : forall fr ops ws rs sk' log',
  sink_run fr ops sink_init ws [] = (rs, sk', log') ->
  exists bs, pieces (ok_frames fr ops) bs /\
    (sk_writing sk' = false -> bs = IoHelpers.sink_bytes log') /\
    (sk_writing sk' = true -> bs = IoHelpers.sink_bytes log' ++ sk_buf sk').
Proof. exact sink_no_leak. Qed.
Print Assumptions C13_sink_no_leak.

(* a decoder that rejects some frames: the rejected frame is consumed like any
   other, the following frames are unaffected *)
Theorem C13_failing_decoder : forall fr frames ns,
  framer_ok fr -> delimited fr -> Forall (payload_ok fr) frames ->
  Forall (fun n => 1 <= n) ns -> length (encode_stream fr frames) <= length ns ->
  exists items reads,
    decode_stream_probe fr (map RdChunk ns) (encode_stream fr frames) =
      Ok (map probe_decode items, reads, []) /\
    oks items = frames.
Proof. exact roundtrip_probe_decoder. Qed.
Print Assumptions C13_failing_decoder.

Example C13_nonvacuous_sink :
  sink_run (LenDelim 2 true)
    [SSend (mksitem [1;2;3]%N None); SFeed (mksitem [7;7;7;7]%N (Some 2));
     SFeed (mksitem [9]%N None); SFlush; SFlush; SSend (mksitem [5;5]%N (Some 9)); SClose]
    sink_init
    [IoHelpers.AChunk 2; IoHelpers.AErr E_INTERRUPTED; IoHelpers.AChunk 100; IoHelpers.AChunk 1;
     IoHelpers.AChunk 100] []
  = ([SOk; SCodecErr; SOk; SOk; SOk; SCodecErr; SOk], mksink [] false false,
     [IoHelpers.WBytes [0;3]%N; IoHelpers.WBytes [1;2;3]%N; IoHelpers.WBytes [0%N];
      IoHelpers.WBytes [1;9]%N; IoHelpers.WFlush; IoHelpers.WShutdown]).
Proof. vm_compute. reflexivity. Qed.
Print Assumptions C13_nonvacuous_sink.

(* ---------------------------------------------------------------------- *)
(* ancillary data                                                           *)

(* a message list that fits a buffer of [cap] bytes (sum of CMSG_SPACE) is
   accepted entirely by AncillaryBuilder::push and comes back unchanged —
   level, type and data — from AncillaryIter, whatever types are decoded *)
Theorem C13_cmsg_roundtrip : forall cap ms wants dw,
  HDR <= cap -> Forall msg_ok ms -> ms <> [] -> total_space ms <= cap ->
  exists bytes items,
    build cap ms = Ok (repeat 0%N (length ms), bytes) /\
    length bytes = total_space ms /\
    iterate bytes wants dw = Ok items /\
    map (item_msg bytes) items = ms.
Proof. exact cmsg_roundtrip_fits. Qed.
Print Assumptions C13_cmsg_roundtrip.

(* every buffer size, every list: what the space check accepted comes back; a
   refused push leaves the buffer as it was *)
Theorem C13_cmsg_roundtrip_accepted : forall cap ms st bytes wants dw,
  Forall msg_ok ms -> build cap ms = Ok (st, bytes) -> accepted st ms <> [] ->
  exists items, iterate bytes wants dw = Ok items /\
    map (item_msg bytes) items = accepted st ms /\ Forall (inside bytes) items.
Proof. exact cmsg_roundtrip. Qed.
Print Assumptions C13_cmsg_roundtrip_accepted.

Theorem C13_cmsg_build_total : forall cap ms,
  HDR <= cap -> Forall msg_ok ms ->
  exists st bytes, build cap ms = Ok (st, bytes) /\
    layout (accepted st ms) bytes /\ length st = length ms /\ length bytes <= cap.
Proof. exact build_spec. Qed.
Print Assumptions C13_cmsg_build_total.

(* every slice CMsgRef::decode_data hands to AncillaryData::decode lies inside
   the control buffer: offset + length <= |buffer| *)
Theorem C13_cmsg_bounds : forall cap ms st bytes wants dw items,
  Forall msg_ok ms -> build cap ms = Ok (st, bytes) ->
  iterate bytes wants dw = Ok items ->
  Forall (fun it => ci_off it + nn (ci_slen it) <= length bytes) items.
Proof. exact cmsg_bounds. Qed.
Print Assumptions C13_cmsg_bounds.

(* ---------------------------------------------------------------------- *)
(* the result buffer of a multishot RECVMSG (model/RecvMsgOut.v)            *)

(* Vocabulary: [kernel_fill old clen name ctl payload flags want_trunc] = the
   initialised part of a pool buffer whose previous content was [old], after
   the kernel received a datagram into it with a control reservation of [clen]
   bytes: header, name area (NLEN = 128 reserved), control area (clen reserved),
   payload (cut to the room left); the reserved parts beyond the name / control
   data keep the bytes of [old].  rm_new / rm_data / rm_ancillary / rm_addr /
   rm_flags = RecvMsgMultiResult::{new, data, ancillary, addr, flags}.       *)

(* For EVERY previous content of the buffer, every reservation, address,
   control data that fits it and payload: the constructor accepts the buffer,
   and the slices are exact — ancillary() is the controllen bytes the kernel
   wrote (not the reservation, none of the stale bytes), data() the stored
   payload, addr() the address, flags() carries MSG_TRUNC iff the payload was
   cut (with or without MSG_TRUNC among the receive flags). *)
Theorem C13_recvmsg_roundtrip : forall old clen name ctl payload flags want_trunc,
  length name <= NLEN -> length ctl <= clen -> OUT_HDR + NLEN + clen <= length old ->
  u32 (NN clen) -> u32 (NN (length payload)) -> u32 flags ->
  let buf := kernel_fill old clen name ctl payload flags want_trunc in
  let stored := firstn (payload_space old clen) payload in
  rm_new buf clen = Ok tt /\
  rm_data buf clen = Ok (OUT_HDR + NLEN + clen, stored) /\
  rm_ancillary buf = Ok (OUT_HDR + NLEN, ctl) /\
  rm_addr buf = match name with [] => ANone | _ => ASome name end /\
  rm_flags buf = (if Nat.ltb (length stored) (length payload) then N.lor flags MSG_TRUNC else flags).
Proof. exact kernel_roundtrip. Qed.
Print Assumptions C13_recvmsg_roundtrip.

(* ... and AncillaryIter over that slice yields exactly the control messages
   the kernel laid out, whatever the reused buffer held before *)
Theorem C13_recvmsg_cmsgs : forall old clen name ms ctl payload flags want_trunc wants dw,
  layout ms ctl -> Forall msg_ok ms -> ms <> [] ->
  length name <= NLEN -> length ctl <= clen -> OUT_HDR + NLEN + clen <= length old ->
  u32 (NN clen) -> u32 (NN (length payload)) -> u32 flags ->
  exists anc items,
    rm_ancillary (kernel_fill old clen name ctl payload flags want_trunc) = Ok (OUT_HDR + NLEN, anc) /\
    length anc = length ctl /\
    iterate anc wants dw = Ok items /\ map (item_msg anc) items = ms.
Proof. exact kernel_cmsgs. Qed.
Print Assumptions C13_recvmsg_cmsgs.

(* EVERY byte string the constructor accepts: data() is in bounds and never
   panics; ancillary() is either a slice of exactly controllen bytes inside
   the buffer or a slice-index panic (never an out-of-bounds access), and no
   panic at all when controllen <= the reservation; addr() reads inside the
   buffer and fits sockaddr_storage whenever it returns bytes *)
Theorem C13_recvmsg_bounds : forall buf clen,
  rm_new buf clen = Ok tt ->
  (exists d, rm_data buf clen = Ok (OUT_HDR + NLEN + clen, d) /\
             OUT_HDR + NLEN + clen + length d = length buf) /\
  (rm_ancillary buf = Panic P_SLICE_INDEX \/
   exists a, rm_ancillary buf = Ok (OUT_HDR + NLEN, a) /\
             NN (length a) = oh_controllen (parse_hdr buf) /\
             OUT_HDR + NLEN + length a <= length buf) /\
  ((oh_controllen (parse_hdr buf) <= NN clen)%N -> exists a, rm_ancillary buf = Ok (OUT_HDR + NLEN, a)) /\
  (forall bs, rm_addr buf = ASome bs -> OUT_HDR + length bs <= length buf /\ length bs <= NLEN).
Proof. exact rm_bounds. Qed.
Print Assumptions C13_recvmsg_bounds.

(* a reused buffer that still holds a 24-byte control message from an earlier
   datagram; the new datagram carries none: ancillary() is empty *)
Example C13_nonvacuous_recvmsg :
  let old := repeat 0%N (OUT_HDR + NLEN) ++ [20;0;0;0;0;0;0;0; 0;0;0;0; 1;0;0;0; 9;9;9;9; 0;0;0;0]%N
             ++ repeat 7%N 40 in
  rm_ancillary (kernel_fill old 24 (repeat 2%N 16) [] [1;2;3]%N 0 false) = Ok (OUT_HDR + NLEN, []) /\
  rm_data (kernel_fill old 24 (repeat 2%N 16) [] [1;2;3]%N 0 false) 24 = Ok (OUT_HDR + NLEN + 24, [1;2;3]%N).
Proof. split; vm_compute; reflexivity. Qed.
Print Assumptions C13_nonvacuous_recvmsg.

(* Fixed (commit 004c7e7): the constructor asserted buffer.len() >= fixed
   areas + payloadlen.  With MSG_TRUNC among the receive flags payloadlen is
   the length of the datagram; a 200-byte datagram into a buffer with room for
   48 made the assertion fail — a panic any peer can cause.  [rm_new_v0] is
   the old check. *)
Example C13_fixed_recvmsg_trunc_witness :
  let buf := kernel_fill (repeat 0%N 256) 64 (repeat 2%N 16) [] (repeat 5%N 200) 0 true in
  rm_new_v0 buf 64 = Panic P_ASSERT /\ rm_new buf 64 = Ok tt /\
  rm_data buf 64 = Ok (208, repeat 5%N 48) /\ rm_flags buf = MSG_TRUNC.
Proof. repeat split; vm_compute; reflexivity. Qed.
Print Assumptions C13_fixed_recvmsg_trunc_witness.

(* ---------------------------------------------------------------------- *)
(* non-vacuity                                                              *)

Example C13_nonvacuous_roundtrip :
  framer_ok (LenDelim 2 false) /\ Forall (payload_ok (LenDelim 2 false)) [[1;2;3]; []; [9;9]]%N /\
  decode_stream (LenDelim 2 false) [RdChunk 1; RdChunk 0; RdChunk 3; RdErr 5; RdChunk 100]
    (encode_stream (LenDelim 2 false) [[1;2;3]; []; [9;9]]%N)
  = Ok ([IErr 5%N; IOk [1;2;3]%N; IOk []; IOk [9;9]%N], 6, []).
Proof.
  split; [vm_compute; lia|]. split; [|vm_compute; reflexivity].
  repeat constructor; vm_compute; reflexivity.
Qed.
Print Assumptions C13_nonvacuous_roundtrip.

Example C13_nonvacuous_char_delimited :
  payload_ok (CharDelim 8477) [104; 226; 132]%N /\
  decode_stream (CharDelim 8477) [RdChunk 4; RdChunk 100]
    (encode_stream (CharDelim 8477) [[104; 226; 132]; [7]]%N)
  = Ok ([IOk [104; 226; 132]%N; IOk [7%N]], 4, []).
Proof. split; vm_compute; reflexivity. Qed.
Print Assumptions C13_nonvacuous_char_delimited.

Example C13_nonvacuous_cmsg :
  Forall msg_ok [mkmsg 1 2 [9;8;7;6]%N; mkmsg 4294967295 7 [1]%N] /\
  build 48 [mkmsg 1 2 [9;8;7;6]%N; mkmsg 4294967295 7 [1]%N; mkmsg 0 0 []] =
    Ok ([0; 0; 1]%N,
        [20;0;0;0;0;0;0;0; 1;0;0;0; 2;0;0;0; 9;8;7;6; 0;0;0;0;
         17;0;0;0;0;0;0;0; 255;255;255;255; 7;0;0;0; 1; 0;0;0;0;0;0;0]%N).
Proof.
  split; [|vm_compute; reflexivity].
  repeat constructor; vm_compute; reflexivity.
Qed.
Print Assumptions C13_nonvacuous_cmsg.

(* ---------------------------------------------------------------------- *)
(* findings                                                                 *)

(* Known finding (no error path in the API): LengthDelimited::enclose writes
   only the low lfl bytes of the length.  A 300-byte payload with a one-byte
   length field goes out with length 44 = 300 mod 256; the receiver gets a
   44-byte frame and then interprets payload bytes as headers.  The guard
   |payload| < 256^lfl of C13_roundtrip_length_delimited cannot be dropped. *)
Example C13_known_lenfield_truncation_refuted :
  hd_error (encode_stream (LenDelim 1 true) [repeat 7%N 300]) = Some 44%N /\
  exists items reads rest,
    decode_stream (LenDelim 1 true) (repeat (RdChunk 1000) 40)
      (encode_stream (LenDelim 1 true) [repeat 7%N 300]) = Ok (items, reads, rest) /\
    rest = [] /\ hd_error (oks items) = Some (repeat 7%N 44) /\ oks items <> [repeat 7%N 300].
Proof.
  split; [vm_compute; reflexivity|].
  eexists _, _, _. split; [vm_compute; reflexivity|].
  split; [reflexivity|]. split; [vm_compute; reflexivity|]. vm_compute. discriminate.
Qed.
Print Assumptions C13_known_lenfield_truncation_refuted.

(* the payload condition of C13_roundtrip_delimiter is tight: with the bordered
   delimiter "aba" the delimiter-free payload "ab" comes back as "" *)
Example C13_bordered_delimiter_example :
  find_sub [97;98;97]%N [97;98]%N = None /\
  exists reads, decode_stream (AnyDelim [97;98;97]%N) [RdChunk 100]
    (encode_stream (AnyDelim [97;98;97]%N) [[97;98]%N]) = Ok ([IOk []], reads, []).
Proof. split; [vm_compute; reflexivity|]. eexists. vm_compute. reflexivity. Qed.
Print Assumptions C13_bordered_delimiter_example.

(* Fixed (commit 6417e42): extract formed `lfl + len` before comparing; with an
   8-byte length field holding ff..ff the sum overflows usize (debug: panic).
   [extract_len_v0] is the old arithmetic, [extract] the code as it is now. *)
Example C13_fixed_extract_overflow_witness :
  extract_len_v0 8 true (repeat 255%N 8) = Panic P_ADD_OVERFLOW /\
  extract (LenDelim 8 true) (repeat 255%N 8) = Ok None.
Proof. split; vm_compute; reflexivity. Qed.
Print Assumptions C13_fixed_extract_overflow_witness.

(* Fixed (commit 22bb801): decode_data built the data slice with length
   cmsg_len (header included).  One 4-byte message in a 24-byte buffer:
   the old slice is [16, 36), 12 bytes past the buffer; now [16, 20). *)
Example C13_fixed_cmsg_slice_witness :
  (let '(off, len) := data_slice_v0 0 20 in off + nn len) = 36 /\
  (let '(off, len) := data_slice 0 20 in off + nn len) = 20 /\
  exists bytes, build 24 [mkmsg 1 2 [9;8;7;6]%N] = Ok ([0%N], bytes) /\ length bytes = 24.
Proof. split; [|split]; [vm_compute; reflexivity..|]. eexists. split; vm_compute; reflexivity. Qed.
Print Assumptions C13_fixed_cmsg_slice_witness.

(* ---- source tie (translated from the Rust source on every run by tools/rs2v.py
        into gen/Frag.v; an edit of the function changes the generated definition) ---- *)
(* the two guards and the frame of LengthDelimited::extract (compio-io/src/framed/frame.rs)
   as the source has them now are the model's extract for the length-delimited framer,
   for every width, byte order and window *)
Theorem C13_length_delimited_extract_is_source : forall lfl be w,
  extract (LenDelim lfl be) w =
    if Frag.ld_too_short (NN (length w)) (NN lfl) then Ok None
    else let len := len_value be (firstn lfl w) in
         if Frag.ld_incomplete (NN (length w)) (NN lfl) len then Ok None
         else let '(p, l, s) := Frag.ld_frame (NN lfl) len in Ok (Some (mkframe (nn p) (nn l) (nn s))).
Proof. exact FragIoThm.ld_extract_tie. Qed.
Print Assumptions C13_length_delimited_extract_is_source.
