(* C17 — the blocking pool is bounded and loses nothing.
   Model: model/Asyncify.v, an interleaving LTS of compio-driver/src/asyncify.rs
   and the retry loop of push_blocking.  [step] = the protocol of the code as it
   is (after the two `fix:` commits: the dispatcher reserves the worker slot
   with a compare-exchange and hands the closure to the spawned worker
   directly); [step_old] = the protocol before (load / spawn / blocking send,
   the worker increments).  Every theorem quantifies over ALL interleavings
   (any event list), all limits l >= 1, any number d of dispatcher threads
   (runtimes sharing the pool) and any number of jobs.  Tie to the code:
   recorded histories of the real pool are replayed through [step]
   (model/RunC17.v, ./check C17).  Statements only. *)
From Compio.Model Require Import Base Asyncify.
From Compio.Thm Require Import AsyncifyThm.
From Compio.Gen Require Frag.
From Compio.Thm Require FragMiscThm.

(* the number of pool threads that exist, and of those inside a job, never
   exceeds the limit (for every limit, 0 included); `counter` is exactly the
   live threads plus the slots reserved by dispatchers about to spawn *)
Theorem C17_bounded : forall l d es s,
  steps (init l d) es = Some s ->
  counter s = alive s + reserved s /\ counter s <= l /\ alive s <= l /\ running s <= l.
Proof. exact bounded. Qed.
Print Assumptions C17_bounded.

(* CounterGuard::drop never wraps the counter, and a worker that timed out can
   always finish exiting *)
Theorem C17_guard_never_underflows : forall l d es s w,
  steps (init l d) es = Some s -> nth_error (work s) w = Some WExiting ->
  1 <= counter s /\ exists s', step s (EGuardDrop w) = Some s'.
Proof. exact guard_never_underflows. Qed.
Print Assumptions C17_guard_never_underflows.

(* exactly once: in every reachable state the closure of every submitted job is
   in exactly one place (one dispatcher or one worker) or has been consumed by
   its single run; it is started at most once, by one worker; once its result
   is delivered it was run exactly once, nobody holds it any more, and the one
   entry for it went to ITS submitter's completed channel, carrying the panic
   as an error exactly when the operation panicked *)
Theorem C17_exactly_once : forall l d es s j x, 1 <= l ->
  steps (init l d) es = Some s -> nth_error (jobs s) j = Some x ->
  holders s j + delivered s j = 1 /\
  runs x = running_j s j + delivered s j /\
  runs x <= 1 /\
  (delivered s j = 1 ->
     runs x = 1 /\ holders s j = 0 /\ In (owner x, j, panics x) (completed s)) /\
  (forall e, In e (completed s) -> snd (fst e) = j -> e = (owner x, j, panics x)).
Proof. exact exactly_once. Qed.
Print Assumptions C17_exactly_once.

(* never lost, never stuck: from every reachable state every job whose result
   has not been delivered can still be run to completion — no interleaving
   reaches a state in which a job sits with a thread that can never hand it on
   (false for the old protocol: C17_old_handover_stuck) *)
Theorem C17_never_stuck : forall l d es s j, 1 <= l ->
  steps (init l d) es = Some s -> j < length (jobs s) -> delivered s j = 0 ->
  (forall dd, nth_error (disp s) dd <> Some (DFailed j)) ->    (* its dispatch did not panic on a refused thread *)
  exists es' s', steps s es' = Some s' /\ delivered s' j = 1.
Proof. exact never_stuck. Qed.
Print Assumptions C17_never_stuck.

(* a saturated pool hands the very closure back: dispatch returns Err(f) only
   when the limit is reached, with the same job, not run, held by nobody else,
   and nothing else changed *)
Theorem C17_handed_back : forall l d es s dd s', 1 <= l ->
  steps (init l d) es = Some s -> step s (ECheckFail dd) = Some s' ->
  exists j x,
    nth_error (disp s) dd = Some (DFull j) /\ nth_error (disp s') dd = Some (DRejected j) /\
    limit s <= counter s /\
    jobs s' = jobs s /\ work s' = work s /\ completed s' = completed s /\ counter s' = counter s /\
    nth_error (jobs s') j = Some x /\ runs x = 0 /\ holders s' j = 1 /\ delivered s' j = 0.
Proof. exact handed_back. Qed.
Print Assumptions C17_handed_back.

(* the retry loop of push_blocking (closure = e.0; yield_now(); dispatch again)
   re-submits the same job: neither dropped nor duplicated, not yet run; any
   number of rounds is covered by C17_exactly_once, which holds in every state *)
Theorem C17_no_lost_job_on_retry : forall l d es s dd s1 s2, 1 <= l ->
  steps (init l d) es = Some s ->
  step s (ECheckFail dd) = Some s1 -> step s1 (ERetry dd) = Some s2 ->
  exists j x,
    nth_error (disp s) dd = Some (DFull j) /\ nth_error (disp s2) dd = Some (DTry j) /\
    jobs s2 = jobs s /\ work s2 = work s /\ completed s2 = completed s /\
    nth_error (jobs s2) j = Some x /\ runs x = 0 /\ holders s2 j = 1 /\ delivered s2 j = 0.
Proof. exact no_lost_job_on_retry. Qed.
Print Assumptions C17_no_lost_job_on_retry.

(* after every worker has timed out and exited (and no dispatch is in
   progress), a later dispatch cannot be served by try_send, reserves a slot,
   spawns a NEW worker, and that worker runs the job once and delivers the
   result to the submitter *)
Theorem C17_retire_then_run : forall l d es s dd p, 1 <= l ->
  steps (init l d) es = Some s ->
  all_exited s = true -> all_idle s = true -> dd < length (disp s) ->
  let j := length (jobs s) in
  let w := length (work s) in
  exists s1 s',
    step s (ECall dd p) = Some s1 /\
    (forall w', step s1 (ETrySendOk dd w') = None) /\
    steps s1 [ETrySendFull dd; ECheckOk dd; ESpawn dd; EStart w; EEnd w; EWake w] = Some s' /\
    length (work s') = S w /\ nth_error (work s') w = Some WLoop /\
    nth_error (jobs s') j = Some (mk_job dd p 1) /\
    completed s' = completed s ++ [(dd, j, p)] /\ wakes s' = wakes s ++ [(dd, j)].
Proof. exact retire_then_run. Qed.
Print Assumptions C17_retire_then_run.

(* the OS refuses to create the thread exactly when the pool must grow
   (ESpawnFail is an environment label of [step], so every theorem of this file
   already quantifies over runs with such failures; C17_exactly_once then says
   that no job is ever accepted-and-lost: a job is held by a thread, delivered,
   or sits with a dispatcher whose dispatch call PANICKED).  The failed dispatch
   gives the reserved slot back, changes nothing else, and the job has not run *)
Theorem C17_spawn_failure_visible : forall l d es s dd s', 1 <= l ->
  steps (init l d) es = Some s -> step s (ESpawnFail dd) = Some s' ->
  exists j x,
    nth_error (disp s) dd = Some (DSpawn j) /\ nth_error (disp s') dd = Some (DFailed j) /\
    S (counter s') = counter s /\ counter s' = alive s' + reserved s' /\
    work s' = work s /\ jobs s' = jobs s /\ completed s' = completed s /\
    nth_error (jobs s') j = Some x /\ runs x = 0 /\ delivered s' j = 0 /\
    sumf (hw j) (work s') = 0.
Proof. exact spawn_failure_visible. Qed.
Print Assumptions C17_spawn_failure_visible.

(* ... that dispatch call never returns Ok afterwards (the dispatcher stays in
   DFailed under every label), and the job is never run or delivered behind the
   submitter's back *)
Theorem C17_failed_dispatch_never_ok : forall s e s' dd j,
  nth_error (disp s) dd = Some (DFailed j) -> step s e = Some s' ->
  nth_error (disp s') dd = Some (DFailed j).
Proof. exact failed_stays_failed. Qed.
Print Assumptions C17_failed_dispatch_never_ok.

Theorem C17_failed_never_runs : forall l d es s dd j x, 1 <= l ->
  steps (init l d) es = Some s -> nth_error (disp s) dd = Some (DFailed j) ->
  nth_error (jobs s) j = Some x ->
  runs x = 0 /\ delivered s j = 0 /\ sumf (hw j) (work s) = 0.
Proof. exact failed_never_runs. Qed.
Print Assumptions C17_failed_never_runs.

(* non-vacuity: limit 1, the first growth is refused; the slot is free again, the
   second submitter's job is accepted, spawned and run *)
Example C17_spawn_failure_example :
  exists s, steps (init 1 2) [ECall 0 false; ETrySendFull 0; ECheckOk 0; ESpawnFail 0;
                             ECall 1 false; ETrySendFull 1; ECheckOk 1; ESpawn 1; EStart 0; EEnd 0; EWake 0] = Some s /\
            nth_error (disp s) 0 = Some (DFailed 0) /\ completed s = [(1, 1, false)] /\
            counter s = 1 /\ alive s = 1.
Proof. eexists. split; [vm_compute; reflexivity|]. vm_compute. auto. Qed.
Print Assumptions C17_spawn_failure_example.

(* result delivery wakes the submitter: whenever a result sits in a completed
   channel, the driver of ITS submitter has been woken for it, or the worker
   that sent it is at the wake, its very next step, which is enabled without any
   condition (no "only if idle" test, nothing between send and wake) — for
   every limit, every interleaving, however many jobs finish at the same time *)
Theorem C17_every_result_wakes : forall l d es s dd j p,
  steps (init l d) es = Some s -> In (dd, j, p) (completed s) ->
  In (dd, j) (wakes s) \/
  exists w s', nth_error (work s) w = Some (WSent dd j) /\
               step s (EWake w) = Some s' /\ In (dd, j) (wakes s').
Proof. exact every_result_wakes. Qed.
Print Assumptions C17_every_result_wakes.

(* ... and a wake is only ever issued after the result it announces was sent
   (the driver that is woken finds the entry) *)
Theorem C17_wake_after_send : forall l d es s dd j,
  steps (init l d) es = Some s -> In (dd, j) (wakes s) ->
  exists p, In (dd, j, p) (completed s).
Proof. exact wake_after_send. Qed.
Print Assumptions C17_wake_after_send.

(* C17_bounded is a statement about ONE pool object (one counter, one channel):
   submitters that are meant to share a limit must share the pool.  Two pool
   objects of limit 1 (e.g. every runtime of a dispatcher creating its own)
   run two jobs at once although each of them obeys its limit *)
Example C17_bound_is_per_pool :
  exists a b, steps (init 1 1) [ECall 0 false; ETrySendFull 0; ECheckOk 0; ESpawn 0; EStart 0] = Some a /\
              steps (init 1 1) [ECall 0 false; ETrySendFull 0; ECheckOk 0; ESpawn 0; EStart 0] = Some b /\
              running a <= limit a /\ running b <= limit b /\ limit a = 1 /\ limit b = 1 /\
              running a + running b = 2.
Proof. eexists. eexists. split; [vm_compute; reflexivity|]. split; [vm_compute; reflexivity|]. vm_compute. auto 10. Qed.
Print Assumptions C17_bound_is_per_pool.

(* ---------------------------------------------------------------------- *)
(* the protocol before the fixes (step_old): the bound is false, and a job can
   be stuck for ever *)

(* D10: limit 1, two dispatchers pass the limit check before either worker has
   counted itself in: two workers, two jobs running at once *)
Lemma C17_bounded_refuted :
  exists s, steps_old (init 1 2) d10_trace = Some s /\
            limit s = 1 /\ running s = 2 /\ alive s = 2 /\ counter s = 2.
Proof. exact old_bounded_refuted. Qed.
Print Assumptions C17_bounded_refuted.

(* even ONE dispatcher exceeded the limit (limit 2, three workers) when a
   spawned worker had not yet counted itself in at the next dispatch *)
Lemma C17_bounded_single_refuted :
  exists s, steps_old (init 2 1) d10_single_trace = Some s /\
            limit s = 2 /\ alive s = 3 /\ counter s = 3 /\ running s = 2.
Proof. exact old_bounded_single_refuted. Qed.
Print Assumptions C17_bounded_single_refuted.

(* the hand-over window: the fresh worker times out and exits before the
   dispatcher's blocking send; the dispatcher waits for ever, the job never
   runs, and no label at all is enabled any more *)
Lemma C17_old_handover_stuck :
  exists s, steps_old (init 1 1) handover_trace = Some s /\
            disp s = [DSendWait 0] /\ work s = [WExited] /\
            delivered s 0 = 0 /\ running_j s 0 = 0 /\
            forall e, step_old s e = None.
Proof. exact old_handover_stuck. Qed.
Print Assumptions C17_old_handover_stuck.

(* ---------------------------------------------------------------------- *)
(* non-vacuity *)

(* the D10 window under the repaired protocol: the second dispatcher's
   reservation is refused (the same interleaving is not a run), it is rejected
   instead, retries, and both jobs run one after the other on one worker *)
Example C17_window_now_rejected :
  steps (init 1 2) [ECall 0 false; ECall 1 false; ETrySendFull 0; ETrySendFull 1;
                    ECheckOk 0; ECheckOk 1] = None /\
  exists s, steps (init 1 2)
      [ECall 0 false; ECall 1 true; ETrySendFull 0; ETrySendFull 1; ECheckOk 0; ECheckFail 1;
       ESpawn 0; ERetry 1; ETrySendFull 1; ECheckFail 1; EStart 0; EEnd 0; EWake 0; ERecvEnter 0;
       ERetry 1; ETrySendOk 1 0; EStart 0; EEnd 0; EWake 0; ERecvEnter 0; ETimeout 0; EGuardDrop 0] = Some s /\
    completed s = [(0, 0, false); (1, 1, true)] /\ wakes s = [(0, 0); (1, 1)] /\ counter s = 0 /\
    all_exited s = true /\ all_idle s = true /\ length (work s) = 1.
Proof.
  split; [vm_compute; reflexivity|]. eexists. split; [vm_compute; reflexivity|].
  vm_compute. auto 10.
Qed.
Print Assumptions C17_window_now_rejected.

(* hypotheses of C17_retire_then_run / C17_handed_back / C17_never_stuck are met
   by concrete reachable states: a retired pool; a saturated pool with a job in
   flight and a second dispatcher holding a Full closure *)
Example C17_nonvacuous :
  (exists s, steps (init 2 2) [ECall 0 false; ETrySendFull 0; ECheckOk 0; ESpawn 0; EStart 0; EEnd 0; EWake 0;
                              ERecvEnter 0; ETimeout 0; EGuardDrop 0] = Some s /\
             all_exited s = true /\ all_idle s = true /\ length (work s) = 1 /\
             exists s', steps s [ECall 1 true; ETrySendFull 1; ECheckOk 1; ESpawn 1; EStart 1; EEnd 1] = Some s' /\
                        completed s' = [(0, 0, false); (1, 1, true)] /\ length (work s') = 2) /\
  (exists s s', steps (init 1 2) [ECall 0 false; ETrySendFull 0; ECheckOk 0; ESpawn 0; EStart 0;
                                 ECall 1 false; ETrySendFull 1] = Some s /\
                step s (ECheckFail 1) = Some s' /\ running s = 1 /\ delivered s 1 = 0 /\
                nth_error (disp s') 1 = Some (DRejected 1)).
Proof.
  split.
  - eexists. split; [vm_compute; reflexivity|]. repeat (split; [vm_compute; reflexivity|]).
    eexists. split; [vm_compute; reflexivity|]. split; vm_compute; reflexivity.
  - eexists. eexists. split; [vm_compute; reflexivity|]. split; [vm_compute; reflexivity|].
    repeat split; vm_compute; reflexivity.
Qed.
Print Assumptions C17_nonvacuous.

(* ---- source tie (translated from the Rust source on every run by tools/rs2v.py
        into gen/Frag.v; an edit of the function changes the generated definition) ---- *)
(* the closure AsyncifyPool::dispatch hands to counter.fetch_update
   (`(n < self.thread_limit).then_some(n + 1)`, compio-driver/src/asyncify.rs) as the source
   has it now decides exactly the model's two labels: Some c' = ECheckOk (slot reserved, the
   counter becomes c'), None = ECheckFail (the closure is handed back) - never both *)
Theorem C17_reserve_is_source : forall s d j,
  nth_error (disp s) d = Some (DFull j) -> limit s <> 0 ->
  match Frag.asyncify_reserve (counter s) (limit s) with
  | Some c' => Asyncify.step s (ECheckOk d) = Some (set_counter (set_d s d (DSpawn j)) c')
               /\ Asyncify.step s (ECheckFail d) = None
  | None => Asyncify.step s (ECheckFail d) = Some (set_d s d (DRejected j))
            /\ Asyncify.step s (ECheckOk d) = None
  end.
Proof. exact FragMiscThm.reserve_tie. Qed.
Print Assumptions C17_reserve_is_source.
