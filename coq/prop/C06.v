(* C06 — descriptors are closed exactly once, never in use, never leaked.
   Model: model/SharedFd.v.  Part 1 = compio-driver/src/fd.rs (SharedFd: clone,
   Drop, try_unwrap, take()), File::close / Socket::close and the close
   operation; one label = one atomic memory operation of one actor; [steps]
   = every interleaving (the SYNC scheduler, feature "sync"), [usteps] = the
   single-threaded scheduler (a Drop and a poll run to their end).  Part 2 = a
   descriptor-producing operation (Accept / OpenFile / CreateSocket / Pipe).
   [cfg] names three behaviours repaired during this work; [current] (all true)
   is the code as it is, the other settings stay refuted by witnesses.
   Tie: ./check C06 (harness/rt/src/bin/c06.rs runs the same programs on the
   real types and compares every step with RunC06.v).  Statements only. *)
From Compio.Model Require Import Base SharedFd.
From Compio.Thm Require Import SharedFdThm.
From Compio.Gen Require Frag.
From Compio.Thm Require FragCompatThm.

(* ---- closed exactly once --------------------------------------------- *)

(* in every interleaving (any cfg): close(2) runs at most once on the
   descriptor, and it has run exactly when the descriptor is Closed *)
Theorem C06_closed_once : forall g ls s,
  steps g init ls = Some s -> closes s <= 1 /\ (closes s = 1 <-> fd s = FClosed).
Proof. exact closed_once. Qed.
Print Assumptions C06_closed_once.

(* ... and once every handle, operation, future and Drop is gone it HAS run:
   nothing is leaked (needs the two leak repairs, see the refuted lemmas) *)
Theorem C06_closed_at_quiescence : forall g ls s,
  unpolled_close_drops g = true -> cancelled_close_closes g = true ->
  steps g init ls = Some s -> quiescent s = true -> closes s = 1 /\ fd s = FClosed.
Proof. exact closed_at_quiescence. Qed.
Print Assumptions C06_closed_at_quiescence.

Example C06_current_flags :
  closer_release_wakes current = true /\ unpolled_close_drops current = true /\
  cancelled_close_closes current = true.
Proof. repeat split. Qed.
Print Assumptions C06_current_flags.

(* ---- never while an operation is in flight ---------------------------- *)

(* the descriptor has left the Shared (closed, or moved out to the closer)
   only when the strong count is 0: no handle, no in-flight operation, no
   waiting future and no Drop in progress holds a reference *)
Theorem C06_not_while_in_flight : forall g ls s,
  steps g init ls = Some s -> fd s <> FShared ->
  strong s = 0 /\ ops s = 0 /\ handles s = 0 /\
  sumf hc (closers s) = 0 /\ sumf ld (droppers s) = 0.
Proof. exact not_while_in_flight. Qed.
Print Assumptions C06_not_while_in_flight.

(* ---- an explicit close completes exactly when it is the only owner ----- *)

(* each try_unwrap of the closer (both of them, in every interleaving)
   succeeds iff nobody else holds a reference; on success the descriptor is
   moved out unclosed, otherwise nothing changes and the closer goes on
   (registers its waker / returns Pending) *)
Theorem C06_close_completes_iff_unique : forall g ls s c x,
  steps g init ls = Some s -> nth_error (closers s) c = Some x ->
  (pc x = CTry1 \/ pc x = CTry2) ->
  exists s' x', step g s (LPoll c) = Some s' /\ nth_error (closers s') c = Some x' /\
    (pc x' = CSome <->
       handles s = 0 /\ ops s = 0 /\ forgotten s = 0 /\
       sumf ld (droppers s) = 0 /\ sumf hc (closers s) = 1) /\
    (pc x' = CSome -> fd s' = FMoved /\ strong s' = 0 /\ closes s' = 0) /\
    (pc x' <> CSome -> strong s' = strong s /\ fd s' = fd s /\ (pc x' = CReg \/ pc x' = CPending)).
Proof. exact unwrap_iff_unique. Qed.
Print Assumptions C06_close_completes_iff_unique.

(* at most one take() is ever inside the waiting protocol ... *)
Theorem C06_single_waiter : forall g ls s,
  steps g init ls = Some s ->
  sumf wp (closers s) <= 1 /\ (1 <= sumf wp (closers s) -> waits s = true).
Proof. exact single_waiter. Qed.
Print Assumptions C06_single_waiter.

(* ... a concurrent second closer gets None and degrades to a plain release
   of its reference (a Drop for SharedFd in the current code) *)
Theorem C06_second_closer_none : forall g s c x,
  nth_error (closers s) c = Some x -> (pc x = CCreated \/ pc x = CUnpolled) -> waits s = true ->
  exists s' x', step g s (LPoll c) = Some s' /\ nth_error (closers s') c = Some x' /\ pc x' = CGone /\
    droppers s' = droppers s ++ [if closer_release_wakes g then DCount else DDec] /\
    strong s' = strong s /\ fd s' = fd s /\ closes s' = closes s.
Proof. exact second_closer_none. Qed.
Print Assumptions C06_second_closer_none.

(* ---- "as soon as": the waiting closer is woken (single-threaded) ------- *)

(* every run of the unsync scheduler is a run of the fine-grained relation,
   so the theorems above cover it *)
Theorem C06_unsync_runs_are_runs : forall g ls s s',
  usteps g s ls = Some s' -> exists fs, steps g s fs = Some s'.
Proof. intros g ls s s'. apply usteps_steps. Qed.
Print Assumptions C06_unsync_runs_are_runs.

(* whenever a closer is Pending and has become the only owner (the last
   other handle / operation / second closer / dropped future has let go), a
   wake-up of its task is pending *)
Theorem C06_closer_woken : forall g ls s,
  closer_release_wakes g = true -> usteps g init ls = Some s ->
  existsb (fun x => is_pending (pc x)) (closers s) = true -> strong s = 1 -> wwoken s = true.
Proof. exact closer_woken. Qed.
Print Assumptions C06_closer_woken.

(* ... and the poll it triggers obtains the descriptor, unclosed *)
Theorem C06_unique_poll_ready : forall g ls s c x,
  closer_release_wakes g = true -> usteps g init ls = Some s ->
  nth_error (closers s) c = Some x -> pc x = CPending -> strong s = 1 ->
  exists s' x', ustep g s (UPoll c) = Some s' /\ nth_error (closers s') c = Some x' /\
                pc x' = (if cf x then CClosing else CSome) /\ fd s' = FMoved /\ strong s' = 0 /\
                closes s' = 0.
Proof. exact unique_poll_ready. Qed.
Print Assumptions C06_unique_poll_ready.

Theorem C06_unsync_never_stranded : forall g ls s,
  closer_release_wakes g = true -> usteps g init ls = Some s -> stranded s = false.
Proof. exact never_stranded. Qed.
Print Assumptions C06_unsync_never_stranded.

(* non-vacuity: a closer waits behind a handle and an in-flight operation;
   the operation finishes (no wake: count 3), the handle is dropped (wake),
   the closer is sole owner + woken, its poll gets the descriptor *)
Example C06_closer_woken_nonvacuous :
  exists s, usteps current init [UClone; UOpStart; UTake false; UPoll 0; UOpFinish; UDropHandle] = Some s /\
    existsb (fun x => is_pending (pc x)) (closers s) = true /\ strong s = 1 /\ wwoken s = true /\
    exists s', ustep current s (UPoll 0) = Some s' /\ fd s' = FMoved /\
    exists s'', ustep current s' (UOwnerDrop 0) = Some s'' /\ quiescent s'' = true /\ closes s'' = 1.
Proof.
  eexists. split; [vm_compute; reflexivity|]. repeat (split; [vm_compute; reflexivity|]).
  eexists. split; [vm_compute; reflexivity|]. split; [vm_compute; reflexivity|].
  eexists. split; [vm_compute; reflexivity|]. split; vm_compute; reflexivity.
Qed.
Print Assumptions C06_closer_woken_nonvacuous.

(* the second closer's release wakes the first (repaired in d4ec641) ... *)
Example C06_second_closer_wakes_first :
  exists s, usteps current init [UClone; UTake true; UTake true; UPoll 0; UPoll 1] = Some s /\
            strong s = 1 /\ wwoken s = true /\ stranded s = false.
Proof. eexists. split; [vm_compute; reflexivity|]. repeat split. Qed.
Print Assumptions C06_second_closer_wakes_first.

(* ... with the former code (the bare Shared dropped) it did not: the first
   close() hangs although it is the only owner.  Same for a take()/close()
   future dropped before its first poll and between polls *)
Lemma C06_second_closer_strands_legacy_refuted :
  exists s, usteps (mk_cfg false true true) init [UClone; UTake true; UTake true; UPoll 0; UPoll 1] = Some s /\
            stranded s = true.
Proof. eexists. split; vm_compute; reflexivity. Qed.
Print Assumptions C06_second_closer_strands_legacy_refuted.

Lemma C06_dropped_take_strands_legacy_refuted :
  exists s, usteps (mk_cfg false true true) init [UClone; UTake false; UTake false; UPoll 0; UFutDrop 1] = Some s /\
            stranded s = true.
Proof. eexists. split; vm_compute; reflexivity. Qed.
Print Assumptions C06_dropped_take_strands_legacy_refuted.

(* ---- SYNC scheduler: the wake-up can be lost (KNOWN FINDING) ---------- *)

(* Drop reads the count, wakes, THEN decrements.  The woken closer polls
   in between (both try_unwrap fail: the dropper still owns its reference),
   re-registers and returns Pending; the decrement comes after it and nobody
   is left to wake the closer: it is parked for good as the only owner *)
Lemma C06_sync_closer_stranded_refuted :
  exists s, steps current init
    [LClone; LTake false;
     LPoll 0; LPoll 0; LPoll 0; LPoll 0;          (* swap, try1 fails, register, try2 fails: Pending *)
     LDropHandle;
     LDrop 0; LDrop 0; LDrop 0;                   (* count == 2, waits, wake() *)
     LPoll 0; LPoll 0; LPoll 0; LPoll 0;          (* the woken closer polls: Pending again *)
     LDrop 0] = Some s /\                         (* the decrement *)
    stranded s = true /\ strong s = 1 /\ fd s = FShared /\ closes s = 0.
Proof. eexists. split; [vm_compute; reflexivity|]. repeat split. Qed.
Print Assumptions C06_sync_closer_stranded_refuted.

(* second shape: two handles dropped on two threads both read count == 3:
   neither wakes *)
Lemma C06_sync_two_droppers_refuted :
  exists s, steps current init
    [LClone; LClone; LTake false; LPoll 0; LPoll 0; LPoll 0; LPoll 0;
     LDropHandle; LDropHandle; LDrop 0; LDrop 1; LDrop 0; LDrop 1] = Some s /\
    stranded s = true.
Proof. eexists. split; vm_compute; reflexivity. Qed.
Print Assumptions C06_sync_two_droppers_refuted.

(* ---- dropping the unpolled close() future ----------------------------- *)

(* no reference is ever forgotten, so C06_closed_at_quiescence applies *)
Theorem C06_close_unpolled : forall g ls s,
  unpolled_close_drops g = true -> steps g init ls = Some s -> forgotten s = 0.
Proof. exact never_forgotten. Qed.
Print Assumptions C06_close_unpolled.

Example C06_close_unpolled_closes :
  exists s, usteps current init [UTake true; UFutDrop 0] = Some s /\
            quiescent s = true /\ closes s = 1 /\ fd s = FClosed.
Proof. eexists. split; [vm_compute; reflexivity|]. repeat split. Qed.
Print Assumptions C06_close_unpolled_closes.

(* the former code (ManuallyDrop::new(self) outside the async block, repaired
   in 615134b): everything is gone and the descriptor is still open *)
Lemma C06_close_unpolled_legacy_refuted :
  exists s, usteps (mk_cfg true false true) init [UTake true; UFutDrop 0] = Some s /\
            quiescent s = true /\ closes s = 0 /\ fd s = FShared /\ forgotten s = 1.
Proof. eexists. split; [vm_compute; reflexivity|]. repeat split. Qed.
Print Assumptions C06_close_unpolled_legacy_refuted.

(* a close() future dropped while its CloseFile/CloseSocket is in flight and
   the kernel honours the cancellation: the descriptor is closed in
   set_result ... *)
Example C06_cancelled_close_closes :
  exists s, usteps current init [UTake true; UPoll 0; UFutDrop 0; UKCancel 0] = Some s /\
            quiescent s = true /\ closes s = 1 /\ fd s = FClosed.
Proof. eexists. split; [vm_compute; reflexivity|]. repeat split. Qed.
Print Assumptions C06_cancelled_close_closes.

(* ... the former code (repaired in 33b25a0) forgot it *)
Lemma C06_cancelled_close_legacy_refuted :
  exists s, usteps (mk_cfg true true false) init [UTake true; UPoll 0; UFutDrop 0; UKCancel 0] = Some s /\
            quiescent s = true /\ closes s = 0 /\ fd s = FMoved.
Proof. eexists. split; [vm_compute; reflexivity|]. repeat split. Qed.
Print Assumptions C06_cancelled_close_legacy_refuted.

(* ---- descriptors created by operations -------------------------------- *)

(* for every sequence of poll / future-drop (cancel) / readiness / driver
   turn / caller-drop / driver-drop, on both drivers:
   - the descriptor is lost only when the io_uring driver is dropped with the
     operation's completion unreaped (KNOWN FINDING, below);
   - when nothing is left to run it is delivered-and-dropped, closed, or was
     never created;
   - while it is open and not in the caller's hands it is named by an
     unreaped completion of a live driver, or owned by operation storage that
     is still referenced (so it is closed when that storage is released) *)
Theorem C06_produced_fd : forall ur ad rdy ls s,
  psteps (pinit ur ad rdy) ls = Some s ->
  (match pd s with PLost => uring s && negb (drain_adopts s) && negb (driver_alive s) | _ => true end)
  && (implb (p_settled s) (match pd s with PNone | PClosed | PLost => true | _ => false end))
  && (match pd s with
      | PKernel => match pk s with KDoneOk => driver_alive s | _ => false end
      | POp => user_ref s || drv_ref s
      | _ => true
      end) = true.
Proof. exact produced_fd. Qed.
Print Assumptions C06_produced_fd.

Theorem C06_produced_fd_not_lost : forall ur ad rdy ls s,
  psteps (pinit ur ad rdy) ls = Some s ->
  pd s = PLost -> ur = true /\ ad = false /\ driver_alive s = false.
Proof. exact produced_fd_not_lost. Qed.
Print Assumptions C06_produced_fd_not_lost.

(* non-vacuity: accept cancelled just after the kernel completed it; the
   driver's next turn adopts the socket into the abandoned operation and
   releases it: closed *)
Example C06_produced_cancel_after_completion :
  exists s, psteps (pinit true false false) [PPoll; PDrive; PReady; PFutDrop] = Some s /\
            pd s = PKernel /\
            exists s', pstep s PDrive = Some s' /\ pd s' = PClosed /\ p_settled s' = true.
Proof.
  eexists. split; [vm_compute; reflexivity|]. split; [reflexivity|].
  eexists. split; [vm_compute; reflexivity|]. split; reflexivity.
Qed.
Print Assumptions C06_produced_cancel_after_completion.

(* KNOWN FINDING: io_uring Driver::drop "drains completed CQEs" by releasing
   the key without set_result; a completion that carries a new descriptor
   (accept completed, future cancelled, runtime dropped before the next turn)
   leaves it open with no owner *)
Lemma C06_uring_drop_loses_produced_fd_refuted :
  exists s, psteps (pinit true false false) [PPoll; PDrive; PReady; PFutDrop; PDriverDrop] = Some s /\
            pd s = PLost /\ p_settled s = true.
Proof. eexists. split; [vm_compute; reflexivity|]. split; reflexivity. Qed.
Print Assumptions C06_uring_drop_loses_produced_fd_refuted.

(* the polling driver performs the syscall inside the driver turn: same schedule, nothing lost *)
Example C06_poll_driver_same_schedule :
  exists s, psteps (pinit false false false) [PPoll; PDrive; PReady; PFutDrop; PDriverDrop] = Some s /\
            pd s = PNone /\ p_settled s = true.
Proof. eexists. split; [vm_compute; reflexivity|]. split; reflexivity. Qed.
Print Assumptions C06_poll_driver_same_schedule.

(* ---- WHICH waker: the one of the latest Pending poll ------------------- *)

(* The waiting take()/close() may be polled under different wakers (polled by
   hand, then moved into a task; moved between tasks).  [wusteps] follows the
   unsync runs and names wakers (closer, generation): [WSwitch c] gives closer
   c's future a fresh waker for its next polls, [lgen ws c] is the generation
   its latest poll used.  Whenever a Pending closer has become the only owner,
   a notification is pending and it is held by the waker of that latest poll —
   not by an earlier one *)
Theorem C06_latest_waker_woken : forall g ls ws c,
  closer_release_wakes g = true -> wusteps g winit ls = Some ws ->
  pc_at (base ws) c = Some CPending -> strong (base ws) = 1 ->
  wwoken (base ws) = true /\ wok ws = (c, lgen ws c).
Proof. exact latest_waker_woken. Qed.
Print Assumptions C06_latest_waker_woken.

(* [lgen] is what it is said to be: a poll records the waker it ran under *)
Theorem C06_latest_waker_is_last_poll : forall g ws c ws',
  wustep g ws (WU (UPoll c)) = Some ws' -> lgen ws' c = gen ws c /\ gen ws' = gen ws.
Proof. exact wustep_poll_lgen. Qed.
Print Assumptions C06_latest_waker_is_last_poll.

(* non-vacuity: polled under waker 0, moved (waker 1) and polled again, moved
   once more (waker 2, not yet polled there); the last clone goes: waker 1 is
   woken — the one of the latest poll, neither the first nor the newest *)
Example C06_latest_waker_nonvacuous :
  exists ws, wusteps current winit
     [WU UClone; WU (UTake false); WU (UPoll 0); WSwitch 0; WU (UPoll 0); WSwitch 0; WU UDropHandle] = Some ws /\
     pc_at (base ws) 0 = Some CPending /\ strong (base ws) = 1 /\ wwoken (base ws) = true /\
     wok ws = (0, 1) /\ lgen ws 0 = 1 /\ gen ws 0 = 2.
Proof. eexists. split; [vm_compute; reflexivity|]. repeat split. Qed.
Print Assumptions C06_latest_waker_nonvacuous.

(* ---- multishot accept: queued connections ----------------------------- *)

(* Incoming / SubmitMulti<AcceptMulti>: for every sequence of poll_next /
   stream drop / peer connects / driver turns / user drops / runtime drop, on
   both drivers:
   - every descriptor the kernel created is in exactly one place: an unreaped
     completion, the operation's queue, the user's hands, closed, or lost;
   - queued (accepted, not yet pulled) sockets live in operation storage that
     is still referenced, and that storage is never released with sockets
     left in it (they are closed with it);
   - a descriptor is lost only when the io_uring driver is dropped with
     completions unreaped (the known finding of C06_produced_fd);
   - when nothing is left to run, everything created was closed (or lost that way) *)
Theorem C06_multishot_queued_closed : forall ur ls s,
  msteps (minit ur) ls = Some s ->
  accepted s = cq s + queue s + held s + mclosed s + mlost s /\
  (1 <= queue s -> m_user s = true \/ m_drv s = true) /\
  (m_user s = false -> m_drv s = false -> queue s = 0) /\
  (1 <= mlost s -> m_uring s = true /\ m_alive s = false) /\
  (m_settled s = true ->
     cq s = 0 /\ queue s = 0 /\ held s = 0 /\ accepted s = mclosed s + mlost s).
Proof. exact multishot_queued_closed. Qed.
Print Assumptions C06_multishot_queued_closed.

(* every drop point: the stream is dropped (whatever is queued, in flight or
   unreaped), the driver takes one turn: nothing accepted so far is left
   unowned — it is in the user's hands or closed *)
Theorem C06_multishot_drop_then_turn : forall ur ls s s1 s2,
  msteps (minit ur) ls = Some s -> mstep s MDrop = Some s1 -> mstep s1 MDrive = Some s2 ->
  cq s2 = 0 /\ queue s2 = 0 /\ mlost s2 = 0 /\ accepted s2 = held s2 + mclosed s2.
Proof. exact multishot_drop_then_turn. Qed.
Print Assumptions C06_multishot_drop_then_turn.

(* non-vacuity: 3 peers connect, the user pulls 1, drops the stream with 2
   queued; the driver's next turn closes both *)
Example C06_multishot_pull_one_of_three :
  exists s, msteps (minit true) [MPoll; MDrive; MConnect; MConnect; MConnect; MDrive; MPoll; MDrop] = Some s /\
    queue s = 2 /\ held s = 1 /\ mclosed s = 0 /\
    exists s', mstep s MDrive = Some s' /\ queue s' = 0 /\ mclosed s' = 2 /\ held s' = 1 /\ mlost s' = 0.
Proof.
  eexists. split; [vm_compute; reflexivity|]. repeat (split; [reflexivity|]).
  eexists. split; [vm_compute; reflexivity|]. repeat split.
Qed.
Print Assumptions C06_multishot_pull_one_of_three.

(* ... and when the runtime is dropped instead of taking that turn the queued
   ones are closed with the operation as well *)
Example C06_multishot_runtime_drop_closes_queue :
  exists s, msteps (minit true)
     [MPoll; MDrive; MConnect; MConnect; MConnect; MDrive; MPoll; MDrop; MDriverDrop] = Some s /\
    queue s = 0 /\ mclosed s = 2 /\ held s = 1 /\ mlost s = 0.
Proof. eexists. split; [vm_compute; reflexivity|]. repeat split. Qed.
Print Assumptions C06_multishot_runtime_drop_closes_queue.

(* KNOWN FINDING (same defect as C06_uring_drop_loses_produced_fd_refuted):
   accepted but UNREAPED connections are discarded by io_uring Driver::drop *)
Lemma C06_multishot_unreaped_lost_refuted :
  exists s, msteps (minit true) [MPoll; MDrive; MConnect; MConnect; MConnect; MDrop; MDriverDrop] = Some s /\
            mlost s = 3 /\ m_settled s = true.
Proof. eexists. split; [vm_compute; reflexivity|]. split; reflexivity. Qed.
Print Assumptions C06_multishot_unreaped_lost_refuted.

(* ---- source tie (translated from the Rust source on every run by tools/rs2v.py
        into gen/Frag.v; an edit of the function changes the generated definition) ---- *)
(* Drop for SharedFd (compio-driver/src/fd.rs): `strong_count == 2 && waits` as the source has
   it now is what the model's dropper decides with its two reads (DCount, then DWaits) when
   nothing runs between them: it goes on to wake the registered closer exactly when the
   translated condition holds, otherwise straight to the decrement *)
Theorem C06_drop_condition_is_source : forall s i,
  nth_error (droppers s) i = Some DCount ->
  exists s1, drop_step s i = Some s1 /\ strong s1 = strong s /\ waits s1 = waits s /\
    (Nat.eqb (strong s) 2 = false ->
       nth_error (droppers s1) i = Some DDec /\ Frag.fd_drop_wakes (strong s) (waits s) = false) /\
    (Nat.eqb (strong s) 2 = true ->
       nth_error (droppers s1) i = Some DWaits /\
       exists s2, drop_step s1 i = Some s2 /\
         nth_error (droppers s2) i = Some (if Frag.fd_drop_wakes (strong s) (waits s) then DWake else DDec)).
Proof. exact FragCompatThm.fd_drop_tie. Qed.
Print Assumptions C06_drop_condition_is_source.
