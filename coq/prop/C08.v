(* C08 — file and pipe I/O matches the OS, identically on every driver.
   Statements only: each theorem is closed by [exact lemma] and followed by
   Print Assumptions.  Lemmas: thm/FileSpecThm.v (and C10's thm/BufThm.v); model:
   model/FileSpec.v (+ Buf.v, PipeSpec.v).

   PARTIAL.  The OS is an environment: these theorems say (i) the reference
   semantics of files is self-consistent and (ii) compio's own glue maps ANY
   answer of the OS to exactly what the reference predicts.  That the kernel
   behaves like the reference, and that the three CODE paths (io_uring SQE,
   readiness + syscall / blocking pool, call_blocking fallback) agree with the
   model's single mapping, is the job of the 4-way differential correspondence
   c08 (harness/rt/src/bin/c08.rs), not of a theorem. *)
From Compio.Model Require Import Base Buf PipeSpec FileSpec.
From Compio.Thm Require Import BufThm FileSpecThm.
From Compio.Gen Require Frag.
From Compio.Thm Require FragIoThm.

(* ---------------------------------------------------------------------- *)
(* the glue                                                                *)

(* READ.  For EVERY buffer shape — a Vec of any length <= capacity, under any
   nesting of slice(b..e) / uninit() views that is well constructed and outside
   C10's known class (an Uninit layer that already holds bytes) — compio offers
   the OS the view's whole writable window [o, o+c) (for a plain Vec: the whole
   capacity from offset 0, whatever its length), inside the allocation; and for
   EVERY OS answer of n <= c bytes the BufResult is Ok(n), the n bytes sit at
   [o, o+n), every other cell of the allocation is untouched, and the length
   becomes max(old length, o + n): never shrinks, never hides the new bytes. *)
Theorem C08_glue_read : forall r v os,
  rwf r -> wf v r -> ~ uninit_filled v r ->
  exists o c,
    offer_read v r = Ok (o, c) /\ o + c <= rcap r /\
    (length (os c) <= c ->
     exists r',
       glue_read v r os = Ok (length (os c), r') /\
       rkind r' = rkind r /\
       rcells r' = write_at (rcells r) o (os c) /\
       sub_list (rcells r') o (length (os c)) = os c /\
       untouched_outside (rcells r) (rcells r') o (length (os c)) /\
       rlen r' = Nat.max (rlen r) (o + length (os c)) /\
       rwf r').
Proof. exact glue_read_correct. Qed.
Print Assumptions C08_glue_read.

Theorem C08_glue_read_vec : forall r,
  offer_read VBase r = Ok (0, rcap r) /\ offer_write VBase r = Ok (0, rlen r).
Proof. intros r. split; [exact (offer_read_vec r)|exact (offer_write_vec r)]. Qed.
Print Assumptions C08_glue_read_vec.

(* reads into the spare capacity of a non-empty Vec: buf.uninit() *)
Theorem C08_glue_read_spare : forall r,
  rlen r <= rcap r ->
  offer_read (VUninit VBase (rlen r)) r = Ok (rlen r, rcap r - rlen r).
Proof. exact offer_read_uninit. Qed.
Print Assumptions C08_glue_read_spare.

(* reading the reference file through the glue: count = min(window, bytes left) *)
Theorem C08_glue_read_file : forall r v f off,
  rwf r -> wf v r -> ~ uninit_filled v r ->
  exists o c r',
    offer_read v r = Ok (o, c) /\
    glue_read v r (fun k => pread f off k) = Ok (Nat.min c (length f - off), r') /\
    rcells r' = write_at (rcells r) o (pread f off c) /\
    rlen r' = Nat.max (rlen r) (o + Nat.min c (length f - off)).
Proof. exact glue_read_file. Qed.
Print Assumptions C08_glue_read_file.

(* WRITE.  Only initialised bytes are handed to the OS: the initialised window
   [o, o+l) of the view, inside the Vec's length (a plain Vec: all of it). *)
Theorem C08_glue_write : forall r v,
  rwf r -> wf v r -> ~ uninit_filled v r ->
  exists o l,
    offer_write v r = Ok (o, l) /\ o + l <= rlen r /\
    write_payload v r = Ok (sub_list (rcells r) o l) /\
    length (sub_list (rcells r) o l) = l.
Proof. exact glue_write_correct. Qed.
Print Assumptions C08_glue_write.

(* VECTORED READ.  Every member's whole capacity is offered; for every OS answer
   that fits, the result is vspec: member i holds its chunk at offset 0, the
   rest of its cells untouched, its length max(old, chunk length).  Members not
   in sequential-fill order are C10's known finding (advance_vec_to is a no-op
   when n <= total length): excluded here, refuted there (C10_vectored_fill_refuted). *)
Theorem C08_glue_read_vectored : forall ms os,
  Forall rwf ms -> ~ vec_known ms ->
  length (os (voffer_read ms)) <= sum_nat (voffer_read ms) ->
  glue_readv ms os = Ok (length (os (voffer_read ms)), vspec ms (os (voffer_read ms))) /\
  Forall rwf (vspec ms (os (voffer_read ms))).
Proof. exact glue_readv_correct. Qed.
Print Assumptions C08_glue_read_vectored.

Theorem C08_glue_vectored_members : forall ms bs,
  Forall2 (fun m' mc =>
             rcells m' = write_at (rcells (fst mc)) 0 (snd mc) /\
             rlen m' = Nat.max (rlen (fst mc)) (length (snd mc)) /\
             rkind m' = rkind (fst mc))
          (vspec ms bs) (combine ms (chunks (map rcap ms) bs)).
Proof. exact vspec_members. Qed.
Print Assumptions C08_glue_vectored_members.

(* ---------------------------------------------------------------------- *)
(* vectored = sequential                                                   *)

(* the vectored forms ARE the single-buffer operations applied member by member
   (their definition), and they equal ONE operation on the concatenation; the
   split of that one answer over the member capacities gives every member what
   its own single read would have received *)
Theorem C08_vectored_is_sequential :
  (forall f off c r,
     preadv f off (c :: r) = pread f off c :: preadv f (off + length (pread f off c)) r) /\
  (forall f off d r,
     pwritev f off (d :: r) = pwritev (pwrite f off d) (off + length d) r) /\
  (forall f caps off, concat (preadv f off caps) = pread f off (sum_nat caps)) /\
  (forall ds f off, pwritev f off ds = pwrite f off (concat ds)) /\
  (forall f caps off, chunks caps (concat (preadv f off caps)) = preadv f off caps).
Proof.
  split; [reflexivity|]. split; [reflexivity|].
  split; [exact preadv_is_pread|]. split; [exact pwritev_is_pwrite|exact chunks_of_preadv].
Qed.
Print Assumptions C08_vectored_is_sequential.

(* ---------------------------------------------------------------------- *)
(* laws of the reference                                                   *)

Theorem C08_reference_laws :
  (* what was written is read back; a zero-length write changes nothing *)
  (forall f off d, pread (pwrite f off d) off (length d) = d) /\
  (forall f off, pwrite f off [] = f) /\
  (forall f off d, d <> [] -> length (pwrite f off d) = Nat.max (length f) (off + length d)) /\
  (* a write beyond the end zero-fills the hole *)
  (forall f off d, d <> [] -> length f <= off -> pwrite f off d = f ++ zeros (off - length f) ++ d) /\
  (* a write inside the file touches its own range only *)
  (forall f off d, off + length d <= length f ->
     pwrite f off d = firstn off f ++ d ++ skipn (off + length d) f) /\
  (forall f off x d,
     skipn (off + length (x :: d)) (pwrite f off (x :: d)) = skipn (off + length (x :: d)) f) /\
  (* adjacent writes compose *)
  (forall f off a b, pwrite (pwrite f off a) (off + length a) b = pwrite f off (a ++ b)) /\
  (* reads: length, beyond end of file, length 0 *)
  (forall f off len, length (pread f off len) = Nat.min len (length f - off)) /\
  (forall f off len, length f <= off -> pread f off len = []) /\
  (forall f off, pread f off 0 = []) /\
  (* truncate / extend *)
  (forall f n, length (ftruncate f n) = n) /\
  (forall f n, n <= length f -> ftruncate f n = firstn n f) /\
  (forall f n, length f <= n -> ftruncate f n = f ++ zeros (n - length f)) /\
  (forall f n i, length f <= i -> i < n -> nth i (ftruncate f n) 1%N = 0%N) /\
  (forall f n m, m <= n -> ftruncate (ftruncate f n) m = ftruncate f m) /\
  (* cursor and append positions *)
  (forall f pos d, d <> [] -> seq_write f pos true d = (f ++ d, length f + length d)) /\
  (forall f pos d, d <> [] -> seq_write f pos false d = (pwrite f pos d, pos + length d)) /\
  (forall f pos app, seq_write f pos app [] = (f, pos)).
Proof.
  split; [exact pread_pwrite|]. split; [exact pwrite_nil|]. split; [exact pwrite_length|].
  split; [exact pwrite_hole|]. split; [exact pwrite_inside|]. split; [exact pwrite_after|].
  split; [exact pwrite_app|]. split; [exact pread_length|]. split; [exact pread_beyond_eof|].
  split; [exact pread_zero|]. split; [exact ftruncate_length|]. split; [exact ftruncate_shrink|].
  split; [exact ftruncate_extend|]. split; [exact ftruncate_zero_fill|].
  split; [exact ftruncate_twice|]. split; [exact seq_write_append|].
  split; [exact seq_write_cursor|exact seq_write_empty].
Qed.
Print Assumptions C08_reference_laws.

(* two sequential reads = one read of the sum (the cursor advances by the count) *)
Theorem C08_sequential_reads : forall f pos a b,
  let '(d1, p1) := seq_read f pos a in
  let '(d2, p2) := seq_read f p1 b in
  length d1 = a -> d1 ++ d2 = pread f pos (a + b) /\ p2 = pos + length (d1 ++ d2).
Proof. exact seq_read_twice. Qed.
Print Assumptions C08_sequential_reads.

(* ---------------------------------------------------------------------- *)
(* open options                                                            *)

(* the composition is total (a flag word or InvalidInput, nothing else), equals
   std::fs::OpenOptions' table for all 32 combinations (x O_APPEND through
   custom_flags), reports InvalidInput exactly for "no access mode" and
   "truncate/create/create_new without write", and means to the kernel what the
   options say *)
Theorem C08_open_flags :
  (forall o, (exists fl, open_flags o = Rok fl) \/ open_flags o = Rerr E_INVALID_INPUT) /\
  (forall r w t c cn ap,
     open_flags (mkopts r w t c cn (strip_accmode (custom_of ap))) =
     std_open_flags r w false t c cn (custom_of ap)) /\
  (forall r t c cn, (t && negb cn = false)%bool ->
     open_flags (mkopts r true t c cn O_APPEND) = std_open_flags r true true t c cn 0%N) /\
  (forall o,
     open_flags o = Rerr E_INVALID_INPUT <->
     (oo_read o = false /\ oo_write o = false) \/
     (oo_write o = false /\ (oo_truncate o || oo_create o || oo_create_new o) = true)) /\
  (forall r w t c cn ap fl,
     open_flags (mkopts r w t c cn (custom_of ap)) = Rok fl ->
     has_flag fl O_CREAT = (c || cn)%bool /\
     has_flag fl O_EXCL = cn /\
     has_flag fl O_TRUNC = (t && negb cn)%bool /\
     has_flag fl O_APPEND = ap /\
     has_flag fl O_CLOEXEC = true /\
     N.land fl O_ACCMODE = (if r then if w then O_RDWR else O_RDONLY else O_WRONLY)).
Proof.
  split; [exact open_flags_error|]. split; [exact open_flags_match_std|].
  split; [exact open_flags_append_is_std_append|]. split; [exact open_flags_invalid_iff|].
  exact open_flags_decode.
Qed.
Print Assumptions C08_open_flags.

(* The creation mode.  compio hands openat the flag word AND the mode, always
   both (the mode is never dropped or altered, whatever the flags); the kernel
   consumes it exactly for O_CREAT and O_TMPFILE; in the reference a file created
   by O_TMPFILE (unnamed, name space unchanged) or by create_new gets
   mode & ~umask, with no umask bit left. *)
Theorem C08_open_mode :
  (forall o m fl m', open_request o m = Rok (fl, m') -> m' = m /\ open_flags o = Rok fl) /\
  (forall o m, (exists fl, open_request o m = Rok (fl, m)) \/ open_request o m = Rerr E_INVALID_INPUT) /\
  (forall r w t c cn (tmp : bool) fl,
     open_flags (mkopts r w t c cn (if tmp then O_TMPFILE else 0%N)) = Rok fl ->
     mode_consumed fl = (c || cn || tmp)%bool) /\
  (forall fs p fl m seq fs' h,
     has_flag fl O_TMPFILE_BIT = true -> fs_open fs p fl m seq = (fs', Rok h) ->
     exists i, hk h = HFile i /\ h_perm fs' h = created_mode m /\ nodes fs' = nodes fs /\
               idata (get_inode fs' i) = []) /\
  (forall fs p fl m seq fs' h,
     has_flag fl O_TMPFILE_BIT = false -> has_flag fl O_CREAT = true -> has_flag fl O_EXCL = true ->
     fs_open fs p fl m seq = (fs', Rok h) -> h_perm fs' h = created_mode m) /\
  (forall m, N.land (created_mode m) UMASK = 0%N).
Proof.
  split; [exact open_request_mode|]. split; [exact open_request_total|].
  split; [exact mode_consumed_iff|]. split; [exact tmpfile_mode|].
  split; [exact create_new_mode|exact created_mode_umask].
Qed.
Print Assumptions C08_open_mode.

(* create_dir_all (DirBuilder::recursive(true).create, the algorithm of
   utils/mod.rs): when the path already IS a directory in the sense of
   metadata() — a real directory or, followed, a symbolic link to one, at the
   final component or through linked components — the call is Ok and changes
   nothing, like std::fs::create_dir_all.  (That the code's check is the
   following metadata() and not symlink_metadata() is what the correspondence
   observes on trees with links.) *)
Theorem C08_create_dir_all_existing : forall fuel fs p,
  p <> [] -> fs_is_dir fs p = true -> fs_mkdir_all (S fuel) fs p = (fs, Rok tt).
Proof. exact mkdir_all_existing_dir. Qed.
Print Assumptions C08_create_dir_all_existing.

(* ---------------------------------------------------------------------- *)
(* driver independence (in the model)                                      *)

(* The three drivers share ONE mapping: the BufResult and the buffer are a
   function of the OS answer to the offered length only.  The only
   driver-dependent quantity is the SQE length of io_uring (u32): never more
   than the buffer, identical below 4 GiB, u32::MAX above (a short read, which
   the glue theorem covers).  That the three CODE paths implement this one
   mapping is checked by the differential correspondence, not proved. *)
Theorem C08_driver_independent :
  (forall d1 d2 v r os, driver_read d1 v r os = driver_read d2 v r os) /\
  (forall v r os1 os2,
     (forall o c, offer_read v r = Ok (o, c) -> os1 c = os2 c) ->
     glue_read v r os1 = glue_read v r os2) /\
  (forall ms os1 os2,
     os1 (voffer_read ms) = os2 (voffer_read ms) -> glue_readv ms os1 = glue_readv ms os2) /\
  (forall d n, (sqe_len d n <= n)%N) /\
  (forall d n, (n <= U32_MAX)%N -> sqe_len d n = n) /\
  (forall n, (U32_MAX < n)%N -> sqe_len DIoUring n = U32_MAX).
Proof.
  split; [exact driver_read_independent|]. split; [exact glue_read_answer_only|].
  split; [exact glue_readv_answer_only|]. split; [exact sqe_len_le|].
  split; [exact sqe_len_exact|exact sqe_len_clamped].
Qed.
Print Assumptions C08_driver_independent.

(* ---------------------------------------------------------------------- *)
(* non-vacuity                                                             *)

(* a Vec of length 2, capacity 6, read through .slice(1..) : the OS is offered
   [1, 6), answers 3 bytes; they land at [1, 4), the length becomes 4 *)
Example C08_glue_read_witness :
  let r := mkroot KVec [10; 11; 12; 13; 14; 15]%N 2 0 in
  let v := VSlice VBase 1 None in
  rwf r /\ wf v r /\ ~ uninit_filled v r /\
  offer_read v r = Ok (1, 5) /\
  glue_read v r (fun _ => [7; 8; 9]%N) =
    Ok (3, mkroot KVec [10; 7; 8; 9; 14; 15]%N 4 0).
Proof.
  cbn zeta. split; [split; [cbn; lia|discriminate]|].
  split; [cbn; split; [exact I|]; split; [exists 2; split; [reflexivity|lia]|exact I]|].
  split; [intros H; exact H|]. split; reflexivity.
Qed.
Print Assumptions C08_glue_read_witness.

(* a short read at end of file into a non-empty Vec keeps the old length *)
Example C08_glue_read_file_witness :
  glue_read VBase (mkroot KVec [1; 2; 3; 4; 5]%N 4 0) (fun k => pread [60; 61; 62]%N 2 k) =
    Ok (1, mkroot KVec [62; 2; 3; 4; 5]%N 4 0).
Proof. reflexivity. Qed.
Print Assumptions C08_glue_read_file_witness.

(* vectored: 5 bytes over members of capacity 2, 0, 4 *)
Example C08_vectored_witness :
  let ms := [mkroot KVec [1; 1]%N 0 0; mkroot KVec [] 0 0; mkroot KVec [2; 2; 2; 2]%N 0 0] in
  Forall rwf ms /\ ~ vec_known ms /\
  glue_readv ms (fun caps => concat (preadv [50; 51; 52; 53; 54]%N 0 caps)) =
    Ok (5, [mkroot KVec [50; 51]%N 2 0; mkroot KVec [] 0 0; mkroot KVec [52; 53; 54; 2]%N 3 0]).
Proof.
  cbn zeta. split.
  { repeat constructor; cbn; try lia; discriminate. }
  split; [|reflexivity].
  intros H. apply H. cbn. right. repeat constructor.
Qed.
Print Assumptions C08_vectored_witness.

(* a hole, a truncation and an append *)
Example C08_reference_witness :
  pwrite [1; 2]%N 4 [9; 9]%N = [1; 2; 0; 0; 9; 9]%N /\
  ftruncate [1; 2; 3]%N 5 = [1; 2; 3; 0; 0]%N /\
  ftruncate [1; 2; 3]%N 1 = [1]%N /\
  seq_write [1; 2; 3]%N 0 true [7]%N = ([1; 2; 3; 7]%N, 4) /\
  pwritev [1; 2; 3]%N 1 [[7]; []; [8; 9; 6]]%N = [1; 7; 8; 9; 6]%N /\
  preadv [1; 2; 3; 4; 5]%N 1 [2; 0; 5] = [[2; 3]; []; [4; 5]]%N.
Proof. repeat split; reflexivity. Qed.
Print Assumptions C08_reference_witness.

Example C08_open_flags_witness :
  open_flags (mkopts true true false true false 0%N) = Rok 524354%N /\   (* CLOEXEC|RDWR|CREAT *)
  open_flags (mkopts true false true false false 0%N) = Rerr E_INVALID_INPUT /\
  open_flags (mkopts false false false false false 0%N) = Rerr E_INVALID_INPUT /\
  open_flags (mkopts false true true true true 0%N) = Rok 524481%N.       (* create_new wins: CREAT|EXCL *)
Proof. repeat split; reflexivity. Qed.
Print Assumptions C08_open_flags_witness.

Example C08_clamp_witness :
  sqe_len DIoUring 4294967301%N = 4294967295%N /\ sqe_len DPoll 4294967301%N = 4294967301%N.
Proof. split; reflexivity. Qed.
Print Assumptions C08_clamp_witness.

(* O_TMPFILE with mode 0o666 on a directory reached through a symlink: an unnamed
   file of mode 0o644; create_dir_all on that symlink is Ok and changes nothing *)
Example C08_mode_and_links_witness :
  let fs := mkfs [([0], NDir); ([1], NLink [0])] [] in
  (exists fl, open_request (mkopts false true false false false O_TMPFILE) 438 = Rok (fl, 438%N) /\
     mode_consumed fl = true /\
     exists fs' h, fs_open fs [1] fl 438 false = (fs', Rok h) /\ h_perm fs' h = 420%N) /\
  fs_is_dir fs [1] = true /\ fs_mkdir_all 8 fs [1] = (fs, Rok tt) /\
  fst (fs_mkdir fs [1]) = fs /\ snd (fs_mkdir fs [1]) = Rerr E_ALREADY_EXISTS.
Proof.
  cbn zeta. split.
  - eexists. split; [vm_compute; reflexivity|]. split; [vm_compute; reflexivity|].
    eexists. eexists. split; vm_compute; reflexivity.
  - repeat split; vm_compute; reflexivity.
Qed.
Print Assumptions C08_mode_and_links_witness.

(* ---- source tie (translated from the Rust source on every run by tools/rs2v.py
        into gen/Frag.v; an edit of the function changes the generated definition) ---- *)
(* the length field of the io_uring read / write SQEs (compio-driver/src/sys/op/general/iour.rs,
   every site) as the source has it now is the model's clamp_u32 *)
Theorem C08_request_len_is_source : forall n : N,
  clamp_u32 n = Frag.iour_request_len n
  /\ ProcSpec.request_len true n = Frag.iour_request_len n
  /\ Frag.iour_request_len_sock n = Frag.iour_request_len n.
Proof. exact FragIoThm.request_len_tie. Qed.
Print Assumptions C08_request_len_is_source.
