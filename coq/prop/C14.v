(* C14 — socket transports deliver exactly what was sent.
   Statements only: each theorem is closed by [exact lemma] and followed by
   Print Assumptions.  Lemmas: thm/SockSpecThm.v; model: model/SockSpec.v
   (reference transports + compio's glue), tied to compio-net / compio-driver /
   compio-runtime by the transcript check c14 (model/RunC14.v replays the
   harness' transcripts through [run_event] and the datagram glue functions).

   PARTIAL: the theorems are about the reference queues and the glue MODEL, for
   every operation sequence, OS chunking and CQE schedule; that the Linux
   network stack is the reference and that the model is the code is observed
   by the differential check, not proved. *)
From Compio.Model Require Import Base SockSpec.
From Compio.Thm Require Import SockSpecThm.
From Compio.Gen Require Frag.
From Compio.Thm Require FragIoThm.

(* ---------------------------------------------------------------------- *)
(* Streams.  For EVERY interleaving [es] of sender operations (plain,
   vectored, zero-copy, zero-copy vectored), shutdown and receiver operations
   (plain with len <> cap, vectored, managed, multishot with any CQE schedule
   obeying the kernel's discipline), issued through the socket or any half,
   with EVERY OS chunking that the run accepts:
   - the user-visible run is a run of the reference FIFO queue;
   - the bytes the readers see through their buffers are exactly the bytes
     the reference delivered;
   - consumed ++ still queued = the bytes the writers were acknowledged for
     (nothing lost, duplicated, reordered);
   - without an early multishot drop: seen ++ queued = acknowledged.          *)
Theorem C14_stream_exact : forall L es s' os tr,
  run_events L stream0 es = Some (s', os, tr) -> forallb event_wf es = true ->
  ref_run stream0 (map fst tr) = Some (s', map snd tr) /\
  flat_map obs_bytes os = delivered (map snd tr) /\
  consumed (map snd tr) ++ sq s' = events_sent es /\
  (existsb early_drop es = false -> flat_map obs_bytes os ++ sq s' = events_sent es).
Proof. exact stream_exact. Qed.
Print Assumptions C14_stream_exact.

(* End-of-stream (a receive of 0 into a non-empty buffer) happens only after
   shutdown, when every byte ever accepted has been taken out; nothing is sent
   afterwards and every later receive is empty again. *)
Theorem C14_stream_eof : forall ls1 cap ls2 s os,
  ref_run stream0 (ls1 ++ LRecv cap 0 :: ls2) = Some (s, os) -> 0 < cap ->
  In LShutdown ls1 /\
  consumed (firstn (length ls1) os) = sent_of ls1 /\
  sent_of ls2 = [] /\ consumed (skipn (length ls1) os) = [] /\ sq s = [].
Proof. exact stream_eof. Qed.
Print Assumptions C14_stream_eof.

(* The receive result mapping: count n; the first n bytes of the buffer are
   what the OS delivered; the rest of the allocation is untouched; the length
   only grows; the capacity is unchanged; no panic. *)
Theorem C14_glue_recv : forall b bs,
  length bs <= bcap b -> blen b <= bcap b ->
  exists b', glue_recv b bs (length bs) = Ok (length bs, b') /\
    visible (length bs, b') = bs /\
    bcells b' = bs ++ skipn (length bs) (bcells b) /\
    blen b' = Nat.max (blen b) (length bs) /\ bcap b' = bcap b.
Proof. exact glue_recv_spec. Qed.
Print Assumptions C14_glue_recv.

(* vectored receive = sequential composition over the members *)
Theorem C14_glue_recv_vectored : forall ms bs,
  Forall (fun m => blen m = 0) ms -> length bs <= total_cap ms ->
  fst (glue_recv_vectored ms bs (length bs)) = length bs /\
  visible_v (glue_recv_vectored ms bs (length bs)) = bs.
Proof. exact glue_recv_vectored_spec. Qed.
Print Assumptions C14_glue_recv_vectored.

Theorem C14_glue_managed : forall cap bs,
  length bs <= cap ->
  glue_managed cap bs (length bs) = match bs with [] => None | _ => Some bs end.
Proof. exact glue_managed_spec. Qed.
Print Assumptions C14_glue_managed.

(* Multishot: the stream's items are the successive chunks the kernel took out
   of the socket; after an early drop (take = Some j) the reader has the first
   j chunks, the others are consumed and gone — never delivered twice. *)
Theorem C14_multishot_no_dup : forall L s len fb kss take s1 ob tr,
  run_rop L s (RMulti len fb kss take) = Some (s1, ob, tr) -> shapes_ok kss = true ->
  exists cs : list (list byte),
    concat cs ++ sq s1 = sq s /\
    match take with
    | None => obs_bytes ob = concat cs
    | Some j => obs_bytes ob = concat (firstn j cs) /\
                consumed (map snd tr) = concat cs /\
                delivered (map snd tr) = concat (firstn j cs)
    end.
Proof. exact multishot_no_dup. Qed.
Print Assumptions C14_multishot_no_dup.

(* Zero-copy send: the reported result is that of the first CQE; the buffer is
   handed back unchanged and only when every CQE (the notification included)
   has been consumed; a stream that has not finished is a panic, never an
   early return. *)
Theorem C14_zerocopy_two_phase : forall (buf : ubuf) cs,
  zc_wf cs = true ->
  exists r, zc_send buf cs = Some (Ok (r, buf, length cs)) /\
            match cs with ZC r0 _ :: _ => r = r0 | [] => False end.
Proof. exact (@zc_send_two_phase ubuf). Qed.
Print Assumptions C14_zerocopy_two_phase.

Theorem C14_zerocopy_never_early : forall (buf : ubuf) cs r b seen,
  zc_send buf cs = Some (Ok (r, b, seen)) ->
  b = buf /\ exists c, nth_error cs (seen - 1) = Some c /\ match c with ZC _ more => more = false end.
Proof. exact (@zc_send_never_early ubuf). Qed.
Print Assumptions C14_zerocopy_never_early.

(* halves (borrowed or owned) are the same socket *)
Theorem C14_split_same : forall L es v s,
  run_events L s (map (retag v) es) = run_events L s es.
Proof. exact split_same. Qed.
Print Assumptions C14_split_same.

(* ---------------------------------------------------------------------- *)
(* Datagrams: one datagram per receive, cut to the capacity and never beyond
   it, the rest of the allocation untouched, the source address preserved ... *)
Theorem C14_dgram_cut : forall d len cap clamp,
  len <= cap ->
  let n := Nat.min (length (dpay d)) cap in
  exists b',
    glue_recv_from (fresh len cap) (dg_answer d cap false) clamp = Ok (n, Some (dsrc d), b') /\
    visible (n, b') = firstn cap (dpay d) /\
    bcap b' = cap /\ blen b' = Nat.max len n /\
    skipn n (bcells b') = skipn n (bcells (fresh len cap)).
Proof. exact dgram_recv_from. Qed.
Print Assumptions C14_dgram_cut.

(* ... and flagged as truncated iff it was cut, where the call reports flags *)
Theorem C14_dgram_cut_flag : forall d caps,
  let ms := map (fresh 0) caps in
  let cap := total_cap ms in
  exists ms',
    glue_recv_msg ms (dg_answer d cap false) =
      (Nat.min (length (dpay d)) cap, 0, Some (dsrc d),
       (if cap <? length (dpay d) then MSG_TRUNC else 0%N), ms') /\
    flat_map binit ms' = firstn cap (dpay d).
Proof. exact dgram_recv_msg. Qed.
Print Assumptions C14_dgram_cut_flag.

Theorem C14_dgram_managed : forall d cap,
  glue_recv_from_managed cap (dg_answer d cap false) =
  match dpay d with
  | [] => None
  | _ => Some (firstn cap (dpay d), Some (dsrc d), if cap <? length (dpay d) then MSG_TRUNC else 0%N)
  end \/ cap = 0.
Proof. exact dgram_managed. Qed.
Print Assumptions C14_dgram_managed.

Theorem C14_dgram_one_per_recv : forall d q cap a,
  dg_recv (d :: q) cap a = Some (dg_answer d cap a, q).
Proof. exact dgram_one_per_recv. Qed.
Print Assumptions C14_dgram_one_per_recv.

(* io_uring multishot recvmsg: data() of the provided buffer is the payload *)
Theorem C14_mshot_layout : forall hdr name ctrl payload clen,
  length hdr = MSHOT_HDR -> length name = MSHOT_NAME -> length ctrl = clen ->
  mshot_data clen (mshot_layout hdr name ctrl payload) = payload.
Proof. exact mshot_data_is_payload. Qed.
Print Assumptions C14_mshot_layout.

(* scope boundary (not a finding: compio-net never passes MSG_TRUNC as an
   INPUT flag): with it the OS answers the real length, and the paths without
   the clamp hand that to advance_to — beyond the capacity *)
Theorem C14_dgram_input_trunc_scope : forall d len cap,
  len <= cap -> cap < length (dpay d) ->
  glue_recv_from (fresh len cap) (dg_answer d cap true) false = Panic P_SET_LEN /\
  exists b', glue_recv_from (fresh len cap) (dg_answer d cap true) true = Ok (cap, Some (dsrc d), b').
Proof. exact dgram_ask_len_unclamped. Qed.
Print Assumptions C14_dgram_input_trunc_scope.

(* ---------------------------------------------------------------------- *)
(* Accept: for every schedule of accept CQEs obeying the discipline (single
   accept = one final CQE per submission, multishot = F_MORE chains), every
   connection CQE becomes exactly one socket, in order ... *)
Theorem C14_incoming_exactly_once : forall css,
  forallb asession_wf css = true ->
  accepted (incoming_stream css) = flat_map session_conns css.
Proof. exact incoming_exactly_once. Qed.
Print Assumptions C14_incoming_exactly_once.

(* ... so over the reference listener each pending connection is handed out
   exactly once, in order; when the consumer keeps j items and drops the
   stream the others are closed with the operation, never handed out twice *)
Theorem C14_accept_once : forall pending shape css rest,
  serve_accepts pending shape = Some (css, rest) -> forallb ashape_ok shape = true ->
  accepted (incoming_stream css) ++ rest = pending /\
  (NoDup pending -> NoDup (accepted (incoming_stream css))) /\
  forall j, accepted (firstn j (incoming_stream css)) ++
            accepted (skipn j (incoming_stream css)) ++ rest = pending.
Proof. exact accept_once. Qed.
Print Assumptions C14_accept_once.

(* ---------------------------------------------------------------------- *)
(* non-vacuity: concrete runs meeting the hypotheses *)

Definition ex_buf (l : list N) (extra : nat) : ubuf := mkubuf (l ++ canaries_cyc 0 extra) (length l).

(* two writes (one partial, one vectored zero-copy), reads of every kind
   interleaved, shutdown, end of stream: everything arrives, in order *)
Example C14_nonvacuous_stream :
  let es := [ ESend Direct (SWrite (ex_buf [1;2;3;4;5]%N 3) 3);
              ERecv Borrowed (RPlain 1 4 2);
              ESend Owned (SWriteZcV [ex_buf [6;7]%N 0; ex_buf [8]%N 2] 3 true);
              ERecv Direct (RVectored [1; 2]%nat 3);
              EShutdown Borrowed;
              ERecv Owned (RMulti 0 false [[(1, true); (0, false)]%nat] None);
              ERecv Direct (RManaged 0 0) ] in
  forallb event_wf es = true /\ existsb early_drop es = false /\
  exists s' os tr, run_events 8 stream0 es = Some (s', os, tr) /\
    flat_map obs_bytes os = [1;2;3;6;7;8]%N /\ sq s' = [] /\ events_sent es = [1;2;3;6;7;8]%N.
Proof. vm_compute. repeat split. eexists _, _, _. repeat split. Qed.
Print Assumptions C14_nonvacuous_stream.

(* early drop: the kernel produced three chunks, the reader kept one; the other
   two are consumed, not delivered, and the next read continues behind them *)
Example C14_nonvacuous_early_drop :
  let es := [ ESend Direct (SWrite (ex_buf [1;2;3;4;5;6;7]%N 0) 7);
              ERecv Direct (RMulti 2 false [[(2, true); (2, true); (1, false)]%nat] (Some 1%nat));
              ERecv Direct (RPlain 0 8 2) ] in
  forallb event_wf es = true /\ existsb early_drop es = true /\
  exists s' os tr, run_events 8 stream0 es = Some (s', os, tr) /\
    flat_map obs_bytes os = [1;2;6;7]%N /\ consumed (map snd tr) = [1;2;3;4;5;6;7]%N /\ sq s' = [].
Proof. vm_compute. repeat split. eexists _, _, _. repeat split. Qed.
Print Assumptions C14_nonvacuous_early_drop.

(* a false end-of-stream (0 bytes while data is queued) is NOT a run *)
Example C14_false_eof_is_rejected :
  run_events 8 stream0 [ ESend Direct (SWrite (ex_buf [1;2]%N 0) 2); ERecv Direct (RPlain 0 4 0) ] = None.
Proof. vm_compute. reflexivity. Qed.
Print Assumptions C14_false_eof_is_rejected.

Example C14_nonvacuous_dgram :
  glue_recv_msg [fresh 0 3] (dg_answer (mkdg [9;8;7;6;5]%N 4242) 3 false)
  = (3%nat, 0%nat, Some 4242%N, MSG_TRUNC, [mkubuf [9;8;7]%N 3]).
Proof. vm_compute. reflexivity. Qed.
Print Assumptions C14_nonvacuous_dgram.

Example C14_nonvacuous_accept :
  forallb ashape_ok [[true; true; false]; [false]] = true /\
  exists css, serve_accepts [11;12;13;14;15]%N [[true; true; false]; [false]] = Some (css, [15%N]) /\
              accepted (incoming_stream css) = [11;12;13;14]%N.
Proof. vm_compute. split; [reflexivity|]. eexists. split; reflexivity. Qed.
Print Assumptions C14_nonvacuous_accept.

Example C14_nonvacuous_zerocopy :
  zc_wf [ZC (ZOk 5) true; ZC (ZOk 0) false] = true /\
  zc_send (ex_buf [1;2;3;4;5]%N 0) [ZC (ZOk 5) true; ZC (ZOk 0) false]
    = Some (Ok (ZOk 5, ex_buf [1;2;3;4;5]%N 0, 2%nat)) /\
  zc_send (ex_buf [1]%N 0) [ZC (ZOk 1) true; ZC (ZOk 0) true] = Some (Panic P_OTHER).
Proof. vm_compute. repeat split. Qed.
Print Assumptions C14_nonvacuous_zerocopy.

(* ---------------------------------------------------------------------- *)
(* Readiness (polling driver).  A send that found the send buffer full is
   blocked; once the peer has READ kd >= 1 bytes — and has sent NOTHING: its
   direction is empty and open — the poller reports the descriptor writable
   and the retried call completes with 1 <= n <= min kd (length data) bytes
   appended behind what is still queued. *)
Theorem C14_blocked_send_resumes_on_writable : forall C q data k_os kd,
  length q = C -> data <> [] ->
  send_submit send_interest C q data k_os = (OpBlocked send_interest, q) /\
  (1 <= kd -> kd <= C ->
   forall k2, exists n,
     send_retry send_interest C (skipn kd q) [] false data k2
       = (OpDone n, skipn kd q ++ firstn n data) /\
     1 <= n /\ n <= Nat.min kd (length data)).
Proof. exact blocked_send_resumes. Qed.
Print Assumptions C14_blocked_send_resumes_on_writable.

(* symmetric: a receive blocked on an empty open socket resumes when the peer
   has written, whatever the state of the other direction *)
Theorem C14_blocked_recv_resumes_on_readable : forall C q_out bs cap k_os,
  1 <= cap -> bs <> [] ->
  recv_submit recv_interest [] false cap k_os = (OpBlocked recv_interest, [], []) /\
  forall k2, exists n,
    recv_retry recv_interest C q_out bs false cap k2 = (OpDone n, firstn n bs, skipn n bs) /\
    1 <= n /\ n <= Nat.min (length bs) cap.
Proof. exact blocked_recv_resumes. Qed.
Print Assumptions C14_blocked_recv_resumes_on_readable.

(* the whole transfer: a writer pushing q ++ rem through a send buffer of
   capacity C while the peer only reads (every read >= 1 byte, enough reads)
   delivers everything, in order — no byte from the peer is needed *)
Theorem C14_backpressure_delivers_all : forall C q rem ks,
  1 <= C -> Forall (fun k => 1 <= k) ks ->
  length q <= C -> (rem <> [] -> q <> []) ->
  length q + length rem <= length ks ->
  bp_run send_interest C q rem ks = (q ++ rem, [], []).
Proof. exact backpressure_delivers_all. Qed.
Print Assumptions C14_backpressure_delivers_all.

(* the fault class this guards against: registering the send for READABLE
   leaves the writer's remaining bytes undelivered for every reading schedule *)
Theorem C14_wrong_interest_never_delivers : forall C ks q rem,
  rem <> [] -> length q = C ->
  exists g qf, bp_run IReadable C q rem ks = (g, qf, rem).
Proof. exact wrong_interest_never_delivers. Qed.
Print Assumptions C14_wrong_interest_never_delivers.

(* bulk transcripts (several MiB) are replayed on byte COUNTS: a sound
   abstraction of the reference queue *)
Theorem C14_count_abstraction : forall s l s' o,
  ref_step s l = Some (s', o) -> cstep (cabs s) (clabel_of l) = Some (cabs s').
Proof. exact count_abstraction. Qed.
Print Assumptions C14_count_abstraction.

Example C14_nonvacuous_backpressure :
  (* buffer of 3, 8 bytes to send, the peer reads 2 bytes at a time *)
  bp_run send_interest 3 [1;2;3]%N [4;5;6;7;8]%N [2;2;2;2;2;2;2;2]%nat = ([1;2;3;4;5;6;7;8]%N, [], []) /\
  bp_run IReadable 3 [1;2;3]%N [4;5;6;7;8]%N [2;2;2;2;2;2;2;2]%nat = ([1;2;3]%N, [], [4;5;6;7;8]%N).
Proof. vm_compute. split; reflexivity. Qed.
Print Assumptions C14_nonvacuous_backpressure.

(* ---- source tie (translated from the Rust source on every run by tools/rs2v.py
        into gen/Frag.v; an edit of the function changes the generated definition) ---- *)
(* multishot RECVMSG result buffer (compio-driver/src/sys/op/managed/iour.rs): the number of bytes
   RecvMsgMultiResultImpl::new requires in front of the payload and the offset data() slices at, as
   the source has them now (`size_of::<io_uring_recvmsg_out>() + NLEN + clen`, the two struct sizes
   being the model's MSHOT_HDR / MSHOT_NAME), are the model's layout: the payload is what follows the
   header, the name area and the control area of the length the operation RESERVED *)
Theorem C14_mshot_layout_is_source : forall (L clen : nat) (buf : list byte),
  mshot_data clen buf = skipn (Frag.mshot_data_offset MSHOT_HDR MSHOT_NAME clen) buf
  /\ mshot_payload_cap L clen = L - Frag.mshot_fixed_len MSHOT_HDR MSHOT_NAME clen
  /\ Frag.mshot_fixed_len MSHOT_HDR MSHOT_NAME clen = Frag.mshot_data_offset MSHOT_HDR MSHOT_NAME clen.
Proof. exact FragIoThm.mshot_layout_tie. Qed.
Print Assumptions C14_mshot_layout_is_source.
