(* C11 — I/O helpers are invariant under chunking and transient errors.
   Statements only: each theorem is closed by [exact lemma] and followed by
   Print Assumptions.  The lemmas live in thm/IoHelpersThm.v, the model in
   model/IoHelpers.v (tied to compio-io by the correspondence check c11). *)
From Compio.Model Require Import Base IoHelpers Buf IoVectored.
From Compio.Thm Require Import IoHelpersThm BufThm IoVectoredThm.
From Compio.Gen Require Frag.
From Compio.Thm Require FragIoThm.

(* read_exact, for EVERY schedule of the inner reader (chunk sizes, Interrupted,
   errors, EOF at any position), payload and buffer (length <= capacity, incl. 0):
   never a panic; the bytes consumed from the stream are exactly the bytes
   placed, in stream order, from offset 0; every other cell of the allocation
   is untouched; success iff the whole capacity was filled. *)
Theorem C11_read_exact : forall sched src v,
  vlen v <= vcap v ->
  exists o v' src' sched' n,
    read_exact sched src v = Ok (o, v', src', sched') /\
    n <= length src /\ n <= vcap v /\ src' = skipn n src /\
    cells v' = firstn n src ++ skipn n (cells v) /\
    vlen v' = Nat.max (vlen v) n /\
    (forall k, o = OOk k -> n = vcap v /\ k = vcap v).
Proof. exact read_exact_correct. Qed.
Print Assumptions C11_read_exact.

(* Interrupted answers are transparent for read_exact *)
Theorem C11_read_exact_interrupted : forall sched src v read,
  strip4 (read_exact_loop sched src v read) =
  strip4 (read_exact_loop (filter not_intr sched) src v read).
Proof. exact read_exact_interrupted_transparent. Qed.
Print Assumptions C11_read_exact_interrupted.

(* read_to_end appends: result = old content ++ exactly the bytes consumed *)
Theorem C11_read_to_end : forall sched src v,
  vlen v <= vcap v ->
  exists o v' src' sched' n,
    read_to_end sched src v = Ok (o, v', src', sched') /\
    n <= length src /\ src' = skipn n src /\ vlen v' <= vcap v' /\
    vinit v' = vinit v ++ firstn n src /\
    (forall k, o = OOk k -> k = n).
Proof. exact read_to_end_correct. Qed.
Print Assumptions C11_read_to_end.

(* write_all: the sink sees a prefix of the data, once, in order; Ok = all *)
Theorem C11_write_all : forall sched data,
  exists o log sched' n,
    write_all sched data = (o, log, sched') /\ n <= length data /\
    sink_bytes log = firstn n data /\
    (forall k, o = OOk k -> n = length data /\ sink_bytes log = data).
Proof. exact write_all_correct. Qed.
Print Assumptions C11_write_all.

(* copy: for every pair of schedules and every buffer size *)
Theorem C11_copy : forall rs src ws bsz,
  exists o src' log n m,
    copy rs src ws bsz = (o, src', log) /\
    n <= length src /\ src' = skipn n src /\ m <= n /\
    sink_bytes log = firstn m src /\
    (forall k, o = OOk k -> m = n /\ k = n /\ exists l0, log = l0 ++ [WFlush; WShutdown]).
Proof. exact copy_correct. Qed.
Print Assumptions C11_copy.

(* BufWriter::write_vectored: the segments go BEHIND the bytes already waiting in the
   buffer; an Ok(k) has accepted exactly the first k bytes of their concatenation;
   nothing waiting is overwritten, lost, duplicated or reordered *)
Theorem C11_bufwriter_write_vectored : forall ws b log segs,
  bwf b ->
  exists o b' log' ws',
    bw_write_vectored ws b log segs = Ok (o, b', log', ws') /\ bwf b' /\
    vcap (bvec b') = vcap (bvec b) /\
    match o with
    | OOk k => k <= length (concat segs) /\
               sink_bytes log' ++ buf_pending b' =
               (sink_bytes log ++ buf_pending b) ++ firstn k (concat segs)
    | OErr _ => sink_bytes log' ++ buf_pending b' = sink_bytes log ++ buf_pending b
    end.
Proof. exact bw_write_vectored_spec. Qed.
Print Assumptions C11_bufwriter_write_vectored.

(* BufWriter refines the identity stream transformer:
   (bytes the inner writer saw) ++ (bytes buffered) = bytes accepted, always *)
Theorem C11_bufwriter_write : forall ws b log data,
  bwf b ->
  exists o b' log' ws',
    bw_write ws b log data = Ok (o, b', log', ws') /\ bwf b' /\
    vcap (bvec b') = vcap (bvec b) /\
    match o with
    | OOk k => k <= length data /\
               sink_bytes log' ++ buf_pending b' =
               (sink_bytes log ++ buf_pending b) ++ firstn k data
    | OErr _ => sink_bytes log' ++ buf_pending b' = sink_bytes log ++ buf_pending b
    end.
Proof. exact bw_write_spec. Qed.
Print Assumptions C11_bufwriter_write.

Theorem C11_bufwriter_flush : forall ws b log,
  bwf b ->
  exists o b' log' ws',
    bw_flush ws b log = Ok (o, b', log', ws') /\ bwf b' /\
    vcap (bvec b') = vcap (bvec b) /\
    sink_bytes log' ++ buf_pending b' = sink_bytes log ++ buf_pending b /\
    (forall k, o = OOk k -> buf_pending b' = [] /\ exists l0, log' = l0 ++ [WFlush]).
Proof. exact bw_flush_spec. Qed.
Print Assumptions C11_bufwriter_flush.

(* BufReader refines the identity: window ++ rest of stream is preserved by
   fill_buf, and read hands out exactly its next k bytes *)
Theorem C11_bufreader_fill : forall rs src b,
  bwf b ->
  exists o b' src' rs',
    br_fill_buf rs src b = (o, b', src', rs') /\ bwf b' /\
    vcap (bvec b') = vcap (bvec b) /\
    buf_pending b' ++ src' = buf_pending b ++ src.
Proof. exact br_fill_buf_spec. Qed.
Print Assumptions C11_bufreader_fill.

Theorem C11_bufreader_read : forall rs src b dst,
  bwf b -> vlen dst <= vcap dst ->
  exists o b' src' rs' dst',
    br_read rs src b dst = Ok (o, b', src', rs', dst') /\ bwf b' /\
    vcap (bvec b') = vcap (bvec b) /\
    match o with
    | OOk k => cells dst' = firstn k (buf_pending b ++ src) ++ skipn k (cells dst) /\
               k <= vcap dst /\ vlen dst' = Nat.max (vlen dst) k /\
               buf_pending b' ++ src' = skipn k (buf_pending b ++ src)
    | OErr _ => dst' = dst /\ buf_pending b' ++ src' = buf_pending b ++ src
    end.
Proof. exact br_read_spec. Qed.
Print Assumptions C11_bufreader_read.

(* Take never lets more than its limit through, and what it delivers is the
   next k bytes of the stream *)
Theorem C11_take : forall limit a src v,
  vlen v <= vcap v ->
  let '(o, v', src', limit') := take_read limit a src v in
  match o with
  | OOk k => k <= limit /\ k <= vcap v /\ limit' = limit - k /\
             src' = skipn k src /\ k <= length src /\
             cells v' = firstn k src ++ skipn k (cells v) /\
             vlen v' = Nat.max (vlen v) k
  | OErr _ => v' = v /\ src' = src /\ limit' = limit
  end.
Proof. exact take_read_spec. Qed.
Print Assumptions C11_take.

(* in-memory writers: Vec<u8> behaves like a file (pwrite with zero-filled
   hole), for every content, position (also beyond the end) and data; the
   vectored forms are the sequential composition of the single-buffer ones.
   The model functions are total: there is no panic case. *)
Theorem C11_vec_write_at_file : forall d bs pos,
  vlen d <= vcap d ->
  let '(k, d') := vec_write_at d bs pos in
  k = length bs /\ vlen d' <= vcap d' /\ vinit d' = file_write (vinit d) pos bs.
Proof. exact vec_write_at_file. Qed.
Print Assumptions C11_vec_write_at_file.

Theorem C11_vec_write_vectored_at_sequential : forall d bss pos,
  vlen d <= vcap d ->
  let '(k, d') := vec_write_vectored_at d bss pos in
  k = length (concat bss) /\ vlen d' <= vcap d' /\
  vinit d' = file_write (vinit d) pos (concat bss).
Proof. exact vec_write_vectored_at_file. Qed.
Print Assumptions C11_vec_write_vectored_at_sequential.

Theorem C11_vec_write_vectored_appends : forall d bss,
  vlen d <= vcap d ->
  let '(k, d') := vec_write_vectored d bss in
  k = length (concat bss) /\ vlen d' <= vcap d' /\ vinit d' = vinit d ++ concat bss.
Proof. exact vec_write_vectored_is_concat. Qed.
Print Assumptions C11_vec_write_vectored_appends.

(* in-memory readers: positions beyond the end are clamped (no panic), and a
   vectored read hands consecutive pieces of the source to the members *)
Theorem C11_mem_read_at : forall this v pos,
  vlen v <= vcap v ->
  let '(k, v') := mem_read_at this v pos in
  let s := skipn (Nat.min pos (length this)) this in
  k = Nat.min (length s) (vcap v) /\
  cells v' = firstn k s ++ skipn k (cells v) /\ vlen v' = Nat.max (vlen v) k.
Proof. exact mem_read_at_spec. Qed.
Print Assumptions C11_mem_read_at.

Theorem C11_mem_read_vectored_members : forall ms this,
  Forall (fun m => vlen m = 0) ms ->
  concat (map vinit (fill_members this ms)) = firstn (total_cap ms) this /\
  map vcap (fill_members this ms) = map vcap ms.
Proof. exact fill_members_spec. Qed.
Print Assumptions C11_mem_read_vectored_members.

Example C11_nonvacuous_write_at_hole :
  vec_write_at (mkvec [1;2;3;9;9;9;9;9]%N 3) [7;8]%N 5
  = (2, mkvec [1;2;3;0;0;7;8;9]%N 7).
Proof. vm_compute. reflexivity. Qed.
Print Assumptions C11_nonvacuous_write_at_hole.

(* non-vacuity: the hypotheses are met by concrete non-trivial states, and the
   functions do what the statements say on them *)
Example C11_nonvacuous_read_exact :
  read_exact [AChunk 2; AErr E_INTERRUPTED; AChunk 9] [1;2;3;4;5]%N
             (mkvec [7;7;7;7]%N 1)
  = Ok (OOk 4, mkvec [1;2;3;4]%N 4, [5%N], []).
Proof. vm_compute. reflexivity. Qed.
Print Assumptions C11_nonvacuous_read_exact.

Example C11_nonvacuous_bufwriter :
  bwf (buf_with_capacity 4) /\
  exists b log ws,
    bw_write [AChunk 9] (buf_with_capacity 4) [] [1;2;3]%N = Ok (OOk 3, b, log, ws) /\
    sink_bytes log ++ buf_pending b = [1;2;3]%N.
Proof.
  split; [apply buf_with_capacity_wf|].
  vm_compute. eexists _, _, _. split; reflexivity.
Qed.
Print Assumptions C11_nonvacuous_bufwriter.

(* Known finding (zero-capacity internal buffers): the full statement
   "a reader over a non-empty stream never reports end-of-file" is FALSE for
   BufReader::with_capacity(0) and copy_with_size(.., 0); witnesses: *)
Example C11_known_bufreader_cap0_refuted :
  exists o b src' rs' dst',
    br_read [AChunk 8] [1;2;3]%N (buf_with_capacity 0) (mkvec [0;0;0;0]%N 0)
      = Ok (o, b, src', rs', dst') /\ o = OOk 0 /\ src' = [1;2;3]%N.
Proof. vm_compute. eexists _, _, _, _, _. repeat split; reflexivity. Qed.
Print Assumptions C11_known_bufreader_cap0_refuted.

Example C11_known_copy_bufsize0_refuted :
  copy [AChunk 8] [1;2;3]%N [AChunk 8] 0 = (OOk 0, [1;2;3]%N, [WFlush; WShutdown]).
Proof. vm_compute. reflexivity. Qed.
Print Assumptions C11_known_copy_bufsize0_refuted.

(* vectored-exact reads: AsyncReadExt::read_vectored_exact over a reader that has
   only the DEFAULT read_vectored (VectoredBufIter over buf.slice_mut(read)), on
   the vectored-buffer model of C10 (model/Buf.v).  Guard [vec_members]: every
   member is a Vec<u8> with len <= capacity (ANY fill state: pre-existing
   content, spare capacity, empty members, capacity 0).  For EVERY schedule of
   the inner reader (short reads, Interrupted, errors, EOF anywhere) and payload:
   never a panic; the bytes consumed from the stream are exactly the bytes
   placed, in stream order, into the concatenated capacities of the members from
   offset 0 of the first member; every other cell is untouched; every delivered
   byte lies inside the initialised part ([pos_ok]: members before position n are
   full, the member holding it has len >= offset); no length shrinks; Ok iff the
   whole capacity was filled, and then every member is full. *)
Theorem C11_read_vectored_exact : forall sched src ms,
  vec_members ms = true ->
  exists o ms' src' sched' n,
    read_vectored_exact sched src ms = Ok (o, ms', src', sched') /\
    n <= length src /\ n <= total_capacity ms /\ src' = skipn n src /\
    map rcap ms' = map rcap ms /\
    flat_cells ms' = firstn n src ++ skipn n (flat_cells ms) /\
    pos_ok ms' n /\ vec_members ms' = true /\
    Forall2 (fun m m' => rlen m <= rlen m') ms ms' /\
    (forall k, o = OOk k ->
       n = total_capacity ms /\ k = n /\ Forall (fun m => rlen m = rcap m) ms').
Proof. exact read_vectored_exact_correct. Qed.
Print Assumptions C11_read_vectored_exact.

(* the guard is satisfiable by a non-trivial buffer (partly filled member, member
   of capacity 0, fresh member), and the function does what the theorem says on
   it: chunks of 1 and 2, an Interrupted, then the rest *)
Example C11_nonvacuous_read_vectored_exact :
  let ms := [mkroot KVec [50;51;52;53]%N 3 0; mkroot KVec [] 0 0; mkroot KVec [60;61;62]%N 0 0] in
  vec_members ms = true /\
  read_vectored_exact [AChunk 1; AChunk 2; AErr E_INTERRUPTED; AChunk 9; AChunk 9] [1;2;3;4;5;6;7;8;9]%N ms
  = Ok (OOk 7, [mkroot KVec [1;2;3;4]%N 4 0; mkroot KVec [] 0 0; mkroot KVec [5;6;7]%N 3 0], [8;9]%N, []).
Proof. cbn zeta. split; vm_compute; reflexivity. Qed.
Print Assumptions C11_nonvacuous_read_vectored_exact.

(* a source that ends early: UnexpectedEof, the delivered bytes recorded *)
Example C11_read_vectored_exact_eof :
  read_vectored_exact [AChunk 9; AChunk 9; AChunk 9] [1;2;3;4;5]%N
    [mkroot KVec [50;51;52;53]%N 0 0; mkroot KVec [60;61;62]%N 2 0]
  = Ok (OErr E_UNEXPECTED_EOF, [mkroot KVec [1;2;3;4]%N 4 0; mkroot KVec [5;61;62]%N 2 0], [], []).
Proof. vm_compute. reflexivity. Qed.
Print Assumptions C11_read_vectored_exact_eof.

(* Known finding (C10's advance_vec_to / vectored set_len defects reached through
   <[u8]>::read_vectored_exact_at, whose read_vectored_at records with
   advance_vec_to): a source shorter than the total capacity and members that are
   not in sequential-fill order.  2 bytes into [Vec(len 0, cap 4), Vec(len 3, cap 4)]:
   the first call records nothing (2 <= total length 3), the second call panics in
   slice_mut(2).iter_slice(); with 5 bytes the second member is truncated from 3 to 1 *)
Example C11_known_rvea_short_nonseq_refuted :
  read_vectored_exact_at [1;2]%N 0 [mkroot KVec [50;51;52;53]%N 0 0; mkroot KVec [60;61;62;63]%N 3 0]
    = Panic P_SLICE_INDEX /\
  exists ms', read_vectored_exact_at [1;2;3;4;5]%N 0
      [mkroot KVec [50;51;52;53]%N 0 0; mkroot KVec [60;61;62;63]%N 3 0]
    = Ok (OErr E_UNEXPECTED_EOF, ms') /\ map rlen ms' = [4; 1].
Proof. split; [vm_compute; reflexivity|]. eexists. split; vm_compute; reflexivity. Qed.
Print Assumptions C11_known_rvea_short_nonseq_refuted.

(* ---- source tie (translated from the Rust source on every run by tools/rs2v.py
        into gen/Frag.v; an edit of the function changes the generated definition) ---- *)
(* Buffer::need_flush (compio-io/src/buffer.rs) as the source has it now is the
   eager-flush threshold BufWriter's model uses *)
Theorem C11_need_flush_is_source : forall b,
  buf_need_flush b = Frag.buffer_need_flush (vcap (bvec b)) (vlen (bvec b)).
Proof. exact FragIoThm.need_flush_tie. Qed.
Print Assumptions C11_need_flush_is_source.
