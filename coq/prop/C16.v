(* C16 — QUIC streams and datagrams: ordered, exactly-once, never stranded.
   PARTIAL: quinn-proto (the QUIC protocol state machine: ordering, exactly-once
   delivery, flow control, loss recovery) is an environment, not a model; it
   emits events and answers polls with "ready" / "blocked".  What is proved
   here is compio-quic's OWN part — the per-connection waker tables, the
   event -> wake mapping of the connection worker, terminate / close, and the
   register-on-blocked discipline of the futures — for every sequence of
   labels.  Byte-level delivery is reached only by the correspondence runs
   (harness/ext/src/bin/c16.rs).

   Statements only; lemmas in thm/QuicWakersThm.v, model in model/QuicWakers.v.

   Reading guide.  [step c l] performs one label on the connection state [c]:
   a protocol event handled by the worker ([LEvent e]), a close ([LClose]), a
   poll of a future ([LPoll x w ready]: waiter kind / stream [x], task [w],
   [ready] = the state machine's answer), the drop of a stream handle.  Its
   output is the list of tasks woken ([OWoken ws]) or the poll result ([OPoll]:
   [PData], [PError e] = the stored connection error, [PWait] = Pending with the
   waker registered).  [registered c] = every waker in any table;
   [lookup c x] = the wakers registered for waiter [x]. *)
From Compio.Model Require Import Base QuicWakers.
From Compio.Thm Require Import QuicWakersThm.
From Compio.Gen Require Frag.
From Compio.Thm Require FragMiscThm.

(* ---------------------------------------------------------------------- *)
(* C16_terminate_wakes_all: the step that terminates the connection — close()
   or a ConnectionLost event — wakes EVERY registered waker, in whatever state
   the tables are; afterwards, along EVERY continuation (any events, polls of
   any stream / datagram / open / accept future, drops), no poll ever returns
   Pending again and nothing is registered: no future is left hanging. *)
Theorem C16_terminate_wakes_all : forall c l ls,
  terminating l = true ->
  snd (step c l) = OWoken (registered c) /\
  (forall r, In (OPoll r) (snd (run (fst (step c l)) ls)) -> r <> PWait) /\
  registered (fst (run (fst (step c l)) ls)) = [].
Proof. exact terminate_then_nothing_hangs. Qed.
Print Assumptions C16_terminate_wakes_all.

(* ... and what such a poll returns: the stored error, for every future that
   looks at it first and for every future whose state machine says "blocked"
   (stream reads / stopped hand out what the state machine still has first) *)
Theorem C16_poll_after_terminate : forall c e x w ready,
  error c = Some e ->
  fst (poll_waiter c x w ready) = c /\
  snd (poll_waiter c x w ready) <> PWait /\
  (error_first x = true -> snd (poll_waiter c x w ready) = PError e) /\
  (ready = false -> snd (poll_waiter c x w ready) = PError e).
Proof. exact poll_after_error. Qed.
Print Assumptions C16_poll_after_terminate.

(* ---------------------------------------------------------------------- *)
(* C16_event_wakes_waiter: a future that returned Pending for waiter x is woken
   by the first later step that is its matching event (Readable / Writable /
   Stopped / Finished of its stream, Opened / Available of its direction,
   DatagramReceived, ...) or a terminating step — whatever happens in between,
   as long as nothing disturbs its own table entry (a poll through the same
   stream handle, or the drop of that handle). *)
Theorem C16_event_wakes_waiter : forall ls c x w ready c1 l,
  poll_waiter c x w ready = (c1, PWait) ->
  (forall l', In l' ls -> disturbs l' x = false) ->
  (terminating l = true \/ exists e, l = LEvent e /\ matches e x = true) ->
  woken_in w (snd (run c1 (ls ++ [l]))).
Proof. exact blocked_future_is_woken. Qed.
Print Assumptions C16_event_wakes_waiter.

(* registering never overwrites a waiter of a different stream / kind ... *)
Theorem C16_register_keeps_others : forall c x w ready y,
  same_slot x y = false -> lookup (fst (poll_waiter c x w ready)) y = lookup c y.
Proof. exact poll_keeps_others. Qed.
Print Assumptions C16_register_keeps_others.

(* ... and the connection-level waiters (connected, datagrams, open, accept)
   are queues: a second task waiting for the same thing is added, not swapped in *)
Theorem C16_register_keeps_queue : forall c x w ready w',
  match x with WConnecting | WRecvDatagram | WSendDatagram | WOpen _ | WAccept _ => True | _ => False end ->
  In w' (lookup c x) -> In w' (lookup (fst (poll_waiter c x w ready)) x).
Proof. exact poll_queue_keeps. Qed.
Print Assumptions C16_register_keeps_queue.

(* ---------------------------------------------------------------------- *)
(* C16_no_cross_talk: an event for stream s (or direction d) leaves every entry
   it does not match exactly as it was, and wakes only wakers registered under
   an entry it matches.  (The two broadcasts — ConnectionLost, and Connected on
   a client whose 0-RTT data was rejected — wake stream waiters on purpose.) *)
Theorem C16_no_cross_talk : forall c e,
  broadcast e = false ->
  (forall y, matches e y = false -> lookup (fst (handle_event c e)) y = lookup c y) /\
  (forall w, In w (snd (handle_event c e)) -> exists x, matches e x = true /\ In w (lookup c x)).
Proof.
  exact (fun c e B => conj (fun y => event_keeps_others c e y B) (fun w => event_wakes_only_matching c e w B)).
Qed.
Print Assumptions C16_no_cross_talk.

(* a registered waiter stays registered until the step that wakes it *)
Theorem C16_waiter_persists : forall c l x w,
  In w (lookup c x) -> disturbs l x = false ->
  In w (lookup (fst (step c l)) x) \/ (exists ws, snd (step c l) = OWoken ws /\ In w ws).
Proof. exact waiter_stays_or_woken. Qed.
Print Assumptions C16_waiter_persists.

(* ---------------------------------------------------------------------- *)
(* two pieces of per-stream logic of compio-quic                            *)

(* dropping a SendStream of a live connection without reset()/finish() closes it
   towards the peer whatever its state: an open stream is finished, a stream the
   peer has stopped is reset with the peer's code (so that the peer can release
   it and hand its stream-count credit back), and the worker is woken to send it *)
Theorem C16_drop_closes_stream : forall st,
  closed_towards_peer (fst (send_drop false st)) = true /\
  (closed_towards_peer st = false -> snd (send_drop false st) = true) /\
  (forall c, st = SStopped c -> fst (send_drop false st) = SReset c).
Proof. exact send_drop_closes. Qed.
Print Assumptions C16_drop_closes_stream.

(* read_to_end: whatever was consumed before, and in whatever order the
   remaining chunks are delivered: if every chunk carries the stream's bytes at
   its offset and the chunks leave no hole, the result is exactly the stream
   from the lowest offset delivered to the end — right length, not shifted, no
   filler *)
Theorem C16_read_to_end_exact : forall d cs,
  cs <> [] ->
  (forall c, In c cs -> chunk_of d c) ->
  (forall p, rte_start cs <= p < rte_end cs -> QuicWakersThm.covers cs p) ->
  read_to_end_assemble cs = sub_list d (rte_start cs) (rte_end cs - rte_start cs).
Proof. exact read_to_end_exact. Qed.
Print Assumptions C16_read_to_end_exact.

Example C16_nonvacuous_read_to_end :
  read_to_end_assemble [(6, [17; 18]%N); (4, [15; 16]%N); (8, [19]%N)] = [15; 16; 17; 18; 19]%N /\
  sub_list [11; 12; 13; 14; 15; 16; 17; 18; 19]%N 4 5 = [15; 16; 17; 18; 19]%N /\
  send_drop false (SStopped 9%N) = (SReset 9%N, true) /\ send_drop false SOpen = (SFinished, true).
Proof. vm_compute. repeat split; reflexivity. Qed.
Print Assumptions C16_nonvacuous_read_to_end.

(* ---------------------------------------------------------------------- *)
(* non-vacuity: a concrete history with two streams, two tasks waiting for the
   handshake, a reader and a writer blocked, an accept waiting; events wake
   exactly their waiters; close wakes the rest; later polls return the error *)
Example C16_nonvacuous_run :
  snd (run conn0
    [LPoll WConnecting 1 false; LPoll WConnecting 2 false; LPoll (WRead 4) 3 false;
     LPoll (WWrite 8) 5 false; LPoll (WAccept true) 6 false; LPoll WRecvDatagram 7 false;
     LEvent (QConnected false); LEvent (QReadable 8); LEvent (QReadable 4);
     LPoll (WRead 4) 3 true; LPoll (WStopped 8) 9 false;
     LClose;
     LPoll (WRead 4) 3 false; LPoll (WWrite 8) 5 true; LPoll (WAccept false) 6 false])
  = [OPoll PWait; OPoll PWait; OPoll PWait; OPoll PWait; OPoll PWait; OPoll PWait;
     OWoken [1; 2]; OWoken []; OWoken [3];
     OPoll PData; OPoll PWait;
     OWoken [7; 6; 5; 9];
     OPoll (PError E_LOCALLY_CLOSED); OPoll (PError E_LOCALLY_CLOSED); OPoll (PError E_LOCALLY_CLOSED)].
Proof. vm_compute. reflexivity. Qed.
Print Assumptions C16_nonvacuous_run.

Example C16_nonvacuous_hypotheses :
  terminating LClose = true /\ terminating (LEvent (QConnectionLost 3%N)) = true /\
  broadcast (QReadable 4) = false /\ matches (QStopped 8) (WWrite 8) = true /\
  disturbs (LEvent (QReadable 8)) (WRead 4) = false /\ same_slot (WRead 4) (WRead 8) = false.
Proof. vm_compute. repeat split; reflexivity. Qed.
Print Assumptions C16_nonvacuous_hypotheses.

(* ---- source tie (translated from the Rust source on every run by tools/rs2v.py
        into gen/Frag.v; an edit of the function changes the generated definition) ---- *)
(* RecvStream::read_to_end (compio-quic/src/recv_stream.rs): the two running bounds the loop keeps
   over the chunks it is handed IN WHATEVER ORDER (`start = start.min(chunk.offset)`,
   `end = end.max(chunk.offset + len)`) and the place a chunk is copied to (`offset - start`), as
   the source has them now, are the model's rte_min / rte_max / read_to_end_assemble - the
   functions C16_read_to_end_exact is about *)
Theorem C16_read_to_end_bounds_are_source : forall (cs : list chunk) (m : nat),
  rte_min cs m = fold_left (fun a c => Frag.rte_start_step a (fst c)) cs m
  /\ rte_max cs m = fold_left (fun a c => Frag.rte_end_step a (fst c) (length (snd c))) cs m.
Proof. exact FragMiscThm.rte_tie. Qed.
Print Assumptions C16_read_to_end_bounds_are_source.

Theorem C16_read_to_end_placement_is_source : forall cs,
  read_to_end_assemble cs =
    let s := rte_start cs in
    let e := rte_end cs in
    if Nat.leb e s then [] else
    fold_left (fun buf c => write_at buf (Frag.rte_place (fst c) s) (snd c)) cs (repeat_b 0%N (e - s)).
Proof. exact FragMiscThm.rte_assemble_tie. Qed.
Print Assumptions C16_read_to_end_placement_is_source.
