(* C12 — blocking-style (SyncStream) and poll-style (AsyncStream) compat adapters
   are lossless FIFO pipes.
   Statements only: each theorem is closed by [exact lemma] and followed by
   Print Assumptions.  Lemmas: thm/CompatThm.v; model: model/Compat.v (tied to
   compio-io/src/compat by the correspondence check c12).

   Reading guide.  A program is a list of calls ([pop] for the poll adapter:
   poll_read / poll_read_uninit / poll_fill_buf / consume / poll_write /
   poll_flush / poll_close and the environment's wake steps; [sop] for the
   blocking adapter: read / fill_buf / consume / write / flush / fill_read_buf /
   flush_write_buf).  [st_new base mx rs src ws] is the adapter built by
   with_limits(base, mx, ..) over an inner reader with answer schedule [rs] and
   payload [src] and an inner writer with schedule [ws].  [handed outs] = the
   bytes the caller received (reads and consumed windows), [accepted outs] = the
   bytes the adapter accepted from the caller, [sink_bytes (wlog ..)] = the bytes
   the inner writer received, [buf_pending] = what a buffer still holds.
   The theorems quantify over ALL programs, ALL schedules (short transfers,
   Pending, errors, EOF anywhere), ALL payloads, ALL base capacities and limits
   (including 0), and every loop budget [fuel]. *)
From Compio.Model Require Import Base IoHelpers Compat.
From Compio.Thm Require Import IoHelpersThm CompatThm.
From Compio.Gen Require Frag.
From Compio.Thm Require FragIoThm.
From Compio.Thm Require FragCompatThm.

(* ---------------------------------------------------------------------- *)
(* C12_read_fifo: bytes handed to the caller ++ bytes still buffered ++ bytes
   the inner stream has not delivered yet = the payload: every delivered byte
   comes out exactly once, in order, across compaction, growth and shrink,
   would-block returns, Pending, errors and end-of-file *)
Theorem C12_read_fifo : forall fuel base mx rs src ws ops outs s',
  run (poll_step_fuel fuel) ops (st_new base mx rs src ws) = Ok (outs, s') ->
  handed outs ++ buf_pending (rb (rh s')) ++ rsrc (rh s') = src.
Proof. exact poll_read_fifo. Qed.
Print Assumptions C12_read_fifo.

Theorem C12_read_fifo_sync : forall base mx rs src ws ops outs s',
  run sync_step ops (st_new base mx rs src ws) = Ok (outs, s') ->
  handed outs ++ buf_pending (rb (rh s')) ++ rsrc (rh s') = src.
Proof. exact sync_read_fifo. Qed.
Print Assumptions C12_read_fifo_sync.

(* C12_write_fifo: bytes the inner stream received ++ bytes pending = bytes
   accepted from the caller, always — in particular after a failed flush the
   pending part is exactly the unsent tail *)
Theorem C12_write_fifo : forall fuel base mx rs src ws ops outs s',
  run (poll_step_fuel fuel) ops (st_new base mx rs src ws) = Ok (outs, s') ->
  sink_bytes (wlog (wh s')) ++ buf_pending (wb (wh s')) = accepted outs.
Proof. exact poll_write_fifo. Qed.
Print Assumptions C12_write_fifo.

Theorem C12_write_fifo_sync : forall base mx rs src ws ops outs s',
  run sync_step ops (st_new base mx rs src ws) = Ok (outs, s') ->
  sink_bytes (wlog (wh s')) ++ buf_pending (wb (wh s')) = accepted outs.
Proof. exact sync_write_fifo. Qed.
Print Assumptions C12_write_fifo_sync.

(* C12_limits: pending write bytes never exceed max_buffer_size; the read buffer
   never exceeds max(base, max + base - 1) — the bound that actually holds (the
   literal "<= max" is refuted below) *)
Theorem C12_limits : forall fuel base mx rs src ws ops outs s',
  run (poll_step_fuel fuel) ops (st_new base mx rs src ws) = Ok (outs, s') ->
  length (buf_pending (wb (wh s'))) <= mx /\
  length (buf_pending (rb (rh s'))) <= Nat.max base (mx + base - 1).
Proof. exact poll_limits. Qed.
Print Assumptions C12_limits.

Theorem C12_limits_sync : forall base mx rs src ws ops outs s',
  run sync_step ops (st_new base mx rs src ws) = Ok (outs, s') ->
  length (buf_pending (wb (wh s'))) <= mx /\
  length (buf_pending (rb (rh s'))) <= Nat.max base (mx + base - 1).
Proof. exact sync_limits. Qed.
Print Assumptions C12_limits_sync.

(* a window shown by poll_fill_buf is the next bytes of the stream *)
Theorem C12_read_window : forall fuel base mx rs src ws ops outs s1 op bs s2,
  run (poll_step_fuel fuel) ops (st_new base mx rs src ws) = Ok (outs, s1) ->
  poll_step_fuel fuel op s1 = Ok (OWin (PRBytes bs), s2) ->
  exists rest, src = handed outs ++ bs ++ rest.
Proof. exact poll_window. Qed.
Print Assumptions C12_read_window.

(* C12_write_fifo, second half: a successful poll_flush / poll_close means every
   byte accepted so far — also those left over by earlier failed flushes — has
   reached the inner stream, in order, and nothing is pending *)
Theorem C12_flush_delivers_poll : forall fuel base mx rs src ws ops outs s1 op o s2,
  run (poll_step_fuel fuel) ops (st_new base mx rs src ws) = Ok (outs, s1) ->
  poll_step_fuel fuel op s1 = Ok (o, s2) ->
  match o with OCtl (PRCount _) | OFlushed (OOk _) => True | _ => False end ->
  sink_bytes (wlog (wh s2)) = accepted outs /\ buf_pending (wb (wh s2)) = [].
Proof. exact poll_flush_delivers. Qed.
Print Assumptions C12_flush_delivers_poll.

(* ... and a successful flush_write_buf (a retry after a failure included) *)
Theorem C12_flush_delivers_sync : forall base mx rs src ws ops outs s1 op o s2,
  run sync_step ops (st_new base mx rs src ws) = Ok (outs, s1) ->
  sync_step op s1 = Ok (o, s2) ->
  match o with OCtl (PRCount _) | OFlushed (OOk _) => True | _ => False end ->
  sink_bytes (wlog (wh s2)) = accepted outs /\ buf_pending (wb (wh s2)) = [].
Proof. exact sync_flush_delivers. Qed.
Print Assumptions C12_flush_delivers_sync.

(* C12_limits, reporting: fill_read_buf at or above the limit answers
   OutOfMemory (never silently drops or overruns): before the inner read it
   either returns Ok(0) at a latched EOF, or OutOfMemory exactly when
   max_buffer_size <= buffered, or goes on with all buffered bytes kept, the
   cursor at 0, fewer than max bytes buffered and — when base_capacity >= 1 —
   room for at least one more byte (so a 0 answer is the stream's own EOF) *)
Theorem C12_limits_reported : forall h,
  bwf (rb h) /\ vcap (bvec (rb h)) <= Nat.max (rbase h) (rmax h + rbase h - 1) ->
  exists b', snd (rd_fill_prepare h) = set_rb h b' /\ bwf b' /\
    vcap (bvec b') <= Nat.max (rbase h) (rmax h + rbase h - 1) /\
    buf_pending b' = buf_pending (rb h) /\
    match fst (rd_fill_prepare h) with
    | None => reof h = false /\ bbegin b' = 0 /\ vlen (bvec b') < rmax h /\
              (1 <= rbase h -> vlen (bvec b') < vcap (bvec b'))
    | Some o => (o = OOk 0 /\ reof h = true) \/
                (o = OErr E_OUT_OF_MEMORY /\ reof h = false /\ rmax h <= length (buf_pending (rb h)))
    end.
Proof. exact rd_fill_prepare_spec. Qed.
Print Assumptions C12_limits_reported.

(* C12_wakers: in every program, at every wake step (= the moment the inner
   stream can make progress) the set of wakers the blocked inner operation was
   last polled with contains, entry point by entry point, the waker of every
   task whose latest poll returned Pending: nobody is stranded.
   [wakes_ok ops outs ghost0] replays the program on a ghost table
   (entry point -> waker of the task waiting there: set on Pending, cleared on
   Ready through the same entry point — other entry points stay registered —
   and at the wake) and demands [covers waiting woken] at each wake. *)
Theorem C12_wakers : forall fuel base mx rs src ws ops outs s',
  run (poll_step_fuel fuel) ops (st_new base mx rs src ws) = Ok (outs, s') ->
  wakes_ok ops outs ghost0.
Proof. exact wakers_from_start. Qed.
Print Assumptions C12_wakers.

(* the step behind it: Pending through entry point e with waker w leaves an inner
   operation blocked whose registered set is the current slots with slot e = w;
   any other return leaves nothing blocked; a blocked half answers Pending *)
Theorem C12_wakers_write_entry : forall fuel w h data r h',
  winv h -> poll_write_fuel fuel w h data = Ok (r, h') ->
  length (wslots h') = length (wslots h) /\
  (forall e', e' <> E_WRITE -> slot e' (wslots h') = slot e' (wslots h)) /\
  (r = PRPending ->
     (wfut h' = FBlocked \/ sfut h' = FBlocked) /\ wreg h' = wslots h' /\
     (E_WRITE < length (wslots h) -> slot E_WRITE (wslots h') = Some w)) /\
  (r <> PRPending -> ~ (wfut h' = FBlocked \/ sfut h' = FBlocked)) /\
  ((wfut h = FBlocked \/ sfut h = FBlocked) -> r = PRPending).
Proof. exact poll_write_wakers. Qed.
Print Assumptions C12_wakers_write_entry.

(* C12_progress: one poll_read / poll_fill_buf call makes at most two loop
   iterations (one inner poll) whatever the configuration; poll_write at most
   two under max_buffer_size >= 1; none of them depends on the budget *)
Theorem C12_progress_read : forall f e w h n,
  rinv h -> (rfut h <> FNone -> bbegin (rb h) = 0) ->
  poll_read_fuel (S (S f)) e w h n = poll_read_fuel 2 e w h n /\
  exists r h', poll_read_fuel 2 e w h n = Ok (r, h').
Proof. exact poll_read_progress. Qed.
Print Assumptions C12_progress_read.

Theorem C12_progress_fill_buf : forall f w h,
  rinv h -> (rfut h <> FNone -> bbegin (rb h) = 0) ->
  poll_fill_buf_fuel (S (S f)) w h = poll_fill_buf_fuel 2 w h /\
  exists r h', poll_fill_buf_fuel 2 w h = Ok (r, h').
Proof. exact poll_fill_buf_progress. Qed.
Print Assumptions C12_progress_fill_buf.

Theorem C12_progress_write : forall f w h data,
  winv h -> 1 <= wmax h ->
  poll_write_fuel (S (S f)) w h data = poll_write_fuel 2 w h data /\
  exists r h', poll_write_fuel 2 w h data = Ok (r, h').
Proof. exact poll_write_progress. Qed.
Print Assumptions C12_progress_write.

(* ... and one run of the flush loop makes at most max(1, pending bytes) inner
   write calls (each but the last moves at least one byte) *)
Theorem C12_progress_flush_calls : forall ws b log total o b' log' ws',
  bwf b ->
  wr_flush_loop true ws b log total = Ok (o, b', log', ws') ->
  length ws <= length ws' + Nat.max 1 (length (buf_pending b)).
Proof. exact wr_flush_loop_calls. Qed.
Print Assumptions C12_progress_flush_calls.

(* no panic: a program over the poll adapter can only fail by the caller's
   misuse of consume (beyond the window: assert; while a read is in flight:
   MISSING_BUF) or by the poll_write spin of max_buffer_size = 0; a program over
   the blocking adapter only by consume beyond the window *)
Theorem C12_no_panic_poll : forall f base mx rs src ws ops c,
  run (poll_step_fuel (S (S f))) ops (st_new base mx rs src ws) = Panic c ->
  (c = P_HANG /\ mx = 0) \/ c = P_ASSERT \/ c = P_OTHER.
Proof. exact poll_run_panic. Qed.
Print Assumptions C12_no_panic_poll.

Theorem C12_no_panic_poll_step : forall f op s c,
  sinv s -> poll_step_fuel (S (S f)) op s = Panic c ->
  match op with
  | PConsume n =>
      (rfut (rh s) <> FNone /\ c = P_OTHER) \/
      (rfut (rh s) = FNone /\ length (buf_pending (rb (rh s))) < n /\ c = P_ASSERT)
  | PWrite _ _ => c = P_HANG /\ wmax (wh s) = 0
  | _ => False
  end.
Proof. exact poll_step_panic. Qed.
Print Assumptions C12_no_panic_poll_step.

Theorem C12_no_panic_sync_step : forall op s c,
  sync_inv s -> sync_step op s = Panic c ->
  exists n, op = SConsume n /\ length (buf_pending (rb (rh s))) < n /\ c = P_ASSERT.
Proof. exact sync_step_panic. Qed.
Print Assumptions C12_no_panic_sync_step.

(* the invariants used above hold initially and are kept by every step *)
Theorem C12_invariant : forall base mx rs src ws,
  sinv (st_new base mx rs src ws) /\ sync_inv (st_new base mx rs src ws) /\
  (forall fuel op s o s', sinv s -> poll_step_fuel fuel op s = Ok (o, s') -> sinv s') /\
  (forall op s o s', sync_inv s -> sync_step op s = Ok (o, s') -> sync_inv s').
Proof. exact invariants_kept. Qed.
Print Assumptions C12_invariant.

(* ---------------------------------------------------------------------- *)
(* non-vacuity: concrete non-trivial runs meeting the hypotheses            *)

(* poll adapter: a read that pends, a second task through poll_fill_buf, the
   wake (both wakers 1 and 2 are woken), data arrives in two chunks *)
Example C12_nonvacuous_poll :
  exists s',
    run poll_step
      [PRead E_READ 1 3; PFillBuf 2; PWakeR; PRead E_READ 1 3; PFillBuf 2; PConsume 1;
       PWrite 0 [7;8;9]%N; PFlush 3; PWakeW; PFlush 3]
      (st_new 4 8 [CPending; CA (AChunk 5)] [1;2;3;4;5;6]%N [CA (AChunk 2); CPending; CA (AChunk 9)])
    = Ok ([ORd PRPending; OWin PRPending; OWoken [Some 1; None; Some 2];
           ORd (PRBytes [1;2;3]%N); OWin (PRBytes [4]%N); OConsumed [4]%N;
           OWr [7;8;9]%N (PRCount 3); OCtl PRPending; OWoken [None; Some 3; None];
           OCtl (PRCount 0)], s') /\
    rsrc (rh s') = [5;6]%N /\ sink_bytes (wlog (wh s')) = [7;8;9]%N.
Proof. vm_compute. eexists. repeat split; reflexivity. Qed.
Print Assumptions C12_nonvacuous_poll.

(* blocking adapter: a failed flush_write_buf keeps the unsent tail, the retry sends it *)
Example C12_nonvacuous_sync_retry :
  exists s',
    run sync_step [SWrite [1;2;3;4;5]%N; SFlushWrite; SFlushWrite]
      (st_new 8 16 [] [] [CA (AChunk 2); CA (AErr 5); CA (AChunk 9)])
    = Ok ([OWr [1;2;3;4;5]%N (PRCount 5); OFlushed (OErr 5); OFlushed (OOk 3)], s') /\
    wlog (wh s') = [WBytes [1;2]%N; WBytes [3;4;5]%N; WFlush].
Proof. vm_compute. eexists. split; reflexivity. Qed.
Print Assumptions C12_nonvacuous_sync_retry.

Example C12_nonvacuous_invariants :
  sinv (st_new 4 8 [CPending] [1;2]%N []) /\ winv (wh_new 4 8 []) /\ 1 <= wmax (wh_new 4 8 []).
Proof. split; [apply st_new_inv|]. split; [apply wh_new_inv|]. cbn. lia. Qed.
Print Assumptions C12_nonvacuous_invariants.

(* ---------------------------------------------------------------------- *)
(* Known findings (D13): the guarded-out configurations really fail         *)

(* max_buffer_size = 0: poll_write of a non-empty buffer against an inner writer
   whose flush() succeeds never returns — it outlasts EVERY budget *)
Theorem C12_known_max0_poll_write_spin_refuted : forall fuel,
  poll_write_fuel fuel 0 (wh_new 4 0 []) [1%N] = Panic P_HANG.
Proof. exact poll_write_max0_never_returns. Qed.
Print Assumptions C12_known_max0_poll_write_spin_refuted.

(* base_capacity = 0: fill_read_buf reads into a zero-capacity slice, gets 0
   and latches end-of-file although the stream has 3 bytes and never said EOF *)
Example C12_known_base0_false_eof_refuted :
  exists s',
    run sync_step [SFillRead; SRead 4] (st_new 0 10 [CA (AChunk 100)] [1;2;3]%N [])
    = Ok ([OFill (OOk 0); ORd (PRBytes [])], s') /\
    reof (rh s') = true /\ rsrc (rh s') = [1;2;3]%N.
Proof. vm_compute. eexists. repeat split; reflexivity. Qed.
Print Assumptions C12_known_base0_false_eof_refuted.

(* the literal limit "read buffer <= max_buffer_size" is false: base 8, limit 10,
   16 bytes buffered (the bound of C12_fifo_* is 17); the third fill reports
   OutOfMemory and loses nothing *)
Example C12_known_read_limit_overshoot_refuted :
  exists s',
    run sync_step [SFillRead; SFillRead; SFillRead]
      (st_new 8 10 [CA (AChunk 100); CA (AChunk 100); CA (AChunk 100)] (repeat 7%N 30) [])
    = Ok ([OFill (OOk 8); OFill (OOk 8); OFill (OErr E_OUT_OF_MEMORY)], s') /\
    length (buf_pending (rb (rh s'))) = 16 /\ length (rsrc (rh s')) = 14.
Proof. vm_compute. eexists. repeat split; reflexivity. Qed.
Print Assumptions C12_known_read_limit_overshoot_refuted.

(* ---- source tie (translated from the Rust source on every run by tools/rs2v.py
        into gen/Frag.v; an edit of the function changes the generated definition) ---- *)
(* Buffer::need_flush (compio-io/src/buffer.rs) as the source has it now is the
   threshold at which the adapters' write buffer reports WouldBlock / flushes *)
Theorem C12_need_flush_is_source : forall b,
  buf_need_flush b = Frag.buffer_need_flush (vcap (bvec b)) (vlen (bvec b)).
Proof. exact FragIoThm.need_flush_tie. Qed.
Print Assumptions C12_need_flush_is_source.

(* SyncWriteBuf::write (compio-io/src/compat/sync_stream.rs): the accept rule as the source has
   it now (how many bytes are appended, or WouldBlock when the buffer is at its limit; the
   subtraction checked as in a debug build) decides the model's write, for every adapter state
   that gets past the two early returns and every data *)
Theorem C12_write_accept_is_source : forall h data,
  wtaken h = false ->
  (buf_need_flush (wb h) && negb (Nat.eqb (vlen (bvec (wb h))) 0)) = false ->
  wr_write h data =
    let b := wb h in
    let! a := Frag.sync_write_accept (vlen (bvec b) - bbegin b) (length data) (wmax h) in
    match a with
    | None => Ok (OErr E_WOULD_BLOCK, h)
    | Some k => Ok (OOk k, set_wb h (mkbuf (vextend (bvec b) (firstn k data)) (bbegin b)))
    end.
Proof. exact FragCompatThm.wr_write_tie. Qed.
Print Assumptions C12_write_accept_is_source.

(* SyncReadBuf::fill_read_buf: the limit test as the source has it now is the model's *)
Theorem C12_read_limit_is_source : forall h,
  reof h = false ->
  let b := buf_compact_to (rb h) (rbase h) (rmax h) in
  (Frag.sync_read_limit_hit (vlen (bvec b)) (rmax h) = true ->
     rd_fill_prepare h = (Some (OErr E_OUT_OF_MEMORY), set_rb h b))
  /\ (Frag.sync_read_limit_hit (vlen (bvec b)) (rmax h) = false ->
     fst (rd_fill_prepare h) = None).
Proof. exact FragCompatThm.rd_limit_tie. Qed.
Print Assumptions C12_read_limit_is_source.
