(* C09 — timers never fire early and always fire.
   Statements only: each theorem is closed by [exact lemma] and followed by
   Print Assumptions.  The lemmas live in thm/TimerThm.v, the model in
   model/Timer.v (tied to compio-runtime by the correspondence check c09).

   Vocabulary: a wheel is the generation counter plus the ordered map
   (deadline, generation) -> registered waker; [wf] is what every wheel built
   by the operations satisfies (C09_reachable_wf): strictly sorted by key, every
   generation below the counter, the counter at most u64::MAX.  [run w ops] runs
   ANY program of wheel operations with ANY clock values; a key is [k], its
   deadline [kdl k].  No theorem assumes the clock to be monotone.             *)
From Compio.Model Require Import Base Timer.
From Compio.Thm Require Import TimerThm.
From Compio.Gen Require Frag.
From Compio.Thm Require FragMiscThm.

Local Open Scope Z_scope.

(* every wheel a runtime can ever hold is well-formed *)
Theorem C09_reachable_wf : forall ops outs w',
  run wheel_new ops = Ok (outs, w') -> wf w'.
Proof. intros ops outs w'. apply run_wf. exact wf_new. Qed.
Print Assumptions C09_reachable_wf.

(* NEVER EARLY.  A timer that is in the wheel and is later reported complete
   (poll_timer answers Ready) was cancelled by its owner, or some wake() read a
   clock value at or after its deadline — whatever else the program did. *)
Theorem C09_never_early : forall ops w outs w' k wk,
  wf w -> In k (keys_of (wmap w)) -> run w ops = Ok (outs, w') ->
  fst (poll_timer k wk w') = true ->
  In (OCancel k) ops \/ exists now, In (OWake now) ops /\ kdl k <= now.
Proof. exact never_early. Qed.
Print Assumptions C09_never_early.

(* ... and a Sleep that is Ready without ever entering the wheel was created at
   or after its deadline (and left the wheel untouched) *)
Theorem C09_never_early_at_creation : forall now d w w',
  sleep_new now d w = Ok (None, w') -> d <= now /\ w' = w.
Proof. exact never_early_at_creation. Qed.
Print Assumptions C09_never_early_at_creation.

(* ALWAYS FIRES.  Take a pending timer k (entry (k, s0)), run any program that
   neither cancels k nor wakes at/after its deadline (other timers may be
   created, re-registered, cancelled, expire); then one wake() reading a clock
   value >= the deadline completes k and invokes the waker k registered last
   ([last_reg]) exactly once, at k's place in deadline order among the wakers of
   the other due timers. *)
Theorem C09_always_fires : forall ops w outs w1 k s0 now ws w2,
  wf w -> In (k, s0) (wmap w) ->
  run w ops = Ok (outs, w1) ->
  ~ In (OCancel k) ops ->
  (forall now', In (OWake now') ops -> now' < kdl k) ->
  kdl k <= now ->
  wake now w1 = (ws, w2) ->
  is_completed k w2 = true /\
  exists l1 l2,
    filter (due now) (wmap w1) = l1 ++ (k, last_reg k s0 ops) :: l2 /\
    ~ In k (keys_of l1) /\ ~ In k (keys_of l2) /\
    ws = wakers_of l1 ++ opt_list (last_reg k s0 ops) ++ wakers_of l2.
Proof. exact always_fires. Qed.
Print Assumptions C09_always_fires.

(* once complete, complete for good: no later insert hands the key out again *)
Theorem C09_completed_for_good : forall ops w outs w' k,
  wf w -> (kgen k < wgen w)%N -> is_completed k w = true ->
  run w ops = Ok (outs, w') -> is_completed k w' = true.
Proof. exact completed_for_good. Qed.
Print Assumptions C09_completed_for_good.

(* NO STRANDING.  Keys are unique (a new timer's key is not in the wheel even
   when its deadline equals an existing one), and wake() removes exactly the
   entries with deadline <= now — the others stay, in order, with their wakers —
   and invokes exactly the wakers of the removed ones, in key order. *)
Theorem C09_no_stranding : forall w now ws w',
  wf w -> wake now w = (ws, w') ->
  NoDup (keys_of (wmap w)) /\
  wmap w' = filter (not_due now) (wmap w) /\
  ws = wakers_of (filter (due now) (wmap w)) /\
  wgen w' = wgen w /\ wf w'.
Proof. exact wake_exact. Qed.
Print Assumptions C09_no_stranding.

Theorem C09_no_stranding_unique_keys : forall w now d k w',
  wf w -> insert now d w = Ok (Some k, w') ->
  now < d /\ kdl k = d /\ ~ In k (keys_of (wmap w)) /\ wf w' /\
  (forall e, In e (wmap w') <-> e = (k, None) \/ In e (wmap w)).
Proof. exact insert_unique. Qed.
Print Assumptions C09_no_stranding_unique_keys.

(* SLEEP BOUND.  min_timeout is None exactly for the empty wheel, otherwise
   max 0 (nearest deadline - now). *)
Theorem C09_sleep_bound : forall w now,
  wf w ->
  (min_timeout now w = None <-> wmap w = []) /\
  (forall t, min_timeout now w = Some t ->
     0 <= t /\
     exists k, In k (keys_of (wmap w)) /\ t = Z.max 0 (kdl k - now) /\
               forall k', In k' (keys_of (wmap w)) -> kdl k <= kdl k').
Proof. exact sleep_bound. Qed.
Print Assumptions C09_sleep_bound.

(* the block_on loop fragment poll_with(min_timeout(now1)); wake(now2): when the
   driver has slept the whole timeout, every timer with the nearest deadline is
   complete on return *)
Theorem C09_sleep_bound_loop : forall w now1 now2 mt ws w',
  wf w -> rt_poll now1 now2 w = (mt, ws, w') ->
  mt = min_timeout now1 w /\ wake now2 w = (ws, w') /\
  (forall t, mt = Some t -> now1 + t <= now2 ->
     forall k, In k (keys_of (wmap w)) ->
       (forall k', In k' (keys_of (wmap w)) -> kdl k <= kdl k') ->
       is_completed k w' = true).
Proof. exact idle_loop. Qed.
Print Assumptions C09_sleep_bound_loop.

(* DROP CLEAN.  Create a timer, run any program (its owner may register wakers
   and poll, it may fire, it may be cancelled early), then drop it: the wheel is
   the wheel of the same program with every operation naming the timer erased,
   started from the wheel the timer never entered ([bump]: only the generation
   counter moved). *)
Theorem C09_drop_clean : forall w now d k w1 ops outs w2,
  wf w -> insert now d w = Ok (Some k, w1) -> run w1 ops = Ok (outs, w2) ->
  exists outs', run (bump w) (erase k ops) = Ok (outs', cancel k w2).
Proof. exact drop_clean. Qed.
Print Assumptions C09_drop_clean.

(* TIMEOUT.  Whatever the rest of the runtime does to the wheel (except
   cancelling the Timeout's own private timer), the result is the wheel-free
   [timeout_spec]: at every poll the inner future's answer is looked at first;
   Elapsed only at a poll after a wake reached the deadline (or the deadline had
   passed at creation); and when it resolves, its timer is gone. *)
Theorem C09_timeout : forall w now d s w1 evs res w2,
  wf w -> sleep_new now d w = Ok (s, w1) ->
  (forall k, s = Some k -> ~ In (TOp (OCancel k)) evs) ->
  timeout_drive s w1 evs = Ok (res, w2) ->
  res = timeout_spec (d <=? now) d evs /\
  (res <> TPending -> forall k, s = Some k -> is_completed k w2 = true).
Proof. exact timeout_correct. Qed.
Print Assumptions C09_timeout.

(* ... which is Ok exactly when some poll found the inner future ready, no
   earlier poll did, and every earlier poll happened before the deadline was
   reached *)
Theorem C09_timeout_ok_iff : forall evs expired d,
  timeout_spec expired d evs = TOk <->
  exists pre wk post,
    evs = pre ++ TPoll true wk :: post /\
    (forall b wk', In (TPoll b wk') pre -> b = false) /\
    (forall p1 wk' p2, pre = p1 ++ TPoll false wk' :: p2 ->
       expired = false /\ forall now, In (TOp (OWake now)) p1 -> now < d).
Proof. exact timeout_spec_ok_iff. Qed.
Print Assumptions C09_timeout_ok_iff.

(* INTERVAL.  For a non-zero period that is a Duration (below 2^64 s), a tick
   requested at or after start sleeps until start + k*period, k >= 1, strictly
   after now and at most one period away; the first tick sleeps until start. *)
Theorem C09_interval_aligned : forall start period now,
  0 < period < DUR_LIMIT -> start <= now ->
  exists k, 0 < k /\ interval_next start period now = start + k * period /\
            now < interval_next start period now <= now + period.
Proof. exact interval_aligned. Qed.
Print Assumptions C09_interval_aligned.

Theorem C09_interval_tick : forall iv now,
  0 < iperiod iv < DUR_LIMIT ->
  (first_ticked iv = true -> istart iv <= now) ->
  exists k, 0 <= k /\ tick_deadline iv now = istart iv + k * iperiod iv /\
            (first_ticked iv = true ->
             now < tick_deadline iv now <= now + iperiod iv).
Proof. exact tick_aligned. Qed.
Print Assumptions C09_interval_tick.

(* WAKE AFTER EVERY POLL.  One turn of the block_on loop — poll_with(Some(ZERO))
   when tasks remain, poll() otherwise — wakes the wheel with the clock value
   read after the driver returned, whatever the driver answered (a completion,
   TimedOut, Interrupted); the answer and the branch only choose the timeout
   handed to the driver. *)
Theorem C09_wake_after_every_poll : forall rem ans now1 now2 w,
  ans <> DError ->
  loop_iter rem ans now1 now2 w =
    Ok (if rem then Some 0 else min_timeout now1 w, fst (wake now2 w), snd (wake now2 w)) /\
  poll_with ans now2 w = Ok (wake now2 w).
Proof. exact wake_after_every_poll. Qed.
Print Assumptions C09_wake_after_every_poll.

(* so a loop of any length is, for the wheel, the program of its wakes ... *)
Theorem C09_loop_is_its_wakes : forall ts w wss w',
  loop_run w ts = Ok (wss, w') ->
  run w (turn_ops ts) = Ok (map UWoken wss, w').
Proof. exact loop_run_as_ops. Qed.
Print Assumptions C09_loop_is_its_wakes.

(* ... and ALWAYS FIRES does not depend on the driver's answers: after any
   number of turns before the deadline — every one of which may have found an
   I/O completion, so that the driver never reports TimedOut — the first turn
   whose clock value has reached the deadline completes the timer and invokes
   its waker exactly once. *)
Theorem C09_always_fires_any_driver_answer : forall ts w wss w1 k s0 rem ans n1 n2,
  wf w -> In (k, s0) (wmap w) ->
  loop_run w ts = Ok (wss, w1) ->
  (forall t, In t ts -> snd t < kdl k) ->
  ans <> DError -> kdl k <= n2 ->
  exists t ws w2,
    loop_iter rem ans n1 n2 w1 = Ok (t, ws, w2) /\
    is_completed k w2 = true /\
    exists l1 l2,
      filter (due n2) (wmap w1) = l1 ++ (k, s0) :: l2 /\
      ~ In k (keys_of l1) /\ ~ In k (keys_of l2) /\
      ws = wakers_of l1 ++ opt_list s0 ++ wakers_of l2.
Proof. exact always_fires_any_answer. Qed.
Print Assumptions C09_always_fires_any_driver_answer.

(* INTERVAL, FIRST TICK CANCELLED.  [iv_run] lists the instants the successive
   tick() calls sleep until; a call may be dropped while its sleep is pending
   (completed = false), which leaves the "first tick delivered" flag alone.
   [clocked]: once a tick has completed the clock has reached start (never-early).
   Then every call sleeps until start + k*period, and every call up to and
   including the first one that completes sleeps until start itself — however
   many first ticks were cancelled before. *)
Theorem C09_interval_first_tick_cancel_safe : forall iv evs,
  0 < iperiod iv < DUR_LIMIT -> first_ticked iv = false ->
  clocked false (istart iv) evs ->
  Forall (fun d => exists k, 0 <= k /\ d = istart iv + k * iperiod iv) (iv_run iv evs) /\
  (forall pre now c post,
     evs = pre ++ IvTick now c :: post ->
     (forall e, In e pre -> iv_completed e = false) ->
     firstn (S (length pre)) (iv_run iv evs) = repeat (istart iv) (S (length pre))).
Proof. exact interval_first_tick_cancel_safe. Qed.
Print Assumptions C09_interval_first_tick_cancel_safe.

(* AFTER ANY POLL OUTCOME EVERY EXPIRED TIMER HAS BEEN WOKEN.  poll_with = the
   driver poll (any outcome: completions found, TimedOut, Interrupted) followed
   by the wake of the wheel: when it returns, every timer whose deadline the
   clock has reached is complete and its registered waker has been invoked; the
   wheel holds only timers that are not yet due, and all of those. *)
Theorem C09_poll_wakes_all_expired : forall ans now w,
  wf w -> ans <> DError ->
  exists ws w',
    poll_with ans now w = Ok (ws, w') /\ wf w' /\
    (forall k s, In (k, s) (wmap w) -> kdl k <= now ->
       is_completed k w' = true /\ forall wk, s = Some wk -> In wk ws) /\
    (forall k, In k (keys_of (wmap w')) -> now < kdl k) /\
    (forall e, In e (wmap w) -> now < kdl (fst e) -> In e (wmap w')).
Proof. exact poll_wakes_all_expired. Qed.
Print Assumptions C09_poll_wakes_all_expired.

(* "wake the wheel only when the driver timed out" is REFUTED: under that
   counter-model (poll_with_timeout_only, not the code) a run in which every
   poll finds a completion — other tasks keep the driver busy — never wakes
   anything, however long it lasts and however far the clock is past the
   deadline; the timer (50,0) of ex_wheel stays pending with its waker never
   invoked, while the real poll_with completes it at the first poll. *)
Lemma C09_wake_only_on_timeout_refuted :
  wf (mkwheel 3 [(mkkey 50 0, Some 7%N); (mkkey 50 1, Some 8%N); (mkkey 90 2, Some 9%N)]) /\
  (forall ts w,
     (forall t, In t ts -> fst t = DOk \/ fst t = DInterrupted) ->
     timeout_only_run w ts = Ok (map (fun _ => []) ts, w)) /\
  (let w := mkwheel 3 [(mkkey 50 0, Some 7%N); (mkkey 50 1, Some 8%N); (mkkey 90 2, Some 9%N)] in
   exists wss w',
     timeout_only_run w [(DOk, 60); (DOk, 70); (DInterrupted, 80); (DOk, 1000000)] = Ok (wss, w') /\
     concat wss = [] /\ is_completed (mkkey 50 0) w' = false /\
     poll_with DOk 60 w = Ok ([7%N; 8%N], mkwheel 3 [(mkkey 90 2, Some 9%N)])).
Proof.
  split; [|split].
  - pose proof C09_reachable_wf as R.
    assert (E : exists outs, run wheel_new
      [OInsert 0 50; OInsert 0 50; OInsert 0 90;
       OSetWaker (mkkey 50 0) 7%N; OPoll (mkkey 50 1) 8%N; OSetWaker (mkkey 90 2) 9%N]
      = Ok (outs, mkwheel 3 [(mkkey 50 0, Some 7%N); (mkkey 50 1, Some 8%N); (mkkey 90 2, Some 9%N)])).
    { vm_compute. eexists. reflexivity. }
    destruct E as [outs E]. eapply R. exact E.
  - exact timeout_only_stuck.
  - vm_compute. eexists _, _. repeat split.
Qed.
Print Assumptions C09_wake_only_on_timeout_refuted.

(* ---------------------------------------------------------------------- *)
(* non-vacuity: concrete non-trivial states meeting the hypotheses          *)

(* three timers, two with EQUAL deadlines, built by the operations themselves *)
Definition ex_prog : list op :=
  [OInsert 0 50; OInsert 0 50; OInsert 0 90;
   OSetWaker (mkkey 50 0) 7%N; OPoll (mkkey 50 1) 8%N; OSetWaker (mkkey 90 2) 9%N].
Definition ex_wheel : wheel :=
  mkwheel 3 [(mkkey 50 0, Some 7%N); (mkkey 50 1, Some 8%N); (mkkey 90 2, Some 9%N)].

Example C09_nonvacuous_wheel :
  (exists outs, run wheel_new ex_prog = Ok (outs, ex_wheel)) /\ wf ex_wheel.
Proof.
  assert (R : exists outs, run wheel_new ex_prog = Ok (outs, ex_wheel)).
  { vm_compute. eexists. reflexivity. }
  split; [exact R|]. destruct R as [outs R]. eapply C09_reachable_wf. exact R.
Qed.
Print Assumptions C09_nonvacuous_wheel.

(* never_early: the hypotheses hold for the second timer after a program that
   creates and cancels another one and wakes at its deadline; the conclusion's
   wake is the one at 50 *)
Example C09_nonvacuous_never_early :
  In (mkkey 50 1) (keys_of (wmap ex_wheel)) /\
  exists outs w',
    run ex_wheel [OInsert 10 20; OCancel (mkkey 20 3); OWake 49; OWake 50] = Ok (outs, w') /\
    fst (poll_timer (mkkey 50 1) 8%N w') = true /\
    wmap w' = [(mkkey 90 2, Some 9%N)].
Proof. vm_compute. split; [auto|]. eexists _, _. repeat split. Qed.
Print Assumptions C09_nonvacuous_never_early.

(* always_fires: timer (50,1) re-registers waker 4, others are created/cancelled
   around it, an early wake runs; the wake at 60 invokes 7 (equal deadline,
   older), then 4 — once — and not 9 *)
Example C09_nonvacuous_always_fires :
  In (mkkey 50 1, Some 8%N) (wmap ex_wheel) /\
  exists outs w1,
    run ex_wheel [OPoll (mkkey 50 1) 4%N; OInsert 10 70; OCancel (mkkey 70 3); OWake 49]
      = Ok (outs, w1) /\
    last_reg (mkkey 50 1) (Some 8%N)
      [OPoll (mkkey 50 1) 4%N; OInsert 10 70; OCancel (mkkey 70 3); OWake 49] = Some 4%N /\
    wake 60 w1 = ([7%N; 4%N], mkwheel 4 [(mkkey 90 2, Some 9%N)]).
Proof. vm_compute. split; [auto|]. eexists _, _. repeat split. Qed.
Print Assumptions C09_nonvacuous_always_fires.

Example C09_nonvacuous_sleep_bound :
  min_timeout 20 ex_wheel = Some 30 /\ min_timeout 60 ex_wheel = Some 0 /\
  min_timeout 0 wheel_new = None /\
  rt_poll 20 50 ex_wheel = (Some 30, [7%N; 8%N], mkwheel 3 [(mkkey 90 2, Some 9%N)]).
Proof. vm_compute. repeat split. Qed.
Print Assumptions C09_nonvacuous_sleep_bound.

Example C09_nonvacuous_drop_clean :
  exists k w1 outs w2,
    insert 5 50 ex_wheel = Ok (Some k, w1) /\
    run w1 [OPoll k 1%N; OInsert 6 40; OWake 45; OCancel k] = Ok (outs, w2) /\
    erase k [OPoll k 1%N; OInsert 6 40; OWake 45; OCancel k] = [OInsert 6 40; OWake 45] /\
    cancel k w2 = w2 /\ wmap w2 = wmap ex_wheel /\ wgen w2 = 5%N.
Proof. vm_compute. eexists _, _, _, _. repeat split. Qed.
Print Assumptions C09_nonvacuous_drop_clean.

(* timeout: the inner future becomes ready after the deadline passed but is
   looked at first, at the first poll after expiry: Ok; one poll later: Elapsed *)
Example C09_nonvacuous_timeout :
  exists s w1,
    sleep_new 0 30 ex_wheel = Ok (s, w1) /\
    (exists w2, timeout_drive s w1 [TPoll false 1%N; TOp (OWake 30); TPoll true 1%N] = Ok (TOk, w2)
                /\ wmap w2 = wmap ex_wheel) /\
    (exists w2, timeout_drive s w1 [TPoll false 1%N; TOp (OWake 30); TPoll false 1%N; TPoll true 1%N]
                = Ok (TElapsed, w2)) /\
    (exists w2, timeout_drive s w1 [TPoll false 1%N; TOp (OWake 29)] = Ok (TPending, w2)).
Proof. vm_compute. eexists _, _. repeat split; eexists; repeat split. Qed.
Print Assumptions C09_nonvacuous_timeout.

Example C09_nonvacuous_interval :
  0 < 250 < DUR_LIMIT /\ interval_next 1000 250 1620 = 1750 /\
  interval_next 1000 250 1750 = 2000 /\
  tick_deadline (mkinterval false 1000 250) 7 = 1000.
Proof. vm_compute. repeat split. Qed.
Print Assumptions C09_nonvacuous_interval.

(* the finding fixed by /repo dc58aef: with the former `as u64` cast of the
   remainder (Duration::from_nanos) a period above 2^64 ns and a start that far
   in the past gave a tick that is not start + k * period *)
Example C09_fixed_interval_cast_witness :
  let period := 18600000000 * NANOS_PER_SEC in
  let now := 37199999900 * NANOS_PER_SEC in
  let old_next := now + period - ((Z.max 0 (now - 0) mod period) mod TWO64) in
  old_next mod period <> 0 /\ interval_next 0 period now mod period = 0.
Proof. vm_compute. split; [discriminate|reflexivity]. Qed.
Print Assumptions C09_fixed_interval_cast_witness.

(* busy loop: three turns that all find a completion (DOk, tasks remaining, so
   the driver is polled with a zero timeout and never reports TimedOut) pass
   before the deadline 50; the next one, at 50, fires both timers of that
   deadline *)
Example C09_nonvacuous_busy_loop :
  exists wss w1,
    loop_run ex_wheel [(true, DOk, 10, 11); (true, DOk, 20, 21); (true, DInterrupted, 30, 49)]
      = Ok (wss, w1) /\ w1 = ex_wheel /\
    loop_iter true DOk 49 50 w1 = Ok (Some 0, [7%N; 8%N], mkwheel 3 [(mkkey 90 2, Some 9%N)]) /\
    loop_iter false DTimedOut 49 50 w1 = Ok (Some 1, [7%N; 8%N], mkwheel 3 [(mkkey 90 2, Some 9%N)]).
Proof. vm_compute. eexists _, _. repeat split. Qed.
Print Assumptions C09_nonvacuous_busy_loop.

(* two first ticks cancelled before start = 1000 (clock 10, 400), then ticks
   awaited: 1000, 1250, 1500 *)
Example C09_nonvacuous_first_tick_cancel :
  clocked false 1000
    [IvTick 10 false; IvTick 400 false; IvTick 700 true; IvTick 1003 true; IvTick 1260 true] /\
  iv_run (mkinterval false 1000 250)
    [IvTick 10 false; IvTick 400 false; IvTick 700 true; IvTick 1003 true; IvTick 1260 true]
  = [1000; 1000; 1000; 1250; 1500].
Proof. vm_compute. repeat split; intros; try discriminate; try lia. Qed.
Print Assumptions C09_nonvacuous_first_tick_cancel.

(* why the flag may only be set when the first sleep is over: set earlier, a
   cancelled first tick would make the next one sleep until now + period *)
Example C09_interval_flag_order_matters :
  tick_deadline (tick_done (mkinterval false 1000 250)) 400 = 650 /\
  tick_deadline (mkinterval false 1000 250) 400 = 1000.
Proof. vm_compute. split; reflexivity. Qed.
Print Assumptions C09_interval_flag_order_matters.

(* ---- source tie (translated from the Rust source on every run by tools/rs2v.py
        into gen/Frag.v; an edit of the function changes the generated definition) ---- *)
(* the two arithmetic lines of Interval::tick (compio-runtime/src/time/future.rs: `rem` and
   `next`, Instants and Durations read as nanosecond counts, `Instant - Instant` saturating,
   the `as u64` / `as u32` casts explicit) as the source has them now compute the model's
   interval_next, for every start, every period that is a Duration and every clock value *)
Theorem C09_interval_next_is_source : forall start period now : Z,
  (0 <= start)%Z -> (0 <= now)%Z -> (0 < period)%Z -> (period < DUR_LIMIT)%Z ->
  Z.of_N (Frag.interval_next (Z.to_N now) (Z.to_N period)
            (Frag.interval_rem (Z.to_N now) (Z.to_N start) (Z.to_N period)))
  = interval_next start period now.
Proof. exact FragMiscThm.interval_tie. Qed.
Print Assumptions C09_interval_next_is_source.
