(* C07 — placeholder while the proofs are being written *)
From Compio.Model Require Import Base Pool.
