(* C07 — managed buffer pool: exclusive ownership and conservation.
   Model: model/Pool.v (the io_uring buffer ring with the code's u16 tail /
   index arithmetic and the kernel's head & mask view, the fallback free queue,
   the slot table, completions, multishot guards, operations, user handles).
   Tie: every ownership history recorded on the real code by the POOL_BUF
   hooks must be a run of this LTS (model/RunC07.v, ./check C07).
   Statements only; proofs in thm/PoolThm.v.

   Quantifier of every theorem: both pool kinds (u), every requested pool size
   1 <= size <= 2^15 (nbuf = next_power_of_two(size)), every label sequence ls
   of any length from the freshly created pool. *)
From Compio.Model Require Import Base Pool RunC07.
From Compio.Thm Require Import PoolThm.
From Compio.Gen Require Frag.
From Compio.Thm Require FragMiscThm.
Local Open Scope nat_scope.

(* Each pool buffer has exactly one owner at any time; ids outside the pool
   have none; two live handles never carry the same id; a buffer a user holds
   is owned by that handle only; the buffer the kernel would write into next
   (the ring head) is owned by the ring only — so never by a handle, an
   operation or a queued completion. *)
Theorem C07_exclusive : forall (u : bool) (size : nat) (s0 : st) (ls : list label) (s : st),
  1 <= size -> (NN size <= 32768)%N ->
  pool_new u size = Ok s0 -> steps s0 ls = Some (Ok s) ->
  (forall id, id < nbuf s -> exists o, owners s id = [o]) /\
  (forall id, nbuf s <= id -> owners s id = []) /\
  (forall h1 h2 id, live_handle s h1 = Some id -> live_handle s h2 = Some id -> h1 = h2) /\
  (forall h id, live_handle s h = Some id -> owners s id = [OwHandle h]) /\
  (forall id, kernel_target s = Some id -> owners s id = [OwRing]).
Proof. exact c07_exclusive. Qed.
Print Assumptions C07_exclusive.

(* Conservation: the pool has nbuf = 2^e >= size buffers and
   |ring| + |selected| + |in transit| + |in ops| + |handles| + |freed| = nbuf in
   every reachable state; nothing is freed before Proactor::drop; when every
   holder has let go the ring holds all nbuf buffers (the pool never shrinks);
   after the release every buffer is either freed or still in a holder that
   will free it. *)
Theorem C07_conservation : forall (u : bool) (size : nat) (s0 : st) (ls : list label) (s : st),
  1 <= size -> (NN size <= 32768)%N ->
  pool_new u size = Ok s0 -> steps s0 ls = Some (Ok s) ->
  size <= nbuf s /\ (exists e : N, (e <= 15)%N /\ NN (nbuf s) = (2 ^ e)%N) /\
  length (ring_ids s) + n_selected s + n_transit s + n_inop s + n_handles s + length (freed s) = nbuf s /\
  (released s = false -> freed s = []) /\
  (released s = false -> quiet s = true ->
     length (ring_ids s) = nbuf s /\ forall id, id < nbuf s -> In id (ring_ids s)) /\
  (released s = true -> ring_ids s = [] /\ n_selected s = 0 /\
                        n_transit s + n_inop s + n_handles s + length (freed s) = nbuf s).
Proof. exact c07_conservation. Qed.
Print Assumptions C07_conservation.

(* Nothing blocks and nothing is lost for good: from every reachable state of a
   live pool there is a continuation (the kernel completes / cancels what it
   owns, the driver reaps, operations, streams and handles are dropped) after
   which no holder is left and the ring holds all nbuf buffers again. *)
Theorem C07_never_blocks : forall (u : bool) (size : nat) (s0 : st) (ls : list label) (s : st),
  1 <= size -> (NN size <= 32768)%N ->
  pool_new u size = Ok s0 -> steps s0 ls = Some (Ok s) -> released s = false ->
  exists ls' s', steps s ls' = Some (Ok s') /\ released s' = false /\ quiet s' = true /\
                 length (ring_ids s') = nbuf s /\ nbuf s' = nbuf s.
Proof. exact c07_never_blocks. Qed.
Print Assumptions C07_never_blocks.

(* Exhaustion is reported, never waited for.  io_uring: the kernel's u16 test
   tail == head holds exactly when no buffer is in the ring; then no completion
   can carry data, the only answer for an operation in flight is -ENOBUFS
   (ResourceBusy), and -ENOBUFS is never answered while a buffer is available. *)
Theorem C07_exhaustion_reported : forall (size : nat) (s0 : st) (ls : list label) (s : st),
  1 <= size -> (NN size <= 32768)%N ->
  pool_new true size = Ok s0 -> steps s0 ls = Some (Ok s) -> released s = false ->
  (ring_empty s = true <-> ring_ids s = []) /\
  (ring_ids s = [] -> forall k more r, step s (LKernel k true more r) = None) /\
  (ring_ids s = [] -> forall k o, nth_error (ops s) k = Some o -> o_inflight o = true -> o_kdone o = false ->
     exists s1, step s (LKernel k false false RNoBufs) = Some (Ok s1) /\
                cq s1 = cq s ++ [mk_cqe k None false RNoBufs]) /\
  (ring_ids s <> [] -> forall k more, step s (LKernel k false more RNoBufs) = None).
Proof. exact c07_exhaustion_uring. Qed.
Print Assumptions C07_exhaustion_reported.

(* ... and when the driver reaps that completion the operation ends with the
   ResourceBusy result *)
Theorem C07_exhaustion_result : forall (s : st) (k : nat) (o : opst) (rest : list cqe),
  released s = false -> cq s = mk_cqe k None false RNoBufs :: rest -> nth_error (ops s) k = Some o ->
  exists s', step s LCqe = Some (Ok s') /\ nbusy s' = S (nbusy s) /\
             exists o', nth_error (ops s') k = Some o' /\ o_res o' = Some RNoBufs.
Proof. exact exhaustion_result_thm. Qed.
Print Assumptions C07_exhaustion_result.

(* Fallback pool: BufferPool::pop on an empty free queue returns ResourceBusy at
   once and changes nothing else; on a non-empty queue it hands out the front. *)
Theorem C07_exhaustion_fallback : forall (s : st),
  uring s = false -> released s = false ->
  (queue s = [] -> step s LPop = Some (Ok (set_nbusy s (S (nbusy s))))) /\
  (forall id q, queue s = id :: q -> forall s', step s LPop = Some (Ok s') ->
     nbusy s' = nbusy s /\ pend s' = pend s ++ [id] /\ queue s' = q).
Proof. exact exhaustion_fallback_thm. Qed.
Print Assumptions C07_exhaustion_fallback.

(* The runtime-level multishot stream (SubmitMultiStream over SubmitMultiManaged)
   reports exhaustion to its consumer.  io_uring: with the ring empty, the
   stream's operation in flight and nothing unreaped, the kernel answers
   -ENOBUFS, the driver stores ResourceBusy as the operation's result, the
   managed stream turns that into an error item and the re-submission loop
   returns it from next() — also after any number n of earlier re-submissions. *)
Theorem C07_stream_reports_exhaustion : forall (size : nat) (s0 : st) (ls : list label) (s : st) (k : nat) (o : opst),
  1 <= size -> (NN size <= 32768)%N ->
  pool_new true size = Ok s0 -> steps s0 ls = Some (Ok s) -> released s = false ->
  ring_ids s = [] -> cq s = [] ->
  nth_error (ops s) k = Some o -> o_inflight o = true -> o_kdone o = false ->
  exists s', steps s [LKernel k false false RNoBufs; LCqe] = Some (Ok s') /\
    nbusy s' = S (nbusy s) /\
    (exists o', nth_error (ops s') k = Some o' /\ o_res o' = Some RNoBufs /\
       forall n rest f,
         stream_poll true false (rearm n ++ AInner (managed_poll (RawFinal RNoBufs (hd_error (o_buf o'))) f) :: rest)
         = (SErr RNoBufs, true)).
Proof. exact c07_stream_reports_exhaustion. Qed.
Print Assumptions C07_stream_reports_exhaustion.

(* Fallback pool: the free queue is empty, BufferPool::pop inside
   factory.create() fails with ResourceBusy and next() returns that error
   (with or without an operation that just ended) instead of looping. *)
Theorem C07_stream_reports_exhaustion_fallback : forall (s : st),
  uring s = false -> released s = false -> queue s = [] ->
  step s LPop = Some (Ok (set_nbusy s (S (nbusy s)))) /\
  forall n rest,
    stream_poll true false (rearm n ++ AInner MEnd :: ACreate (Some RNoBufs) :: rest) = (SErr RNoBufs, false) /\
    stream_poll false false (ACreate (Some RNoBufs) :: rest) = (SErr RNoBufs, false).
Proof. exact stream_reports_exhaustion_fallback. Qed.
Print Assumptions C07_stream_reports_exhaustion_fallback.

(* Any error item of the installed operation and any error of factory.create()
   is what next() returns, after any number of re-submissions ... *)
Theorem C07_stream_forwards_errors : forall (n : nat) (r : rescls) (rest : list sans),
  stream_poll true false (rearm n ++ AInner (MErr r) :: rest) = (SErr r, true) /\
  stream_poll true false (rearm n ++ AInner MEnd :: ACreate (Some r) :: rest) = (SErr r, false) /\
  stream_poll false false (ACreate (Some r) :: rest) = (SErr r, false).
Proof. exact c07_stream_forwards. Qed.
Print Assumptions C07_stream_forwards_errors.

(* ... and next() is Pending only when the installed operation itself is *)
Theorem C07_stream_pending_only_inner : forall (sched : list sans) (has c h : bool),
  stream_poll has c sched = (SPending, h) -> In (AInner MPending) sched.
Proof. exact stream_pending_only_inner. Qed.
Print Assumptions C07_stream_pending_only_inner.

(* A managed read that FAILS after the kernel has consumed a ring buffer (the
   completion carries the error AND the buffer id: EISDIR, EBADF, EIO, a
   cancellation; the same path serves EOF and data): the driver's set_result
   takes the buffer whatever the result is, so when the operation is dropped
   the buffer is back at the ring tail, owned by the ring only, and the ring is
   as long as before — the pool does not shrink. *)
Theorem C07_error_completion_returns_buffer :
  forall (size : nat) (s0 : st) (ls : list label) (s : st) (k : nat) (o : opst) (id : nat) (rest : list nat) (r : rescls),
  1 <= size -> (NN size <= 32768)%N ->
  pool_new true size = Ok s0 -> steps s0 ls = Some (Ok s) -> released s = false ->
  ring_ids s = id :: rest -> cq s = [] ->
  nth_error (ops s) k = Some o -> o_inflight o = true -> o_kdone o = false -> o_buf o = [] ->
  r <> RNoBufs ->
  exists s', steps s [LKernel k true false r; LCqe; LOpBufDrop k] = Some (Ok s') /\
    released s' = false /\ ring_ids s' = rest ++ [id] /\ owners s' id = [OwRing] /\
    length (ring_ids s') = length (ring_ids s).
Proof. exact c07_error_completion_returns_buffer. Qed.
Print Assumptions C07_error_completion_returns_buffer.

(* No reachable step panics: the `expect("Buffer should not be in use")` of
   set_result, the `expect("Buffer should be available")` of pop, the checked u16
   addition and the slice index of add_buffer never fire. *)
Theorem C07_no_panic : forall (u : bool) (size : nat) (s0 : st) (ls : list label) (s : st) (l : label) (c : N),
  1 <= size -> (NN size <= 32768)%N ->
  pool_new u size = Ok s0 -> steps s0 ls = Some (Ok s) -> step s l <> Some (Panic c).
Proof. exact c07_no_panic. Qed.
Print Assumptions C07_no_panic.

(* Ring indices: both u16 counters stay below 2^16, at most nbuf entries are
   live, the `tail + offset` of a reset does not overflow and its cell index
   is in range, the live entries [head, tail) occupy pairwise distinct cells,
   the cell the next reset writes is none of them, and emptiness as the kernel
   tests it agrees with the ring content. *)
Theorem C07_ring_index : forall (size : nat) (s0 : st) (ls : list label) (s : st),
  1 <= size -> (NN size <= 32768)%N ->
  pool_new true size = Ok s0 -> steps s0 ls = Some (Ok s) -> released s = false ->
  (tail s < U16)%N /\ (head s < U16)%N /\ ring_count s <= nbuf s /\ length (cells s) = nbuf s /\
  ring_idx (tail s) 0%N (nbuf s) = Ok (nn (tail s mod NN (nbuf s))%N) /\
  nn (tail s mod NN (nbuf s))%N < nbuf s /\
  NoDup (map (fun i => kernel_idx s (head s + NN i)%N) (seq 0 (ring_count s))) /\
  (ring_count s < nbuf s ->
   ~ In (nn (tail s mod NN (nbuf s))%N) (map (fun i => kernel_idx s (head s + NN i)%N) (seq 0 (ring_count s)))) /\
  (ring_empty s = true <-> ring_ids s = []).
Proof. exact c07_ring_index. Qed.
Print Assumptions C07_ring_index.

(* The u16 wrap-around is invisible in the cell index because the number of
   entries is a power of two: user index (tail % len) and kernel index
   (head & (len-1)) of a wrapped counter equal those of the unbounded one. *)
Theorem C07_ring_index_wrap : forall (n : nat) (x : N),
  (exists e : N, (e <= 15)%N /\ NN n = (2 ^ e)%N) ->
  ((x mod U16) mod NN n = x mod NN n)%N /\ (N.land (x mod U16) (NN n - 1) = x mod NN n)%N.
Proof. exact c07_ring_index_wrap. Qed.
Print Assumptions C07_ring_index_wrap.

(* Creation: nbuf = next_power_of_two(size) >= size, ring entry i holds buffer
   i, every buffer is in the ring. *)
Theorem C07_pool_new : forall (u : bool) (size : nat),
  1 <= size -> (NN size <= 32768)%N ->
  exists s0, pool_new u size = Ok s0 /\ size <= nbuf s0 /\
             (exists e : N, (e <= 15)%N /\ NN (nbuf s0) = (2 ^ e)%N) /\
             uring s0 = u /\ released s0 = false /\ ring_ids s0 = seq 0 (nbuf s0) /\ quiet s0 = true /\
             (u = true -> cells s0 = seq 0 (nbuf s0) /\ tail s0 = NN (nbuf s0) /\ head s0 = 0%N).
Proof. exact c07_pool_new. Qed.
Print Assumptions C07_pool_new.

(* ---------------------------------------------------------------------- *)
(* non-vacuity                                                              *)

(* io_uring, size 3 (4 buffers): a multishot read delivers buffer 0 to a user
   handle and selects buffer 1 (queued result); the stream is dropped early:
   the kernel cancels, the leftover result is reset to the ring tail.  While the
   user holds buffer 0 the kernel's next target is buffer 2, owned by the ring. *)
Definition ex_prog : list label :=
  [LOpNew; LSubmit 0; LKernel 0 true true ROk; LCqe; LPopMs 0; LTakeLoose 0;
   LKernel 0 true true ROk; LCqe; LKernel 0 false false RCancel; LCqe; LGuardDrop 0].

Example C07_nonvacuous_ring :
  exists s0 s, pool_new true 3 = Ok s0 /\ nbuf s0 = 4 /\ steps s0 ex_prog = Some (Ok s) /\
    owners s 0 = [OwHandle 0] /\ owners s 1 = [OwRing] /\ kernel_target s = Some 2 /\
    ring_ids s = [2; 3; 1] /\ quiet s = false /\
    exists s', steps s [LDropHandle 0] = Some (Ok s') /\ ring_ids s' = [2; 3; 1; 0] /\ quiet s' = true.
Proof.
  eexists. eexists. split; [vm_compute; reflexivity|]. split; [vm_compute; reflexivity|].
  split; [vm_compute; reflexivity|]. repeat (split; [vm_compute; reflexivity|]).
  eexists. split; [vm_compute; reflexivity|]. split; vm_compute; reflexivity.
Qed.
Print Assumptions C07_nonvacuous_ring.

(* exhaustion on a ring of one buffer: the first read takes it, a second read
   cannot be given data, gets -ENOBUFS and ends with ResourceBusy *)
Example C07_nonvacuous_exhaustion :
  exists s0 s, pool_new true 1 = Ok s0 /\
    steps s0 [LOpNew; LSubmit 0; LKernel 0 true false ROk; LOpNew; LSubmit 1] = Some (Ok s) /\
    ring_ids s = [] /\ step s (LKernel 1 true false ROk) = None /\
    exists s', steps s [LKernel 1 false false RNoBufs; LCqe; LCqe] = Some (Ok s') /\ nbusy s' = 1 /\
               (exists o, nth_error (ops s') 1 = Some o /\ o_res o = Some RNoBufs) /\
               owners s' 0 = [OwInOp 0].
Proof.
  eexists. eexists. split; [vm_compute; reflexivity|]. split; [vm_compute; reflexivity|].
  split; [vm_compute; reflexivity|]. split; [vm_compute; reflexivity|].
  eexists. split; [vm_compute; reflexivity|]. split; [vm_compute; reflexivity|].
  split; [eexists; split; vm_compute; reflexivity|vm_compute; reflexivity].
Qed.
Print Assumptions C07_nonvacuous_exhaustion.

(* fallback pool of two buffers: two operations take them at creation, the
   third creation is refused with ResourceBusy; dropping an operation returns
   its buffer to the back of the queue; handles outliving the pool free their
   buffer themselves *)
Example C07_nonvacuous_fallback :
  exists s0 s, pool_new false 2 = Ok s0 /\
    steps s0 [LPop; LOpNew; LPop; LOpNew; LPop] = Some (Ok s) /\ nbusy s = 1 /\ queue s = [] /\
    owners s 0 = [OwInOp 0] /\ owners s 1 = [OwInOp 1] /\
    exists s', steps s [LKernel 0 false false ROk; LCqe; LOpMove 0; LOpBufDrop 1; LRelease; LDropHandle 0] = Some (Ok s') /\
               freed s' = [1; 0] /\ quiet s' = true.
Proof.
  eexists. eexists. split; [vm_compute; reflexivity|]. repeat (split; [vm_compute; reflexivity|]).
  eexists. split; [vm_compute; reflexivity|]. split; vm_compute; reflexivity.
Qed.
Print Assumptions C07_nonvacuous_fallback.

(* the u16 tail wraps: after 65534 take/return rounds on a ring of 4 the tail is
   4 + 65534 - 65536 = 2, the ring still holds all four buffers in FIFO order,
   and the next reset writes cell 2 *)
Example C07_nonvacuous_wrap :
  exists s0 s, pool_new true 4 = Ok s0 /\ wrap_rounds (nn 65534%N) s0 = Some (Ok s) /\
    tail s = 2%N /\ head s = 65534%N /\ ring_count s = 4 /\ ring_ids s = [2; 3; 0; 1] /\
    ring_idx (tail s) 0%N (nbuf s) = Ok 2.
Proof.
  eexists. eexists. split; [vm_compute; reflexivity|]. split; [vm_compute; reflexivity|].
  repeat (split; [vm_compute; reflexivity|]). vm_compute; reflexivity.
Qed.
Print Assumptions C07_nonvacuous_wrap.

(* why the entry count must be a power of two: with 3 entries the cell index
   would jump at the wrap of the u16 counter (65535 -> cell 0, 65536 -> cell 0
   again instead of cell 1) *)
Example C07_wrap_needs_power_of_two :
  ((65536 mod U16) mod 3 <> 65536 mod 3)%N /\ ((65535 mod U16) mod 3 = (65536 mod U16) mod 3)%N.
Proof. split; [vm_compute; discriminate|vm_compute; reflexivity]. Qed.
Print Assumptions C07_wrap_needs_power_of_two.

(* the defaults of ProactorBuilder::new (translated from the Rust source):
   8 buffers of 8192 bytes, buffer group 1 *)
Example C07_defaults :
  exists s0, default_pool = Ok s0 /\ nbuf s0 = 8 /\ default_buf_len = 8192%N /\ buf_group = 1%N.
Proof. eexists. split; [vm_compute; reflexivity|]. repeat split; vm_compute; reflexivity. Qed.
Print Assumptions C07_defaults.

(* the stream on a ring of one buffer held by the consumer: the operation ends
   with ResourceBusy, and the loop — having re-created its operation twice
   before — returns the error; a swallowing loop would need a further answer *)
Example C07_nonvacuous_stream :
  exists s0 s, pool_new true 1 = Ok s0 /\
    steps s0 [LOpNew; LSubmit 0; LKernel 0 true true ROk; LCqe; LPopMs 0; LTakeLoose 0] = Some (Ok s) /\
    owners s 0 = [OwHandle 0] /\ ring_ids s = [] /\ cq s = [] /\
    exists s', steps s [LKernel 0 false false RNoBufs; LCqe] = Some (Ok s') /\
      (exists o, nth_error (ops s') 0 = Some o /\ o_res o = Some RNoBufs) /\
      stream_poll true false (rearm 2 ++ [AInner (managed_poll (RawFinal RNoBufs None) (fun _ => false))])
        = (SErr RNoBufs, true) /\
      stream_poll true false (rearm 2 ++ [AInner MPending]) = (SPending, true).
Proof.
  eexists. eexists. split; [vm_compute; reflexivity|]. repeat (split; [vm_compute; reflexivity|]).
  eexists. split; [vm_compute; reflexivity|]. split; [eexists; split; vm_compute; reflexivity|].
  split; vm_compute; reflexivity.
Qed.
Print Assumptions C07_nonvacuous_stream.

(* a failing read on a ring of two: the completion carries RErr and buffer 0;
   the operation owns it until it is dropped, then the ring has both again *)
Example C07_nonvacuous_error_completion :
  exists s0 s, pool_new true 2 = Ok s0 /\
    steps s0 [LOpNew; LSubmit 0; LKernel 0 true false RErr; LCqe] = Some (Ok s) /\
    owners s 0 = [OwInOp 0] /\ ring_ids s = [1] /\
    (exists o, nth_error (ops s) 0 = Some o /\ o_res o = Some RErr) /\
    exists s', steps s [LOpBufDrop 0] = Some (Ok s') /\ ring_ids s' = [1; 0] /\ quiet s' = true.
Proof.
  eexists. eexists. split; [vm_compute; reflexivity|]. split; [vm_compute; reflexivity|].
  split; [vm_compute; reflexivity|]. split; [vm_compute; reflexivity|].
  split; [eexists; split; vm_compute; reflexivity|].
  eexists. split; [vm_compute; reflexivity|]. split; vm_compute; reflexivity.
Qed.
Print Assumptions C07_nonvacuous_error_completion.

(* REFUTED variant — "set_result returns early when the result is an error"
   (model/Pool.v cqe_early_return, not the code): after the same failing read
   buffer 0 has NO owner, every holder is gone and the ring holds 1 of 2
   buffers for good: conservation and exclusiveness both fail. *)
Lemma C07_error_completion_early_return_refuted :
  exists s0 s s', pool_new true 2 = Ok s0 /\
    steps s0 [LOpNew; LSubmit 0; LKernel 0 true false RErr] = Some (Ok s) /\
    cqe_early_return s = Some (Ok s') /\
    owners s' 0 = [] /\ quiet s' = true /\ released s' = false /\
    length (ring_ids s') = 1 /\ nbuf s' = 2 /\
    ~ (length (ring_ids s') + n_selected s' + n_transit s' + n_inop s' + n_handles s' + length (freed s') = nbuf s').
Proof.
  eexists. eexists. eexists. split; [vm_compute; reflexivity|]. split; [vm_compute; reflexivity|].
  split; [vm_compute; reflexivity|]. repeat (split; [vm_compute; reflexivity|]).
  vm_compute. discriminate.
Qed.
Print Assumptions C07_error_completion_early_return_refuted.

(* ---- source tie (translated from the Rust source on every run by tools/rs2v.py
        into gen/Frag.v; an edit of the function changes the generated definition) ---- *)
(* the ring entry BufRing::add_buffer writes (`(tail + offset) % len`,
   compio-driver/src/sys/buffer_pool/iour.rs) as the source has it now is the model's
   ring_idx wherever the u16 sum does not overflow (where it does, the debug build panics) *)
Theorem C07_ring_index_is_source : forall t off len,
  ring_idx t off len =
    if (t + off <? U16)%N then Ok (nn (Frag.pool_ring_idx t off (NN len))) else Panic P_ADD_OVERFLOW.
Proof. exact FragMiscThm.ring_idx_tie. Qed.
Print Assumptions C07_ring_index_is_source.
