(* C10 — all buffer views obey one contract.
   Statements only: each theorem is closed by [exact lemma] and followed by
   Print Assumptions.  The lemmas live in thm/BufThm.v, the model in
   model/Buf.v (tied to compio-buf by the correspondence check c10).

   Vocabulary (thm/BufThm.v): [rwf r] root length <= capacity, arrays full;
   [wf v r] every Slice layer passes the asserts of IoBufExt::slice in state r
   and every Uninit layer was created at a length its buffer still has;
   [uninit_filled v r] (the known class) some Uninit layer holds initialised
   bytes; [pure v] no Uninit layer; [seqp ms] vectored members filled in order;
   [vec_known ms] = ~ seqp ms; [voff v] offset of a view in its root,
   [vclamp v x] x clamped by the end bounds of the slices of v. *)
From Compio.Model Require Import Base Buf.
From Compio.Gen Require Frag.
From Compio.Thm Require Import BufThm FragBufThm.
From Compio.Thm Require FragIoThm.

(* (a) the contract: for EVERY root kind/length/capacity and EVERY nesting of
   slice / uninit views that is well-constructed, outside the known class: both
   ranges are reported (no panic), the initialised bytes are a prefix of the
   writable region, both lie inside the allocation (the initialised bytes inside
   the root's initialised prefix), length <= capacity. *)
Theorem C10_view_contract : forall r v,
  rwf r -> wf v r -> ~ uninit_filled v r ->
  exists o l c,
    r_as_init v r = Ok (o, l) /\ r_as_uninit v r = Ok (o, c) /\
    l <= c /\ o + c <= rcap r /\ o + l <= rlen r /\ rlen r <= rcap r.
Proof. exact view_contract. Qed.
Print Assumptions C10_view_contract.

(* the full statement is FALSE inside the known class: an Uninit view that
   already holds bytes reports its initialised bytes at its begin but its
   writable region after them, and a length above its capacity *)
Example C10_view_contract_refuted :
  exists r v, rwf r /\ wf v r /\ uninit_filled v r /\
    r_as_init v r = Ok (0, 8) /\ r_as_uninit v r = Ok (8, 2).
Proof.
  exists (mkroot KVec (canaries_from 0 10) 8 0), (VUninit VBase 0).
  split; [split; [vm_compute; lia|discriminate]|].
  split; [cbn; split; [exact I|exists 8; split; [reflexivity|lia]]|].
  split; [right; vm_compute; discriminate|].
  split; vm_compute; reflexivity.
Qed.
Print Assumptions C10_view_contract_refuted.

(* (b) recording a fill: writing [bs] at the start of the writable region and
   advance_to(length bs), through ANY well-constructed view outside the known
   class, succeeds and makes exactly those bytes visible as initialised at
   [o, o + k) of the root; every other cell, the kind and the capacity are
   unchanged; the root length never shrinks; the view stays well-constructed and
   then reports max(l, k) initialised bytes at the same offset. *)
Theorem C10_fill_visible : forall r v bs o c,
  rwf r -> wf v r -> ~ uninit_filled v r ->
  r_as_uninit v r = Ok (o, c) -> length bs <= c ->
  exists r',
    r_fill v bs r = Ok r' /\ rkind r' = rkind r /\
    rcells r' = write_at (rcells r) o bs /\
    rlen r' = Nat.max (rlen r) (o + length bs) /\
    o + length bs <= rlen r' /\
    sub_list (rcells r') o (length bs) = bs /\
    firstn o (rcells r') = firstn o (rcells r) /\
    skipn (o + length bs) (rcells r') = skipn (o + length bs) (rcells r) /\
    length (rcells r') = length (rcells r) /\ rcap r' = rcap r /\
    rwf r' /\ wf v r' /\
    exists l, r_as_init v r = Ok (o, l) /\ r_as_init v r' = Ok (o, Nat.max l (length bs)).
Proof. exact fill_visible_full. Qed.
Print Assumptions C10_fill_visible.

(* known class: a second fill through an Uninit view is written behind the
   first one but recorded relative to the begin: the bytes stay invisible *)
Example C10_fill_visible_refuted :
  exists r v bs o c r',
    rwf r /\ wf v r /\ uninit_filled v r /\
    r_as_uninit v r = Ok (o, c) /\ length bs <= c /\
    r_fill v bs r = Ok r' /\ rlen r' < o + length bs.
Proof.
  exists (mkroot KVec (canaries_from 0 10) 3 0), (VUninit VBase 0), [1;2]%N, 3, 7.
  eexists.
  split; [split; [vm_compute; lia|discriminate]|].
  split; [cbn; split; [exact I|exists 3; split; [reflexivity|lia]]|].
  split; [right; vm_compute; discriminate|].
  split; [vm_compute; reflexivity|]. split; [vm_compute; lia|].
  split; [vm_compute; reflexivity|]. vm_compute. lia.
Qed.
Print Assumptions C10_fill_visible_refuted.

(* ... for ARBITRARY sequences of fills through one view without Uninit layer
   (repeated fills of one view included): cells = the writes applied in order,
   root length = running maximum, the writable region never moves. *)
Theorem C10_fill_sequence : forall v, pure v -> forall bss r o c,
  rwf r -> wf v r -> r_as_uninit v r = Ok (o, c) ->
  Forall (fun bs => length bs <= c) bss ->
  exists r',
    r_fills v bss r = Ok r' /\ rkind r' = rkind r /\
    rcells r' = fold_left (fun cs bs => write_at cs o bs) bss (rcells r) /\
    rlen r' = fold_left (fun n bs => Nat.max n (o + length bs)) bss (rlen r) /\
    rwf r' /\ wf v r' /\ r_as_uninit v r' = Ok (o, c).
Proof. exact fill_sequence. Qed.
Print Assumptions C10_fill_sequence.

(* Slice<Slice<T>>::flatten: for EVERY nested slice (all four Some/None end
   combinations, any begins) over any view, in EVERY root state (also states in
   which the ranges panic): the flattened slice reports the same as_init and
   as_uninit ranges and has the same set_len effect as the nested one; it is
   well-constructed when the nested one is, and stays outside/inside the
   known class with it. *)
Theorem C10_flatten_same_view : forall v v',
  flatten_view v = Some v' -> forall r,
  r_as_init v' r = r_as_init v r /\ r_as_uninit v' r = r_as_uninit v r /\
  (forall k, r_set_len v' k r = r_set_len v k r) /\
  (wf v r -> wf v' r) /\ (pure v -> pure v') /\
  (uninit_filled v' r <-> uninit_filled v r).
Proof. exact flatten_same_view. Qed.
Print Assumptions C10_flatten_same_view.

Example C10_nonvacuous_flatten :
  let r := mkroot KVec (canaries_from 0 12) 9 0 in
  let v := VSlice (VSlice VBase 2 (Some 7)) 1 (Some 30) in
  wf v r /\ flatten_view v = Some (VSlice VBase 3 (Some 7)) /\
  r_as_init v r = Ok (3, 4) /\ r_as_uninit v r = Ok (3, 4).
Proof.
  cbn zeta. split.
  { cbn [wf]. repeat split; try lia.
    - exists 9. split; [reflexivity|lia].
    - exists 5. split; [vm_compute; reflexivity|lia]. }
  split; [reflexivity|]. split; vm_compute; reflexivity.
Qed.
Print Assumptions C10_nonvacuous_flatten.

(* pool buffers (compio_driver::BufferRef) are one more root kind [KPool]
   (set_len = min(len, cap), cap user-set below the full length): the theorems
   above quantify over every root, hence over pool buffers in every
   capacity state.  BufferRef::set_capacity(n), from the code: nothing for
   n = 0; otherwise cap' = min(n, full length), len' = min(len, cap'), content
   untouched, and length <= capacity <= full length afterwards. *)
Theorem C10_pool_set_capacity : forall r n,
  rkind r = KPool -> rwf r ->
  let r' := pool_set_capacity n r in
  let full := length (rcells r) in
  rkind r' = KPool /\ rcells r' = rcells r /\
  (n = 0%N -> r' = r) /\
  (n <> 0%N ->
     rcap r' = Nat.min (N.to_nat n) full /\ rlen r' = Nat.min (rlen r) (rcap r')) /\
  rwf r' /\ rcap r' <= full.
Proof. exact pool_set_capacity_spec. Qed.
Print Assumptions C10_pool_set_capacity.

Example C10_nonvacuous_pool :
  let r := pool_set_capacity 6 (mkroot KPool (canaries_from 0 16) 9 16) in
  let v := VSlice VBase 2 None in
  rkind r = KPool /\ rwf r /\ rlen r = 6 /\ rcap r = 6 /\ wf v r /\ ~ uninit_filled v r /\
  r_as_init v r = Ok (2, 4) /\ r_as_uninit v r = Ok (2, 4) /\
  exists r', r_fill v [7;7;7]%N (pool_set_capacity 12 r) = Ok r' /\ rlen r' = 6 /\ rcap r' = 12.
Proof.
  cbn zeta. split; [reflexivity|]. split; [split; [vm_compute; lia|discriminate]|].
  split; [reflexivity|]. split; [reflexivity|].
  split; [cbn [wf]; split; [exact I|split; [exists 6; split; [reflexivity|lia]|exact I]]|].
  split; [cbn; tauto|]. split; [vm_compute; reflexivity|]. split; [vm_compute; reflexivity|].
  eexists. split; [vm_compute; reflexivity|]. split; reflexivity.
Qed.
Print Assumptions C10_nonvacuous_pool.

(* the appending protocol of an Uninit view (the one repeated fills through it
   must use): for every Uninit over an Uninit-free view that reaches the end of
   the root's initialised bytes, in EVERY state (also after earlier fills), a
   fill recorded with advance(k) lands exactly behind the initialised bytes,
   makes them visible, and leaves a state in which the next fill does the same *)
Theorem C10_uninit_append : forall r v b bs,
  rwf r -> pure v -> wf (VUninit v b) r -> vclamp v (rlen r) = rlen r ->
  length bs <= vclamp v (rcap r) - rlen r ->
  exists r',
    r_fill_adv (VUninit v b) bs r = Ok r' /\ rkind r' = rkind r /\
    rcells r' = write_at (rcells r) (rlen r) bs /\
    rlen r' = rlen r + length bs /\
    rwf r' /\ wf (VUninit v b) r' /\ vclamp v (rlen r') = rlen r' /\
    r_as_init (VUninit v b) r' = Ok (voff v + b, rlen r + length bs - (voff v + b)) /\
    r_as_uninit (VUninit v b) r' = Ok (rlen r + length bs, vclamp v (rcap r) - (rlen r + length bs)).
Proof. exact uninit_append. Qed.
Print Assumptions C10_uninit_append.

(* (c) vectored analogue (Vec<T> / [T; N] of members of ANY kinds, unsliced): a
   vectored read of [bs] recorded with advance_vec_to, outside the known class,
   leaves every member with its chunk at offset 0, a length covering the chunk
   and not below the old one ([vspec]); the class is closed under fills. *)
Theorem C10_vectored_fill : forall ms bs,
  Forall rwf ms -> ~ vec_known ms -> length bs <= tcap ms ->
  vfill CList WBase bs ms = Ok (vspec ms bs) /\
  Forall rwf (vspec ms bs) /\ ~ vec_known (vspec ms bs) /\ tcap (vspec ms bs) = tcap ms.
Proof. exact vfill_not_known. Qed.
Print Assumptions C10_vectored_fill.

Theorem C10_vectored_fill_sequence : forall bss ms,
  Forall rwf ms -> seqp ms -> Forall (fun bs => length bs <= tcap ms) bss ->
  vfills bss ms = Ok (fold_left vspec bss ms) /\
  Forall rwf (fold_left vspec bss ms) /\ seqp (fold_left vspec bss ms).
Proof. exact vfill_sequence. Qed.
Print Assumptions C10_vectored_fill_sequence.

(* known class (D6): 4 bytes read into [Vec(len 0, cap 10), Vec(len 8, cap 10)]:
   advance_vec_to(4) is a no-op because the total length is already 8; the
   first member keeps length 0 and the bytes are lost *)
Example C10_vectored_fill_refuted :
  exists ms bs ms',
    Forall rwf ms /\ vec_known ms /\ length bs <= tcap ms /\
    vfill CList WBase bs ms = Ok ms' /\ ms' <> vspec ms bs /\
    map rlen ms' = [0; 8] /\ map rlen (vspec ms bs) = [4; 8].
Proof.
  exists [mkroot KVec (canaries_from 0 10) 0 0; mkroot KVec (canaries_from 0 10) 8 0], [1;2;3;4]%N.
  eexists.
  split; [repeat constructor; try (vm_compute; lia); discriminate|].
  split; [intros [[H _]|H]; [vm_compute in H; discriminate|inversion H; subst; discriminate]|].
  split; [vm_compute; lia|]. split; [vm_compute; reflexivity|].
  split; [vm_compute; discriminate|]. split; vm_compute; reflexivity.
Qed.
Print Assumptions C10_vectored_fill_refuted.

(* VectoredBufIter as the default read_vectored uses it (skip the members of
   capacity 0, fill the first member with room, once): the view of that member
   obeys the contract and the fill is recorded in that member only *)
Theorem C10_viter_first_fill : forall pre m post bs,
  Forall rwf pre -> Forall (fun x => rcap x = 0) pre -> rwf m -> length bs <= rcap m ->
  let ms := pre ++ m :: post in
  let it := mkiter (length pre) (length ms) 0 0 in
  i_as_init WBase VBase (it, ms) = Ok (0, rlen m) /\
  i_as_uninit WBase VBase (it, ms) = Ok (0, rcap m) /\
  exists it',
    i_fill CList WBase VBase bs (it, ms) =
      Ok (it', pre ++ mkroot (rkind m) (write_at (rcells m) 0 bs)
                             (Nat.max (rlen m) (length bs)) (rlim m) :: post).
Proof. exact viter_first_fill. Qed.
Print Assumptions C10_viter_first_fill.

(* known class (D6), VectoredBufIter: after set_len(3) the initialised part is
   reported at offset 3, the writable part at offset 0 *)
Example C10_viter_after_fill_refuted :
  exists s,
    i_advance_to CList WBase VBase 3 (mkiter 0 1 0 0, [mkroot KVec (canaries_from 0 10) 0 0]) = Ok s /\
    i_as_init WBase VBase s = Ok (3, 0) /\ i_as_uninit WBase VBase s = Ok (0, 10).
Proof. eexists. split; [vm_compute; reflexivity|]. split; vm_compute; reflexivity. Qed.
Print Assumptions C10_viter_after_fill_refuted.

(* known class (D6), VectoredBufIter::next after a partial fill: 2 bytes into
   member 0, 1 byte into member 1 gives lengths [3; 0] instead of [2; 1] *)
Example C10_viter_next_partial_refuted :
  exists it1 ms1 it2 it3 ms3,
    viter_set_len CList WBase 2
      (mkiter 0 2 0 0, [mkroot KVec (canaries_from 0 10) 0 0; mkroot KVec (canaries_from 0 10) 0 0])
      = Ok (it1, ms1) /\
    viter_next it1 = Some it2 /\
    viter_set_len CList WBase 1 (it2, ms1) = Ok (it3, ms3) /\
    map rlen ms3 = [3; 0].
Proof.
  eexists _, _, _, _, _. split; [vm_compute; reflexivity|].
  split; [vm_compute; reflexivity|]. split; vm_compute; reflexivity.
Qed.
Print Assumptions C10_viter_next_partial_refuted.

(* known class: slice_mut(3) of [Vec(len 0, cap 10)] is constructed, but its
   iter_slice (hence total_len, advance_vec_to) panics on `&buf[3..]` *)
Example C10_vslice_uninit_offset_refuted :
  exists w, mk_vslice true WBase 3 [mkroot KVec (canaries_from 0 10) 0 0] = Ok w /\
    iter_slice w [mkroot KVec (canaries_from 0 10) 0 0] = Panic P_SLICE_INDEX /\
    iter_uninit w [mkroot KVec (canaries_from 0 10) 0 0] = Ok [(0, 3, 7)].
Proof. eexists. split; [vm_compute; reflexivity|]. split; vm_compute; reflexivity. Qed.
Print Assumptions C10_vslice_uninit_offset_refuted.

(* known class: advance(0) through a slice that ends inside the initialised
   bytes truncates a Vec to the end of the slice *)
Example C10_bounded_slice_advance_refuted :
  exists r v r', rwf r /\ wf v r /\ pure v /\
    r_advance v 0 r = Ok r' /\ rlen r = 5 /\ rlen r' = 2.
Proof.
  exists (mkroot KVec (canaries_from 0 5) 5 0), (VSlice VBase 0 (Some 2)). eexists.
  split; [split; [vm_compute; lia|discriminate]|].
  split; [cbn; split; [exact I|split; [exists 5; split; [reflexivity|lia]|lia]]|].
  split; [exact I|]. split; [vm_compute; reflexivity|]. split; reflexivity.
Qed.
Print Assumptions C10_bounded_slice_advance_refuted.

(* non-vacuity: the hypotheses are met by concrete non-trivial states *)
Example C10_nonvacuous_view :
  let r := mkroot KVec (canaries_from 0 10) 6 0 in
  let v := VSlice (VUninit (VSlice VBase 1 (Some 9)) 5) 0 (Some 2) in
  rwf r /\ wf v r /\ ~ uninit_filled v r /\
  r_as_init v r = Ok (6, 0) /\ r_as_uninit v r = Ok (6, 2) /\
  exists r', r_fill v [7;7]%N r = Ok r' /\ rlen r' = 8.
Proof.
  cbn zeta.
  split; [split; [vm_compute; lia|discriminate]|].
  split.
  { cbn [wf]. repeat split; try lia.
    - exists 6. split; [reflexivity|lia].
    - exists 5. split; [vm_compute; reflexivity|lia].
    - exists 0. split; [vm_compute; reflexivity|lia]. }
  split.
  { cbn [uninit_filled]. intros [[]|H]. apply H. vm_compute. reflexivity. }
  split; [vm_compute; reflexivity|]. split; [vm_compute; reflexivity|].
  eexists. split; vm_compute; reflexivity.
Qed.
Print Assumptions C10_nonvacuous_view.

Example C10_nonvacuous_vectored :
  let ms := [mkroot KVec (canaries_from 0 4) 4 0; mkroot KArrayVec (canaries_from 0 4) 1 0;
             mkroot KVec (canaries_from 0 4) 0 0] in
  Forall rwf ms /\ seqp ms /\ ~ vec_known ms /\
  exists ms', vfill CList WBase [1;2;3;4;5;6;7]%N ms = Ok ms' /\ map rlen ms' = [4; 3; 0].
Proof.
  cbn zeta.
  split; [repeat constructor; try (vm_compute; lia); discriminate|].
  assert (S : seqp [mkroot KVec (canaries_from 0 4) 4 0; mkroot KArrayVec (canaries_from 0 4) 1 0;
                    mkroot KVec (canaries_from 0 4) 0 0]).
  { left. split; [reflexivity|]. right. repeat constructor. }
  split; [exact S|]. split; [intros H; exact (H S)|].
  eexists. split; vm_compute; reflexivity.
Qed.
Print Assumptions C10_nonvacuous_vectored.


(* ---- source tie of the slice arithmetic (translated from compio-buf/src/slice.rs
        on every run by tools/rs2v.py into gen/Frag.v) ----
   Slice<Slice<T>>::flatten, Slice::end_or_len and Slice::end_or_cap as the source
   has them now are the arithmetic of the model's flatten_view and of sub_range,
   the one window function every Slice / Uninit layer of as_init / as_uninit uses. *)
Theorem C10_flatten_is_source : forall v0 lb le sb se,
  flatten_view (VSlice (VSlice v0 lb le) sb se)
  = Some (VSlice v0 (fst (Frag.slice_flatten lb le sb se)) (snd (Frag.slice_flatten lb le sb se))).
Proof. exact flatten_tie. Qed.
Print Assumptions C10_flatten_is_source.

Theorem C10_slice_window_is_source : forall o l b e,
  sub_range (o, l) b e
  = (if b <=? Frag.slice_end_or_len l e then Ok (o + b, Frag.slice_end_or_len l e - b) else Panic P_SLICE_INDEX)
  /\ Frag.slice_end_or_cap l e = Frag.slice_end_or_len l e
  /\ Frag.slice_end_or_len l e <= l.
Proof. exact sub_range_tie. Qed.
Print Assumptions C10_slice_window_is_source.

(* BufferRef::set_capacity (compio-driver/src/buffer_pool.rs) as the source has it now is
   the model's pool_set_capacity, for every requested capacity (a usize) and every pool
   buffer whose full length fits the u32 the code stores it in *)
Theorem C10_pool_set_capacity_is_source : forall n r,
  rkind r = KPool -> (N.of_nat (length (rcells r)) < 2 ^ 32)%N ->
  let r' := pool_set_capacity n r in
  Frag.bufref_set_capacity n (NN (length (rcells r))) (NN (rlim r)) (NN (rlen r))
  = (NN (rlim r'), NN (rlen r')).
Proof. exact FragIoThm.pool_set_capacity_tie. Qed.
Print Assumptions C10_pool_set_capacity_is_source.
