(* C01 — in-flight operations keep their memory and descriptors alive.
   The buffer, control data and SharedFd clone of an operation live inside its
   heap-pinned operation storage (RawOp in a ThinCell): "allocated and unmoved"
   = the storage is not freed.  Model: model/DriverKeys.v (every hook event one
   label); tie: every recorded history of the real driver must be a run of it
   (./check C01).  Statements only. *)
From Compio.Model Require Import Base DriverKeys.
From Compio.Thm Require Import DriverKeysThm.
From Compio.Model Require Import PollDrv.
From Compio.Thm Require Import PollDrvThm.
From Compio.Gen Require Frag.
From Compio.Thm Require FragWakeThm.

(* the bookkeeping invariant (reference-count equation) holds in every state
   reachable by ANY sequence of events of any length, for any number of
   operations, on either driver *)
Theorem C01_refcount_invariant : forall u es s,
  steps (init u) es = Some s ->
  Forall (fun x =>
    (freed x = true -> rc x = 0) /\
    (freed x = false ->
       rc x = user x + b2n (leaked x) + b2n (frozen x) + queued x + chan x
              + b2n (entry x) + b2n (hold x)) /\
    (in_kernel x = true -> leaked x = true /\ freed x = false) /\
    results x <= 1) (keys s).
Proof. exact reachable_inv. Qed.
Print Assumptions C01_refcount_invariant.

(* while the OS owns an operation its storage is allocated and referenced,
   however early the future, a cancel token or the user let go *)
Theorem C01_alive_while_in_kernel : forall u es s k x,
  steps (init u) es = Some s ->
  nth_error (keys s) k = Some x -> in_kernel x = true ->
  freed x = false /\ leaked x = true /\ 1 <= rc x.
Proof. exact alive_while_in_kernel. Qed.
Print Assumptions C01_alive_while_in_kernel.

(* ... so no accepted history frees it before the final completion (or, in
   Driver::drop, before the ring is closed) *)
Theorem C01_free_while_in_kernel_rejected : forall u es s k x,
  steps (init u) es = Some s ->
  nth_error (keys s) k = Some x -> in_kernel x = true ->
  step s (EKeyFree k) = None.
Proof. exact free_while_in_kernel_rejected. Qed.
Print Assumptions C01_free_while_in_kernel_rejected.

(* released exactly once *)
Theorem C01_released_once : forall s k s',
  step s (EKeyFree k) = Some s' ->
  exists x x', nth_error (keys s) k = Some x /\ freed x = false /\
               nth_error (keys s') k = Some x' /\ freed x' = true /\
               step s' (EKeyFree k) = None.
Proof. exact free_once. Qed.
Print Assumptions C01_released_once.

(* nothing touches operation storage after it was released *)
Theorem C01_no_use_after_free : forall s e k x,
  touches e k -> nth_error (keys s) k = Some x -> freed x = true -> step s e = None.
Proof. exact no_use_after_free. Qed.
Print Assumptions C01_no_use_after_free.

(* zero-copy sends (and every other operation): the buffer is handed back only
   by take_result, which no accepted history performs while the kernel still
   owns the operation, i.e. before the final (release-notification) completion *)
Theorem C01_buffer_back_only_after_final : forall u es s k x,
  steps (init u) es = Some s ->
  nth_error (keys s) k = Some x -> in_kernel x = true ->
  step s (EUserPop k true) = None /\ step s (EUserPushReady k) = None.
Proof. exact pop_while_in_kernel_rejected. Qed.
Print Assumptions C01_buffer_back_only_after_final.

Example C01_zero_copy_example :
  steps (init true) [EKeyNew 0; ESubmit 0; ECqeMore 0; EUserPop 0 true] = None /\
  exists s, steps (init true) [EKeyNew 0; ESubmit 0; ECqeMore 0; EUserPop 0 false;
                               ECqeFinal 0; ESetResult 0; EUserPop 0 true; EKeyFree 0] = Some s
            /\ quiescent s = true.
Proof. split; [vm_compute; reflexivity|]. eexists. split; vm_compute; reflexivity. Qed.
Print Assumptions C01_zero_copy_example.

(* non-vacuity: a history with an operation in flight while its future is
   dropped, completed by the kernel later, is a run of the model; freeing it
   early is not *)
Example C01_nonvacuous :
  exists s, steps (init true) [EKeyNew 0; ESubmit 0; EUserDrop 0] = Some s /\
            (exists x, nth_error (keys s) 0 = Some x /\ in_kernel x = true) /\
            step s (EKeyFree 0) = None /\
            exists s', steps s [ECqeFinal 0; ESetResult 0; EKeyFree 0] = Some s' /\ quiescent s' = true.
Proof.
  eexists. split; [vm_compute; reflexivity|]. split; [eexists; split; vm_compute; reflexivity|].
  split; [vm_compute; reflexivity|]. eexists. split; vm_compute; reflexivity.
Qed.
Print Assumptions C01_nonvacuous.

(* Driver::drop order: in-flight storage released only after the ring is closed *)
Example C01_drop_order_example :
  steps (init true) [EKeyNew 0; ESubmit 0; EUserDrop 0; EDropBegin; EKeyFree 0] = None /\
  exists s, steps (init true) [EKeyNew 0; ESubmit 0; EUserDrop 0; EDropBegin; ERingClosed;
                               EKeyFree 0; EDropEnd] = Some s /\ quiescent s = true.
Proof. split; [vm_compute; reflexivity|]. eexists. split; vm_compute; reflexivity. Qed.
Print Assumptions C01_drop_order_example.

(* ---- polling driver: what the OS poller holds (model/PollDrv.v: FdQueue, submit,
   submit_front, renew, remove_one, poll_one; tied to the code by the history acceptor
   paccept in RunDRV.v) ---- *)

(* in every reachable state of the per-descriptor queues (any sequence of pushes,
   cancellations and readiness events, usable or not): a registered descriptor carries
   as user data an operation that IS queued on it — never the address of an operation
   that was cancelled, completed and freed — and a descriptor without waiters is not
   registered at all *)
Theorem C01_poller_user_data_is_queued : forall os fd,
  let s := fold_left pstep os pinit in
  match alookup (pol s) fd with
  | Some a =>
    let q := get_q s fd in
    (a_r a = true <-> rq q <> []) /\ (a_w a = true <-> wq q <> []) /\
    In (a_key a) (rq q ++ wq q)
  | None => rq (get_q s fd) = [] /\ wq (get_q s fd) = []
  end.
Proof. intros os fd. apply armed_iff_waiting. apply reachable_pinv. Qed.
Print Assumptions C01_poller_user_data_is_queued.

(* ---- source tie (translated from the Rust source on every run by tools/rs2v.py
        into gen/Frag.v; an edit of the function changes the generated definition) ---- *)
(* io_uring poll_entries (compio-driver/src/sys/driver/iour/mod.rs): an operation's completion is
   handled as non-final (the model's ECqeMore: result pushed to the multishot queue, key kept in
   in_flight, the leaked reference stays with the kernel) exactly when the condition of the source,
   as it stands now, holds - the kernel's MORE flag and nothing else - and as the final completion
   (ECqeFinal: in_flight.remove + Entry::notify) otherwise *)
Theorem C01_completion_class_is_source : forall more k,
  (if Frag.iour_cqe_more more then ECqeMore k else ECqeFinal k)
  = (if more then ECqeMore k else ECqeFinal k).
Proof. exact FragWakeThm.cqe_class_tie. Qed.
Print Assumptions C01_completion_class_is_source.
