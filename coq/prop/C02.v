(* C02 — every operation completes exactly once, with its own result.
   Model: model/DriverKeys.v (result slot, completion routing through the
   Entry, submission queue with its overflow loop).  Which bytes went where is
   judged on the real driver by the oracle of ./check C02. *)
From Compio.Model Require Import Base DriverKeys.
From Compio.Thm Require Import DriverKeysThm.

(* in every reachable state an operation has at most one stored result *)
Theorem C02_result_at_most_once : forall u es s k x,
  steps (init u) es = Some s -> nth_error (keys s) k = Some x -> results x <= 1.
Proof. exact result_at_most_once. Qed.
Print Assumptions C02_result_at_most_once.

(* a second final result for the same operation is never accepted *)
Theorem C02_second_result_rejected : forall s k x,
  nth_error (keys s) k = Some x -> 0 < results x -> step s (ESetResult k) = None.
Proof. exact second_result_rejected. Qed.
Print Assumptions C02_second_result_rejected.

(* the submission-queue overflow loop (push_raw): for EVERY capacity >= 1 and
   EVERY sequence of entries, what reaches the kernel plus what is still queued
   is exactly the pushed sequence: nothing lost, duplicated or reordered *)
Theorem C02_sq_overflow_lossless : forall cap xs,
  1 <= cap ->
  let q := fold_left (sq_push_raw cap) xs (mk_sq [] []) in
  submitted q ++ sq q = xs /\ length (sq q) <= cap.
Proof. exact sq_overflow_lossless. Qed.
Print Assumptions C02_sq_overflow_lossless.

Theorem C02_flush_submits_all : forall q,
  sq (sq_flush q) = [] /\ submitted (sq_flush q) = submitted q ++ sq q.
Proof. exact sq_flush_submits_all. Qed.
Print Assumptions C02_flush_submits_all.

(* a result can only be popped once it is there, and popping consumes it *)
Example C02_nonvacuous :
  steps (init true) [EKeyNew 0; ESubmit 0; EUserPop 0 true] = None /\
  exists s, steps (init true) [EKeyNew 0; ESubmit 0; EUserPop 0 false; ECqeFinal 0;
                               ESetResult 0; EUserPop 0 true; EKeyFree 0] = Some s /\
            steps s [ESetResult 0] = None /\ quiescent s = true.
Proof.
  split; [vm_compute; reflexivity|]. eexists. split; [vm_compute; reflexivity|].
  split; vm_compute; reflexivity.
Qed.
Print Assumptions C02_nonvacuous.

Example C02_sq_cap1_example :
  let q := fold_left (sq_push_raw 1) [10; 11; 12] (mk_sq [] []) in
  submitted q = [10; 11] /\ sq q = [12].
Proof. vm_compute. split; reflexivity. Qed.
Print Assumptions C02_sq_cap1_example.
