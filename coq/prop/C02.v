(* C02 — every operation completes exactly once, with its own result.
   Model: model/DriverKeys.v (result slot, completion routing through the
   Entry, submission queue with its overflow loop).  Which bytes went where is
   judged on the real driver by the oracle of ./check C02. *)
From Compio.Model Require Import Base DriverKeys ResultSlot.
From Compio.Thm Require Import DriverKeysThm ResultSlotThm.
From Compio.Model Require Import PollDrv.
From Compio.Thm Require Import PollDrvThm.
From Compio.Gen Require Frag.
From Compio.Thm Require FragWakeThm.

(* in every reachable state an operation has at most one stored result *)
Theorem C02_result_at_most_once : forall u es s k x,
  steps (init u) es = Some s -> nth_error (keys s) k = Some x -> results x <= 1.
Proof. exact result_at_most_once. Qed.
Print Assumptions C02_result_at_most_once.

(* a second final result for the same operation is never accepted *)
Theorem C02_second_result_rejected : forall s k x,
  nth_error (keys s) k = Some x -> 0 < results x -> step s (ESetResult k) = None.
Proof. exact second_result_rejected. Qed.
Print Assumptions C02_second_result_rejected.

(* the submission-queue overflow loop (push_raw): for EVERY capacity >= 1 and
   EVERY sequence of entries, what reaches the kernel plus what is still queued
   is exactly the pushed sequence: nothing lost, duplicated or reordered *)
Theorem C02_sq_overflow_lossless : forall cap xs,
  1 <= cap ->
  let q := fold_left (sq_push_raw cap) xs (mk_sq [] []) in
  submitted q ++ sq q = xs /\ length (sq q) <= cap.
Proof. exact sq_overflow_lossless. Qed.
Print Assumptions C02_sq_overflow_lossless.

Theorem C02_flush_submits_all : forall q,
  sq (sq_flush q) = [] /\ submitted (sq_flush q) = submitted q ++ sq q.
Proof. exact sq_flush_submits_all. Qed.
Print Assumptions C02_flush_submits_all.

(* a result can only be popped once it is there, and popping consumes it *)
Example C02_nonvacuous :
  steps (init true) [EKeyNew 0; ESubmit 0; EUserPop 0 true] = None /\
  exists s, steps (init true) [EKeyNew 0; ESubmit 0; EUserPop 0 false; ECqeFinal 0;
                               ESetResult 0; EUserPop 0 true; EKeyFree 0] = Some s /\
            steps s [ESetResult 0] = None /\ quiescent s = true.
Proof.
  split; [vm_compute; reflexivity|]. eexists. split; [vm_compute; reflexivity|].
  split; vm_compute; reflexivity.
Qed.
Print Assumptions C02_nonvacuous.

Example C02_sq_cap1_example :
  let q := fold_left (sq_push_raw 1) [10; 11; 12] (mk_sq [] []) in
  submitted q = [10; 11] /\ sq q = [12].
Proof. vm_compute. split; reflexivity. Qed.
Print Assumptions C02_sq_cap1_example.

(* ---- the result slot and its waker (key.rs set_waker / set_result / take_result;
   model/ResultSlot.v, tied to the code by the history acceptor in RunDRV.v) ---- *)

(* "and the waiting task is woken": however many wakers were registered for a pending
   operation (it was polled by different tasks), the completion invokes the one
   registered LAST *)
Theorem C02_completion_wakes_latest_waker : forall o ws w r,
  set_result (set_wakers (SPending o) (ws ++ [w])) r = Some (SReady r, Some w).
Proof. exact completion_wakes_latest. Qed.
Print Assumptions C02_completion_wakes_latest_waker.

(* one result per slot, taken once, unchanged by later waker registrations *)
Theorem C02_slot_result_exactly_once : forall s r s' w,
  set_result s r = Some (s', w) ->
  (forall r', set_result s' r' = None) /\
  take_result s' = Some (STaken, r) /\
  take_result STaken = None /\
  (forall w', take_result (set_waker s' w') = Some (STaken, r)).
Proof. exact result_exactly_once. Qed.
Print Assumptions C02_slot_result_exactly_once.

Theorem C02_take_before_completion_rejected : forall o ws,
  take_result (set_wakers (SPending o) ws) = None.
Proof. exact take_pending_rejected. Qed.
Print Assumptions C02_take_before_completion_rejected.

(* the acceptor the observed histories are run through: once a completion found waker
   w in the slot, nothing else is accepted on the driver thread until w's invocation
   has been observed *)
Theorem C02_wake_is_owed : forall s k r w,
  owed s = None -> lookup (slots s) k = SPending (Some w) ->
  exists s', wstep s 6 k r = Some s' /\ owed s' = Some w /\
    (forall kind key arg, wstrict kind = true -> wstep s' kind key arg = None) /\
    (exists s'', wstep s' 109 w 0 = Some s'' /\ owed s'' = None).
Proof. exact wake_is_owed. Qed.
Print Assumptions C02_wake_is_owed.

Example C02_waker_nonvacuous :
  waccept [108; 0; 1;  108; 0; 2;  6; 0; 7;  109; 2; 0]%N = None /\
  waccept [108; 0; 1;  108; 0; 2;  6; 0; 7;  109; 1; 0]%N <> None /\
  waccept [108; 0; 1;  6; 0; 7;  101; 0; 1]%N <> None.
Proof. exact wakers_replaced_example. Qed.
Print Assumptions C02_waker_nonvacuous.

(* ---- polling driver: per-descriptor queues (model/PollDrv.v) ---- *)

(* "left waiting once everything the operation waits for is ready": in every reachable
   state a descriptor with waiters is armed for exactly the directions that have
   waiters, so a readiness cannot go unnoticed *)
Theorem C02_poll_armed_iff_waiting : forall os fd,
  let s := fold_left pstep os pinit in
  match alookup (pol s) fd with
  | Some a =>
    let q := get_q s fd in
    (a_r a = true <-> rq q <> []) /\ (a_w a = true <-> wq q <> []) /\
    In (a_key a) (rq q ++ wq q)
  | None => rq (get_q s fd) = [] /\ wq (get_q s fd) = []
  end.
Proof. intros os fd. apply armed_iff_waiting. apply reachable_pinv. Qed.
Print Assumptions C02_poll_armed_iff_waiting.

(* "readiness arrives in an unusual order": a readiness the head operation cannot use
   (two descriptors of one socket, another waiter took the data: operate answers
   Pending) leaves queue, tracking marks and registration exactly as before — the next
   readiness is recognised and the operation attempted again *)
Theorem C02_poll_unusable_readiness_is_identity : forall s fd k rest w,
  alookup (reg s) fd = Some (mk_fdq (k :: rest) w) ->
  tracks s k = [mk_track fd Rd false] ->
  let s' := fst (fst (poll_one s fd true false false)) in
  get_q s' fd = mk_fdq (k :: rest) w /\
  tracks s' k = [mk_track fd Rd false] /\
  alookup (pol s') fd = Some (event_of (mk_fdq (k :: rest) w)) /\
  snd (poll_one s fd true false false) = None.
Proof. exact pending_attempt_is_identity. Qed.
Print Assumptions C02_poll_unusable_readiness_is_identity.

(* "outcomes are never swapped": a usable readiness completes the operation queued
   FIRST on that descriptor and direction; the others move up in order *)
Theorem C02_poll_ready_completes_head : forall s fd k rest w,
  alookup (reg s) fd = Some (mk_fdq (k :: rest) w) ->
  tracks s k = [mk_track fd Rd false] ->
  snd (poll_one s fd true false true) = Some k /\
  get_q (fst (fst (poll_one s fd true false true))) fd = mk_fdq rest w.
Proof. exact ready_completes_head. Qed.
Print Assumptions C02_poll_ready_completes_head.

Example C02_poll_nonvacuous :
  let s := fst (push_op (fst (push_op pinit 0 [(5, Rd)])) 1 [(5, Rd)]) in
  alookup (reg s) 5 = Some (mk_fdq [0; 1] []) /\ tracks s 0 = [mk_track 5 Rd false] /\
  snd (poll_one s 5 true false true) = Some 0 /\
  paccept [41;1;5; 42;1;4294967301; 41;2;5; 42;1;4294967301; 43;1;1; 44;1;5; 45;1;0;
           41;1;8589934597; 42;1;4294967301; 42;1;4294967301]%N = None /\
  paccept [41;1;5; 42;1;4294967301; 41;2;5; 42;1;4294967301; 43;1;1; 44;2;5]%N <> None.
Proof. cbv zeta. repeat split; vm_compute; try reflexivity; discriminate. Qed.
Print Assumptions C02_poll_nonvacuous.

(* ---- source tie (translated from the Rust source on every run by tools/rs2v.py
        into gen/Frag.v; an edit of the function changes the generated definition) ---- *)
(* io_uring poll_entries (compio-driver/src/sys/driver/iour/mod.rs): an operation's completion is
   handled as non-final (the model's ECqeMore: result pushed to the multishot queue, key kept in
   in_flight, the leaked reference stays with the kernel) exactly when the condition of the source,
   as it stands now, holds - the kernel's MORE flag and nothing else - and as the final completion
   (ECqeFinal: in_flight.remove + Entry::notify) otherwise *)
Theorem C02_completion_class_is_source : forall more k,
  (if Frag.iour_cqe_more more then ECqeMore k else ECqeFinal k)
  = (if more then ECqeMore k else ECqeFinal k).
Proof. exact FragWakeThm.cqe_class_tie. Qed.
Print Assumptions C02_completion_class_is_source.
