(* RecvMsgOutThm.v — lemmas about model/RecvMsgOut.v (multishot RECVMSG result buffer) *)
From Compio.Model Require Import Base Frame Cmsg RecvMsgOut.
From Compio.Thm Require Import ListFacts FrameThm CmsgThm.

Definition u32 (n : N) : Prop := (n < 256 ^ NN 4)%N.

Lemma hdr_bytes_out_length h : length (hdr_bytes_out h) = OUT_HDR.
Proof. unfold hdr_bytes_out. rewrite !app_length, !le_bytes_length. reflexivity. Qed.

Lemma parse_hdr_out h rest :
  u32 (oh_namelen h) -> u32 (oh_controllen h) -> u32 (oh_payloadlen h) -> u32 (oh_flags h) ->
  parse_hdr (hdr_bytes_out h ++ rest) = h.
Proof.
  intros B1 B2 B3 B4. unfold parse_hdr, hdr_bytes_out. destruct h as [a b c d]. cbn [oh_namelen oh_controllen oh_payloadlen oh_flags] in *.
  f_equal.
  - rewrite <- !app_assoc. apply (get_le_at 4 0 [] a _ eq_refl B1).
  - rewrite <- !app_assoc. apply (get_le_at 4 4 (le_bytes 4 a) b _ (le_bytes_length 4 a) B2).
  - rewrite <- !app_assoc. rewrite (app_assoc (le_bytes 4 a) (le_bytes 4 b)).
    apply (get_le_at 4 8 _ c _); [rewrite app_length, !le_bytes_length; reflexivity|exact B3].
  - rewrite <- !app_assoc.
    rewrite (app_assoc (le_bytes 4 a) (le_bytes 4 b)), (app_assoc (_ ++ _) (le_bytes 4 c)).
    apply (get_le_at 4 12 _ d _); [rewrite !app_length, !le_bytes_length; reflexivity|exact B4].
Qed.

Lemma lor_trunc_u32 f : u32 f -> u32 (N.lor f MSG_TRUNC).
Proof.
  unfold u32, MSG_TRUNC. intros B. change (256 ^ NN 4)%N with (2 ^ 32)%N in *.
  destruct (N.eq_dec f 0) as [->|Nz]; [cbn; lia|].
  apply N.log2_lt_pow2; [|rewrite N.log2_lor].
  - destruct (N.eq_dec (N.lor f 32) 0) as [E|E]; [apply N.lor_eq_0_iff in E; lia|lia].
  - apply N.log2_lt_pow2 in B; [|lia]. change (N.log2 32) with 5%N. lia.
Qed.

(* ---------------------------------------------------------------------- *)
(* round trip with the kernel's layout: exact slices, whatever was in the
   buffer before                                                            *)

Section Fill.
  Variables (old : list byte) (clen : nat) (name ctl payload : list byte) (flags : N) (wt : bool).
  Hypothesis Hname : length name <= NLEN.
  Hypothesis Hctl : length ctl <= clen.
  Hypothesis Hold : OUT_HDR + NLEN + clen <= length old.
  Hypothesis Hclen : u32 (NN clen).
  Hypothesis Hpay : u32 (NN (length payload)).
  Hypothesis Hflags : u32 flags.

  Local Notation stored := (firstn (payload_space old clen) payload).
  Local Notation buf := (kernel_fill old clen name ctl payload flags wt).
  Local Notation hdr := (mkoh (NN (length name)) (NN (length ctl))
                  (NN (if wt then length payload else length stored))
                  (if Nat.ltb (length stored) (length payload) then N.lor flags MSG_TRUNC else flags)).
  Local Notation S1 := (sub_list old (OUT_HDR + length name) (NLEN - length name)).
  Local Notation S2 := (sub_list old (OUT_HDR + NLEN + length ctl) (clen - length ctl)).

  Lemma fill_shape : buf = hdr_bytes_out hdr ++ name ++ S1 ++ ctl ++ S2 ++ stored.
  Proof. reflexivity. Qed.

  Lemma S1_length : length S1 = NLEN - length name.
  Proof. unfold sub_list. rewrite firstn_length, skipn_length. unfold OUT_HDR, NLEN in *. lia. Qed.

  Lemma S2_length : length S2 = clen - length ctl.
  Proof. unfold sub_list. rewrite firstn_length, skipn_length. unfold OUT_HDR, NLEN in *. lia. Qed.

  Lemma stored_le : length stored <= length payload.
  Proof. rewrite firstn_length. lia. Qed.

  Lemma hdr_u32 : u32 (oh_namelen hdr) /\ u32 (oh_controllen hdr) /\ u32 (oh_payloadlen hdr) /\ u32 (oh_flags hdr).
  Proof.
    cbn [oh_namelen oh_controllen oh_payloadlen oh_flags]. pose proof stored_le as Ls.
    unfold u32, NN, NLEN in *. change (256 ^ N.of_nat 4)%N with 4294967296%N in *.
    repeat split; try lia.
    - destruct wt; lia.
    - destruct (Nat.ltb _ _); [apply lor_trunc_u32|]; exact Hflags.
  Qed.

  Lemma fill_parse : parse_hdr buf = hdr.
  Proof. rewrite fill_shape. destruct hdr_u32 as (A & B & C & D). apply parse_hdr_out; assumption. Qed.

  Lemma fill_length : length buf = OUT_HDR + NLEN + clen + length stored.
  Proof.
    rewrite fill_shape, !app_length, hdr_bytes_out_length, S1_length, S2_length. lia.
  Qed.

  Theorem fill_new : rm_new buf clen = Ok tt.
  Proof. unfold rm_new. rewrite fill_length. destruct (Nat.ltb_spec (OUT_HDR + NLEN + clen + length stored) (OUT_HDR + NLEN + clen)); [lia|reflexivity]. Qed.

  Theorem fill_data : rm_data buf clen = Ok (OUT_HDR + NLEN + clen, stored).
  Proof.
    unfold rm_data. rewrite fill_length.
    destruct (Nat.ltb_spec (OUT_HDR + NLEN + clen + length stored) (OUT_HDR + NLEN + clen)); [lia|].
    do 2 f_equal. rewrite fill_shape.
    rewrite !app_assoc. apply skipn_app_exact0.
    rewrite !app_length, hdr_bytes_out_length, S1_length, S2_length. lia.
  Qed.

  Theorem fill_ancillary : rm_ancillary buf = Ok (OUT_HDR + NLEN, ctl).
  Proof.
    unfold rm_ancillary. rewrite fill_parse, fill_length. cbn [oh_controllen].
    destruct (N.ltb_spec (NN (OUT_HDR + NLEN + clen + length stored)) (NN (OUT_HDR + NLEN) + NN (length ctl))) as [X|X];
      [unfold NN in X; lia|].
    do 2 f_equal. unfold sub_list, nn, NN. rewrite Nat2N.id, fill_shape.
    rewrite (app_assoc (hdr_bytes_out hdr)), (app_assoc (_ ++ name)).
    rewrite (skipn_app_exact0 _ _ (OUT_HDR + NLEN)).
    - apply firstn_app_exact0. reflexivity.
    - rewrite !app_length, hdr_bytes_out_length, S1_length. lia.
  Qed.

  Theorem fill_addr : rm_addr buf = match name with [] => ANone | _ => ASome name end.
  Proof.
    unfold rm_addr. rewrite fill_parse. cbn [oh_namelen].
    destruct name as [|x nm] eqn:En; [reflexivity|]. rewrite <- En in *.
    assert (Ln : 1 <= length name) by (rewrite En; cbn [length]; lia).
    destruct (N.eqb_spec (NN (length name)) 0) as [X|X]; [unfold NN in X; lia|].
    destruct (N.ltb_spec (NN NLEN) (NN (length name))) as [Y|Y]; [unfold NN in Y; lia|].
    f_equal. unfold sub_list, nn, NN. rewrite Nat2N.id, fill_shape.
    rewrite (skipn_app_exact0 _ _ OUT_HDR (hdr_bytes_out_length hdr)).
    apply firstn_app_exact0. reflexivity.
  Qed.

  Theorem fill_flags :
    rm_flags buf = if Nat.ltb (length stored) (length payload) then N.lor flags MSG_TRUNC else flags.
  Proof. unfold rm_flags. rewrite fill_parse. reflexivity. Qed.
End Fill.

(* C13_recvmsg_roundtrip *)
Theorem kernel_roundtrip old clen name ctl payload flags wt :
  length name <= NLEN -> length ctl <= clen -> OUT_HDR + NLEN + clen <= length old ->
  u32 (NN clen) -> u32 (NN (length payload)) -> u32 flags ->
  let buf := kernel_fill old clen name ctl payload flags wt in
  let stored := firstn (payload_space old clen) payload in
  rm_new buf clen = Ok tt /\
  rm_data buf clen = Ok (OUT_HDR + NLEN + clen, stored) /\
  rm_ancillary buf = Ok (OUT_HDR + NLEN, ctl) /\
  rm_addr buf = match name with [] => ANone | _ => ASome name end /\
  rm_flags buf = (if Nat.ltb (length stored) (length payload) then N.lor flags MSG_TRUNC else flags).
Proof.
  intros H1 H2 H3 H4 H5 H6 buf stored.
  split; [apply fill_new; assumption|]. split; [apply fill_data; assumption|].
  split; [apply fill_ancillary; assumption|]. split; [apply fill_addr; assumption|apply fill_flags; assumption].
Qed.

(* the control messages the kernel delivered come back from the iterator,
   none of the stale ones *)
Theorem kernel_cmsgs old clen name ms ctl payload flags wt wants dw :
  layout ms ctl -> Forall msg_ok ms -> ms <> [] ->
  length name <= NLEN -> length ctl <= clen -> OUT_HDR + NLEN + clen <= length old ->
  u32 (NN clen) -> u32 (NN (length payload)) -> u32 flags ->
  exists anc items,
    rm_ancillary (kernel_fill old clen name ctl payload flags wt) = Ok (OUT_HDR + NLEN, anc) /\
    length anc = length ctl /\
    iterate anc wants dw = Ok items /\ map (item_msg anc) items = ms.
Proof.
  intros L F Ne H1 H2 H3 H4 H5 H6.
  destruct (iterate_layout ms ctl wants dw L F Ne) as (items & I & M & _).
  exists ctl, items. split; [apply fill_ancillary; assumption|]. split; [reflexivity|]. split; assumption.
Qed.

(* ---------------------------------------------------------------------- *)
(* arbitrary buffer contents                                                *)

Theorem rm_bounds buf clen :
  rm_new buf clen = Ok tt ->
  (exists d, rm_data buf clen = Ok (OUT_HDR + NLEN + clen, d) /\
             OUT_HDR + NLEN + clen + length d = length buf) /\
  (rm_ancillary buf = Panic P_SLICE_INDEX \/
   exists a, rm_ancillary buf = Ok (OUT_HDR + NLEN, a) /\
             NN (length a) = oh_controllen (parse_hdr buf) /\
             OUT_HDR + NLEN + length a <= length buf) /\
  ((oh_controllen (parse_hdr buf) <= NN clen)%N -> exists a, rm_ancillary buf = Ok (OUT_HDR + NLEN, a)) /\
  (forall bs, rm_addr buf = ASome bs -> OUT_HDR + length bs <= length buf /\ length bs <= NLEN).
Proof.
  unfold rm_new. destruct (Nat.ltb_spec (length buf) (OUT_HDR + NLEN + clen)) as [X|X]; [discriminate|].
  intros _. split; [|split; [|split]].
  - unfold rm_data. destruct (Nat.ltb_spec (length buf) (OUT_HDR + NLEN + clen)); [lia|].
    eexists. split; [reflexivity|]. rewrite skipn_length. lia.
  - unfold rm_ancillary. set (cl := oh_controllen (parse_hdr buf)).
    destruct (N.ltb_spec (NN (length buf)) (NN (OUT_HDR + NLEN) + cl)) as [Y|Y]; [left; reflexivity|right].
    eexists. split; [reflexivity|].
    assert (La : length (sub_list buf (OUT_HDR + NLEN) (nn cl)) = nn cl).
    { unfold sub_list. rewrite firstn_length, skipn_length. unfold nn, NN in *. lia. }
    rewrite La. unfold nn, NN in *. split; [apply N2Nat.id|lia].
  - intros Hc. unfold rm_ancillary.
    destruct (N.ltb_spec (NN (length buf)) (NN (OUT_HDR + NLEN) + oh_controllen (parse_hdr buf))) as [Y|Y];
      [unfold NN in *; lia|]. eexists. reflexivity.
  - intros bs. unfold rm_addr. set (nl := oh_namelen (parse_hdr buf)).
    destruct (N.eqb_spec nl 0); [discriminate|].
    destruct (N.ltb_spec (NN NLEN) nl) as [Y|Y]; [discriminate|]. intros E. injection E as <-.
    unfold sub_list. rewrite firstn_length, skipn_length. unfold nn, NN, OUT_HDR, NLEN in *. lia.
Qed.
