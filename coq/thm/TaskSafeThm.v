(* TaskSafeThm.v — consequences of the invariants of TaskThm.v: the theorems of
   C04 over every reachable state and the refutation witnesses for the earlier
   code versions. *)
From Compio.Model Require Import Base Task.
From Compio.Thm Require Import TaskThm TaskInvThm.
Local Open Scope nat_scope.
Local Opaque Nat.ltb Nat.eqb Nat.leb.

(* ---------------------------------------------------------------------- *)
(* every reachable state                                                    *)

Lemma reach_inv : forall ls s s', Inv s -> steps fixed s ls = Some s' -> Inv s'.
Proof.
  induction ls as [|l ls IH]; intros s s' HI Hs; cbn in Hs.
  - injection Hs as <-. assumption.
  - destruct (step fixed s l) as [s1|] eqn:E; [|discriminate].
    eapply IH; [eapply inv_step; eauto | exact Hs].
Qed.

Lemma reachable_inv : forall ls s, steps fixed init ls = Some s -> Inv s.
Proof. intros ls s H. eapply reach_inv; [exact inv_init | exact H]. Qed.

Lemma steps_app c : forall l1 l2 s s1, steps c s l1 = Some s1 -> steps c s (l1 ++ l2) = steps c s1 l2.
Proof.
  induction l1 as [|l l1 IH]; intros l2 s s1 H; cbn in *.
  - injection H as <-. reflexivity.
  - destruct (step c s l); [|discriminate]. eapply IH; eauto.
Qed.

(* ---------------------------------------------------------------------- *)
(* C04_poll_home_only                                                       *)

Lemma run_snapshot s s' c : step fixed s ERunStart = Some s' -> ep s' = ERun c ->
  c = completed (wd s) /\ not_cancelled (wd s) = true.
Proof.
  intros Hs. dstate s. unfold step in Hs; cbn in Hs. guards Hs; injection Hs as <-; gfacts; cbn; intros He;
  try discriminate He. injection He as <-. split; [reflexivity|]. 
  unfold cancelled in *; cbn in *. destruct nc; [reflexivity|discriminate E0].
Qed.

Lemma poll_needs_run s s' : step fixed s EPollBegin = Some s' -> exists c, ep s = ERun c.
Proof.
  intros Hs. dstate s. unfold step in Hs; cbn in Hs. destruct ep0; try discriminate Hs. eexists; reflexivity.
Qed.

Lemma poll_home_only : forall ls s l s',
  steps fixed init ls = Some s -> step fixed s l = Some s' -> polls s' <> polls s ->
  l = EPollBegin /\ thread_of l = THome /\ exec_label l = true
  /\ ep s = ERun false /\ stor s = SFuture /\ completed (wd s) = false.
Proof.
  intros ls s l s' Hr Hs Hp.
  assert (l = EPollBegin) by (eapply polls_only_exec; eauto). subst l.
  destruct (reachable_inv _ _ Hr) as [_ [_ Hst _ _] _ _ _ _].
  destruct (poll_needs_run _ _ Hs) as [c Hc].
  unfold stage_ok in Hst. rewrite Hc in Hst. destruct Hst as [-> (H1 & _ & H3 & _)].
  repeat split; auto.
Qed.

(* ---------------------------------------------------------------------- *)
(* C04_drop_once                                                            *)

Lemma stage_counts s : Inv s ->
  fdrops s <= 1 /\ rtakes s + rdrops s <= 1.
Proof.
  intros [_ [_ Hst _ _] _ _ _ _]. unfold stage_ok, st0, st1, st2, st3, resphase in Hst.
  destruct (ep s); destruct (completed (wd s)); destruct (has_result (wd s));
    destruct (f_early (fp s)); destruct (h_holdsres (hp s)); intuition (try discriminate; try lia).
Qed.

Lemma quiescent_counts s : Inv s -> quiescent s = true ->
  fdrops s = 1 /\ deallocs s = 1 /\ alloc s = false /\ count (wd s) = 0
  /\ rtakes s + rdrops s = b2n (completed (wd s)) /\ slot s = false.
Proof.
  intros [[Hrc Hfp Hal Hde] [_ Hst _ _] [_ _ Hsl _ _] _ _ _] Hq.
  unfold quiescent in Hq. apply andb_prop in Hq. destruct Hq as [Hq Hf].
  apply andb_prop in Hq. destruct Hq as [Hq Hw]. apply andb_prop in Hq. destruct Hq as [He Hh].
  destruct (ep s) eqn:Ee; try discriminate He. destruct (hp s) eqn:Eh; try discriminate Hh.
  destruct (fp s) eqn:Ef; try discriminate Hf.
  apply Nat.eqb_eq in Hw.
  unfold stage_ok, slot_ok, st1, st3, resphase in *. rewrite ?Ee, ?Eh, ?Ef in *. cbn in *.
  destruct (completed (wd s)); destruct (has_result (wd s)); cbn in *;
    intuition (try discriminate; try lia).
Qed.

Lemma drop_once : forall ls s, steps fixed init ls = Some s ->
  fdrops s <= 1 /\ rtakes s + rdrops s <= 1 /\ deallocs s <= 1
  /\ (deallocs s = 1 -> count (wd s) = 0 /\ alloc s = false)
  /\ (alloc s = false -> deallocs s = 1 /\ fp s = FDone)
  /\ (quiescent s = true ->
        fdrops s = 1 /\ deallocs s = 1 /\ rtakes s + rdrops s = b2n (completed (wd s))).
Proof.
  intros ls s Hr. pose proof (reachable_inv _ _ Hr) as HI.
  destruct (stage_counts _ HI) as [H1 H2].
  pose proof HI as [[Hrc Hfp Hal Hde] _ _ _ _ _].
  split; [exact H1|]. split; [exact H2|].
  split; [rewrite Hde; destruct (is_FDone (fp s)); cbn; lia|].
  split.
  { intros Hd. rewrite Hde in Hd. destruct (fp s) eqn:Ef; cbn in Hd; try discriminate Hd.
    cbn in Hfp. rewrite Hal. cbn. split; [|reflexivity].
    symmetry in Hfp. apply Nat.ltb_ge in Hfp. lia. }
  split.
  { intros Ha. rewrite Hal in Ha. destruct (fp s) eqn:Ef; cbn in Ha; try discriminate Ha.
    rewrite Hde. cbn. split; reflexivity. }
  intros Hq. destruct (quiescent_counts _ HI Hq) as (A & B & _ & _ & C & _). auto.
Qed.

(* after the dealloc nobody holds a reference: no thread is at a point from
   which a label touching the allocation is enabled *)
Lemma nobody_after_dealloc : forall ls s, steps fixed init ls = Some s -> alloc s = false ->
  ep s = EGone /\ hp s = HGone /\ lw s + wi s + we s + ws s + wl s + wh s + wf s = 0 /\ fp s = FDone.
Proof.
  intros ls s Hr Ha. destruct (reachable_inv _ _ Hr) as [[Hrc Hfp Hal Hde] _ _ _ _ _].
  rewrite Hal in Ha. destruct (fp s) eqn:Ef; cbn in Ha; try discriminate Ha. cbn in Hfp.
  symmetry in Hfp. apply Nat.ltb_ge in Hfp.
  destruct (ep s); destruct (hp s); cbn in Hrc; try lia. repeat split; try reflexivity. lia.
Qed.

(* the label that deallocates runs at count 0 *)
Lemma dealloc_after_last_ref : forall ls s s',
  steps fixed init ls = Some s -> step fixed s FinDealloc = Some s' ->
  count (wd s) = 0 /\ alloc s = true /\ deallocs s = 0 /\ deallocs s' = 1 /\ alloc s' = false.
Proof.
  intros ls s s' Hr Hs. destruct (reachable_inv _ _ Hr) as [[Hrc Hfp Hal Hde] _ _ _ _ _].
  dstate s. unfold step in Hs; cbn in Hs. destruct fp0; try discriminate Hs. injection Hs as <-.
  cbn in *. subst. symmetry in Hfp. apply Nat.ltb_ge in Hfp. repeat split; try reflexivity. lia.
Qed.

(* ---------------------------------------------------------------------- *)
(* C04_output_reaches_handle                                                *)

Lemma output_reaches_handle : forall ls s, steps fixed init ls = Some s ->
  completed (wd s) = true -> hlast s = Some PPending ->
  woken s = true \/ (ep s = EWake true /\ exists s', step fixed s EWakeH = Some s' /\ woken s' = true).
Proof.
  intros ls s Hr Hc Hl. destruct (reachable_inv _ _ Hr) as [_ _ _ [_ _ Hp] _ _].
  destruct (Hp Hc Hl) as [Hw|He]; [left; exact Hw|right].
  split; [exact He|]. dstate s. cbn in He. subst ep0. eexists. split; [reflexivity|]. cbn.
  apply orb_true_r.
Qed.

(* ---------------------------------------------------------------------- *)
(* C04_cancel_detach                                                        *)

Lemma handle_drop_cancels : forall ls s, steps fixed init ls = Some s ->
  hdropped s = true -> not_cancelled (wd s) = false.
Proof. intros ls s Hr. destruct (reachable_inv _ _ Hr) as [_ _ _ _ _ [_ _ H _]]. exact H. Qed.

Lemma not_cancelled_unless : forall ls s, steps fixed init ls = Some s ->
  hcanc s = false -> e_past (ep s) = false -> not_cancelled (wd s) = true.
Proof.
  intros ls s Hr Hh He. destruct (reachable_inv _ _ Hr) as [_ _ _ _ _ [_ H _ _]].
  destruct (not_cancelled (wd s)); [reflexivity|]. destruct (H eq_refl); congruence.
Qed.

Lemma detach_keeps_running s s' : step fixed s LDetach = Some s' ->
  detached s' = true /\ hp s' = HGone /\ hcanc s' = hcanc s /\ ep s' = ep s /\ hot s' = hot s
  /\ stor s' = stor s /\ not_cancelled (wd s') = not_cancelled (wd s)
  /\ completed (wd s') = completed (wd s).
Proof.
  intros Hs. dstate s. unfold step in Hs; cbn in Hs. guards Hs; injection Hs as <-; cbn; repeat split; reflexivity.
Qed.

Definition run_to_completion (o : outcome) : list label :=
  [ERunStart; EPollBegin; EPollEnd o; EWriteRes; EFinishRun].

(* a task whose handle was detached runs to completion like any other *)
Lemma detached_task_completes : forall o, o <> OPending ->
  exists s s', steps fixed init [LDetach] = Some s /\ detached s = true /\ hcanc s = false
               /\ steps fixed s (run_to_completion o) = Some s' /\ completed (wd s') = true
               /\ has_result (wd s') = true /\ polls s' = 1.
Proof.
  intros o Ho. destruct o; [congruence| |]; do 2 eexists;
  (split; [vm_compute; reflexivity|]); vm_compute; repeat split; reflexivity.
Qed.

(* a panic is an outcome like any other: it differs from Ready only in the
   payload of the task's own result *)
Lemma panic_confined s :
  match step fixed s (EPollEnd OReady), step fixed s (EPollEnd OPanic) with
  | Some a, Some b => b = set_ep (EWrite true) a /\ ep a = EWrite false
  | None, None => True
  | _, _ => False
  end.
Proof. dstate s. cbn. destruct ep0; cbn; auto. Qed.

(* ---------------------------------------------------------------------- *)
(* C04_teardown                                                             *)

Lemma teardown_safe : forall ls s, steps fixed init ls = Some s ->
  (* whoever holds a pointer to Shared keeps the executor waiting *)
  ((0 < wh s \/ h_hold (hp s) = true) ->
     shfreed s = false /\ scheduling (wd s) = true /\ e_passed (ep s) = false)
  (* once Shared is freed every load of the pointer sees null and nobody holds it *)
  /\ (shfreed s = true -> shnull s = true /\ wh s = 0 /\ h_hold (hp s) = false).
Proof.
  intros ls s Hr. destruct (reachable_inv _ _ Hr) as [_ _ _ _ [Ho Hp Hn Hf] _].
  split.
  - intros Hh.
    assert (Hpass : e_passed (ep s) = false).
    { destruct (e_passed (ep s)) eqn:E; [|reflexivity]. destruct (Hp eq_refl) as [A B].
      destruct Hh as [Hh|Hh]; [lia|congruence]. }
    split; [|split; [|exact Hpass]].
    + destruct (shfreed s) eqn:E; [|reflexivity]. rewrite (Hf eq_refl) in Hpass. discriminate.
    + destruct (scheduling (wd s)); [reflexivity|]. cbn in Ho.
      destruct Hh as [Hh|Hh]; [lia|].
      destruct (hp s) as [| | | | | | | | |dr p| | |]; try discriminate Hh. destruct p; try discriminate Hh. cbn in Ho. lia.
  - intros Hfr. pose proof (Hf Hfr) as He. rewrite He in *. cbn in *.
    destruct (Hp eq_refl). auto.
Qed.

(* ---------------------------------------------------------------------- *)
(* the earlier code versions violate the properties (witness interleavings)  *)

(* Remote::poll before ae1ad32: the handle is inside the SETTING_WAKER section
   when the task completes, the executor skips the wake, the poll returns Pending *)
Definition witness_prefix_poll : list label :=
  [HPollStart; HTopStep; HCritStep false; HWriteWk;
   ERunStart; EPollBegin; EPollEnd OReady; EWriteRes; EFinishRun;
   HFinTrue;
   EWakeH; EDropSetL; EDropNullL; EDropFutL; EDropWkL; EWaitDone; EDecr].

Lemma remote_poll_prefix_refuted :
  exists s, steps prefix_poll init witness_prefix_poll = Some s
            /\ completed (wd s) = true /\ hlast s = Some PPending
            /\ woken s = false /\ ep s = EGone /\ bad s = false.
Proof. eexists. split; [vm_compute; reflexivity|]. vm_compute. repeat split; reflexivity. Qed.

(* the same interleaving on the current code: the poll goes round again *)
Lemma remote_poll_fixed_on_witness :
  exists s, steps fixed init witness_prefix_poll = Some s /\ hp s = HTop true false /\ hlast s = None.
Proof. eexists. split; [vm_compute; reflexivity|]. vm_compute. split; reflexivity. Qed.

(* Executor::tick before fd7e5a5: a waker holds the pointer, the task finishes in
   tick and leaves the queue, the executor is dropped, the waker pushes *)
Definition witness_prefix_tickwait : list label :=
  [ERunStart; EPollBegin; LCloneW; LCloneW; EPollEnd OPending; WSendOut;
   WStart; WSched ALoad;
   LWake; ERunStart; EPollBegin; EPollEnd OReady; EWriteRes; EFinishRun; EWakeH;
   EDropSetL; EDropNullL; EDropFutL; EDropWkL; EDecr;
   ETeardownGone; ESharedFree;
   WSched APush].

Lemma tick_prefix_refuted :
  exists s, steps prefix_tickwait init witness_prefix_tickwait = Some s /\ bad s = true /\ shfreed s = true.
Proof. eexists. split; [vm_compute; reflexivity|]. vm_compute. split; reflexivity. Qed.

Lemma tick_fixed_on_witness : steps fixed init witness_prefix_tickwait = None.
Proof. vm_compute. reflexivity. Qed.

(* Remote::schedule before 73f1b24: waker B takes the early return and clears the
   SCHEDULING bit of waker A, Executor::drop stops waiting, A pushes *)
Definition witness_prefix_owner : list label :=
  [ERunStart; EPollBegin; LCloneW; LCloneW; EPollEnd OPending; WSendOut; WSendOut;
   WStart; WSched ALoad;
   WStart; WSched AEarly;
   ETeardown; EDropSetL; EDropNullL; EDropFutL; EDropWkL; EWaitDone; EDecr; ESharedFree;
   WSched APush].

Lemma schedule_prefix_refuted :
  exists s, steps prefix_owner init witness_prefix_owner = Some s /\ bad s = true /\ shfreed s = true.
Proof. eexists. split; [vm_compute; reflexivity|]. vm_compute. split; reflexivity. Qed.

Lemma schedule_fixed_on_witness : steps fixed init witness_prefix_owner = None.
Proof. vm_compute. reflexivity. Qed.

(* Remote::poll before 87d5f4f: the waker of an earlier poll is never dropped *)
Definition witness_prefix_wkleak : list label :=
  [HPollStart; HTopStep; HCritStep false; HWriteWk; HFinTrue;
   HPollStart;
   ERunStart; EPollBegin; EPollEnd OReady; EWriteRes; EFinishRun; EWakeH;
   HTopStep;
   EDropSetL; EDropNullL; EDropFutL; EDropWkL; EWaitDone; EDecr;
   HCritStep false; HFinFalse; HTopStep; HTakeRes; HDecr;
   FinRes; FinWk; FinDealloc].

Lemma waker_leak_prefix_refuted :
  exists s, steps prefix_wkleak init witness_prefix_wkleak = Some s
            /\ quiescent s = true /\ slot s = true /\ bad s = false.
Proof. eexists. split; [vm_compute; reflexivity|]. vm_compute. repeat split; reflexivity. Qed.

Lemma waker_released : forall ls s, steps fixed init ls = Some s -> quiescent s = true -> slot s = false.
Proof.
  intros ls s Hr Hq. pose proof (reachable_inv _ _ Hr) as HI.
  destruct (quiescent_counts _ HI Hq) as (_ & _ & _ & _ & _ & H). exact H.
Qed.

Lemma waker_fixed_on_witness :
  exists s, steps fixed init witness_prefix_wkleak = Some s /\ quiescent s = true /\ slot s = false.
Proof. eexists. split; [vm_compute; reflexivity|]. vm_compute. split; reflexivity. Qed.
