(* TaskInvThm.v — the invariant of the task LTS is preserved by every label of
   the current code, hence holds in every reachable state. *)
From Compio.Model Require Import Base Task.
From Compio.Thm Require Import TaskThm.
From Compio.Thm Require Import TaskP_rc1 TaskP_rc2 TaskP_rc3 TaskP_rc4 TaskP_rc5 TaskP_rc6 TaskP_rc7 TaskP_rc8.
From Compio.Thm Require Import TaskP_sched1 TaskP_sched2 TaskP_sched3 TaskP_sched4 TaskP_sched5 TaskP_sched6 TaskP_sched7 TaskP_sched8.
From Compio.Thm Require Import TaskP_canc1 TaskP_canc2 TaskP_canc3 TaskP_canc4 TaskP_canc5 TaskP_canc6 TaskP_canc7 TaskP_canc8.
From Compio.Thm Require Import TaskP_res1 TaskP_res2 TaskP_res3 TaskP_res4 TaskP_res5 TaskP_res6 TaskP_res7 TaskP_res8.
From Compio.Thm Require Import TaskP_slot1 TaskP_slot2 TaskP_slot3 TaskP_slot4 TaskP_slot5 TaskP_slot6 TaskP_slot7 TaskP_slot8.
From Compio.Thm Require Import TaskP_pend1 TaskP_pend2 TaskP_pend3 TaskP_pend4 TaskP_pend5 TaskP_pend6 TaskP_pend7 TaskP_pend8.
From Compio.Thm Require Import TaskP_polls1 TaskP_polls2 TaskP_polls3 TaskP_polls4 TaskP_polls5 TaskP_polls6 TaskP_polls7 TaskP_polls8.
From Compio.Thm Require Import TaskP_fdrops1 TaskP_fdrops2 TaskP_fdrops3 TaskP_fdrops4 TaskP_fdrops5 TaskP_fdrops6 TaskP_fdrops7 TaskP_fdrops8.
Local Open Scope nat_scope.

Lemma part_cases l : part l = 1 \/ part l = 2 \/ part l = 3 \/ part l = 4 \/ part l = 5 \/ part l = 6 \/ part l = 7 \/ part l = 8.
Proof. destruct l; try (cbn; auto 9); destruct a; cbn; auto 9. Qed.

Lemma rc_pres s l s' : Grc s -> step fixed s l = Some s' -> Grc s'.
Proof.
  intros. destruct (part_cases l) as [P|[P|[P|[P|[P|[P|[P|P]]]]]]];
  [eapply rc_pres_1|eapply rc_pres_2|eapply rc_pres_3|eapply rc_pres_4|eapply rc_pres_5|eapply rc_pres_6|eapply rc_pres_7|eapply rc_pres_8]; eauto.
Qed.

Lemma sched_pres s l s' : Gsched s -> step fixed s l = Some s' -> Gsched s'.
Proof.
  intros. destruct (part_cases l) as [P|[P|[P|[P|[P|[P|[P|P]]]]]]];
  [eapply sched_pres_1|eapply sched_pres_2|eapply sched_pres_3|eapply sched_pres_4|eapply sched_pres_5|eapply sched_pres_6|eapply sched_pres_7|eapply sched_pres_8]; eauto.
Qed.

Lemma canc_pres s l s' : Gcanc s -> step fixed s l = Some s' -> Gcanc s'.
Proof.
  intros. destruct (part_cases l) as [P|[P|[P|[P|[P|[P|[P|P]]]]]]];
  [eapply canc_pres_1|eapply canc_pres_2|eapply canc_pres_3|eapply canc_pres_4|eapply canc_pres_5|eapply canc_pres_6|eapply canc_pres_7|eapply canc_pres_8]; eauto.
Qed.

Lemma res_pres s l s' : Grc s -> Gres s -> step fixed s l = Some s' -> Gres s'.
Proof.
  intros. destruct (part_cases l) as [P|[P|[P|[P|[P|[P|[P|P]]]]]]];
  [eapply res_pres_1|eapply res_pres_2|eapply res_pres_3|eapply res_pres_4|eapply res_pres_5|eapply res_pres_6|eapply res_pres_7|eapply res_pres_8]; eauto.
Qed.

Lemma slot_pres s l s' : Grc s -> Gres s -> Gcanc s -> Gslot s -> step fixed s l = Some s' -> Gslot s'.
Proof.
  intros. destruct (part_cases l) as [P|[P|[P|[P|[P|[P|[P|P]]]]]]];
  [eapply slot_pres_1|eapply slot_pres_2|eapply slot_pres_3|eapply slot_pres_4|eapply slot_pres_5|eapply slot_pres_6|eapply slot_pres_7|eapply slot_pres_8]; eauto.
Qed.

Lemma pend_pres s l s' : Grc s -> Gres s -> Gslot s -> Gpend s -> step fixed s l = Some s' -> Gpend s'.
Proof.
  intros. destruct (part_cases l) as [P|[P|[P|[P|[P|[P|[P|P]]]]]]];
  [eapply pend_pres_1|eapply pend_pres_2|eapply pend_pres_3|eapply pend_pres_4|eapply pend_pres_5|eapply pend_pres_6|eapply pend_pres_7|eapply pend_pres_8]; eauto.
Qed.

Record Inv (s : st) : Prop := mkInv {
  inv_rc : Grc s; inv_res : Gres s; inv_slot : Gslot s; inv_pend : Gpend s;
  inv_sched : Gsched s; inv_canc : Gcanc s
}.

Lemma inv_init : Inv init.
Proof.
  repeat constructor; unf; cbn; intuition (try discriminate; auto).
Qed.

Lemma inv_step s l s' : Inv s -> step fixed s l = Some s' -> Inv s'.
Proof.
  intros [] Hs. constructor.
  - eapply rc_pres; eauto.
  - eapply res_pres; eauto.
  - eapply slot_pres; eauto.
  - eapply pend_pres; eauto.
  - eapply sched_pres; eauto.
  - eapply canc_pres; eauto.
Qed.

Lemma polls_only_exec s l s' : step fixed s l = Some s' -> polls s' <> polls s -> l = EPollBegin.
Proof.
  intros. destruct (part_cases l) as [P|[P|[P|[P|[P|[P|[P|P]]]]]]];
  [eapply polls_only_exec_1|eapply polls_only_exec_2|eapply polls_only_exec_3
  |eapply polls_only_exec_4|eapply polls_only_exec_5|eapply polls_only_exec_6|eapply polls_only_exec_7|eapply polls_only_exec_8]; eauto.
Qed.

Lemma fdrops_only_exec s l s' : step fixed s l = Some s' -> fdrops s' <> fdrops s ->
  exec_label l = true /\ thread_of l = THome.
Proof.
  intros. destruct (part_cases l) as [P|[P|[P|[P|[P|[P|[P|P]]]]]]];
  [eapply fdrops_only_exec_1|eapply fdrops_only_exec_2|eapply fdrops_only_exec_3
  |eapply fdrops_only_exec_4|eapply fdrops_only_exec_5|eapply fdrops_only_exec_6|eapply fdrops_only_exec_7|eapply fdrops_only_exec_8]; eauto.
Qed.
