(* TlsShimThm.v — lemmas about model/TlsShim.v (property C15). *)
From Compio.Model Require Import Base IoHelpers Compat TlsShim.
From Compio.Thm Require Import CompatThm.

Local Ltac inv H := inversion H; subst; clear H.

(* ---------------------------------------------------------------------- *)
(* small facts                                                              *)

Lemma count_app {A} (f : A -> bool) l1 l2 : count f (l1 ++ l2) = count f l1 + count f l2.
Proof. unfold count. rewrite filter_app, app_length. reflexivity. Qed.

Lemma rbind_ok {A B} (r : R A) (f : A -> R B) b :
  rbind r f = Ok b -> exists a, r = Ok a /\ f a = Ok b.
Proof. destruct r; cbn; intros H; [eauto|discriminate]. Qed.

Lemma unflushed_app l1 l2 : unflushed (l1 ++ l2) = fold_left unflushed_step l2 (unflushed l1).
Proof. unfold unflushed. apply fold_left_app. Qed.

Lemma fbw_app l1 l2 : fbw (l1 ++ l2) = fold_left fbw_step l2 (fbw l1).
Proof. unfold fbw. apply fold_left_app. Qed.

(* ---------------------------------------------------------------------- *)
(* what one callback does, as a relation                                    *)

Section Gen.
  Context {T : Type} (tp : transport T).

  Definition flush_first (s : shim) : bool := negb (handshaken s) && written s.

  Inductive cb_effect (s : shim) (t : T) : cb -> list ev -> cbret -> shim -> T -> Prop :=
  | EffR1 cap a t1 :
      flush_first s = false -> t_read tp t cap = Ok (a, t1) ->
      cb_effect s t (CbRead cap) [EvT (TcRead cap) a] (ret_of a) s t1
  | EffR2 cap a t1 :
      flush_first s = true -> t_flush tp t = Ok (a, t1) -> (forall x, a <> TOk x) ->
      cb_effect s t (CbRead cap) [EvT TcFlush a] (ret_of a) s t1
  | EffR3 cap x a t1 t2 :
      flush_first s = true -> t_flush tp t = Ok (TOk x, t1) -> t_read tp t1 cap = Ok (a, t2) ->
      cb_effect s t (CbRead cap) [EvT TcFlush (TOk x); EvT (TcRead cap) a] (ret_of a)
                (set_written s false) t2
  | EffW d a t1 :
      t_write tp t d = Ok (a, t1) ->
      cb_effect s t (CbWrite d) [EvT (TcWrite d) a] (ret_of a)
                (match a with TOk _ => set_written s true | _ => s end) t1
  | EffF1 a t1 :
      handshaken s = true -> t_flush tp t = Ok (a, t1) ->
      cb_effect s t CbFlush [EvT TcFlush a] (ret_of a) s t1
  | EffF2 :
      handshaken s = false -> cb_effect s t CbFlush [] (ROk []) s t.

  (* the read loop needs two iterations at most: no spin *)
  Lemma inner_read_fuel f s cap t log :
    inner_read tp (S (S f)) s cap t log = inner_read tp 2 s cap t log.
  Proof.
    cbn [inner_read]. destruct (negb (handshaken s) && written s) eqn:C; [|reflexivity].
    destruct (t_flush tp t) as [[a t1]|c]; cbn [rbind]; [|reflexivity].
    destruct a; try reflexivity.
    cbn [handshaken written set_written]. rewrite andb_false_r.
    destruct f; reflexivity.
  Qed.

  Lemma cb_run_fuel_indep f s c t log :
    cb_run_fuel tp (S (S f)) s c t log = cb_run tp s c t log.
  Proof.
    unfold cb_run, cb_run_fuel, READ_FUEL. destruct c; try reflexivity.
    rewrite inner_read_fuel. reflexivity.
  Qed.

  Lemma cb_run_effect s c t log r s1 t1 log1 :
    cb_run tp s c t log = Ok (r, s1, t1, log1) ->
    exists tev, cb_effect s t c tev r s1 t1 /\ log1 = log ++ tev ++ [EvCb c r s1].
  Proof.
    unfold cb_run, cb_run_fuel, READ_FUEL. intros H.
    apply rbind_ok in H. destruct H as ([[[a s'] t'] log'] & H1 & H2). inv H2.
    destruct c as [cap|d|].
    - cbn [inner_read] in H1. fold (flush_first s) in H1.
      destruct (flush_first s) eqn:C.
      + apply rbind_ok in H1. destruct H1 as ([a1 tt1] & F & H1).
        destruct a1 as [x| |k].
        * cbn [handshaken written set_written] in H1.
          unfold flush_first in C.
          assert (C2 : negb (handshaken s) && false = false) by apply andb_false_r.
          rewrite C2 in H1.
          apply rbind_ok in H1. destruct H1 as ([a2 tt2] & Rd & H1). inv H1.
          exists [EvT TcFlush (TOk x); EvT (TcRead cap) a]. split.
          -- eapply EffR3; eauto.
          -- rewrite <- !app_assoc. reflexivity.
        * inv H1. exists [EvT TcFlush TPend]. split.
          -- eapply EffR2 with (a := TPend); eauto. discriminate.
          -- rewrite <- !app_assoc. reflexivity.
        * inv H1. exists [EvT TcFlush (TErr k)]. split.
          -- eapply EffR2 with (a := TErr k); eauto. discriminate.
          -- rewrite <- !app_assoc. reflexivity.
      + apply rbind_ok in H1. destruct H1 as ([a1 tt1] & Rd & H1). inv H1.
        exists [EvT (TcRead cap) a]. split.
        * eapply EffR1; eauto.
        * rewrite <- !app_assoc. reflexivity.
    - unfold inner_write in H1. apply rbind_ok in H1. destruct H1 as ([a1 tt1] & W & H1). inv H1.
      exists [EvT (TcWrite d) a]. split.
      + eapply EffW; eauto.
      + rewrite <- !app_assoc. reflexivity.
    - unfold inner_flush in H1. destruct (handshaken s) eqn:Hs.
      + apply rbind_ok in H1. destruct H1 as ([a1 tt1] & F & H1). inv H1.
        exists [EvT TcFlush a]. split.
        * eapply EffF1; eauto.
        * rewrite <- !app_assoc. reflexivity.
      + inv H1. exists []. split.
        * apply EffF2; auto.
        * reflexivity.
  Qed.

  (* every callback: at most two transport calls, at least one unless it is the
     flush that handshake mode turns into a no-op *)
  Lemma cb_effect_calls s t c tev r s1 t1 :
    cb_effect s t c tev r s1 t1 ->
    count is_tcall tev <= 2 /\ length tev = count is_tcall tev /\
    (count is_tcall tev = 0 -> c = CbFlush /\ handshaken s = false).
  Proof.
    intros H; inv H; cbn; (split; [lia|]); (split; [reflexivity|]); intros E0;
      try discriminate E0; auto.
  Qed.

  (* a callback reports WouldBlock exactly when its last transport call
     answered Pending — the transport then holds the task's waker — and that is
     the only Pending answer it saw *)
  Lemma cb_effect_pend s t c tev r s1 t1 :
    cb_effect s t c tev r s1 t1 ->
    (r = RWouldBlock -> count is_tpend tev = 1 /\ exists pre c', tev = pre ++ [EvT c' TPend]) /\
    (r <> RWouldBlock -> count is_tpend tev = 0).
  Proof.
    assert (G : forall a pre c',
      count is_tpend pre = 0 ->
      (ret_of a = RWouldBlock ->
         count is_tpend (pre ++ [EvT c' a]) = 1 /\ exists pre0 c0, pre ++ [EvT c' a] = pre0 ++ [EvT c0 TPend]) /\
      (ret_of a <> RWouldBlock -> count is_tpend (pre ++ [EvT c' a]) = 0)).
    { intros a pre c' Hp. rewrite count_app, Hp. destruct a; cbn; split; intros HH;
        try discriminate HH; try reflexivity.
      - split; [reflexivity|]. exists pre, c'. reflexivity.
      - exfalso. apply HH. reflexivity. }
    intros H; inv H.
    - apply (G a [] (TcRead cap)). reflexivity.
    - apply (G a [] TcFlush). reflexivity.
    - apply (G a [EvT TcFlush (TOk x)] (TcRead cap)). reflexivity.
    - apply (G a [] (TcWrite d)). reflexivity.
    - apply (G a [] TcFlush). reflexivity.
    - cbn. split; intros HH; [discriminate HH|reflexivity].
  Qed.

  (* -------------------------------------------------------------------- *)
  (* invariants of (flags, transport, log) kept by everything the layer does,
     for EVERY engine                                                      *)

  Section Invariant.
    Variable I : shim -> T -> list ev -> Prop.
    Hypothesis I_cb : forall s t log c tev r s1 t1,
      I s t log -> cb_effect s t c tev r s1 t1 -> I s1 t1 (log ++ tev ++ [EvCb c r s1]).
    Hypothesis I_api : forall s t log r, I s t log -> I s t (log ++ [EvApi r]).
    Hypothesis I_fin : forall s t log, I s t log -> I (finish_handshake s) t (log ++ [EvFinish]).

    Variable E : Type.
    Variable eng : E -> option cbret -> E * eact.

    Lemma inv_cb_run s c t log r s1 t1 log1 :
      cb_run tp s c t log = Ok (r, s1, t1, log1) -> I s t log -> I s1 t1 log1.
    Proof.
      intros H HI. apply cb_run_effect in H. destruct H as (tev & Ef & ->). eauto.
    Qed.

    Lemma inv_api_loop : forall fuel e inp s t log r e1 s1 t1 log1,
      api_loop tp E eng fuel e inp s t log = Ok (r, e1, s1, t1, log1) -> I s t log -> I s1 t1 log1.
    Proof.
      induction fuel as [|f IH]; cbn [api_loop]; intros e inp s t log r e1 s1 t1 log1 H HI;
        [discriminate|].
      destruct (eng e inp) as [e' [c|r']].
      - apply rbind_ok in H. destruct H as ([[[ret s'] t'] log'] & C & H).
        eapply IH; [exact H|]. eapply inv_cb_run; eauto.
      - inv H. apply I_api; auto.
    Qed.

    Lemma inv_hs_finish_flush first s t log h st s1 t1 log1 :
      hs_finish_flush tp first s t log = Ok (h, st, s1, t1, log1) -> I s t log -> I s1 t1 log1.
    Proof.
      unfold hs_finish_flush. intros H HI.
      apply rbind_ok in H. destruct H as ([[[r s'] t'] log'] & C & H).
      assert (HI' : I s' t' log').
      { eapply inv_cb_run; [exact C|]. destruct first; auto. }
      destruct r; inv H; auto.
    Qed.

    Lemma inv_hs_after r e s t log h st e1 s1 t1 log1 :
      hs_after tp E r e s t log = Ok (h, st, e1, s1, t1, log1) -> I s t log -> I s1 t1 log1.
    Proof.
      unfold hs_after. intros H HI. destruct r.
      - apply rbind_ok in H. destruct H as ([[[[h' st'] s'] t'] log'] & F & H). inv H.
        eapply inv_hs_finish_flush; eauto.
      - inv H. auto.
      - inv H. auto.
    Qed.

    Lemma inv_hs_poll_body fuel st e s t log h st1 e1 s1 t1 log1 :
      hs_poll_body tp E eng fuel st e s t log = Ok (h, st1, e1, s1, t1, log1) ->
      I s t log -> I s1 t1 log1.
    Proof.
      unfold hs_poll_body, api_call. intros B HI.
      destruct st.
      - apply rbind_ok in B. destruct B as ([[[[r ea] sa] ta] loga] & A & B).
        assert (HIa : I sa ta loga) by (eapply inv_api_loop; eauto).
        destruct r.
        + eapply inv_hs_after; eauto.
        + apply rbind_ok in B. destruct B as ([[[[r2 eb] sb] tb] logb] & A2 & B).
          eapply inv_hs_after; [exact B|]. eapply inv_api_loop; eauto.
        + eapply inv_hs_after; eauto.
      - apply rbind_ok in B. destruct B as ([[[[r ea] sa] ta] loga] & A & B).
        eapply inv_hs_after; [exact B|]. eapply inv_api_loop; eauto.
      - apply rbind_ok in B. destruct B as ([[[[h2 st2] s2] t2] log2] & F & B). inv B.
        eapply inv_hs_finish_flush; eauto.
      - discriminate.
      - discriminate.
    Qed.

    Hypothesis I_poll : forall s t log h, I s t log -> I s t (log ++ [EvPoll h]).
    Hypothesis I_wake : forall s t log, I s t log -> I s (t_wake tp t) (log ++ [EvWake]).

    Lemma inv_top_poll fuel e s t log h e1 s1 t1 log1 :
      top_poll tp E eng fuel e s t log = Ok (h, e1, s1, t1, log1) -> I s t log -> I s1 t1 log1.
    Proof.
      unfold top_poll, api_call. intros H HI.
      apply rbind_ok in H. destruct H as ([[[[r e'] s'] t'] log'] & A & H). inv H.
      apply I_poll; auto. eapply inv_api_loop; eauto.
    Qed.

    Lemma inv_flush_poll s t log h s1 t1 log1 :
      flush_poll tp s t log = Ok (h, s1, t1, log1) -> I s t log -> I s1 t1 log1.
    Proof.
      unfold flush_poll. intros H HI.
      apply rbind_ok in H. destruct H as ([[[r s'] t'] log'] & C & H). inv H.
      apply I_poll; auto. eapply inv_cb_run; eauto.
    Qed.

    Lemma inv_close_poll fuel sent e s t log h sent1 e1 s1 t1 log1 :
      close_poll tp E eng fuel sent e s t log = Ok (h, sent1, e1, s1, t1, log1) ->
      I s t log -> I s1 t1 log1.
    Proof.
      unfold close_poll, api_call. intros H HI. destruct sent.
      - apply rbind_ok in H. destruct H as ([[[r s'] t'] log'] & F & H). inv H.
        eapply inv_flush_poll; eauto.
      - apply rbind_ok in H. destruct H as ([[[[r e'] s'] t'] log'] & A & H).
        assert (HI' : I s' t' log') by (eapply inv_api_loop; eauto).
        destruct r.
        + apply rbind_ok in H. destruct H as ([[[r2 s2] t2] log2] & F & H). inv H.
          eapply inv_flush_poll; eauto.
        + inv H. apply I_poll; auto.
        + inv H. apply I_poll; auto.
    Qed.

    Lemma inv_hs_poll fuel st e s t log h st1 e1 s1 t1 log1 :
      hs_poll tp E eng fuel st e s t log = Ok (h, st1, e1, s1, t1, log1) ->
      I s t log -> I s1 t1 log1.
    Proof.
      unfold hs_poll. intros H HI.
      apply rbind_ok in H. destruct H as ([[[[[h' st'] e'] s'] t'] log'] & B & H). inv H.
      apply I_poll; auto. eapply inv_hs_poll_body; eauto.
    Qed.

    Lemma inv_hs_run : forall polls fuel st e s t log h st1 e1 s1 t1 log1,
      hs_run tp E eng polls fuel st e s t log = Ok (h, st1, e1, s1, t1, log1) ->
      I s t log -> I s1 t1 log1.
    Proof.
      induction polls as [|p IH]; cbn [hs_run]; intros fuel st e s t log h st1 e1 s1 t1 log1 H HI;
        [discriminate|].
      apply rbind_ok in H. destruct H as ([[[[[h' st'] e'] s'] t'] log'] & P & H).
      assert (HI' : I s' t' log') by (eapply inv_hs_poll; eauto).
      destruct h'.
      - inv H. auto.
      - eapply IH; [exact H|]. apply I_wake; auto.
      - inv H. auto.
    Qed.
  End Invariant.

End Gen.

(* ---------------------------------------------------------------------- *)
(* the three engine-independent invariants                                  *)

Lemma flat_map_app2 {A B} (f : A -> list B) l1 l2 : flat_map f (l1 ++ l2) = flat_map f l1 ++ flat_map f l2.
Proof. apply flat_map_app. Qed.

Section Props.
  Context {T : Type} (tp : transport T).

  (* (A) pass-through: what the engine was told = what the transport did *)
  Definition I_bytes (s : shim) (t : T) (log : list ev) : Prop :=
    eng_wrote log = tr_accepted log /\ eng_read log = tr_delivered log.

  Lemma I_bytes_cb s t log c tev r s1 t1 :
    I_bytes s t log -> cb_effect tp s t c tev r s1 t1 -> I_bytes s1 t1 (log ++ tev ++ [EvCb c r s1]).
  Proof.
    unfold I_bytes, eng_wrote, eng_read, tr_accepted, tr_delivered.
    intros [H1 H2] Ef. rewrite !flat_map_app2, H1, H2.
    inv Ef; try (destruct a); cbn; rewrite ?app_nil_r; split; try reflexivity;
      match goal with Hn : forall x, TOk _ <> TOk x |- _ => exfalso; eapply Hn; reflexivity end.
  Qed.

  Definition plain_ev (e : ev) : bool :=
    match e with EvApi _ | EvPoll _ | EvFinish | EvWake => true | _ => false end.

  Lemma I_bytes_one s t log e s' t' :
    I_bytes s t log -> plain_ev e = true -> I_bytes s' t' (log ++ [e]).
  Proof.
    unfold I_bytes, eng_wrote, eng_read, tr_accepted, tr_delivered.
    intros [H1 H2] A. rewrite !flat_map_app2, H1, H2. destruct e; try discriminate A; cbn; auto.
  Qed.

  (* (B) flush before wait *)
  Definition I_fbw (s : shim) (t : T) (log : list ev) : Prop :=
    let '(hs, u, ok) := fbw log in
    handshaken s = hs /\ ok = true /\ (hs = false -> written s = false -> u = []).

  Lemma I_fbw_cb s t log c tev r s1 t1 :
    I_fbw s t log -> cb_effect tp s t c tev r s1 t1 -> I_fbw s1 t1 (log ++ tev ++ [EvCb c r s1]).
  Proof.
    unfold I_fbw. rewrite fbw_app. destruct (fbw log) as [[hs u] ok].
    intros (Hh & Hok & Hu) Ef. subst ok.
    inv Ef; unfold flush_first in *.
    - (* read without flushing first *)
      cbn. destruct a; cbn; (split; [reflexivity|]); (split; [|assumption]);
        (destruct (handshaken s1) eqn:E1; [reflexivity|]);
        cbn in H; rewrite (Hu eq_refl H); reflexivity.
    - (* flush that did not complete *)
      apply andb_true_iff in H. destruct H as [Hn Hw].
      destruct a; cbn; try (exfalso; eapply H1; reflexivity);
        (split; [reflexivity|]); (split; [reflexivity|]); intros _ W; congruence.
    - (* flush, then read *)
      cbn. rewrite orb_true_r. cbn. destruct a; cbn; repeat split; auto.
    - (* write *)
      destruct a; cbn; repeat split; auto. intros _ W. discriminate W.
    - (* flush after the handshake *)
      destruct a; cbn; repeat split; auto; intros E1; congruence.
    - cbn. repeat split; auto.
  Qed.

  Lemma I_fbw_aux s t log e :
    I_fbw s t log -> (exists r, e = EvApi r) \/ (exists h, e = EvPoll h) -> I_fbw s t (log ++ [e]).
  Proof.
    unfold I_fbw. rewrite fbw_app. destruct (fbw log) as [[hs u] ok].
    intros H [[r ->] | [h ->]]; cbn; exact H.
  Qed.

  Lemma I_fbw_fin s t log : I_fbw s t log -> I_fbw (finish_handshake s) t (log ++ [EvFinish]).
  Proof.
    unfold I_fbw. rewrite fbw_app. destruct (fbw log) as [[hs u] ok].
    intros (Hh & Hok & Hu). cbn. repeat split; auto. discriminate.
  Qed.

  Lemma I_fbw_wake s t log t' : I_fbw s t log -> I_fbw s t' (log ++ [EvWake]).
  Proof.
    unfold I_fbw. rewrite fbw_app. destruct (fbw log) as [[hs u] ok]. cbn. auto.
  Qed.

  (* (C) at most two transport calls per callback *)
  Definition I_calls (s : shim) (t : T) (log : list ev) : Prop :=
    count is_tcall log <= 2 * count is_cb log.

  Lemma count_le {A} (f : A -> bool) l : count f l <= length l.
  Proof.
    unfold count. induction l as [|a l IH]; cbn; [lia|]. destruct (f a); cbn; lia.
  Qed.

  Lemma count_cons {A} (f : A -> bool) a l : count f (a :: l) = (if f a then 1 else 0) + count f l.
  Proof. unfold count. cbn. destruct (f a); reflexivity. Qed.

  Lemma count_tcall_only tev : length tev = count is_tcall tev -> count is_cb tev = 0.
  Proof.
    induction tev as [|e l IH]; [reflexivity|].
    rewrite !count_cons. cbn [length]. pose proof (count_le is_tcall l) as Le.
    destruct e; cbn; intros H; lia.
  Qed.

  Lemma I_calls_cb s t log c tev r s1 t1 :
    I_calls s t log -> cb_effect tp s t c tev r s1 t1 -> I_calls s1 t1 (log ++ tev ++ [EvCb c r s1]).
  Proof.
    unfold I_calls. intros H Ef. apply cb_effect_calls in Ef. destruct Ef as (L2 & Len & _).
    rewrite !count_app. rewrite (count_tcall_only _ Len). cbn. lia.
  Qed.

  Lemma I_calls_one s t log e s' t' :
    I_calls s t log -> is_tcall e = false -> I_calls s' t' (log ++ [e]).
  Proof.
    unfold I_calls. intros H N. rewrite !count_app. unfold count at 2. cbn. rewrite N. cbn. lia.
  Qed.
End Props.

(* ---------------------------------------------------------------------- *)
(* what the checker [fbw] means                                             *)

Lemma fbw_components : forall log,
  fbw log = (existsb is_finish log, unflushed log, fbw_ok log).
Proof.
  intros log. induction log as [|e l IH] using rev_ind.
  - reflexivity.
  - unfold fbw_ok. rewrite fbw_app, unflushed_app, existsb_app. rewrite IH. cbn.
    destruct e as [c r| | | | |]; cbn; rewrite ?orb_false_r, ?orb_true_r; try reflexivity.
    destruct c; reflexivity.
Qed.

Lemma fbw_ok_mono : forall l st, snd (fold_left fbw_step l st) = true -> snd st = true.
Proof.
  induction l as [|e l IH]; cbn; auto. intros [[hs u] ok] H. apply IH in H.
  destruct e as [c r| | | | |]; cbn in H; auto. destruct c; cbn in H; auto.
  apply andb_true_iff in H. tauto.
Qed.

(* every transport read issued before finish_handshake found nothing held back *)
Lemma fbw_ok_reads log :
  fbw_ok log = true ->
  forall pre cap a post, log = pre ++ EvT (TcRead cap) a :: post ->
    existsb is_finish pre = false -> unflushed pre = [].
Proof.
  unfold fbw_ok. intros H pre cap a post -> Hf.
  rewrite fbw_app in H. cbn [fold_left] in H. apply fbw_ok_mono in H.
  rewrite fbw_components in H. cbn in H. rewrite Hf in H. cbn in H.
  apply andb_true_iff in H. destruct H as [_ H].
  destruct (unflushed pre); [reflexivity|discriminate].
Qed.

(* ---------------------------------------------------------------------- *)
(* the theorems for every engine and every transport                        *)

Section Main.
  Context {T : Type} (tp : transport T).
  Variable E : Type.
  Variable eng : E -> option cbret -> E * eact.

  Definition I_all (s : shim) (t : T) (log : list ev) : Prop :=
    I_bytes s t log /\ I_fbw s t log /\ I_calls s t log.

  Lemma I_all_init t : I_all shim0 t [].
  Proof.
    unfold I_all, I_bytes, I_fbw, I_calls. cbn. repeat split; auto.
  Qed.

  Lemma I_all_cb s t log c tev r s1 t1 :
    I_all s t log -> cb_effect tp s t c tev r s1 t1 -> I_all s1 t1 (log ++ tev ++ [EvCb c r s1]).
  Proof.
    intros (A & B & C) Ef. repeat split.
    - eapply I_bytes_cb; eauto. - eapply I_bytes_cb; eauto.
    - eapply I_fbw_cb; eauto. - eapply I_calls_cb; eauto.
  Qed.

  Lemma I_all_api s t log r : I_all s t log -> I_all s t (log ++ [EvApi r]).
  Proof.
    intros (A & B & C). split; [|split].
    - eapply I_bytes_one; eauto.
    - apply I_fbw_aux; eauto.
    - eapply I_calls_one; eauto.
  Qed.

  Lemma I_all_poll s t log h : I_all s t log -> I_all s t (log ++ [EvPoll h]).
  Proof.
    intros (A & B & C). split; [|split].
    - eapply I_bytes_one; eauto.
    - apply I_fbw_aux; eauto.
    - eapply I_calls_one; eauto.
  Qed.

  Lemma I_all_fin s t log : I_all s t log -> I_all (finish_handshake s) t (log ++ [EvFinish]).
  Proof.
    intros (A & B & C). split; [|split].
    - eapply I_bytes_one; eauto.
    - apply I_fbw_fin; auto.
    - eapply I_calls_one; eauto.
  Qed.

  Lemma I_all_wake s t log : I_all s t log -> I_all s (t_wake tp t) (log ++ [EvWake]).
  Proof.
    intros (A & B & C). split; [|split].
    - eapply I_bytes_one; eauto.
    - eapply I_fbw_wake; eauto.
    - eapply I_calls_one; eauto.
  Qed.

  Definition hs_run_all := inv_hs_run tp I_all I_all_cb I_all_api I_all_fin E eng I_all_poll I_all_wake.
  Definition top_poll_all := inv_top_poll tp I_all I_all_cb I_all_api E eng I_all_poll.
  Definition flush_poll_all := inv_flush_poll tp I_all I_all_cb I_all_poll.
  Definition close_poll_all := inv_close_poll tp I_all I_all_cb I_all_api E eng I_all_poll.

  (* flags follow the log *)
  Lemma I_fbw_mode s (t : T) log : I_fbw s t log -> handshaken s = existsb is_finish log.
  Proof. unfold I_fbw. rewrite fbw_components. tauto. Qed.

  Lemma I_fbw_ok s (t : T) log : I_fbw s t log -> fbw_ok log = true.
  Proof. unfold I_fbw. rewrite fbw_components. tauto. Qed.

  (* -------------------------------------------------------------------- *)
  (* the handshake, for every engine: bytes pass through unchanged, nothing is
     held back when the layer starts waiting for input, at most two transport
     calls per callback *)
  Theorem hs_run_safe polls fuel e t h st1 e1 s1 t1 log :
    hs_run tp E eng polls fuel HsStart e shim0 t [] = Ok (h, st1, e1, s1, t1, log) ->
    eng_wrote log = tr_accepted log /\ eng_read log = tr_delivered log /\
    fbw_ok log = true /\
    count is_tcall log <= 2 * count is_cb log.
  Proof.
    intros H. apply hs_run_all in H; [|apply I_all_init].
    destruct H as ((A1 & A2) & B & C). repeat split; auto. eapply I_fbw_ok; eauto.
  Qed.

  (* -------------------------------------------------------------------- *)
  (* a completed handshake has left handshake mode and flushed everything    *)

  Lemma cb_effect_hs s t c tev r s1 t1 :
    cb_effect tp s t c tev r s1 t1 -> handshaken s1 = handshaken s.
  Proof. intros H; inv H; try reflexivity. destruct a; reflexivity. Qed.

  Lemma cb_run_hs s c t log r s1 t1 log1 :
    cb_run tp s c t log = Ok (r, s1, t1, log1) -> handshaken s1 = handshaken s.
  Proof.
    intros H. apply cb_run_effect in H. destruct H as (tev & Ef & _). eapply cb_effect_hs; eauto.
  Qed.

  Lemma api_loop_hs : forall fuel e inp s t log r e1 s1 t1 log1,
    api_loop tp E eng fuel e inp s t log = Ok (r, e1, s1, t1, log1) -> handshaken s1 = handshaken s.
  Proof.
    induction fuel as [|f IH]; cbn [api_loop]; intros e inp s t log r e1 s1 t1 log1 H; [discriminate|].
    destruct (eng e inp) as [e' [c|r']].
    - apply rbind_ok in H. destruct H as ([[[ret s'] t'] log'] & C & H).
      apply IH in H. apply cb_run_hs in C. congruence.
    - inv H. reflexivity.
  Qed.

  (* a flush callback in established mode that reports success leaves nothing
     held back *)
  Lemma flush_cb_ok s t log bs s1 t1 log1 :
    cb_run tp s CbFlush t log = Ok (ROk bs, s1, t1, log1) -> handshaken s = true ->
    unflushed log1 = [] /\ s1 = s.
  Proof.
    intros H Hs. apply cb_run_effect in H. destruct H as (tev & Ef & ->).
    inv Ef; [|congruence].
    destruct a; try discriminate. split; [|reflexivity].
    rewrite !unflushed_app. cbn. reflexivity.
  Qed.

  Lemma hs_finish_flush_ok first s t log st s1 t1 log1 :
    hs_finish_flush tp first s t log = Ok (HOk, st, s1, t1, log1) ->
    (first = true \/ handshaken s = true) ->
    st = HsDone /\ handshaken s1 = true /\ unflushed log1 = [].
  Proof.
    unfold hs_finish_flush. intros H Hf.
    apply rbind_ok in H. destruct H as ([[[r s'] t'] log'] & C & H).
    destruct r; inv H.
    assert (Hs0 : handshaken (if first then finish_handshake s else s) = true).
    { destruct first; [reflexivity|]. destruct Hf; [discriminate|assumption]. }
    apply flush_cb_ok in C; auto. destruct C as [U ->]. auto.
  Qed.

  Lemma hs_finish_flush_st first s t log h st s1 t1 log1 :
    hs_finish_flush tp first s t log = Ok (h, st, s1, t1, log1) ->
    (first = true \/ handshaken s = true) ->
    handshaken s1 = true /\ (h = HPend -> st = HsFlushing) /\ (h = HOk -> st = HsDone).
  Proof.
    unfold hs_finish_flush. intros H Hf.
    apply rbind_ok in H. destruct H as ([[[r s'] t'] log'] & C & H).
    assert (Hs0 : handshaken (if first then finish_handshake s else s) = true).
    { destruct first; [reflexivity|]. destruct Hf; [discriminate|assumption]. }
    apply cb_run_hs in C. rewrite Hs0 in C.
    destruct r; inv H; repeat split; auto; discriminate.
  Qed.

  Definition st_ok (st : hs_st) (s : shim) : Prop :=
    match st with
    | HsFlushing => handshaken s = true
    | HsDone | HsFailed => False
    | _ => True
    end.

  Lemma hs_after_st r e s t log h st e1 s1 t1 log1 :
    hs_after tp E r e s t log = Ok (h, st, e1, s1, t1, log1) ->
    (h = HPend -> st_ok st s1) /\
    (h = HOk -> st = HsDone /\ handshaken s1 = true /\ unflushed log1 = []).
  Proof.
    unfold hs_after. intros H. destruct r.
    - apply rbind_ok in H. destruct H as ([[[[h' st'] s'] t'] log'] & F & H). inv H.
      pose proof (hs_finish_flush_st _ _ _ _ _ _ _ _ _ F (or_introl eq_refl)) as (A & B & C).
      split.
      + intros ->. rewrite (B eq_refl). exact A.
      + intros ->. eapply hs_finish_flush_ok; eauto.
    - inv H. split; [intros _; exact Logic.I|discriminate].
    - inv H. split; discriminate.
  Qed.

  Lemma hs_poll_body_st fuel st e s t log h st1 e1 s1 t1 log1 :
    hs_poll_body tp E eng fuel st e s t log = Ok (h, st1, e1, s1, t1, log1) -> st_ok st s ->
    (h = HPend -> st_ok st1 s1) /\
    (h = HOk -> st1 = HsDone /\ handshaken s1 = true /\ unflushed log1 = []).
  Proof.
    unfold hs_poll_body, api_call. intros B Hst. destruct st; cbn in Hst; try contradiction.
    - apply rbind_ok in B. destruct B as ([[[[r ea] sa] ta] loga] & A & B).
      destruct r.
      + eapply hs_after_st; eauto.
      + apply rbind_ok in B. destruct B as ([[[[r2 eb] sb] tb] logb] & A2 & B).
        eapply hs_after_st; eauto.
      + eapply hs_after_st; eauto.
    - apply rbind_ok in B. destruct B as ([[[[r ea] sa] ta] loga] & A & B).
      eapply hs_after_st; eauto.
    - apply rbind_ok in B. destruct B as ([[[[h2 st2] s2] t2] log2] & F & B). inv B.
      pose proof (hs_finish_flush_st _ _ _ _ _ _ _ _ _ F (or_intror Hst)) as (A & B & C).
      split.
      + intros ->. rewrite (B eq_refl). exact A.
      + intros ->. eapply hs_finish_flush_ok; eauto.
  Qed.

  Lemma unflushed_plain log e : plain_ev e = true -> unflushed (log ++ [e]) = unflushed log.
  Proof. intros H. rewrite unflushed_app. destruct e; try discriminate H; reflexivity. Qed.

  Theorem hs_run_done : forall polls fuel st e s t log st1 e1 s1 t1 log1,
    hs_run tp E eng polls fuel st e s t log = Ok (HOk, st1, e1, s1, t1, log1) -> st_ok st s ->
    st1 = HsDone /\ handshaken s1 = true /\ unflushed log1 = [].
  Proof.
    induction polls as [|p IH]; cbn [hs_run]; intros fuel st e s t log st1 e1 s1 t1 log1 H Hst;
      [discriminate|].
    apply rbind_ok in H. destruct H as ([[[[[h' st'] e'] s'] t'] log'] & P & H).
    unfold hs_poll in P. apply rbind_ok in P.
    destruct P as ([[[[[h2 st2] e2] s2] t2] log2] & B & P). inv P.
    apply hs_poll_body_st in B; auto. destruct B as [Bp Bo].
    destruct h'.
    - inv H. destruct (Bo eq_refl) as (A1 & A2 & A3). repeat split; auto.
      rewrite unflushed_plain; auto.
    - eapply IH; [exact H|]. apply Bp. reflexivity.
    - discriminate.
  Qed.

  (* established stream: poll_flush = Ready(Ok) / poll_close = Ready(Ok) mean
     that the transport has flushed everything it accepted *)
  Theorem flush_poll_ok s t log s1 t1 log1 :
    flush_poll tp s t log = Ok (HOk, s1, t1, log1) -> handshaken s = true -> unflushed log1 = [].
  Proof.
    unfold flush_poll. intros H Hs.
    apply rbind_ok in H. destruct H as ([[[r s'] t'] log'] & C & H).
    destruct r; inv H. apply flush_cb_ok in C; auto. destruct C as [U _].
    rewrite unflushed_plain; auto.
  Qed.

  Theorem close_poll_ok fuel sent e s t log sent1 e1 s1 t1 log1 :
    close_poll tp E eng fuel sent e s t log = Ok (HOk, sent1, e1, s1, t1, log1) ->
    handshaken s = true -> unflushed log1 = [] /\ sent1 = true.
  Proof.
    unfold close_poll, api_call. intros H Hs. destruct sent.
    - apply rbind_ok in H. destruct H as ([[[r s'] t'] log'] & F & H). inv H.
      split; [|reflexivity]. eapply flush_poll_ok; eauto.
    - apply rbind_ok in H. destruct H as ([[[[r e'] s'] t'] log'] & A & H).
      destruct r.
      + apply rbind_ok in H. destruct H as ([[[r2 s2] t2] log2] & F & H). inv H.
        split; [|reflexivity]. eapply flush_poll_ok; eauto.
        apply api_loop_hs in A. congruence.
      + inv H.
      + inv H.
  Qed.

  (* -------------------------------------------------------------------- *)
  (* Pending accounting, under the hypothesis that the engine gives up with
     WouldBlock only right after a callback told it WouldBlock              *)

  Definition np (log : list ev) : nat := count is_tpend log.
  Definition cpp (log : list ev) : nat := count is_pollpend log.

  Lemma cb_run_np s c t log r s1 t1 log1 :
    cb_run tp s c t log = Ok (r, s1, t1, log1) ->
    np log <= np log1 /\ (r = RWouldBlock -> np log1 = np log + 1) /\ cpp log1 = cpp log.
  Proof.
    intros H. apply cb_run_effect in H. destruct H as (tev & Ef & ->).
    pose proof (cb_effect_pend tp _ _ _ _ _ _ _ Ef) as [P1 P2].
    pose proof (cb_effect_calls tp _ _ _ _ _ _ _ Ef) as (_ & Len & _).
    unfold np, cpp. rewrite !count_app.
    assert (Z : count is_pollpend tev = 0).
    { clear -Len. induction tev as [|e l IH]; [reflexivity|].
      rewrite !count_cons in *. cbn [length] in Len. pose proof (count_le is_tcall l).
      destruct e; cbn in *; lia. }
    rewrite Z. cbn. repeat split; try lia.
    intros ->. destruct (P1 eq_refl) as [P _]. lia.
  Qed.

  Hypothesis H_wb : forall e inp e1, eng e inp = (e1, AEnd EWouldBlock) -> inp = Some RWouldBlock.

  Lemma api_loop_np : forall fuel e inp s t log r e1 s1 t1 log1 n0,
    api_loop tp E eng fuel e inp s t log = Ok (r, e1, s1, t1, log1) ->
    n0 <= np log -> (inp = Some RWouldBlock -> n0 < np log) ->
    n0 <= np log1 /\ (r = EWouldBlock -> n0 < np log1) /\ cpp log1 = cpp log.
  Proof.
    induction fuel as [|f IH]; cbn [api_loop]; intros e inp s t log r e1 s1 t1 log1 n0 H Le Lt;
      [discriminate|].
    destruct (eng e inp) as [e' [c|r']] eqn:En.
    - apply rbind_ok in H. destruct H as ([[[ret s'] t'] log'] & C & H).
      apply cb_run_np in C. destruct C as (C1 & C2 & C3).
      eapply IH in H.
      + destruct H as (A & B & D). repeat split; eauto. congruence.
      + lia.
      + intros Eq. inv Eq. rewrite (C2 eq_refl). lia.
    - inv H. unfold np, cpp. rewrite !count_app. cbn. repeat split; try (fold (np log); lia).
      intros ->. apply H_wb in En. fold (np log). specialize (Lt En). lia.
  Qed.

  Lemma hs_finish_flush_np first s t log h st s1 t1 log1 :
    hs_finish_flush tp first s t log = Ok (h, st, s1, t1, log1) ->
    np log <= np log1 /\ (h = HPend -> np log < np log1) /\ cpp log1 = cpp log.
  Proof.
    unfold hs_finish_flush. intros H.
    apply rbind_ok in H. destruct H as ([[[r s'] t'] log'] & C & H).
    apply cb_run_np in C. destruct C as (C1 & C2 & C3).
    assert (N : np (if first then log ++ [EvFinish] else log) = np log /\
                cpp (if first then log ++ [EvFinish] else log) = cpp log).
    { destruct first; [|auto]. unfold np, cpp. rewrite !count_app. cbn. lia. }
    destruct N as [N1 N2]. rewrite N1 in *. rewrite N2 in *.
    destruct r; inv H; repeat split; try lia; try discriminate.
    intros _. rewrite (C2 eq_refl). lia.
  Qed.

  Lemma hs_after_np r e s t log h st e1 s1 t1 log1 n0 :
    hs_after tp E r e s t log = Ok (h, st, e1, s1, t1, log1) ->
    n0 <= np log -> (r = EWouldBlock -> n0 < np log) ->
    n0 <= np log1 /\ (h = HPend -> n0 < np log1) /\ cpp log1 = cpp log.
  Proof.
    unfold hs_after. intros H Le Lt. destruct r.
    - apply rbind_ok in H. destruct H as ([[[[h' st'] s'] t'] log'] & F & H). inv H.
      apply hs_finish_flush_np in F. destruct F as (F1 & F2 & F3).
      repeat split; try lia. intros Hh. specialize (F2 Hh). lia.
    - inv H. repeat split; auto.
    - inv H. repeat split; auto. discriminate.
  Qed.

  Lemma hs_poll_body_np fuel st e s t log h st1 e1 s1 t1 log1 :
    hs_poll_body tp E eng fuel st e s t log = Ok (h, st1, e1, s1, t1, log1) ->
    np log <= np log1 /\ (h = HPend -> np log < np log1) /\ cpp log1 = cpp log.
  Proof.
    unfold hs_poll_body, api_call. intros B. destruct st; try discriminate.
    - apply rbind_ok in B. destruct B as ([[[[r ea] sa] ta] loga] & A & B).
      eapply api_loop_np with (n0 := np log) in A; [|lia|discriminate].
      destruct A as (A1 & A2 & A3).
      destruct r.
      + eapply hs_after_np with (n0 := np log) in B; [|lia|discriminate].
        destruct B as (B1 & B2 & B3). repeat split; auto; congruence.
      + apply rbind_ok in B. destruct B as ([[[[r2 eb] sb] tb] logb] & A' & B).
        eapply api_loop_np with (n0 := np log) in A'; [|lia|discriminate].
        destruct A' as (A1' & A2' & A3').
        eapply hs_after_np with (n0 := np log) in B; [|lia|exact A2'].
        destruct B as (B1 & B2 & B3). repeat split; auto; congruence.
      + eapply hs_after_np with (n0 := np log) in B; [|lia|discriminate].
        destruct B as (B1 & B2 & B3). repeat split; auto; congruence.
    - apply rbind_ok in B. destruct B as ([[[[r ea] sa] ta] loga] & A & B).
      eapply api_loop_np with (n0 := np log) in A; [|lia|discriminate].
      destruct A as (A1 & A2 & A3).
      eapply hs_after_np with (n0 := np log) in B; [|lia|exact A2].
      destruct B as (B1 & B2 & B3). repeat split; auto; congruence.
    - apply rbind_ok in B. destruct B as ([[[[h2 st2] s2] t2] log2] & F & B). inv B.
      eapply hs_finish_flush_np; eauto.
  Qed.

  (* no spin: every poll of the handshake future that returns Pending has seen
     a Pending answer of the transport — whose waker registration is what wakes
     the task — so polls returning Pending never outnumber Pending answers *)
  Theorem hs_run_pending : forall polls fuel st e s t log h st1 e1 s1 t1 log1,
    hs_run tp E eng polls fuel st e s t log = Ok (h, st1, e1, s1, t1, log1) ->
    cpp log1 + np log <= cpp log + np log1.
  Proof.
    induction polls as [|p IH]; cbn [hs_run]; intros fuel st e s t log h st1 e1 s1 t1 log1 H;
      [discriminate|].
    apply rbind_ok in H. destruct H as ([[[[[h' st'] e'] s'] t'] log'] & P & H).
    unfold hs_poll in P. apply rbind_ok in P.
    destruct P as ([[[[[h2 st2] e2] s2] t2] log2] & B & P). inv P.
    apply hs_poll_body_np in B. destruct B as (B1 & B2 & B3).
    destruct h'.
    - inv H. unfold np, cpp in *. rewrite !count_app. cbn. lia.
    - apply IH in H. specialize (B2 eq_refl). unfold np, cpp in *.
      rewrite !count_app in H. cbn in H. lia.
    - inv H. unfold np, cpp in *. rewrite !count_app. cbn. lia.
  Qed.

End Main.

(* ---------------------------------------------------------------------- *)
(* the scripted pipe: the handshake future returns within (#Pending + 1) polls *)

Definition is_cpending (a : cans) : bool := match a with CPending => true | _ => false end.
Definition pend_left (p : pipe) : nat := count is_cpending (psched p).

Definition tpend1 (a : tres) : nat := match a with TPend => 1 | _ => 0 end.

Lemma pipe_read_total p cap :
  exists a p1, pipe_read p cap = Ok (a, p1) /\ pend_left p1 + tpend1 a = pend_left p.
Proof.
  destruct p as [sch src snk]. unfold pipe_read, pipe_next, pend_left. cbn [psched psrc psink].
  destruct sch as [|[a|] r].
  - eexists _, _. split; [reflexivity|]. reflexivity.
  - destruct (reader_step a cap src) as [[[k|k] bs] src'] eqn:Rs;
      eexists _, _; (split; [reflexivity|]); cbn [psched]; rewrite count_cons; cbn; lia.
  - eexists _, _. split; [reflexivity|]. cbn [psched]. rewrite count_cons. cbn. lia.
Qed.

Lemma pipe_write_total p d :
  exists a p1, pipe_write p d = Ok (a, p1) /\ pend_left p1 + tpend1 a = pend_left p.
Proof.
  destruct p as [sch src snk]. unfold pipe_write, pipe_next, pend_left. cbn [psched psrc psink].
  destruct sch as [|[a|] r].
  - eexists _, _. split; [reflexivity|]. reflexivity.
  - destruct (writer_step a d) as [[k|k] bs] eqn:Ws;
      eexists _, _; (split; [reflexivity|]); cbn [psched]; rewrite count_cons; cbn; lia.
  - eexists _, _. split; [reflexivity|]. cbn [psched]. rewrite count_cons. cbn. lia.
Qed.

Lemma pipe_flush_total p :
  exists a p1, pipe_flush p = Ok (a, p1) /\ pend_left p1 + tpend1 a = pend_left p.
Proof.
  destruct p as [sch src snk]. unfold pipe_flush, pipe_next, pend_left. cbn [psched psrc psink].
  destruct sch as [|[a|] r].
  - eexists _, _. split; [reflexivity|]. reflexivity.
  - destruct a; eexists _, _; (split; [reflexivity|]); cbn [psched]; rewrite count_cons; cbn; lia.
  - eexists _, _. split; [reflexivity|]. cbn [psched]. rewrite count_cons. cbn. lia.
Qed.

Lemma cb_run_pipe_total s c t log :
  exists r s1 t1 log1, cb_run pipe_tp s c t log = Ok (r, s1, t1, log1).
Proof.
  unfold cb_run, cb_run_fuel, READ_FUEL. destruct c as [cap|d|]; cbn [inner_read inner_write inner_flush].
  - destruct (negb (handshaken s) && written s) eqn:C.
    + cbn [t_flush pipe_tp]. destruct (pipe_flush_total t) as (a & p1 & -> & _). cbn [rbind].
      destruct a; try (eexists _, _, _, _; reflexivity).
      cbn [handshaken written set_written]. rewrite andb_false_r.
      cbn [t_read pipe_tp]. destruct (pipe_read_total p1 cap) as (a & p2 & -> & _).
      eexists _, _, _, _; reflexivity.
    + cbn [t_read pipe_tp]. destruct (pipe_read_total t cap) as (a & p2 & -> & _).
      eexists _, _, _, _; reflexivity.
  - unfold inner_write. cbn [t_write pipe_tp]. destruct (pipe_write_total t d) as (a & p2 & -> & _).
    eexists _, _, _, _; reflexivity.
  - unfold inner_flush. destruct (handshaken s).
    + cbn [t_flush pipe_tp]. destruct (pipe_flush_total t) as (a & p2 & -> & _).
      eexists _, _, _, _; reflexivity.
    + eexists _, _, _, _; reflexivity.
Qed.

(* Pending answers seen + Pending answers left in the schedule = constant *)
Definition I_pipe (P : nat) (s : shim) (t : pipe) (log : list ev) : Prop :=
  count is_tpend log + pend_left t = P.

Lemma is_tpend_tpend1 c a : count is_tpend [EvT c a] = tpend1 a.
Proof. destruct a; reflexivity. Qed.

Lemma I_pipe_cb P s t log c tev r s1 t1 :
  I_pipe P s t log -> cb_effect pipe_tp s t c tev r s1 t1 -> I_pipe P s1 t1 (log ++ tev ++ [EvCb c r s1]).
Proof.
  unfold I_pipe. intros H Ef. rewrite !count_app. cbn [count filter is_tpend length].
  inv Ef; cbn [t_read t_write t_flush pipe_tp] in *.
  - destruct (pipe_read_total t cap) as (a' & p' & Eq & M). rewrite Eq in H1. inv H1.
    rewrite is_tpend_tpend1. lia.
  - destruct (pipe_flush_total t) as (a' & p' & Eq & M). rewrite Eq in H1. inv H1.
    rewrite is_tpend_tpend1. lia.
  - destruct (pipe_flush_total t) as (a' & p' & Eq & M). rewrite Eq in H1. inv H1.
    destruct (pipe_read_total t0 cap) as (a'' & p'' & Eq2 & M2). rewrite Eq2 in H2. inv H2.
    change [EvT TcFlush (TOk x); EvT (TcRead cap) a] with ([EvT TcFlush (TOk x)] ++ [EvT (TcRead cap) a]).
    rewrite count_app, !is_tpend_tpend1. cbn [tpend1] in *. lia.
  - destruct (pipe_write_total t d) as (a' & p' & Eq & M). rewrite Eq in H0. inv H0.
    rewrite is_tpend_tpend1. lia.
  - destruct (pipe_flush_total t) as (a' & p' & Eq & M). rewrite Eq in H1. inv H1.
    rewrite is_tpend_tpend1. lia.
  - cbn. lia.
Qed.

Lemma I_pipe_one P s t log e s' : I_pipe P s t log -> plain_ev e = true -> I_pipe P s' t (log ++ [e]).
Proof.
  unfold I_pipe. intros H A. rewrite count_app. destruct e; try discriminate A; cbn; lia.
Qed.

Section PipeRun.
  Variable E : Type.
  Variable eng : E -> option cbret -> E * eact.
  Hypothesis H_wb : forall e inp e1, eng e inp = (e1, AEnd EWouldBlock) -> inp = Some RWouldBlock.

  (* "makes progress": an API call ends within B callbacks whatever they return *)
  Fixpoint ends_within (n : nat) (e : E) (inp : option cbret) : Prop :=
    match n with
    | O => False
    | S k =>
      match eng e inp with
      | (_, AEnd _) => True
      | (e1, ACall _) => forall r, ends_within k e1 (Some r)
      end
    end.
  Variable B : nat.
  Hypothesis H_bound : forall e, ends_within B e None.

  Lemma api_loop_pipe_total : forall n e inp s t log,
    ends_within n e inp -> exists res, api_loop pipe_tp E eng n e inp s t log = Ok res.
  Proof.
    induction n as [|k IH]; cbn [ends_within api_loop]; intros e inp s t log H; [contradiction|].
    destruct (eng e inp) as [e1 [c|r]].
    - destruct (cb_run_pipe_total s c t log) as (r & s1 & t1 & log1 & ->). cbn [rbind].
      apply IH. apply H.
    - eexists. reflexivity.
  Qed.

  Lemma hs_finish_flush_pipe_total first s t log :
    exists res, hs_finish_flush pipe_tp first s t log = Ok res.
  Proof.
    unfold hs_finish_flush.
    destruct (cb_run_pipe_total (if first then finish_handshake s else s) CbFlush t
                (if first then log ++ [EvFinish] else log)) as (r & s1 & t1 & log1 & ->).
    cbn [rbind]. destruct r; eexists; reflexivity.
  Qed.

  Lemma hs_after_pipe_total r e s t log : exists res, hs_after pipe_tp E r e s t log = Ok res.
  Proof.
    unfold hs_after. destruct r; try (eexists; reflexivity).
    destruct (hs_finish_flush_pipe_total true s t log) as ([[[[h st] s1] t1] log1] & ->).
    eexists; reflexivity.
  Qed.

  Lemma hs_poll_pipe_total st e s t log :
    st_ok st s -> exists res, hs_poll pipe_tp E eng B st e s t log = Ok res.
  Proof.
    unfold hs_poll, hs_poll_body, api_call. intros Hst.
    destruct st; cbn in Hst; try contradiction.
    - destruct (api_loop_pipe_total B e None s t log (H_bound e)) as ([[[[r e1] s1] t1] log1] & ->).
      cbn [rbind]. destruct r.
      + destruct (hs_after_pipe_total EDone e1 s1 t1 log1) as ([[[[[h st] e2] s2] t2] log2] & ->).
        eexists; reflexivity.
      + destruct (api_loop_pipe_total B e1 None s1 t1 log1 (H_bound e1)) as ([[[[r2 e2] s2] t2] log2] & ->).
        cbn [rbind].
        destruct (hs_after_pipe_total r2 e2 s2 t2 log2) as ([[[[[h st] e3] s3] t3] log3] & ->).
        eexists; reflexivity.
      + destruct (hs_after_pipe_total EFail e1 s1 t1 log1) as ([[[[[h st] e2] s2] t2] log2] & ->).
        eexists; reflexivity.
    - destruct (api_loop_pipe_total B e None s t log (H_bound e)) as ([[[[r e1] s1] t1] log1] & ->).
      cbn [rbind].
      destruct (hs_after_pipe_total r e1 s1 t1 log1) as ([[[[[h st] e2] s2] t2] log2] & ->).
      eexists; reflexivity.
    - destruct (hs_finish_flush_pipe_total false s t log) as ([[[[h st] s1] t1] log1] & ->).
      eexists; reflexivity.
  Qed.

  Lemma hs_poll_pipe_inv P fuel st e s t log h st1 e1 s1 t1 log1 :
    hs_poll pipe_tp E eng fuel st e s t log = Ok (h, st1, e1, s1, t1, log1) ->
    I_pipe P s t log -> I_pipe P s1 t1 log1.
  Proof.
    apply (inv_hs_poll pipe_tp (I_pipe P)).
    - intros; eapply I_pipe_cb; eauto.
    - intros; eapply I_pipe_one; eauto.
    - intros; eapply I_pipe_one; eauto.
    - intros; eapply I_pipe_one; eauto.
  Qed.

  (* no deadlock, no spin: with at most [polls - 1] Pending answers left in the
     schedule, the future is Ready after at most [polls] polls *)
  Theorem hs_run_completes : forall polls st e s t log,
    st_ok st s -> pend_left t < polls ->
    exists h st1 e1 s1 t1 log1,
      hs_run pipe_tp E eng polls B st e s t log = Ok (h, st1, e1, s1, t1, log1) /\ h <> HPend.
  Proof.
    induction polls as [|p IH]; intros st e s t log Hst Lt; [lia|].
    cbn [hs_run].
    destruct (hs_poll_pipe_total st e s t log Hst) as ([[[[[h st1] e1] s1] t1] log1] & P).
    rewrite P. cbn [rbind].
    destruct h; try (eexists _, _, _, _, _, _; split; [reflexivity|discriminate]).
    pose proof (hs_poll_pipe_inv _ _ _ _ _ _ _ _ _ _ _ _ _ P eq_refl) as Inv.
    unfold I_pipe in Inv.
    unfold hs_poll in P. apply rbind_ok in P.
    destruct P as ([[[[[h2 st2] e2] s2] t2] log2] & Bd & P). inv P.
    pose proof (hs_poll_body_np pipe_tp E eng H_wb _ _ _ _ _ _ _ _ _ _ _ _ Bd) as (N1 & N2 & _).
    pose proof (hs_poll_body_st pipe_tp E eng _ _ _ _ _ _ _ _ _ _ _ _ Bd Hst) as [S1 _].
    specialize (N2 eq_refl). specialize (S1 eq_refl).
    rewrite count_app in Inv. cbn in Inv. unfold np in *.
    cbn [t_wake pipe_tp].
    apply IH; auto. lia.
  Qed.

End PipeRun.

(* ---------------------------------------------------------------------- *)
(* over compio-io's poll adapter (C12): the bytes the engine emits / consumes
   are the bytes of the inner stream, once, in order                        *)

Lemma run_app {Op : Type} (step : Op -> stream -> R (out * stream)) : forall ops1 ops2 s outs1 s1,
  run step ops1 s = Ok (outs1, s1) ->
  run step (ops1 ++ ops2) s =
  (let! '(outs2, s2) := run step ops2 s1 in Ok (outs1 ++ outs2, s2)).
Proof.
  induction ops1 as [|op ops IH]; cbn [run app]; intros ops2 s outs1 s1 H.
  - inv H. destruct (run step ops2 s1) as [[o2 s2]|c]; reflexivity.
  - apply rbind_ok in H. destruct H as ([o sa] & St & H). rewrite St. cbn [rbind].
    apply rbind_ok in H. destruct H as ([os sb] & Rn & H). inv H.
    rewrite (IH ops2 _ _ _ Rn).
    destruct (run step ops2 s1) as [[o2 s2]|c]; reflexivity.
Qed.

Lemma run_snoc {Op : Type} (step : Op -> stream -> R (out * stream)) ops op s outs s1 o s2 :
  run step ops s = Ok (outs, s1) -> step op s1 = Ok (o, s2) ->
  run step (ops ++ [op]) s = Ok (outs ++ [o], s2).
Proof.
  intros H St. rewrite (run_app step _ [op] _ _ _ H). cbn [run]. rewrite St. reflexivity.
Qed.

Lemma handed_app a b : handed (a ++ b) = handed a ++ handed b.
Proof. unfold handed. apply flat_map_app. Qed.
Lemma accepted_app a b : accepted (a ++ b) = accepted a ++ accepted b.
Proof. unfold accepted. apply flat_map_app. Qed.

Section OverCompat.
  Variable cfuel : nat.
  Variable st0 : stream.

  (* the log stands for a program of adapter calls whose outputs carry exactly
     the bytes the log records *)
  Definition I_sync (s : shim) (t : stream) (log : list ev) : Prop :=
    exists outs, run (poll_step_fuel cfuel) (pops_of log) st0 = Ok (outs, t) /\
                 handed outs = tr_delivered log /\ accepted outs = tr_accepted log.

  Lemma pops_of_app a b : pops_of (a ++ b) = pops_of a ++ pops_of b.
  Proof. unfold pops_of. apply flat_map_app. Qed.
  Lemma tr_delivered_app a b : tr_delivered (a ++ b) = tr_delivered a ++ tr_delivered b.
  Proof. unfold tr_delivered. apply flat_map_app. Qed.
  Lemma tr_accepted_app a b : tr_accepted (a ++ b) = tr_accepted a ++ tr_accepted b.
  Proof. unfold tr_accepted. apply flat_map_app. Qed.

  Lemma I_sync_silent s t log e s' :
    I_sync s t log -> pops_of [e] = [] -> tr_delivered [e] = [] -> tr_accepted [e] = [] ->
    I_sync s' t (log ++ [e]).
  Proof.
    intros (outs & R & H1 & H2) P D A. exists outs.
    rewrite pops_of_app, tr_delivered_app, tr_accepted_app, P, D, A, !app_nil_r. auto.
  Qed.

  Lemma sync_read s t log cap a t1 s' :
    I_sync s t log -> compat_read cfuel t cap = Ok (a, t1) ->
    I_sync s' t1 (log ++ [EvT (TcRead cap) a]).
  Proof.
    intros (outs & R & H1 & H2) C. unfold compat_read in C.
    apply rbind_ok in C. destruct C as ([o sa] & St & C).
    assert (X : a = match o with ORd (PRBytes bs) => TOk bs | ORd (PRErr k) => TErr k | _ => TPend end
                /\ sa = t1 /\ tr_delivered [EvT (TcRead cap) a] = handed_of o /\ accepted_of o = []).
    { destruct o as [r|r|bs|d r|r|oo|oo|l|]; try discriminate C.
      destruct r; inv C; cbn; rewrite ?app_nil_r; auto. }
    destruct X as (-> & -> & D & A).
    exists (outs ++ [o]). rewrite pops_of_app. cbn [pops_of flat_map pop_of_ev app].
    split; [eapply run_snoc; eauto|].
    rewrite handed_app, accepted_app, tr_delivered_app, tr_accepted_app, H1, H2, D.
    unfold handed, accepted. cbn [flat_map]. rewrite A, !app_nil_r.
    split; reflexivity.
  Qed.

  Lemma sync_write s t log d a t1 s' :
    I_sync s t log -> compat_write cfuel t d = Ok (a, t1) ->
    I_sync s' t1 (log ++ [EvT (TcWrite d) a]).
  Proof.
    intros (outs & R & H1 & H2) C. unfold compat_write in C.
    apply rbind_ok in C. destruct C as ([o sa] & St & C).
    exists (outs ++ [o]). rewrite pops_of_app. cbn [pops_of flat_map pop_of_ev app].
    destruct o as [r|r|bs|d' r|r|oo|oo|l|]; try discriminate C.
    assert (Ed : d' = d).
    { unfold poll_step_fuel in St. apply rbind_ok in St. destruct St as ([r' h] & _ & St). inv St. reflexivity. }
    subst d'.
    destruct r; inv C;
      (split; [eapply run_snoc; eauto|]);
      rewrite handed_app, accepted_app, tr_delivered_app, tr_accepted_app, H1, H2;
      unfold handed, accepted; cbn; rewrite ?app_nil_r; auto.
  Qed.

  Lemma sync_flush s t log a t1 s' :
    I_sync s t log -> compat_flush cfuel t = Ok (a, t1) ->
    I_sync s' t1 (log ++ [EvT TcFlush a]).
  Proof.
    intros (outs & R & H1 & H2) C. unfold compat_flush in C.
    apply rbind_ok in C. destruct C as ([o sa] & St & C).
    exists (outs ++ [o]). rewrite pops_of_app. cbn [pops_of flat_map pop_of_ev app].
    destruct o as [r|r|bs|d' r|r|oo|oo|l|]; try discriminate C.
    destruct r; inv C;
      (split; [eapply run_snoc; eauto|]);
      rewrite handed_app, accepted_app, tr_delivered_app, tr_accepted_app, H1, H2;
      unfold handed, accepted; cbn; rewrite ?app_nil_r; auto.
  Qed.

  Lemma I_sync_cb s t log c tev r s1 t1 :
    I_sync s t log -> cb_effect (compat_tp cfuel) s t c tev r s1 t1 ->
    I_sync s1 t1 (log ++ tev ++ [EvCb c r s1]).
  Proof.
    intros H Ef. rewrite app_assoc. apply I_sync_silent with (s := s1); try reflexivity.
    inv Ef; cbn [t_read t_write t_flush compat_tp] in *.
    - eapply sync_read; eauto.
    - eapply sync_flush; eauto.
    - change [EvT TcFlush (TOk x); EvT (TcRead cap) a] with ([EvT TcFlush (TOk x)] ++ [EvT (TcRead cap) a]).
      rewrite app_assoc. eapply sync_read; eauto. eapply sync_flush with (s' := s); eauto.
    - eapply sync_write; eauto.
    - eapply sync_flush; eauto.
    - rewrite app_nil_r. destruct H as (outs & R & H1 & H2). exists outs. auto.
  Qed.

  Lemma I_sync_wake s t log : I_sync s t log -> I_sync s (compat_wake t) (log ++ [EvWake]).
  Proof.
    intros (outs & R & H1 & H2). unfold compat_wake.
    destruct (rd_wake (rh t)) as [l1 h1] eqn:W1. destruct (wr_wake (wh t)) as [l2 h2] eqn:W2.
    exists (outs ++ [OWoken l1; OWoken l2]).
    rewrite pops_of_app. cbn [pops_of flat_map pop_of_ev app].
    split.
    - rewrite (run_app _ _ [PWakeR; PWakeW] _ _ _ R). cbn [run poll_step_fuel].
      rewrite W1. cbn [rbind rh wh]. rewrite W2. cbn [rbind]. reflexivity.
    - rewrite handed_app, accepted_app, tr_delivered_app, tr_accepted_app, H1, H2.
      unfold handed, accepted. cbn. rewrite !app_nil_r. auto.
  Qed.

  Variable E : Type.
  Variable eng : E -> option cbret -> E * eact.

  Lemma hs_run_sync polls fuel st e s t log h st1 e1 s1 t1 log1 :
    hs_run (compat_tp cfuel) E eng polls fuel st e s t log = Ok (h, st1, e1, s1, t1, log1) ->
    I_sync s t log -> I_sync s1 t1 log1.
  Proof.
    apply (inv_hs_run (compat_tp cfuel) I_sync).
    - intros; eapply I_sync_cb; eauto.
    - intros; eapply I_sync_silent; eauto.
    - intros; eapply I_sync_silent; eauto.
    - intros; eapply I_sync_silent; eauto.
    - intros; apply I_sync_wake; auto.
  Qed.
End OverCompat.

(* the handshake over AsyncStream over ANY inner stream (schedules rs / ws,
   payload src), for every engine: what the engine was told it read is a prefix
   of the inner reader's payload (the rest is buffered or not yet delivered),
   what it was told it wrote is what the inner writer received plus what the
   adapter still holds *)
Theorem hs_over_compat_fifo E eng cfuel base mx rs src ws polls fuel e h st1 e1 s1 t1 log :
  hs_run (compat_tp cfuel) E eng polls fuel HsStart e shim0 (st_new base mx rs src ws) [] =
    Ok (h, st1, e1, s1, t1, log) ->
  eng_read log ++ buf_pending (rb (rh t1)) ++ rsrc (rh t1) = src /\
  sink_bytes (wlog (wh t1)) ++ buf_pending (wb (wh t1)) = eng_wrote log.
Proof.
  intros H.
  pose proof (hs_run_safe (compat_tp cfuel) E eng _ _ _ _ _ _ _ _ _ _ H) as (B1 & B2 & _).
  apply (hs_run_sync cfuel (st_new base mx rs src ws)) in H.
  - destruct H as (outs & R & H1 & H2).
    pose proof (poll_fifo _ _ _ _ _ _ _ _ _ R) as (F1 & F2 & _).
    rewrite B1, B2, <- H1, <- H2. auto.
  - exists []. cbn. auto.
Qed.

(* ---------------------------------------------------------------------- *)
(* compio-ws                                                                *)

(* the loop of poll_next makes at most two iterations *)
Lemma ws_poll_next_fuel f ni ns fs calls :
  ws_poll_next (S (S f)) ni ns fs calls = ws_poll_next 2 ni ns fs calls /\
  exists res, ws_poll_next 2 ni ns fs calls = Some res.
Proof.
  cbn [ws_poll_next]. destruct ni as [item|].
  - destruct (ws_flush2 fs calls) as [[a fs1] c1]. destruct a; split; eauto.
  - destruct (nnext ns) as [a ns1]. destruct a.
    + destruct (ws_flush2 fs (calls ++ [WcNext])) as [[a fs1] c1]. destruct f; destruct a; split; eauto.
    + destruct (ws_flush2 fs (calls ++ [WcNext])) as [[a fs1] c1]. destruct f; destruct a; split; eauto.
    + split; eauto.
Qed.

Lemma ws_flush2_ok fs calls fs1 calls1 :
  ws_flush2 fs calls = (FOk, fs1, calls1) -> calls1 = calls ++ [WcFlushEngine; WcFlushTransport].
Proof.
  unfold ws_flush2. destruct (fnext fs) as [a1 r1]. destruct a1; intros H; try (inv H; fail).
  destruct (fnext r1) as [a2 r2]. inv H. rewrite <- app_assoc. reflexivity.
Qed.

(* flush before yield: an item leaves poll_next only in a call that has just
   flushed the engine's write queue and then the transport, both successfully;
   nothing stays parked afterwards *)
Theorem ws_yield_after_flush ni ns fs calls item ni1 ns1 fs1 calls1 :
  ws_poll_next WS_FUEL ni ns fs calls = Some (WYield item, ni1, ns1, fs1, calls1) ->
  ni1 = None /\ exists pre, calls1 = pre ++ [WcFlushEngine; WcFlushTransport].
Proof.
  unfold WS_FUEL. cbn [ws_poll_next]. destruct ni as [it|].
  - destruct (ws_flush2 fs calls) as [[a fs'] c'] eqn:F. destruct a; intros H; inv H.
    split; [reflexivity|]. exists calls. eapply ws_flush2_ok; eauto.
  - destruct (nnext ns) as [a ns']. destruct a; try (intros H; inv H; fail).
    + destruct (ws_flush2 fs (calls ++ [WcNext])) as [[a fs'] c'] eqn:F. destruct a; intros H; inv H.
      split; [reflexivity|]. exists (calls ++ [WcNext]). eapply ws_flush2_ok; eauto.
    + destruct (ws_flush2 fs (calls ++ [WcNext])) as [[a fs'] c'] eqn:F. destruct a; intros H; inv H.
      split; [reflexivity|]. exists (calls ++ [WcNext]). eapply ws_flush2_ok; eauto.
Qed.

Definition yielded (r : wres) : list N := match r with WYield (Some m) => [m] | _ => [] end.

(* one call: what it hands out ++ what it parks ++ what the engine has not
   produced yet is unchanged — nothing lost, duplicated or reordered *)
Lemma ws_poll_next_fifo ni ns fs calls r ni1 ns1 fs1 calls1 :
  ws_poll_next WS_FUEL ni ns fs calls = Some (r, ni1, ns1, fs1, calls1) ->
  yielded r ++ parked ni1 ++ nitems ns1 = parked ni ++ nitems ns.
Proof.
  unfold WS_FUEL. cbn [ws_poll_next]. destruct ni as [it|].
  - destruct (ws_flush2 fs calls) as [[a fs'] c']. destruct a; intros H; inv H; cbn.
    + destruct it; reflexivity.
    + reflexivity.
    + reflexivity.
  - destruct ns as [|a ns']; cbn [nnext].
    + destruct (ws_flush2 fs (calls ++ [WcNext])) as [[a fs'] c']. destruct a; intros H; inv H; reflexivity.
    + destruct a.
      * destruct (ws_flush2 fs (calls ++ [WcNext])) as [[a fs'] c']. destruct a; intros H; inv H; reflexivity.
      * destruct (ws_flush2 fs (calls ++ [WcNext])) as [[a fs'] c']. destruct a; intros H; inv H; reflexivity.
      * intros H; inv H. reflexivity.
Qed.

Theorem ws_reader_fifo : forall polls ni ns fs got calls got1 ni1 ns1 fs1 calls1 fin,
  ws_reader polls ni ns fs got calls = (got1, ni1, ns1, fs1, calls1, fin) ->
  got1 ++ parked ni1 ++ nitems ns1 = got ++ parked ni ++ nitems ns.
Proof.
  induction polls as [|p IH]; cbn [ws_reader]; intros ni ns fs got calls got1 ni1 ns1 fs1 calls1 fin H.
  - inv H. reflexivity.
  - destruct (ws_poll_next WS_FUEL ni ns fs calls) as [[[[[r ni'] ns'] fs'] c']|] eqn:P.
    + apply ws_poll_next_fifo in P.
      destruct r as [[m|]|k|].
      * apply IH in H. cbn in P. rewrite H, <- app_assoc. cbn. rewrite <- P. reflexivity.
      * inv H. cbn in P. rewrite P. reflexivity.
      * apply IH in H. cbn in P. rewrite H, P. reflexivity.
      * apply IH in H. cbn in P. rewrite H, P. reflexivity.
    + inv H. reflexivity.
Qed.

(* no stall, no spin: every call either ends the stream or uses up at least one
   answer of the environment (or hands out the parked item) *)
Definition ws_measure (ni : option (option N)) (ns : list nans) (fs : list fans) : nat :=
  2 * length ns + length fs +
  match ni with Some (Some _) => 2 | None => 1 | Some None => 0 end.

Lemma ws_flush2_len fs calls a fs1 calls1 :
  ws_flush2 fs calls = (a, fs1, calls1) ->
  length fs1 <= length fs /\ (a <> FOk -> length fs1 < length fs).
Proof.
  unfold ws_flush2.
  assert (Fin : forall (a : fans) (n m : nat), (a = FOk -> n <= m) -> (a <> FOk -> n < m) ->
                n <= m /\ (a <> FOk -> n < m)).
  { intros a0 n m H1 H2. split; [|exact H2]. destruct a0; [apply H1; reflexivity| |];
      (assert (n < m) by (apply H2; discriminate); lia). }
  destruct fs as [|a1 r1]; cbn [fnext].
  - intros H; inv H. apply Fin; intros X; [cbn; lia|exfalso; apply X; reflexivity].
  - destruct a1.
    + destruct r1 as [|a2 r2]; cbn [fnext]; intros H; inv H; apply Fin; intros X; cbn; lia.
    + intros H; inv H. apply Fin; intros X; cbn; lia.
    + intros H; inv H. apply Fin; intros X; cbn; lia.
Qed.

Lemma ws_poll_next_measure ni ns fs calls r ni1 ns1 fs1 calls1 :
  ws_poll_next WS_FUEL ni ns fs calls = Some (r, ni1, ns1, fs1, calls1) ->
  r = WYield None \/ ws_measure ni1 ns1 fs1 < ws_measure ni ns fs.
Proof.
  assert (G : forall a (fs fs' : list fans), (length fs' <= length fs /\ (a <> FOk -> length fs' < length fs)) ->
               a <> FOk -> length fs' < length fs) by (intros a0 f1 f2 [_ X] Y; auto).
  unfold WS_FUEL, ws_measure. cbn [ws_poll_next]. destruct ni as [it|].
  - destruct (ws_flush2 fs calls) as [[a fs'] c'] eqn:F. apply ws_flush2_len in F.
    destruct a; intros H; inv H.
    + destruct it; [right; lia|left; reflexivity].
    + right. apply G in F; [|discriminate]. lia.
    + right. apply G in F; [|discriminate]. lia.
  - destruct ns as [|a ns']; cbn [nnext].
    + destruct (ws_flush2 fs (calls ++ [WcNext])) as [[a fs'] c'] eqn:F. apply ws_flush2_len in F.
      destruct a; intros H; inv H.
      * left. reflexivity.
      * right. apply G in F; [|discriminate]. cbn [length]. lia.
      * right. apply G in F; [|discriminate]. cbn [length]. lia.
    + destruct a.
      * destruct (ws_flush2 fs (calls ++ [WcNext])) as [[a fs'] c'] eqn:F. apply ws_flush2_len in F.
        destruct a; intros H; inv H; right; cbn [length].
        -- lia.
        -- apply G in F; [|discriminate]. lia.
        -- apply G in F; [|discriminate]. lia.
      * destruct (ws_flush2 fs (calls ++ [WcNext])) as [[a fs'] c'] eqn:F. apply ws_flush2_len in F.
        destruct a; intros H; inv H.
        -- left. reflexivity.
        -- right. apply G in F; [|discriminate]. cbn [length]. lia.
        -- right. apply G in F; [|discriminate]. cbn [length]. lia.
      * intros H; inv H. right. cbn [length]. lia.
Qed.

Theorem ws_reader_completes : forall polls ni ns fs got calls,
  ws_measure ni ns fs < polls ->
  exists got1 ni1 ns1 fs1 calls1,
    ws_reader polls ni ns fs got calls = (got1, ni1, ns1, fs1, calls1, true).
Proof.
  induction polls as [|p IH]; intros ni ns fs got calls Lt; [lia|].
  cbn [ws_reader].
  destruct (ws_poll_next_fuel 0 ni ns fs calls) as [_ [[[[[r ni'] ns'] fs'] c'] P]].
  fold WS_FUEL in P. rewrite P.
  pose proof (ws_poll_next_measure _ _ _ _ _ _ _ _ _ P) as [-> | M].
  - eexists _, _, _, _, _. reflexivity.
  - destruct r as [[m|]|k|].
    + apply IH. lia.
    + eexists _, _, _, _, _. reflexivity.
    + apply IH. lia.
    + apply IH. lia.
Qed.

(* a Pending result means the last answer taken was a Pending one: the engine
   or the transport holds the waker *)
Theorem ws_pending_registered ni ns fs calls ni1 ns1 fs1 calls1 :
  ws_poll_next WS_FUEL ni ns fs calls = Some (WPending, ni1, ns1, fs1, calls1) ->
  (exists pre, ns = pre ++ NPend :: ns1 /\ fs1 = fs) \/
  (exists pre, fs = pre ++ FPend :: fs1 /\ ni1 <> None).
Proof.
  assert (G : forall fs calls fs1 calls1, ws_flush2 fs calls = (FPend, fs1, calls1) ->
                exists pre, fs = pre ++ FPend :: fs1).
  { clear. intros fs calls fs1 calls1. unfold ws_flush2. destruct fs as [|a1 r1]; cbn [fnext].
    - intros H; inv H.
    - destruct a1.
      + destruct r1 as [|a2 r2]; cbn [fnext]; intros H; inv H. exists [FOk]. reflexivity.
      + intros H; inv H. exists []. reflexivity.
      + intros H; inv H. }
  unfold WS_FUEL. cbn [ws_poll_next]. destruct ni as [it|].
  - destruct (ws_flush2 fs calls) as [[a fs'] c'] eqn:F. destruct a; intros H; inv H.
    right. apply G in F. destruct F as [pre ->]. exists pre. split; [reflexivity|discriminate].
  - destruct ns as [|a ns']; cbn [nnext].
    + destruct (ws_flush2 fs (calls ++ [WcNext])) as [[a fs'] c'] eqn:F. destruct a; intros H; inv H.
      right. apply G in F. destruct F as [pre ->]. exists pre. split; [reflexivity|discriminate].
    + destruct a.
      * destruct (ws_flush2 fs (calls ++ [WcNext])) as [[a fs'] c'] eqn:F. destruct a; intros H; inv H.
        right. apply G in F. destruct F as [pre ->]. exists pre. split; [reflexivity|discriminate].
      * destruct (ws_flush2 fs (calls ++ [WcNext])) as [[a fs'] c'] eqn:F. destruct a; intros H; inv H.
        right. apply G in F. destruct F as [pre ->]. exists pre. split; [reflexivity|discriminate].
      * intros H; inv H. left. exists []. split; reflexivity.
Qed.

(* ---------------------------------------------------------------------- *)
(* statements assembled for prop/C15.v                                      *)

(* a callback that reports would-block has just seen the transport answer
   Pending (which registered the task's waker) *)
Lemma cb_wouldblock_registered {T} (tp : transport T) s c t log s1 t1 log1 :
  cb_run tp s c t log = Ok (RWouldBlock, s1, t1, log1) ->
  exists pre c', log1 = log ++ pre ++ [EvT c' TPend; EvCb c RWouldBlock s1].
Proof.
  intros H. apply cb_run_effect in H. destruct H as (tev & Ef & ->).
  apply cb_effect_pend in Ef. destruct Ef as [P _]. destruct (P eq_refl) as (_ & pre & c' & ->).
  exists pre, c'. rewrite <- !app_assoc. reflexivity.
Qed.

(* whenever the layer waits (a transport call answered Pending) before
   finish_handshake: it waits for a flush or a write to go on, or nothing is
   held back *)
Lemma fbw_ok_waits log :
  fbw_ok log = true ->
  forall pre c post, log = pre ++ EvT c TPend :: post -> existsb is_finish pre = false ->
    c = TcFlush \/ (exists d, c = TcWrite d) \/ unflushed pre = [].
Proof.
  intros H pre c post Eq Hf. destruct c as [cap|d|]; eauto.
  right. right. eapply fbw_ok_reads; eauto.
Qed.

Theorem hs_no_stall (E : Type) (eng : E -> option cbret -> E * eact) (B : nat) :
  (forall e inp e1, eng e inp = (e1, AEnd EWouldBlock) -> inp = Some RWouldBlock) ->
  (forall e, ends_within E eng B e None) ->
  forall sched src e,
  exists h st1 e1 s1 p1 log,
    hs_run pipe_tp E eng (S (count is_cpending sched)) B HsStart e shim0 (mkpipe sched src []) [] =
      Ok (h, st1, e1, s1, p1, log) /\
    h <> HPend /\
    count is_pollpend log <= count is_tpend log /\
    count is_tcall log <= 2 * count is_cb log.
Proof.
  intros Hwb Hb sched src e.
  destruct (hs_run_completes E eng Hwb B Hb (S (count is_cpending sched)) HsStart e shim0
              (mkpipe sched src []) []) as (h & st1 & e1 & s1 & p1 & log & R & Nh).
  - exact Logic.I.
  - unfold pend_left. cbn [psched]. lia.
  - exists h, st1, e1, s1, p1, log. split; [exact R|]. split; [exact Nh|].
    pose proof (hs_run_pending pipe_tp E eng Hwb _ _ _ _ _ _ _ _ _ _ _ _ _ R) as P.
    pose proof (hs_run_safe pipe_tp E eng _ _ _ _ _ _ _ _ _ _ R) as (_ & _ & _ & C).
    unfold cpp, np in P. cbn in P. split; [lia|exact C].
Qed.

Theorem hs_flush_before_wait {T} (tp : transport T) (E : Type) (eng : E -> option cbret -> E * eact)
  polls fuel e t h st1 e1 s1 t1 log :
  hs_run tp E eng polls fuel HsStart e shim0 t [] = Ok (h, st1, e1, s1, t1, log) ->
  (forall pre c post, log = pre ++ EvT c TPend :: post -> existsb is_finish pre = false ->
     c = TcFlush \/ (exists d, c = TcWrite d) \/ unflushed pre = []) /\
  (forall pre cap a post, log = pre ++ EvT (TcRead cap) a :: post -> existsb is_finish pre = false ->
     unflushed pre = []) /\
  (h = HOk -> st1 = HsDone /\ handshaken s1 = true /\ unflushed log = []).
Proof.
  intros H.
  pose proof (hs_run_safe tp E eng _ _ _ _ _ _ _ _ _ _ H) as (_ & _ & F & _).
  split; [apply fbw_ok_waits; exact F|]. split; [apply fbw_ok_reads; exact F|].
  intros ->. eapply hs_run_done; [exact H|exact Logic.I].
Qed.

Lemma toy_wb : forall e inp e1, toy_eng e inp = (e1, AEnd EWouldBlock) -> inp = Some RWouldBlock.
Proof.
  intros e inp e1 H. destruct e; destruct inp as [[bs| |k]|]; cbn in H; inv H; reflexivity.
Qed.

Lemma toy_bound : forall e, ends_within toy toy_eng 4 e None.
Proof.
  intros e. destruct e; cbn; auto;
    repeat (let r := fresh "r" in intros r; destruct r; cbn; auto).
Qed.
