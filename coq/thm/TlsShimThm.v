(* TlsShimThm.v — lemmas about model/TlsShim.v (property C15). *)
From Compio.Model Require Import Base IoHelpers Compat TlsShim.
From Compio.Thm Require Import CompatThm.

Local Ltac inv H := inversion H; subst; clear H.

(* ---------------------------------------------------------------------- *)
(* small facts                                                              *)

Lemma count_app {A} (f : A -> bool) l1 l2 : count f (l1 ++ l2) = count f l1 + count f l2.
Proof. unfold count. rewrite filter_app, app_length. reflexivity. Qed.

Lemma rbind_ok {A B} (r : R A) (f : A -> R B) b :
  rbind r f = Ok b -> exists a, r = Ok a /\ f a = Ok b.
Proof. destruct r; cbn; intros H; [eauto|discriminate]. Qed.

Lemma unflushed_app l1 l2 : unflushed (l1 ++ l2) = fold_left unflushed_step l2 (unflushed l1).
Proof. unfold unflushed. apply fold_left_app. Qed.

Lemma fbw_app l1 l2 : fbw (l1 ++ l2) = fold_left fbw_step l2 (fbw l1).
Proof. unfold fbw. apply fold_left_app. Qed.

(* ---------------------------------------------------------------------- *)
(* what one callback does, as a relation                                    *)

Section Gen.
  Context {T : Type} (tp : transport T).

  Definition flush_first (s : shim) : bool := negb (handshaken s) && written s.

  Inductive cb_effect (s : shim) (t : T) : cb -> list ev -> cbret -> shim -> T -> Prop :=
  | EffR1 cap a t1 :
      flush_first s = false -> t_read tp t cap = Ok (a, t1) ->
      cb_effect s t (CbRead cap) [EvT (TcRead cap) a] (ret_of a) s t1
  | EffR2 cap a t1 :
      flush_first s = true -> t_flush tp t = Ok (a, t1) -> (forall x, a <> TOk x) ->
      cb_effect s t (CbRead cap) [EvT TcFlush a] (ret_of a) s t1
  | EffR3 cap x a t1 t2 :
      flush_first s = true -> t_flush tp t = Ok (TOk x, t1) -> t_read tp t1 cap = Ok (a, t2) ->
      cb_effect s t (CbRead cap) [EvT TcFlush (TOk x); EvT (TcRead cap) a] (ret_of a)
                (set_written s false) t2
  | EffW d a t1 :
      t_write tp t d = Ok (a, t1) ->
      cb_effect s t (CbWrite d) [EvT (TcWrite d) a] (ret_of a)
                (match a with TOk _ => set_written s true | _ => s end) t1
  | EffF1 a t1 :
      handshaken s = true -> t_flush tp t = Ok (a, t1) ->
      cb_effect s t CbFlush [EvT TcFlush a] (ret_of a) s t1
  | EffF2 :
      handshaken s = false -> cb_effect s t CbFlush [] (ROk []) s t.

  (* the read loop needs two iterations at most: no spin *)
  Lemma inner_read_fuel f s cap t log :
    inner_read tp (S (S f)) s cap t log = inner_read tp 2 s cap t log.
  Proof.
    cbn [inner_read]. destruct (negb (handshaken s) && written s) eqn:C; [|reflexivity].
    destruct (t_flush tp t) as [[a t1]|c]; cbn [rbind]; [|reflexivity].
    destruct a; try reflexivity.
    cbn [handshaken written set_written]. rewrite andb_false_r.
    destruct f; reflexivity.
  Qed.

  Lemma cb_run_fuel_indep f s c t log :
    cb_run_fuel tp (S (S f)) s c t log = cb_run tp s c t log.
  Proof.
    unfold cb_run, cb_run_fuel, READ_FUEL. destruct c; try reflexivity.
    rewrite inner_read_fuel. reflexivity.
  Qed.

  Lemma cb_run_effect s c t log r s1 t1 log1 :
    cb_run tp s c t log = Ok (r, s1, t1, log1) ->
    exists tev, cb_effect s t c tev r s1 t1 /\ log1 = log ++ tev ++ [EvCb c r s1].
  Proof.
    unfold cb_run, cb_run_fuel, READ_FUEL. intros H.
    apply rbind_ok in H. destruct H as ([[[a s'] t'] log'] & H1 & H2). inv H2.
    destruct c as [cap|d|].
    - cbn [inner_read] in H1. fold (flush_first s) in H1.
      destruct (flush_first s) eqn:C.
      + apply rbind_ok in H1. destruct H1 as ([a1 tt1] & F & H1).
        destruct a1 as [x| |k].
        * cbn [handshaken written set_written] in H1.
          unfold flush_first in C.
          assert (C2 : negb (handshaken s) && false = false) by apply andb_false_r.
          rewrite C2 in H1.
          apply rbind_ok in H1. destruct H1 as ([a2 tt2] & Rd & H1). inv H1.
          exists [EvT TcFlush (TOk x); EvT (TcRead cap) a]. split.
          -- eapply EffR3; eauto.
          -- rewrite <- !app_assoc. reflexivity.
        * inv H1. exists [EvT TcFlush TPend]. split.
          -- eapply (EffR2 s t cap TPend); eauto. discriminate.
          -- rewrite <- !app_assoc. reflexivity.
        * inv H1. exists [EvT TcFlush (TErr k)]. split.
          -- eapply (EffR2 s t cap (TErr k)); eauto. discriminate.
          -- rewrite <- !app_assoc. reflexivity.
      + apply rbind_ok in H1. destruct H1 as ([a1 tt1] & Rd & H1). inv H1.
        exists [EvT (TcRead cap) a]. split.
        * eapply EffR1; eauto.
        * rewrite <- !app_assoc. reflexivity.
    - unfold inner_write in H1. apply rbind_ok in H1. destruct H1 as ([a1 tt1] & W & H1). inv H1.
      exists [EvT (TcWrite d) a]. split.
      + eapply EffW; eauto.
      + rewrite <- !app_assoc. reflexivity.
    - unfold inner_flush in H1. destruct (handshaken s) eqn:Hs.
      + apply rbind_ok in H1. destruct H1 as ([a1 tt1] & F & H1). inv H1.
        exists [EvT TcFlush a]. split.
        * eapply EffF1; eauto.
        * rewrite <- !app_assoc. reflexivity.
      + inv H1. exists []. split.
        * apply EffF2; auto.
        * reflexivity.
  Qed.

  (* every callback: at most two transport calls, at least one unless it is the
     flush that handshake mode turns into a no-op *)
  Lemma cb_effect_calls s t c tev r s1 t1 :
    cb_effect s t c tev r s1 t1 ->
    count is_tcall tev <= 2 /\ length tev = count is_tcall tev /\
    (count is_tcall tev = 0 -> c = CbFlush /\ handshaken s = false).
  Proof. intros H; inv H; cbn; repeat split; try lia; discriminate. Qed.

  (* a callback reports WouldBlock exactly when its last transport call
     answered Pending — the transport then holds the task's waker — and that is
     the only Pending answer it saw *)
  Lemma cb_effect_pend s t c tev r s1 t1 :
    cb_effect s t c tev r s1 t1 ->
    (r = RWouldBlock -> count is_tpend tev = 1 /\ exists pre c', tev = pre ++ [EvT c' TPend]) /\
    (r <> RWouldBlock -> count is_tpend tev = 0).
  Proof.
    intros H; inv H.
    - destruct a; cbn; split; intros; try discriminate; try congruence; auto.
      split; auto. exists [], (TcRead cap). reflexivity.
    - destruct a; cbn; split; intros; try discriminate; try congruence; auto.
      + exfalso. eapply H2. reflexivity.
      + split; auto. exists [], TcFlush. reflexivity.
    - destruct a; cbn; split; intros; try discriminate; try congruence; auto.
      split; auto. exists [EvT TcFlush (TOk x)], (TcRead cap). reflexivity.
    - destruct a; cbn; split; intros; try discriminate; try congruence; auto.
      split; auto. exists [], (TcWrite d). reflexivity.
    - destruct a; cbn; split; intros; try discriminate; try congruence; auto.
      split; auto. exists [], TcFlush. reflexivity.
    - cbn; split; intros; try discriminate; auto.
  Qed.

  (* -------------------------------------------------------------------- *)
  (* invariants of (flags, transport, log) kept by everything the layer does,
     for EVERY engine                                                      *)

  Definition aux_ev (e : ev) : bool :=
    match e with EvApi _ | EvPoll _ => true | _ => false end.

  Section Invariant.
    Variable I : shim -> T -> list ev -> Prop.
    Hypothesis I_cb : forall s t log c tev r s1 t1,
      I s t log -> cb_effect s t c tev r s1 t1 -> I s1 t1 (log ++ tev ++ [EvCb c r s1]).
    Hypothesis I_aux : forall s t log e, I s t log -> aux_ev e = true -> I s t (log ++ [e]).
    Hypothesis I_fin : forall s t log, I s t log -> I (finish_handshake s) t (log ++ [EvFinish]).
    Hypothesis I_wake : forall s t log, I s t log -> I s (t_wake tp t) (log ++ [EvWake]).

    Variable E : Type.
    Variable eng : E -> option cbret -> E * eact.

    Lemma inv_cb_run s c t log r s1 t1 log1 :
      cb_run tp s c t log = Ok (r, s1, t1, log1) -> I s t log -> I s1 t1 log1.
    Proof.
      intros H HI. apply cb_run_effect in H. destruct H as (tev & Ef & ->). eauto.
    Qed.

    Lemma inv_api_loop : forall fuel e inp s t log r e1 s1 t1 log1,
      api_loop tp E eng fuel e inp s t log = Ok (r, e1, s1, t1, log1) -> I s t log -> I s1 t1 log1.
    Proof.
      induction fuel as [|f IH]; cbn [api_loop]; intros e inp s t log r e1 s1 t1 log1 H HI;
        [discriminate|].
      destruct (eng e inp) as [e' [c|r']].
      - apply rbind_ok in H. destruct H as ([[[ret s'] t'] log'] & C & H).
        eapply IH; [exact H|]. eapply inv_cb_run; eauto.
      - inv H. apply I_aux; auto.
    Qed.

    Lemma inv_top_poll fuel e s t log h e1 s1 t1 log1 :
      top_poll tp E eng fuel e s t log = Ok (h, e1, s1, t1, log1) -> I s t log -> I s1 t1 log1.
    Proof.
      unfold top_poll, api_call. intros H HI.
      apply rbind_ok in H. destruct H as ([[[[r e'] s'] t'] log'] & A & H). inv H.
      apply I_aux; auto. eapply inv_api_loop; eauto.
    Qed.

    Lemma inv_flush_poll s t log h s1 t1 log1 :
      flush_poll tp s t log = Ok (h, s1, t1, log1) -> I s t log -> I s1 t1 log1.
    Proof.
      unfold flush_poll. intros H HI.
      apply rbind_ok in H. destruct H as ([[[r s'] t'] log'] & C & H). inv H.
      apply I_aux; auto. eapply inv_cb_run; eauto.
    Qed.

    Lemma inv_close_poll fuel sent e s t log h sent1 e1 s1 t1 log1 :
      close_poll tp E eng fuel sent e s t log = Ok (h, sent1, e1, s1, t1, log1) ->
      I s t log -> I s1 t1 log1.
    Proof.
      unfold close_poll, api_call. intros H HI. destruct sent.
      - apply rbind_ok in H. destruct H as ([[[r s'] t'] log'] & F & H). inv H.
        eapply inv_flush_poll; eauto.
      - apply rbind_ok in H. destruct H as ([[[[r e'] s'] t'] log'] & A & H).
        assert (HI' : I s' t' log') by (eapply inv_api_loop; eauto).
        destruct r.
        + apply rbind_ok in H. destruct H as ([[[r2 s2] t2] log2] & F & H). inv H.
          eapply inv_flush_poll; eauto.
        + inv H. apply I_aux; auto.
        + inv H. apply I_aux; auto.
    Qed.

    Lemma inv_hs_finish_flush first s t log h st s1 t1 log1 :
      hs_finish_flush tp first s t log = Ok (h, st, s1, t1, log1) -> I s t log -> I s1 t1 log1.
    Proof.
      unfold hs_finish_flush. intros H HI.
      apply rbind_ok in H. destruct H as ([[[r s'] t'] log'] & C & H).
      assert (HI' : I s' t' log').
      { eapply inv_cb_run; [exact C|]. destruct first; auto. }
      destruct r; inv H; auto.
    Qed.

    Lemma inv_hs_after r e s t log h st e1 s1 t1 log1 :
      hs_after tp E r e s t log = Ok (h, st, e1, s1, t1, log1) -> I s t log -> I s1 t1 log1.
    Proof.
      unfold hs_after. intros H HI. destruct r.
      - apply rbind_ok in H. destruct H as ([[[[h' st'] s'] t'] log'] & F & H). inv H.
        eapply inv_hs_finish_flush; eauto.
      - inv H. auto.
      - inv H. auto.
    Qed.

    Lemma inv_hs_poll fuel st e s t log h st1 e1 s1 t1 log1 :
      hs_poll tp E eng fuel st e s t log = Ok (h, st1, e1, s1, t1, log1) ->
      I s t log -> I s1 t1 log1.
    Proof.
      unfold hs_poll, api_call. intros H HI.
      apply rbind_ok in H. destruct H as ([[[[[h' st'] e'] s'] t'] log'] & B & H). inv H.
      apply I_aux; auto.
      destruct st.
      - apply rbind_ok in B. destruct B as ([[[[r ea] sa] ta] loga] & A & B).
        assert (HIa : I sa ta loga) by (eapply inv_api_loop; eauto).
        destruct r.
        + eapply inv_hs_after; eauto.
        + apply rbind_ok in B. destruct B as ([[[[r2 eb] sb] tb] logb] & A2 & B).
          eapply inv_hs_after; [exact B|]. eapply inv_api_loop; eauto.
        + eapply inv_hs_after; eauto.
      - apply rbind_ok in B. destruct B as ([[[[r ea] sa] ta] loga] & A & B).
        eapply inv_hs_after; [exact B|]. eapply inv_api_loop; eauto.
      - apply rbind_ok in B. destruct B as ([[[[h2 st2] s2] t2] log2] & F & B). inv B.
        eapply inv_hs_finish_flush; eauto.
      - discriminate.
      - discriminate.
    Qed.

    Lemma inv_hs_run : forall polls fuel st e s t log h st1 e1 s1 t1 log1,
      hs_run tp E eng polls fuel st e s t log = Ok (h, st1, e1, s1, t1, log1) ->
      I s t log -> I s1 t1 log1.
    Proof.
      induction polls as [|p IH]; cbn [hs_run]; intros fuel st e s t log h st1 e1 s1 t1 log1 H HI;
        [discriminate|].
      apply rbind_ok in H. destruct H as ([[[[[h' st'] e'] s'] t'] log'] & P & H).
      assert (HI' : I s' t' log') by (eapply inv_hs_poll; eauto).
      destruct h'.
      - inv H. auto.
      - eapply IH; [exact H|]. apply I_wake; auto.
      - inv H. auto.
    Qed.
  End Invariant.

End Gen.
