(* FragMiscThm.v — further source ties (gen/Frag.v, tools/rs2v.py): the slot
   reservation of AsyncifyPool::dispatch, the round-robin advance of
   ProcessGroup::send, the arithmetic of Interval::tick. *)
From Compio.Model Require Import Base Asyncify Actor Timer RsSem.
From Compio.Gen Require Consts Frag.
Local Open Scope nat_scope.

(* ---- AsyncifyPool::dispatch: counter.fetch_update(|n| (n < limit).then_some(n + 1)) ---- *)
Theorem reserve_tie : forall s d j,
  nth_error (disp s) d = Some (DFull j) -> limit s <> 0 ->
  match Frag.asyncify_reserve (counter s) (limit s) with
  | Some c' => Asyncify.step s (ECheckOk d) = Some (set_counter (set_d s d (DSpawn j)) c')
               /\ Asyncify.step s (ECheckFail d) = None
  | None => Asyncify.step s (ECheckFail d) = Some (set_d s d (DRejected j))
            /\ Asyncify.step s (ECheckOk d) = None
  end.
Proof.
  intros s d j Hd Hl. unfold Frag.asyncify_reserve. cbn [Asyncify.step step_common]. rewrite Hd.
  destruct (limit s =? 0) eqn:E0; [apply Nat.eqb_eq in E0; contradiction|].
  destruct (Nat.ltb_spec (counter s) (limit s)) as [H|H].
  - rewrite Nat.add_1_r. split; [reflexivity|].
    destruct (Nat.leb_spec (limit s) (counter s)); [lia|reflexivity].
  - split; [|reflexivity].
    destruct (Nat.leb_spec (limit s) (counter s)); [reflexivity|lia].
Qed.

(* ---- ProcessGroup::send: index = (index + 1) % members.len() after a full member ---- *)
Theorem pg_full_tie : forall out a ms idx sawf tried,
  ms <> [] -> out (nth idx ms 0) = MFull ->
  gloop out (S a) ms idx sawf tried
  = gloop out a ms (Frag.pg_next_index idx (length ms)) true (tried ++ [nth idx ms 0]).
Proof.
  intros out a ms idx sawf tried Hne Hf. destruct ms as [|m ms]; [contradiction|].
  cbn [gloop]. rewrite Hf. reflexivity.
Qed.

(* ---- Interval::tick (compio-runtime/src/time/future.rs) -------------------------------- *)
Local Open Scope Z_scope.
Ltac Zify.zify_post_hook ::= Z.div_mod_to_equations.

Theorem interval_tie : forall start period now : Z,
  0 <= start -> 0 <= now -> 0 < period -> period < DUR_LIMIT ->
  Z.of_N (Frag.interval_next (Z.to_N now) (Z.to_N period)
            (Frag.interval_rem (Z.to_N now) (Z.to_N start) (Z.to_N period)))
  = interval_next start period now.
Proof.
  intros start period now Hs Hn Hp Hl.
  unfold Frag.interval_next, Frag.interval_rem, interval_next, dur_of_u128,
    DUR_LIMIT, NANOS_PER_SEC, TWO64, TWO32 in *.
  set (el := Z.max 0 (now - start)).
  assert (Hel : Z.of_N (Z.to_N now - Z.to_N start) = el) by (subst el; lia).
  assert (Hrem : Z.of_N ((Z.to_N now - Z.to_N start) mod Z.to_N period) = el mod period).
  { rewrite N2Z.inj_mod, Hel, Z2N.id by lia. reflexivity. }
  set (rN := ((Z.to_N now - Z.to_N start) mod Z.to_N period)%N) in *.
  set (r := el mod period) in *.
  assert (Hr : 0 <= r < period) by (subst r; apply Z.mod_pos_bound; lia).
  assert (Hdur : Z.of_N ((rN / 1000000000) mod 2 ^ 64 * 1000000000 + (rN mod 1000000000) mod 2 ^ 32)%N
                 = (r / 1000000000) mod 18446744073709551616 * 1000000000 + (r mod 1000000000) mod 4294967296).
  { rewrite N2Z.inj_add, N2Z.inj_mul, !N2Z.inj_mod, N2Z.inj_div, Hrem. reflexivity. }
  rewrite N2Z.inj_sub.
  - rewrite Hdur, N2Z.inj_add, !Z2N.id by lia. reflexivity.
  - apply N2Z.inj_le. rewrite Hdur, N2Z.inj_add, !Z2N.id by lia.
    assert (r / 1000000000 < 18446744073709551616) by lia.
    rewrite (Z.mod_small (r / 1000000000)) by lia.
    rewrite (Z.mod_small (r mod 1000000000)) by lia. lia.
Qed.

(* ---- BufRing::add_buffer (compio-driver/src/sys/buffer_pool/iour.rs) -------------------- *)
From Compio.Model Require Import Pool.
Theorem ring_idx_tie : forall t off len,
  ring_idx t off len =
    if (t + off <? U16)%N then Ok (nn (Frag.pool_ring_idx t off (NN len))) else Panic P_ADD_OVERFLOW.
Proof.
  intros t off len. unfold ring_idx, u16_add, Frag.pool_ring_idx.
  destruct (t + off <? U16)%N; reflexivity.
Qed.

(* ---- RecvStream::read_to_end (compio-quic/src/recv_stream.rs) ---------------------------- *)
From Compio.Model Require Import QuicWakers.
Theorem rte_tie : forall (cs : list chunk) (m : nat),
  rte_min cs m = fold_left (fun a c => Frag.rte_start_step a (fst c)) cs m
  /\ rte_max cs m = fold_left (fun a c => Frag.rte_end_step a (fst c) (length (snd c))) cs m.
Proof.
  induction cs as [|c r IH]; intro m; [split; reflexivity|].
  cbn [rte_min rte_max fold_left]. destruct (IH (Nat.min m (fst c))) as [H1 _].
  destruct (IH (Nat.max m (fst c + length (snd c)))) as [_ H2]. split; assumption.
Qed.

(* every chunk is copied to offset - start, as the source has it *)
Theorem rte_assemble_tie : forall cs,
  read_to_end_assemble cs =
    let s := rte_start cs in
    let e := rte_end cs in
    if Nat.leb e s then [] else
    fold_left (fun buf c => write_at buf (Frag.rte_place (fst c) s) (snd c)) cs (repeat_b 0%N (e - s)).
Proof. intro cs. reflexivity. Qed.
