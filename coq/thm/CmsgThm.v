(* CmsgThm.v — lemmas about model/Cmsg.v (ancillary builder / iterator) *)
From Compio.Model Require Import Base Frame Cmsg.
From Compio.Thm Require Import ListFacts FrameThm.

(* ---------------------------------------------------------------------- *)
(* alignment arithmetic                                                    *)

Lemma align8_bounds n : n <= align8 n /\ align8 n < n + 8.
Proof.
  unfold align8. pose proof (Nat.div_mod_eq (n + 7) 8) as E.
  pose proof (Nat.mod_upper_bound (n + 7) 8 ltac:(lia)) as U.
  rewrite Nat.mul_comm in E. lia.
Qed.

Lemma cmsg_space_ge size : HDR + size <= cmsg_space size.
Proof. unfold cmsg_space. pose proof (align8_bounds size). lia. Qed.

Lemma align8_hdr size : (HDR + size + 7) / 8 * 8 = HDR + align8 size.
Proof.
  unfold align8, HDR. replace (16 + size + 7) with (2 * 8 + (size + 7)) by lia.
  rewrite Nat.div_add_l by lia. lia.
Qed.

Definition msg_ok (m : msg) : Prop :=
  (m_level m < 256 ^ 4 /\ m_type m < 256 ^ 4 /\ NN (length (m_data m)) < 256 ^ 4)%N.

(* CMSG_NXTHDR for a header written by the builder *)
Lemma nxthdr_msg len o size :
  (NN size < 256 ^ 4)%N ->
  nxthdr len o (NN (cmsg_len size)) =
  Ok (if Nat.ltb len (o + cmsg_space size + HDR) then None else Some (o + cmsg_space size)).
Proof.
  intros B. unfold nxthdr, cmsg_len.
  assert (P4 : (256 ^ 4 = 4294967296)%N) by reflexivity. rewrite P4 in B.
  destruct (N.ltb_spec (NN (HDR + size)) (NN HDR)) as [X|X]; [unfold NN in X; lia|].
  destruct (N.ltb_spec USIZE_MAX (NN (HDR + size) + 7)) as [Y|Y].
  { unfold USIZE_MAX, NN, HDR in *. lia. }
  assert (A : ((NN (HDR + size) + 7) / 8 * 8)%N = NN (HDR + align8 size)).
  { unfold NN. rewrite <- align8_hdr.
    change 7%N with (N.of_nat 7). change 8%N with (N.of_nat 8).
    rewrite <- Nat2N.inj_add, <- Nat2N.inj_div, <- Nat2N.inj_mul. reflexivity. }
  rewrite A. unfold nn, NN. rewrite Nat2N.id. unfold cmsg_space.
  destruct (N.ltb_spec (N.of_nat len) (N.of_nat o + N.of_nat (HDR + align8 size) + N.of_nat HDR));
    destruct (Nat.ltb_spec len (o + (align8 size + HDR) + HDR)); try lia; try reflexivity.
  f_equal. f_equal. lia.
Qed.

(* ---------------------------------------------------------------------- *)
(* little-endian fields                                                    *)

Lemma get_le_at k off pre v post :
  length pre = off -> (v < 256 ^ NN k)%N ->
  get_le k off (pre ++ le_bytes k v ++ post) = v.
Proof.
  intros L B. unfold get_le. rewrite (skipn_app_exact0 pre _ off L).
  rewrite (firstn_app_exact0 _ post k (le_bytes_length k v)).
  apply le_value_le_bytes. exact B.
Qed.

Lemma hdr_bytes_length m : length (hdr_bytes m) = HDR.
Proof. unfold hdr_bytes. rewrite !app_length, !le_bytes_length. reflexivity. Qed.

Lemma pow256_8 : (256 ^ NN 8 = 18446744073709551616)%N. Proof. reflexivity. Qed.
Lemma pow256_4 : (256 ^ NN 4 = 256 ^ 4)%N. Proof. reflexivity. Qed.

Lemma hdr_fields m pre post :
  msg_ok m ->
  let buf := pre ++ hdr_bytes m ++ post in
  get_le 8 (length pre) buf = NN (cmsg_len (length (m_data m))) /\
  get_le 4 (length pre + 8) buf = m_level m /\
  get_le 4 (length pre + 12) buf = m_type m.
Proof.
  intros (B1 & B2 & B3) buf. unfold buf, hdr_bytes.
  assert (P4 : (256 ^ 4 = 4294967296)%N) by reflexivity.
  split; [|split].
  - rewrite <- !app_assoc. apply get_le_at; [reflexivity|].
    rewrite pow256_8. unfold cmsg_len, NN, HDR in *. lia.
  - rewrite <- !app_assoc.
    rewrite (app_assoc pre (le_bytes 8 _)). apply get_le_at.
    + rewrite app_length, le_bytes_length. reflexivity.
    + rewrite pow256_4. exact B1.
  - rewrite <- !app_assoc.
    rewrite (app_assoc pre (le_bytes 8 _)), (app_assoc (pre ++ _) (le_bytes 4 _)). apply get_le_at.
    + rewrite !app_length, !le_bytes_length. lia.
    + rewrite pow256_4. exact B2.
Qed.

(* ---------------------------------------------------------------------- *)
(* the layout of a sequence of control messages                            *)

Inductive layout : list msg -> list byte -> Prop :=
| lay_nil : layout [] []
| lay_cons m ms pad rest :
    length pad = align8 (length (m_data m)) - length (m_data m) ->
    layout ms rest ->
    layout (m :: ms) (hdr_bytes m ++ m_data m ++ pad ++ rest).

Definition total_space (ms : list msg) : nat :=
  fold_right (fun m a => cmsg_space (length (m_data m)) + a) 0 ms.

Lemma layout_app a x b y : layout a x -> layout b y -> layout (a ++ b) (x ++ y).
Proof.
  induction 1 as [|m ms pad rest Lp La IH]; intros Lb; [exact Lb|].
  cbn [app]. rewrite <- !app_assoc. apply lay_cons; [exact Lp|apply IH; exact Lb].
Qed.

Lemma layout_length ms buf : layout ms buf -> length buf = total_space ms.
Proof.
  induction 1 as [|m ms pad rest Lp La IH]; [reflexivity|].
  cbn [total_space fold_right]. fold (total_space ms).
  rewrite !app_length, hdr_bytes_length, Lp, IH. unfold cmsg_space.
  pose proof (align8_bounds (length (m_data m))). lia.
Qed.

Lemma total_space_ge ms : HDR * length ms <= total_space ms.
Proof.
  induction ms as [|m ms IH]; [cbn; lia|].
  cbn [total_space fold_right length]. fold (total_space ms).
  pose proof (cmsg_space_ge (length (m_data m))). lia.
Qed.

(* ---------------------------------------------------------------------- *)
(* the builder                                                             *)

Definition binv (b : builder) (cap : nat) : Prop :=
  length (b_cells b) = cap /\ b_len b <= cap /\
  match b_off b with Some o => o = b_len b /\ o + HDR <= cap | None => True end.

Lemma push_spec b m cap :
  binv b cap -> msg_ok m ->
  let size := length (m_data m) in
  (push b m = Ok None /\ space_enough cap (b_off b) size = false) \/
  (exists b' pad, push b m = Ok (Some b') /\ binv b' cap /\
     filled b' = filled b ++ hdr_bytes m ++ m_data m ++ pad /\
     length pad = align8 size - size /\
     b_len b' = b_len b + cmsg_space size /\
     b_off b' = (if Nat.ltb cap (b_len b' + HDR) then None else Some (b_len b')) /\
     space_enough cap (b_off b) size = true).
Proof.
  intros (Ic & Il & Io) Mo size. unfold push. fold size. rewrite Ic.
  destruct (space_enough cap (b_off b) size) eqn:Sp; cbn [negb]; [right|left; split; reflexivity].
  destruct (b_off b) as [o|] eqn:Eo; [|discriminate]. destruct Io as [-> Io].
  cbn [space_enough] in Sp. apply Nat.leb_le in Sp.
  pose proof (align8_bounds size) as Ab. unfold cmsg_space in Sp.
  set (bs := hdr_bytes m ++ m_data m).
  assert (Lbs : length bs = HDR + size).
  { unfold bs. rewrite app_length, hdr_bytes_length. reflexivity. }
  assert (Lw : length (write_at (b_cells b) (b_len b) bs) = cap).
  { rewrite write_at_length; [exact Ic|]. rewrite Lbs, Ic. lia. }
  rewrite Lw.
  destruct (Nat.ltb_spec cap (b_len b + cmsg_space size)) as [X|X]; [unfold cmsg_space in X; lia|].
  destruct Mo as (_ & _ & Bs). rewrite (nxthdr_msg cap (b_len b) size Bs). cbn [rbind].
  set (q := align8 size - size).
  set (C := skipn (b_len b + length bs) (b_cells b)).
  exists (mkb (write_at (b_cells b) (b_len b) bs) (b_len b + cmsg_space size)
            (if Nat.ltb cap (b_len b + cmsg_space size + HDR) then None
             else Some (b_len b + cmsg_space size))), (firstn q C).
  split; [reflexivity|].
  assert (LC : q <= length C).
  { unfold C, q. rewrite skipn_length, Lbs, Ic. lia. }
  split; [|split; [|split; [|split; [|split]]]].
  - unfold binv; cbn [b_cells b_len b_off]. split; [exact Lw|]. split; [exact X|].
    destruct (Nat.ltb_spec cap (b_len b + cmsg_space size + HDR)); [exact I|split; [reflexivity|lia]].
  - unfold filled; cbn [b_cells b_len]. unfold write_at. fold C.
    assert (La : length (firstn (b_len b) (b_cells b)) = b_len b) by (rewrite firstn_length; lia).
    replace (b_len b + cmsg_space size) with (b_len b + (length bs + q))
      by (unfold cmsg_space, q; rewrite Lbs; lia).
    rewrite (firstn_app_exact _ _ (b_len b) _ La).
    rewrite (firstn_app_exact bs C (length bs) q eq_refl).
    unfold bs. rewrite <- !app_assoc. reflexivity.
  - rewrite firstn_length. lia.
  - reflexivity.
  - reflexivity.
  - reflexivity.
Qed.

Lemma accepted_Forall (Q : msg -> Prop) st ms : Forall Q ms -> Forall Q (accepted st ms).
Proof.
  revert st; induction ms as [|m ms IH]; intros st F.
  - destruct st; constructor.
  - inversion F as [|? ? F1 F2]; subst. destruct st as [|s st]; [constructor|].
    cbn [accepted]. destruct (N.eqb s 0); [constructor; [exact F1|]|]; apply IH; exact F2.
Qed.

Lemma push_all_spec : forall ms b cap pre,
  binv b cap -> Forall msg_ok ms -> layout pre (filled b) ->
  exists st b', push_all b ms = Ok (st, b') /\ binv b' cap /\
    layout (pre ++ accepted st ms) (filled b') /\ length st = length ms.
Proof.
  induction ms as [|m ms IH]; intros b cap pre I F L.
  - exists [], b. cbn [push_all accepted]. rewrite app_nil_r. splits; side.
  - inversion F as [|? ? F1 F2]; subst. cbn [push_all].
    destruct (push_spec b m cap I F1) as [[-> _]|(b1 & pad & -> & I1 & Ef & Lp & _)]; cbn [rbind].
    + destruct (IH b cap pre I F2 L) as (st & b' & -> & I' & L' & Ls). cbn [rbind].
      exists (1%N :: st), b'. cbn [accepted N.eqb length]. splits; side.
    + assert (L1 : layout (pre ++ [m]) (filled b1)).
      { rewrite Ef. apply layout_app; [exact L|].
        replace (hdr_bytes m ++ m_data m ++ pad) with (hdr_bytes m ++ m_data m ++ pad ++ [])
          by (rewrite app_nil_r; reflexivity).
        apply lay_cons; [exact Lp|constructor]. }
      destruct (IH b1 cap (pre ++ [m]) I1 F2 L1) as (st & b' & -> & I' & L' & Ls). cbn [rbind].
      exists (0%N :: st), b'. cbn [accepted N.eqb length]. rewrite <- app_assoc in L'.
      splits; side.
Qed.

Lemma builder_new_ok cap :
  HDR <= cap ->
  exists b, builder_new cap = Ok b /\ binv b cap /\ filled b = [] /\ b_off b = Some 0 /\ b_len b = 0.
Proof.
  intros H. unfold builder_new, iter_new.
  destruct (Nat.ltb_spec cap HDR); [lia|]. cbn [rbind].
  eexists. split; [reflexivity|]. unfold binv, filled; cbn [b_cells b_len b_off firstn].
  rewrite repeat_length. splits; side.
Qed.

(* AncillaryBuilder::new panics (documented) on a buffer shorter than a header *)
Lemma build_too_short cap ms : cap < HDR -> build cap ms = Panic P_OTHER.
Proof.
  intros H. unfold build, builder_new, iter_new.
  destruct (Nat.ltb_spec cap HDR); [reflexivity|lia].
Qed.

Theorem build_spec cap ms :
  HDR <= cap -> Forall msg_ok ms ->
  exists st bytes, build cap ms = Ok (st, bytes) /\
    layout (accepted st ms) bytes /\ length st = length ms /\ length bytes <= cap.
Proof.
  intros H F. unfold build.
  destruct (builder_new_ok cap H) as (b & -> & I & Ef & _). cbn [rbind].
  assert (L0 : layout [] (filled b)) by (rewrite Ef; constructor).
  destruct (push_all_spec ms b cap [] I F L0) as (st & b' & -> & I' & L' & Ls). cbn [rbind].
  exists st, (filled b'). splits; side.
  unfold filled. rewrite firstn_length. destruct I' as (_ & X & _). lia.
Qed.

(* a list that fits is accepted entirely *)
Lemma push_all_fits : forall ms b cap,
  binv b cap -> Forall msg_ok ms ->
  (ms = [] \/ b_off b = Some (b_len b)) ->
  b_len b + total_space ms <= cap ->
  exists b', push_all b ms = Ok (repeat 0%N (length ms), b').
Proof.
  induction ms as [|m ms IH]; intros b cap I F O S.
  - exists b. reflexivity.
  - inversion F as [|? ? F1 F2]; subst. cbn [push_all].
    destruct O as [O|O]; [discriminate|].
    cbn [total_space fold_right] in S. fold (total_space ms) in S.
    destruct (push_spec b m cap I F1) as [[_ Sp]|(b1 & pad & -> & I1 & _ & _ & El & Eo & _)].
    + rewrite O in Sp. cbn [space_enough] in Sp. apply Nat.leb_gt in Sp. lia.
    + cbn [rbind].
      destruct (IH b1 cap I1 F2) as (b' & ->).
      * destruct ms as [|m2 ms2]; [left; reflexivity|right].
        rewrite Eo. destruct (Nat.ltb_spec cap (b_len b1 + HDR)) as [X|X]; [|reflexivity].
        cbn [total_space fold_right] in S. pose proof (cmsg_space_ge (length (m_data m2))). lia.
      * lia.
      * cbn [rbind]. exists b'. reflexivity.
Qed.

Lemma accepted_all ms : accepted (repeat 0%N (length ms)) ms = ms.
Proof. induction ms as [|m ms IH]; [reflexivity|]. cbn [length repeat accepted N.eqb]. rewrite IH. reflexivity. Qed.

Theorem build_fits cap ms :
  HDR <= cap -> Forall msg_ok ms -> total_space ms <= cap ->
  exists bytes, build cap ms = Ok (repeat 0%N (length ms), bytes) /\
    layout ms bytes /\ length bytes = total_space ms.
Proof.
  intros H F S.
  destruct (build_spec cap ms H F) as (st & bytes & E & L & _ & _).
  unfold build in E |- *.
  destruct (builder_new_ok cap H) as (b & Eb & I & _ & Eo & El). rewrite Eb in *. cbn [rbind] in *.
  destruct (push_all_fits ms b cap I F) as (b' & Ep).
  { right. rewrite Eo, El. reflexivity. }
  { rewrite El. exact S. }
  rewrite Ep in *. cbn [rbind] in *. injection E as <- <-.
  exists (filled b'). rewrite accepted_all in L. split; [reflexivity|]. split; [exact L|].
  apply layout_length. exact L.
Qed.

(* ---------------------------------------------------------------------- *)
(* the iterator over a laid-out buffer                                      *)

Definition inside (buf : list byte) (it : citem) : Prop :=
  ci_off it + nn (ci_slen it) <= length buf.

Lemma layout_nil_inv r : layout [] r -> r = [].
Proof. inversion 1. reflexivity. Qed.

Lemma iter_layout : forall ms rest,
  layout ms rest -> Forall msg_ok ms -> ms <> [] ->
  forall buf pre fuel wants dw,
  buf = pre ++ rest -> length ms <= fuel ->
  exists items, iter_loop fuel buf (length pre) wants dw = Ok items /\
    map (item_msg buf) items = ms /\ Forall (inside buf) items.
Proof.
  induction 1 as [|m ms pad rest Lp La IH]; intros F Ne buf pre fuel wants dw Eb Lf; [congruence|].
  pose proof (Forall_inv F) as F1. pose proof (Forall_inv_tail F) as F2.
  destruct fuel as [|k]; [cbn [length] in Lf; lia|]. cbn [iter_loop].
  set (size := length (m_data m)) in *.
  destruct (hdr_fields m pre (m_data m ++ pad ++ rest) F1) as (G1 & G2 & G3).
  rewrite <- Eb in G1, G2, G3. fold size in G1. rewrite G1.
  pose proof F1 as (_ & _ & Bs). fold size in Bs.
  rewrite (nxthdr_msg (length buf) (length pre) size Bs). cbn [rbind].
  pose proof (align8_bounds size) as Ab.
  assert (Lb : length buf = length pre + cmsg_space size + length rest).
  { rewrite Eb, !app_length, hdr_bytes_length, Lp. fold size. unfold cmsg_space. lia. }
  (* the item *)
  unfold decode_item, data_slice, cmsg_len.
  replace (NN (HDR + size) - NN HDR)%N with (NN size) by (unfold NN; lia).
  destruct (N.ltb_spec ISIZE_MAX (NN size)) as [X|X].
  { assert (P4 : (256 ^ 4 = 4294967296)%N) by reflexivity. unfold ISIZE_MAX in X. lia. }
  cbn [rbind].
  set (it := mkci _ _ _ _ _ _).
  assert (Im : item_msg buf it = m).
  { unfold item_msg, it; cbn [ci_level ci_type ci_off ci_slen]. rewrite G2, G3.
    unfold nn, NN. rewrite Nat2N.id.
    assert (Ed : sub_list buf (length pre + HDR) size = m_data m).
    { unfold sub_list. rewrite Eb, app_assoc.
      rewrite (skipn_app_exact0 (pre ++ hdr_bytes m) _ (length pre + HDR)).
      - apply firstn_app_exact0. reflexivity.
      - rewrite app_length, hdr_bytes_length. reflexivity. }
    rewrite Ed. destruct m; reflexivity. }
  assert (Ii : inside buf it).
  { unfold inside, it; cbn [ci_off ci_slen]. unfold nn, NN. rewrite Nat2N.id, Lb.
    unfold cmsg_space. lia. }
  clearbody it.
  destruct ms as [|m2 ms2].
  - apply layout_nil_inv in La. subst rest. cbn [length] in Lb.
    destruct (Nat.ltb_spec (length buf) (length pre + cmsg_space size + HDR)); [|unfold HDR in *; lia].
    exists [it]. cbn [map]. rewrite Im. split; [reflexivity|]. split; [reflexivity|].
    constructor; [exact Ii|constructor].
  - pose proof (layout_length _ _ La) as Lr. pose proof (total_space_ge (m2 :: ms2)) as Tg.
    cbn [length] in Tg.
    destruct (Nat.ltb_spec (length buf) (length pre + cmsg_space size + HDR)); [lia|].
    set (pre' := pre ++ hdr_bytes m ++ m_data m ++ pad).
    assert (Lp' : length pre' = length pre + cmsg_space size).
    { unfold pre'. rewrite !app_length, hdr_bytes_length, Lp. fold size. unfold cmsg_space. lia. }
    assert (Eb' : buf = pre' ++ rest).
    { rewrite Eb. unfold pre'. rewrite <- !app_assoc. reflexivity. }
    assert (Lk : length (m2 :: ms2) <= k) by (cbn [length] in Lf |- *; lia).
    assert (Ne2 : m2 :: ms2 <> []) by discriminate.
    destruct (IH F2 Ne2 buf pre' k (tl wants) dw Eb' Lk) as (items & Ei & Em & Ef).
    rewrite <- Lp'. rewrite Ei. cbn [rbind].
    exists (it :: items). cbn [map]. rewrite Im, Em. split; [reflexivity|]. split; [reflexivity|].
    constructor; assumption.
Qed.

Theorem iterate_layout ms buf wants dw :
  layout ms buf -> Forall msg_ok ms -> ms <> [] ->
  exists items, iterate buf wants dw = Ok items /\
    map (item_msg buf) items = ms /\ Forall (inside buf) items.
Proof.
  intros L F Ne. unfold iterate, iter_new.
  pose proof (layout_length _ _ L) as Ll. pose proof (total_space_ge ms) as Tg.
  assert (1 <= length ms) by (destruct ms; [congruence|cbn [length]; lia]).
  destruct (Nat.ltb_spec (length buf) HDR); [unfold HDR in *; lia|]. cbn [rbind].
  apply (iter_layout ms buf L F Ne buf [] (length buf) wants dw eq_refl). unfold HDR in *. lia.
Qed.

(* C13_cmsg_roundtrip, general form: whatever the builder accepted comes back *)
Theorem cmsg_roundtrip cap ms st bytes wants dw :
  Forall msg_ok ms -> build cap ms = Ok (st, bytes) -> accepted st ms <> [] ->
  exists items, iterate bytes wants dw = Ok items /\
    map (item_msg bytes) items = accepted st ms /\ Forall (inside bytes) items.
Proof.
  intros F E Ne.
  destruct (Nat.le_gt_cases HDR cap) as [C|C]; [|rewrite (build_too_short cap ms C) in E; discriminate].
  destruct (build_spec cap ms C F) as (st' & bytes' & E' & L & _). rewrite E in E'.
  injection E' as <- <-.
  apply iterate_layout; [exact L|apply accepted_Forall; exact F|exact Ne].
Qed.

(* C13_cmsg_bounds: every slice handed to AncillaryData::decode lies inside
   the control buffer *)
Theorem cmsg_bounds cap ms st bytes wants dw items :
  Forall msg_ok ms -> build cap ms = Ok (st, bytes) ->
  iterate bytes wants dw = Ok items -> Forall (inside bytes) items.
Proof.
  intros F E I.
  destruct (accepted st ms) as [|m0 ms0] eqn:Ea.
  - exfalso.
    destruct (Nat.le_gt_cases HDR cap) as [C|C]; [|rewrite (build_too_short cap ms C) in E; discriminate].
    destruct (build_spec cap ms C F) as (st' & bytes' & E' & L & _). rewrite E in E'.
    injection E' as <- <-. rewrite Ea in L. inversion L; subst.
    unfold iterate, iter_new in I. cbn in I. discriminate.
  - destruct (cmsg_roundtrip cap ms st bytes wants dw F E) as (items' & I' & _ & B).
    { rewrite Ea. discriminate. }
    rewrite I in I'. injection I' as <-. exact B.
Qed.

(* C13_cmsg_roundtrip: a list that fits is accepted entirely and comes back *)
Theorem cmsg_roundtrip_fits cap ms wants dw :
  HDR <= cap -> Forall msg_ok ms -> ms <> [] -> total_space ms <= cap ->
  exists bytes items,
    build cap ms = Ok (repeat 0%N (length ms), bytes) /\
    length bytes = total_space ms /\
    iterate bytes wants dw = Ok items /\
    map (item_msg bytes) items = ms.
Proof.
  intros H F Ne S.
  destruct (build_fits cap ms H F S) as (bytes & E & L & Ll).
  destruct (iterate_layout ms bytes wants dw L F Ne) as (items & I & M & _).
  exists bytes, items. repeat split; assumption.
Qed.
