(* FragIoThm.v — ties of small arithmetic pieces of the I/O models to the code
   as translated by tools/rs2v.py (gen/Frag.v): Buffer::need_flush,
   LengthDelimited::extract's guards and result, BufferRef::set_capacity, the
   request length of the io_uring SQEs. *)
From Compio.Model Require Import Base Buf IoHelpers Frame FileSpec ProcSpec RsSem.
From Compio.Gen Require Consts Frag.
Local Open Scope nat_scope.

(* ---- Buffer::need_flush (compio-io/src/buffer.rs) ------------------------- *)
Theorem need_flush_tie : forall b,
  buf_need_flush b = Frag.buffer_need_flush (vcap (bvec b)) (vlen (bvec b)).
Proof. intro b. reflexivity. Qed.

(* ---- LengthDelimited::extract (compio-io/src/framed/frame.rs) -------------- *)
Lemma NN_ltb a b : N.ltb (NN a) (NN b) = Nat.ltb a b.
Proof.
  unfold NN. destruct (Nat.ltb_spec a b) as [H|H].
  - apply N.ltb_lt. lia.
  - apply N.ltb_ge. lia.
Qed.

Theorem ld_extract_tie : forall lfl be w,
  extract (LenDelim lfl be) w =
    if Frag.ld_too_short (NN (length w)) (NN lfl) then Ok None
    else let len := len_value be (firstn lfl w) in
         if Frag.ld_incomplete (NN (length w)) (NN lfl) len then Ok None
         else let '(p, l, s) := Frag.ld_frame (NN lfl) len in Ok (Some (mkframe (nn p) (nn l) (nn s))).
Proof.
  intros lfl be w. unfold extract, Frag.ld_too_short, Frag.ld_incomplete, Frag.ld_frame.
  rewrite NN_ltb. destruct (Nat.ltb (length w) lfl) eqn:E; [reflexivity|].
  cbv zeta. unfold NN. rewrite <- Nat2N.inj_sub.
  destruct (N.ltb _ _); [reflexivity|]. unfold nn. rewrite Nat2N.id. reflexivity.
Qed.

(* ---- BufferRef::set_capacity (compio-driver/src/buffer_pool.rs) ------------- *)
Theorem pool_set_capacity_tie : forall n r,
  rkind r = KPool -> (N.of_nat (length (rcells r)) < 2 ^ 32)%N ->
  let r' := pool_set_capacity n r in
  Frag.bufref_set_capacity n (NN (length (rcells r))) (NN (rlim r)) (NN (rlen r))
  = (NN (rlim r'), NN (rlen r')).
Proof.
  intros n r HK HF. cbv zeta. unfold pool_set_capacity, Frag.bufref_set_capacity. rewrite HK.
  destruct (N.eqb n 0); [reflexivity|]. cbv zeta.
  assert (Hm : (N.min n (NN (length (rcells r))) < 2 ^ 32)%N).
  { eapply N.le_lt_trans; [apply N.le_min_r|exact HF]. }
  rewrite (N.mod_small _ _ Hm). cbn [rlim rlen]. unfold NN in *.
  rewrite N2Nat.id. f_equal.
  rewrite Nat2N.inj_min. rewrite N2Nat.id. reflexivity.
Qed.

(* ---- request length of the io_uring SQEs ------------------------------------ *)
Theorem request_len_tie : forall n : N,
  clamp_u32 n = Frag.iour_request_len n
  /\ request_len true n = Frag.iour_request_len n
  /\ Frag.iour_request_len_sock n = Frag.iour_request_len n.
Proof.
  intro n. unfold clamp_u32, request_len, Frag.iour_request_len, Frag.iour_request_len_sock, FileSpec.U32_MAX, U32_MAX.
  repeat split. destruct (N.leb_spec n 4294967295) as [H|H].
  - apply N.min_l, H.
  - apply N.min_r. lia.
Qed.

(* ---- multishot RECVMSG result buffer (compio-driver/src/sys/op/managed/iour.rs) ------------- *)
From Compio.Model Require Import SockSpec.
Theorem mshot_layout_tie : forall (L clen : nat) (buf : list byte),
  mshot_data clen buf = skipn (Frag.mshot_data_offset MSHOT_HDR MSHOT_NAME clen) buf
  /\ mshot_payload_cap L clen = L - Frag.mshot_fixed_len MSHOT_HDR MSHOT_NAME clen
  /\ Frag.mshot_fixed_len MSHOT_HDR MSHOT_NAME clen = Frag.mshot_data_offset MSHOT_HDR MSHOT_NAME clen.
Proof. intros L clen buf. repeat split. Qed.
