(* generated layout: one invariant group / structural fact, one part of the labels (TaskThm.v) *)
From Compio.Model Require Import Base Task.
From Compio.Thm Require Import TaskThm.
Local Open Scope nat_scope.
Local Opaque Nat.ltb Nat.eqb Nat.leb.

Lemma res_pres_7 s l s' : part l = 7 -> Grc s -> Gres s -> step fixed s l = Some s' -> Gres s'.
Proof.
  intros Hp. intros HR HI Hs. pres_start_part s l Hs Hp.
  all: destruct HR; destruct HI; constructor; unf; cbn in *.
  all: try assumption.
  all: fin2.
Qed.
