(* CompatThm.v — theorems about the C12 model (model/Compat.v) *)
From Compio.Model Require Import Base IoHelpers Compat.
From Compio.Thm Require Import ListFacts IoHelpersThm.

Ltac splits := cbv beta iota; repeat match goal with |- _ /\ _ => split end.

(* ---------------------------------------------------------------------- *)
(* Vec operations                                                           *)

Lemma vextend_spec v bs :
  wf v ->
  wf (vextend v bs) /\ vinit (vextend v bs) = vinit v ++ bs /\
  vlen (vextend v bs) = vlen v + length bs.
Proof.
  intros Hwf. unfold vextend.
  destruct (vreserve_spec v (length bs) Hwf) as (Hwf1 & Hl1 & Hi1 & Hsp & _).
  set (v1 := vreserve v (length bs)) in *.
  unfold wf, vcap, vinit in *. cbn [cells vlen].
  rewrite write_at_length by lia.
  split; [lia|]. split; [|lia].
  unfold write_at. rewrite Hl1.
  rewrite (firstn_app_exact (firstn (vlen v) (cells v1)) _ (vlen v) (length bs))
    by (rewrite firstn_length; lia).
  rewrite (firstn_app_exact0 bs _ (length bs) eq_refl).
  rewrite <- Hi1, Hl1. reflexivity.
Qed.

Lemma vreserve_exact_spec v add :
  wf v ->
  let v' := vreserve_exact v add in
  wf v' /\ vlen v' = vlen v /\ vinit v' = vinit v /\
  vcap v' = (if Nat.leb add (vcap v - vlen v) then vcap v else vlen v + add).
Proof.
  intros Hwf. unfold vreserve_exact. cbv zeta.
  destruct (Nat.leb_spec add (vcap v - vlen v)); [repeat split; auto|].
  pose proof (vinit_length v Hwf) as Hl.
  unfold wf, vcap, vinit in *. cbn [cells vlen].
  rewrite app_length, repeat_length, Hl.
  repeat split; try lia.
  apply firstn_app_exact0. exact Hl.
Qed.

Lemma vshrink_to_spec v mincap :
  wf v ->
  let v' := vshrink_to v mincap in
  wf v' /\ vlen v' = vlen v /\ vinit v' = vinit v /\ vcap v' <= vcap v.
Proof.
  intros Hwf. unfold vshrink_to. cbv zeta.
  destruct (Nat.ltb_spec mincap (vcap v)); [|repeat split; auto].
  unfold wf, vcap, vinit in *. cbn [cells vlen].
  rewrite firstn_length. repeat split; try lia.
  rewrite firstn_firstn. f_equal. lia.
Qed.

(* ---------------------------------------------------------------------- *)
(* Buffer::compact_to: the unconsumed bytes are kept, in order, the cursor
   returns to 0, the allocation never grows; an exhausted buffer is emptied *)

Lemma buf_compact_to_spec b capacity mx :
  bwf b ->
  let b' := buf_compact_to b capacity mx in
  bwf b' /\ bbegin b' = 0 /\ buf_pending b' = buf_pending b /\
  vcap (bvec b') <= vcap (bvec b) /\
  (buf_pending b = [] -> vlen (bvec b') = 0).
Proof.
  intros [Hb Hw]. unfold buf_compact_to. cbv zeta.
  pose proof (buf_pending_length b (conj Hb Hw)) as Hpl.
  assert (Hne : buf_pending b = [] -> vlen (bvec b) <= bbegin b).
  { intros E. rewrite E in Hpl. cbn in Hpl. lia. }
  assert (Hdone : vlen (bvec b) <= bbegin b -> buf_pending b = []).
  { intros E. apply length_zero_iff_nil. lia. }
  assert (Hcap : vlen (bvec b) <= length (cells (bvec b))) by exact Hw.
  destruct (Nat.ltb_spec 0 (bbegin b)) as [H0|H0];
    destruct (Nat.ltb_spec (bbegin b) (vlen (bvec b))) as [H1|H1]; cbn [andb].
  - (* move the tail to the front *)
    set (rem := vlen (bvec b) - bbegin b).
    assert (Hx : length (sub_list (cells (bvec b)) (bbegin b) rem) = rem).
    { unfold sub_list. rewrite firstn_length, skipn_length. lia. }
    split; [|split; [reflexivity|split; [|split]]].
    + unfold bwf, wf, vcap. cbn [bvec bbegin cells vlen].
      rewrite write_at_length by (rewrite Hx; lia). lia.
    + unfold buf_pending at 1. unfold vinit. cbn [bvec bbegin cells vlen skipn].
      rewrite write_at_0. rewrite (firstn_app_exact0 _ _ rem Hx).
      unfold sub_list, buf_pending, vinit. rewrite firstn_skipn_comm. f_equal. f_equal. lia.
    + unfold vcap. cbn [bvec cells]. rewrite write_at_length by (rewrite Hx; lia). lia.
    + intros E. specialize (Hne E). lia.
  - (* everything consumed *)
    destruct (Nat.leb_spec (vlen (bvec b)) (bbegin b)) as [Hle|]; [|lia].
    rewrite (Hdone Hle).
    assert (Hwc : wf (vclear (bvec b))) by (unfold wf, vclear, vcap; cbn; lia).
    destruct (Nat.ltb mx (vcap (vclear (bvec b)))).
    + destruct (vshrink_to_spec (vclear (bvec b)) capacity Hwc) as (Hw' & Hl' & Hi' & Hc').
      unfold bwf, buf_pending. cbn [bvec bbegin skipn]. rewrite Hl', Hi'.
      unfold vclear, vinit, vcap in *. cbn [vlen cells firstn] in *.
      repeat split; auto; lia.
    + unfold bwf, buf_pending, vinit, vclear, wf, vcap. cbn [bvec bbegin skipn vlen cells firstn].
      repeat split; auto; lia.
  - (* begin = 0, data present: nothing moves *)
    destruct (Nat.leb_spec (vlen (bvec b)) (bbegin b)); [lia|].
    assert (E0 : bbegin b = 0) by lia.
    unfold bwf, buf_pending. cbn [bvec bbegin]. rewrite E0.
    repeat split; auto; try lia. intros E. unfold buf_pending in Hne. rewrite E0 in Hne.
    specialize (Hne E). lia.
  - destruct (Nat.leb_spec (vlen (bvec b)) (bbegin b)) as [Hle|]; [|lia].
    rewrite (Hdone Hle).
    assert (Hwc : wf (vclear (bvec b))) by (unfold wf, vclear, vcap; cbn; lia).
    destruct (Nat.ltb mx (vcap (vclear (bvec b)))).
    + destruct (vshrink_to_spec (vclear (bvec b)) capacity Hwc) as (Hw' & Hl' & Hi' & Hc').
      unfold bwf, buf_pending. cbn [bvec bbegin skipn]. rewrite Hl', Hi'.
      unfold vclear, vinit, vcap in *. cbn [vlen cells firstn] in *.
      repeat split; auto; lia.
    + unfold bwf, buf_pending, vinit, vclear, wf, vcap. cbn [bvec bbegin skipn vlen cells firstn].
      repeat split; auto; lia.
Qed.

(* ====================================================================== *)
(* READ HALF                                                               *)

(* the capacity the read buffer can ever reach *)
Definition rcap_bound (h : rhalf) : nat := Nat.max (rbase h) (rmax h + rbase h - 1).

Definition rinv (h : rhalf) : Prop :=
  bwf (rb h) /\ vcap (bvec (rb h)) <= rcap_bound h.

(* bytes not yet handed to the caller: buffered ++ not yet delivered *)
Definition rabs (h : rhalf) : list byte := buf_pending (rb h) ++ rsrc h.

Definition rcfg (h h' : rhalf) : Prop := rbase h' = rbase h /\ rmax h' = rmax h.

Lemma set_rb_id h : set_rb h (rb h) = h.
Proof. destruct h; reflexivity. Qed.

Lemma rh_new_inv base mx s src : rinv (rh_new base mx s src).
Proof.
  unfold rinv, rh_new, rcap_bound. cbn [rb rbase rmax].
  split; [apply buf_with_capacity_wf|].
  unfold buf_with_capacity, vcap. cbn. rewrite repeat_length. lia.
Qed.

Lemma rd_consume_spec h amt :
  bwf (rb h) -> rfut h = FNone -> amt <= length (buf_pending (rb h)) ->
  exists b', rd_consume h amt = Ok (set_rb h b') /\ bwf b' /\
    vcap (bvec b') <= vcap (bvec (rb h)) /\
    buf_pending b' = skipn amt (buf_pending (rb h)).
Proof.
  intros Hwf Hf Hamt. unfold rd_consume, rtaken. rewrite Hf. cbn [is_fnone negb].
  rewrite buf_pending_length in Hamt by exact Hwf.
  destruct (buf_advance_spec (rb h) amt Hwf Hamt) as (b1 & Hadv & Hwf1 & Hvec & Hpend).
  rewrite Hadv. cbn [rbind].
  destruct (buf_all_done b1).
  - destruct (buf_compact_to_spec b1 (rbase h) (rmax h) Hwf1) as (H1 & _ & H3 & H4 & _).
    eexists. split; [reflexivity|]. split; [exact H1|]. split; [rewrite <- Hvec; exact H4|].
    rewrite H3. exact Hpend.
  - exists b1. split; [reflexivity|]. split; [exact Hwf1|]. split; [rewrite Hvec; lia|exact Hpend].
Qed.

(* consume beyond the window is the caller's error: the assert fires *)
Lemma rd_consume_too_much h amt :
  bwf (rb h) -> rfut h = FNone -> length (buf_pending (rb h)) < amt ->
  rd_consume h amt = Panic P_ASSERT.
Proof.
  intros Hwf Hf Hamt. unfold rd_consume, rtaken. rewrite Hf. cbn [is_fnone negb].
  rewrite buf_pending_length in Hamt by exact Hwf. unfold buf_advance.
  destruct (Nat.ltb (vcap (bvec (rb h))) (bbegin (rb h) + amt)); [reflexivity|].
  destruct (Nat.ltb_spec (vlen (bvec (rb h))) (bbegin (rb h) + amt)); [reflexivity|].
  destruct Hwf. lia.
Qed.

Lemma rd_fill_buf_spec h :
  match rd_fill_buf h with
  | SOk av => av = buf_pending (rb h) /\ rfut h = FNone /\ (av = [] -> reof h = true)
  | SErr e => e = E_WOULD_BLOCK /\ (rfut h = FNone -> buf_pending (rb h) = [] /\ reof h = false)
  end.
Proof.
  unfold rd_fill_buf, rtaken. destruct (rfut h); cbn [is_fnone negb]; try (split; [reflexivity|discriminate]).
  destruct (buf_pending (rb h)) eqn:E.
  - destruct (reof h); auto.
  - repeat split; auto. discriminate.
Qed.

(* Read::read: hands out the first bytes of the window, exactly once *)
Lemma rd_read_spec h n :
  bwf (rb h) ->
  exists r h', rd_read h n = Ok (r, h') /\
    match r with
    | SOk bs => exists b', h' = set_rb h b' /\ bwf b' /\ vcap (bvec b') <= vcap (bvec (rb h)) /\
                 rfut h = FNone /\ bs = firstn n (buf_pending (rb h)) /\
                 bs ++ buf_pending b' = buf_pending (rb h) /\
                 (n <> 0 -> bs = [] -> reof h = true)
    | SErr e => e = E_WOULD_BLOCK /\ h' = h /\
                 (rfut h = FNone -> buf_pending (rb h) = [] /\ reof h = false)
    end.
Proof.
  intros Hwf. unfold rd_read. pose proof (rd_fill_buf_spec h) as Hf.
  destruct (rd_fill_buf h) as [av|e].
  - destruct Hf as (Hav & Hfut & Heof). subst av.
    assert (Hl : length (firstn n (buf_pending (rb h))) <= length (buf_pending (rb h)))
      by (rewrite firstn_length; lia).
    destruct (rd_consume_spec h _ Hwf Hfut Hl) as (b' & Hc & Hwf' & Hcap & Hp).
    rewrite Hc. cbn [rbind]. eexists _, _. split; [reflexivity|].
    exists b'. split; [reflexivity|]. split; [exact Hwf'|]. split; [exact Hcap|].
    split; [exact Hfut|]. split; [reflexivity|]. split.
    + rewrite Hp. rewrite firstn_length.
      destruct (Nat.min_spec n (length (buf_pending (rb h)))) as [[? E]|[? E]]; rewrite E.
      * apply firstn_skipn.
      * rewrite firstn_all2 by lia. rewrite skipn_all. apply app_nil_r.
    + intros Hn E. apply Heof. destruct (buf_pending (rb h)); [reflexivity|].
      destruct n; [congruence|discriminate].
  - eexists _, _. split; [reflexivity|]. destruct Hf. auto.
Qed.

(* fill_read_buf before the inner read: compaction and growth keep the bytes;
   the capacity stays within [rcap_bound]; with base_capacity >= 1 there is
   room for at least one byte *)
Lemma rd_fill_prepare_spec h :
  rinv h ->
  exists b', snd (rd_fill_prepare h) = set_rb h b' /\ bwf b' /\
    vcap (bvec b') <= rcap_bound h /\ buf_pending b' = buf_pending (rb h) /\
    match fst (rd_fill_prepare h) with
    | None => reof h = false /\ bbegin b' = 0 /\ vlen (bvec b') < rmax h /\
              (1 <= rbase h -> vlen (bvec b') < vcap (bvec b'))
    | Some o => (o = OOk 0 /\ reof h = true) \/
                (o = OErr E_OUT_OF_MEMORY /\ reof h = false /\ rmax h <= length (buf_pending (rb h)))
    end.
Proof.
  intros [Hwf Hcap]. unfold rd_fill_prepare.
  destruct (reof h) eqn:He.
  { exists (rb h). cbn [fst snd]. rewrite set_rb_id.
    split; [reflexivity|]. split; [exact Hwf|]. split; [exact Hcap|]. split; [reflexivity|].
    left; auto. }
  destruct (buf_compact_to_spec (rb h) (rbase h) (rmax h) Hwf) as (H1 & H2 & H3 & H4 & _).
  set (b := buf_compact_to (rb h) (rbase h) (rmax h)) in *.
  assert (Hpl : length (buf_pending b) = vlen (bvec b))
    by (rewrite buf_pending_length by exact H1; lia).
  destruct (Nat.leb_spec (rmax h) (vlen (bvec b))) as [Hm|Hm].
  { exists b. cbn [fst snd].
    split; [reflexivity|]. split; [exact H1|]. split; [lia|]. split; [exact H3|].
    right. repeat split; auto. rewrite <- H3. lia. }
  cbn [fst snd].
  destruct H1 as [Hb Hw].
  destruct (Nat.ltb_spec (vcap (bvec b) - vlen (bvec b)) (rbase h)) as [Hg|Hg].
  - destruct (vreserve_exact_spec (bvec b) (vlen (bvec b) + rbase h - vcap (bvec b)) Hw)
      as (Hw' & Hl' & Hi' & Hc').
    eexists. split; [reflexivity|].
    unfold bwf, buf_pending. cbn [bvec bbegin]. rewrite Hl', Hi'.
    split; [split; [lia|exact Hw']|].
    split.
    { rewrite Hc'. unfold rcap_bound in *. unfold wf in Hw.
      destruct (Nat.leb (vlen (bvec b) + rbase h - vcap (bvec b)) (vcap (bvec b) - vlen (bvec b))); lia. }
    split; [unfold buf_pending in H3; rewrite H2 in H3; exact H3|].
    repeat split; auto. intros Hb1. rewrite Hc'. unfold wf in Hw.
    destruct (Nat.leb_spec (vlen (bvec b) + rbase h - vcap (bvec b)) (vcap (bvec b) - vlen (bvec b))); lia.
  - exists (mkbuf (bvec b) 0). split; [reflexivity|].
    unfold bwf, buf_pending. cbn [bvec bbegin].
    split; [split; [lia|exact Hw]|]. split; [lia|].
    split; [unfold buf_pending in H3; rewrite H2 in H3; exact H3|].
    repeat split; auto. lia.
Qed.

Lemma inner_read_spec block : forall sched capacity src res s',
  inner_read block sched capacity src = (res, s') ->
  match res with
  | None => block = true
  | Some (r, bs, src') =>
    exists k, bs = firstn k src /\ src' = skipn k src /\ k <= capacity /\ length bs = k /\
              match r with RN k' => k' = k | RE _ => k = 0 end
  end.
Proof.
  induction sched as [|a sched IH]; intros capacity src res s' H; cbn [inner_read] in H.
  - inversion H; subst. exists 0. cbn. repeat split; lia.
  - destruct a as [a|].
    + inversion H; subst. destruct (reader_step a capacity src) as [[r bs] src1] eqn:Hs.
      destruct (reader_step_spec _ _ _ _ _ _ Hs) as (k & ? & ? & ? & ? & ? & ?).
      exists k. repeat split; auto.
    + destruct block; [inversion H; subst; reflexivity|]. eapply IH; exact H.
Qed.

(* the inner read call and the bookkeeping after it *)
Lemma rd_fill_inner_spec block h :
  rinv h -> bbegin (rb h) = 0 ->
  let '(r, h') := rd_fill_inner block h in
  rinv h' /\ rcfg h h' /\ rabs h' = rabs h /\ rslots h' = rslots h /\ rreg h' = rreg h /\
  match r with
  | PPending => block = true /\ rfut h' = FBlocked /\ rb h' = rb h /\ reof h' = reof h
  | PReady o =>
    rfut h' = FNone /\
    match o with
    | OOk k => length (buf_pending (rb h')) = length (buf_pending (rb h)) + k /\
               k <= vcap (bvec (rb h)) - vlen (bvec (rb h)) /\
               (k <> 0 -> reof h' = reof h) /\ (k = 0 -> reof h' = true)
    | OErr _ => rb h' = rb h /\ reof h' = reof h
    end
  end.
Proof.
  intros [[Hb Hw] Hcap] Hb0. unfold rd_fill_inner.
  destruct (inner_read block (rsched h) (vcap (bvec (rb h)) - vlen (bvec (rb h))) (rsrc h))
    as [res s'] eqn:Hi.
  pose proof (inner_read_spec _ _ _ _ _ _ Hi) as Hs.
  destruct res as [[[r bs] src']|].
  2:{ unfold rinv, rcfg, rabs, rcap_bound, bwf. cbn. repeat split; auto. }
  destruct Hs as (k & Hbs & Hsrc & Hk & Hlen & Hr).
  unfold rd_fill_complete. destruct r as [k'|e].
  - subst k'. cbn [rb set_rfut set_renv].
    destruct (Nat.eqb_spec k 0) as [E|E].
    + subst k. cbn [firstn skipn] in *. subst.
      unfold rinv, rcfg, rabs, rcap_bound, bwf. cbn. repeat split; auto; try lia; try congruence.
      rewrite E. reflexivity.
    + assert (Hfit : vlen (bvec (rb h)) + length bs <= vcap (bvec (rb h))) by (unfold wf in Hw; lia).
      unfold rinv, rcfg, rabs, rcap_bound, bwf, buf_pending, wf.
      cbn [rb rbase rmax rfut rslots rreg rsrc reof set_rb set_rfut set_renv bvec bbegin skipn].
      rewrite slice_fill_vcap, slice_fill_vlen by lia.
      rewrite vinit_slice_fill_end by assumption.
      rewrite Hb0. cbn [skipn]. rewrite app_length, <- app_assoc. subst bs src'.
      rewrite firstn_skipn.
      repeat split; auto; try lia.
  - subst. cbn [skipn firstn].
    unfold rinv, rcfg, rabs, rcap_bound, bwf. cbn. repeat split; auto.
Qed.

Lemma rinv_set_rb h b :
  bwf b -> vcap (bvec b) <= rcap_bound h -> rinv (set_rb h b).
Proof. intros H1 H2. unfold rinv, rcap_bound in *. cbn. auto. Qed.

(* fill_read_buf from its start: nothing is lost or reordered whatever the
   outcome (incl. OutOfMemory and inner errors); a successful fill leaves
   either data or a latched end-of-file *)
Lemma rd_fill_start_spec block h :
  rinv h ->
  let '(r, h') := rd_fill_start block h in
  rinv h' /\ rcfg h h' /\ rabs h' = rabs h /\ rslots h' = rslots h /\ rreg h' = rreg h /\
  match r with
  | PPending => block = true /\ rfut h' = FBlocked /\ reof h' = reof h /\ bbegin (rb h') = 0
  | PReady o =>
    (rfut h = FNone -> rfut h' = FNone) /\
    match o with
    | OOk k => buf_pending (rb h') <> [] \/ reof h' = true
    | OErr _ => True
    end
  end.
Proof.
  intros Hinv. unfold rd_fill_start.
  destruct (rd_fill_prepare_spec h Hinv) as (b' & Hh1 & Hwf' & Hcap' & Hp' & Hcase).
  destruct (rd_fill_prepare h) as [o h1]. cbn [fst snd] in *. subst h1.
  destruct o as [o|].
  - unfold rcfg, rabs. cbn [rb rbase rmax rslots rreg rfut rsrc reof set_rb].
    split; [apply rinv_set_rb; assumption|]. rewrite Hp'.
    repeat split; auto.
    destruct Hcase as [[-> He]|[-> _]]; auto.
  - destruct Hcase as (He & Hb0 & Hlt & _).
    pose proof (rd_fill_inner_spec block (set_rb h b') (rinv_set_rb h b' Hwf' Hcap') Hb0) as Hi.
    destruct (rd_fill_inner block (set_rb h b')) as [r h2].
    destruct Hi as (Hinv2 & [Hc1 Hc2] & Habs & Hsl & Hrg & Hr).
    cbn [rbase rmax rslots rreg set_rb] in *.
    split; [exact Hinv2|]. split; [split; assumption|].
    split; [rewrite Habs; unfold rabs; cbn [rb rsrc set_rb]; rewrite Hp'; reflexivity|].
    split; [exact Hsl|]. split; [exact Hrg|].
    destruct r as [o|].
    + destruct Hr as [Hf Ho]. split; [auto|]. destruct o as [k|e]; [|exact I].
      destruct Ho as (Hlen & _ & Hk1 & Hk0).
      destruct (Nat.eq_dec k 0) as [E|E]; [right; auto|left].
      intros En. rewrite En in Hlen. cbn in Hlen. lia.
    + destruct Hr as (? & ? & Hrb & Heof). cbn [reof set_rb] in Heof. rewrite Hrb. auto.
Qed.

Lemma sync_fill_read_buf_spec h :
  rinv h -> rfut h = FNone ->
  exists o h', sync_fill_read_buf h = Ok (o, h') /\
    rinv h' /\ rcfg h h' /\ rabs h' = rabs h /\ rfut h' = FNone /\
    rslots h' = rslots h /\ rreg h' = rreg h.
Proof.
  intros Hinv Hf. unfold sync_fill_read_buf.
  pose proof (rd_fill_start_spec false h Hinv) as H.
  destruct (rd_fill_start false h) as [r h'].
  destruct H as (H1 & H2 & H3 & H4 & H5 & H6).
  destruct r as [o|].
  - exists o, h'. destruct H6 as [H6 _]. splits; auto.
  - destruct H6 as [H6 _]. discriminate.
Qed.

Lemma rinv_set_rreg h x : rinv h -> rinv (set_rreg h x).
Proof. unfold rinv, rcap_bound. cbn. auto. Qed.
Lemma rinv_set_rslots h x : rinv h -> rinv (set_rslots h x).
Proof. unfold rinv, rcap_bound. cbn. auto. Qed.

(* poll_read_impl: data part and control part *)
Lemma poll_read_impl_spec h :
  rinv h -> (rfut h <> FNone -> bbegin (rb h) = 0) ->
  let '(r, h') := poll_read_impl h in
  rinv h' /\ rcfg h h' /\ rabs h' = rabs h /\ rslots h' = rslots h /\
  (rfut h' <> FNone -> bbegin (rb h') = 0) /\
  match r with
  | PPending => rfut h' = FBlocked /\ rreg h' = rslots h /\ reof h' = reof h
  | PReady o =>
    rfut h' = FNone /\ rreg h' = rreg h /\ rfut h <> FBlocked /\
    match o with
    | OOk k => buf_pending (rb h') <> [] \/ reof h' = true
    | OErr _ => True
    end
  end.
Proof.
  intros Hinv Hb0. unfold poll_read_impl.
  destruct (rfut h) eqn:Hf.
  - pose proof (rd_fill_start_spec true h Hinv) as H.
    destruct (rd_fill_start true h) as [r h'].
    destruct H as (H1 & H2 & H3 & H4 & H5 & H6).
    destruct r as [o|].
    + destruct H6 as [H6 H7]. specialize (H6 Hf).
      splits; auto; congruence.
    + destruct H6 as (_ & H6 & H7 & H8).
      split; [apply rinv_set_rreg; exact H1|].
      unfold rcfg, rabs in *. cbn [rb rbase rmax rslots rreg rfut rsrc reof set_rreg].
      splits; auto; apply H2.
  - split; [apply rinv_set_rreg; exact Hinv|].
    unfold rcfg, rabs. cbn [rb rbase rmax rslots rreg rfut rsrc reof set_rreg].
    splits; auto. intros _. apply Hb0. congruence.
  - assert (Hb : bbegin (rb h) = 0) by (apply Hb0; congruence).
    pose proof (rd_fill_inner_spec true h Hinv Hb) as H.
    destruct (rd_fill_inner true h) as [r h'].
    destruct H as (H1 & H2 & H3 & H4 & H5 & H6).
    destruct r as [o|].
    + destruct H6 as [H6 H7]. splits; auto; try congruence.
      destruct o as [k|e]; [|exact I].
      destruct H7 as (Hlen & _ & Hk1 & Hk0).
      destruct (Nat.eq_dec k 0) as [E|E]; [right; auto|left].
      intros En. rewrite En in Hlen. cbn in Hlen. lia.
    + destruct H6 as (_ & H6 & H7 & H8).
      split; [apply rinv_set_rreg; exact H1|].
      unfold rcfg, rabs in *. cbn [rb rbase rmax rslots rreg rfut rsrc reof set_rreg].
      splits; auto; try apply H2. intros _. rewrite H7. exact Hb.
Qed.

(* what the poll loops need from the synchronous call they wrap *)
Definition rop_ok (consumes : bool) (op : rhalf -> R (sres * rhalf)) : Prop :=
  forall h, rinv h ->
  exists r h', op h = Ok (r, h') /\
    match r with
    | SOk bs =>
      rinv h' /\ rcfg h h' /\ rfut h = FNone /\ rfut h' = FNone /\
      rslots h' = rslots h /\ rreg h' = rreg h /\
      (exists rest, rabs h = bs ++ rest /\ rabs h' = if consumes then rest else rabs h)
    | SErr e => e = E_WOULD_BLOCK /\ h' = h /\
                (rfut h = FNone -> buf_pending (rb h) = [] /\ reof h = false)
    end.

Lemma rop_ok_read n : rop_ok true (fun h => rd_read h n).
Proof.
  intros h [Hwf Hcap].
  destruct (rd_read_spec h n Hwf) as (r & h' & Hrun & Hr).
  exists r, h'. split; [exact Hrun|]. destruct r as [bs|e]; [|exact Hr].
  destruct Hr as (b' & -> & Hwf' & Hc' & Hf & Hbs & Hsum & _).
  split; [apply rinv_set_rb; [exact Hwf'|lia]|].
  unfold rcfg, rabs. cbn [rb rbase rmax rfut rslots rreg rsrc set_rb].
  splits; auto. exists (buf_pending b' ++ rsrc h). rewrite <- Hsum, <- app_assoc. auto.
Qed.

Lemma rop_ok_fill_buf : rop_ok false rd_fill_buf_op.
Proof.
  intros h Hinv. unfold rd_fill_buf_op. pose proof (rd_fill_buf_spec h) as Hs.
  eexists _, h. split; [reflexivity|]. destruct (rd_fill_buf h) as [av|e].
  - destruct Hs as (-> & Hf & _). unfold rcfg. splits; auto.
    exists (rsrc h). auto.
  - destruct Hs. auto.
Qed.

Definition rready (h : rhalf) : Prop := rfut h <> FNone -> bbegin (rb h) = 0.

(* the poll loop, any budget: whatever it returns, nothing was lost *)
Lemma pr_loop_spec consumes op e : rop_ok consumes op ->
  forall fuel h r h',
  rinv h -> rready h -> pr_loop fuel op e h = Ok (r, h') ->
  rinv h' /\ rcfg h h' /\ rready h' /\ (r <> PRPending -> rfut h <> FBlocked) /\
  match r with
  | PRBytes bs =>
      (exists rest, rabs h = bs ++ rest /\ rabs h' = if consumes then rest else rabs h) /\
      rslots h' = upd e None (rslots h) /\ rfut h' = FNone
  | PRErr _ => rabs h' = rabs h /\ rslots h' = rslots h /\ rfut h' = FNone
  | PRPending => rabs h' = rabs h /\ rslots h' = rslots h /\ rfut h' = FBlocked /\
                 rreg h' = rslots h
  | PRCount _ => False
  end.
Proof.
  intros Hop. induction fuel as [|f IH]; intros h r h' Hinv Hrdy Hrun; [discriminate|].
  cbn [pr_loop] in Hrun.
  destruct (Hop h Hinv) as (r1 & h1 & Hop1 & Hr1). rewrite Hop1 in Hrun. cbn [rbind] in Hrun.
  destruct r1 as [bs|k].
  - inversion Hrun; subst; clear Hrun.
    destruct Hr1 as (Hi1 & Hc1 & Hf & Hf1 & Hs1 & Hg1 & Hrest).
    split; [apply rinv_set_rslots; exact Hi1|].
    unfold rcfg, rready, rabs in *. cbn [rb rbase rmax rfut rslots rreg rsrc set_rslots].
    splits; auto; try apply Hc1; try congruence.
  - destruct Hr1 as (-> & -> & Hwb). rewrite N.eqb_refl in Hrun.
    pose proof (poll_read_impl_spec h Hinv Hrdy) as Hp.
    destruct (poll_read_impl h) as [pr h2].
    destruct Hp as (Hi2 & Hc2 & Ha2 & Hs2 & Hrdy2 & Hcase).
    destruct pr as [[k|k']|].
    + destruct (IH h2 r h' Hi2 Hrdy2 Hrun) as (Hi' & Hc' & Hrdy' & _ & Hcase').
      split; [exact Hi'|]. split; [unfold rcfg in *; split; destruct Hc2, Hc'; congruence|].
      split; [exact Hrdy'|]. split; [intros _; apply Hcase|].
      rewrite Ha2, Hs2 in Hcase'. exact Hcase'.
    + inversion Hrun; subst; clear Hrun. destruct Hcase as (Hf & _ & Hnb & _).
      splits; auto.
    + inversion Hrun; subst; clear Hrun. destruct Hcase as (Hf & Hg & _).
      splits; auto; intros E; congruence.
Qed.

(* progress: two iterations always suffice, whatever the configuration *)
Lemma pr_loop_progress consumes op e : rop_ok consumes op ->
  forall f h, rinv h -> rready h ->
  pr_loop (S (S f)) op e h = pr_loop 2 op e h /\
  exists r h', pr_loop 2 op e h = Ok (r, h').
Proof.
  intros Hop f h Hinv Hrdy.
  cbn [pr_loop].
  destruct (Hop h Hinv) as (r1 & h1 & Hop1 & Hr1). rewrite Hop1. cbn [rbind].
  destruct r1 as [bs|k]; [split; [reflexivity|eauto]|].
  destruct Hr1 as (-> & -> & Hwb). rewrite N.eqb_refl.
  pose proof (poll_read_impl_spec h Hinv Hrdy) as Hp.
  destruct (poll_read_impl h) as [pr h2].
  destruct Hp as (Hi2 & Hc2 & Ha2 & Hs2 & Hrdy2 & Hcase).
  destruct pr as [[k|k']|]; [|split; [reflexivity|eauto]|split; [reflexivity|eauto]].
  destruct Hcase as (Hf2 & _ & _ & Hdata).
  destruct (Hop h2 Hi2) as (r2 & h3 & Hop2 & Hr2). rewrite Hop2. cbn [rbind].
  destruct r2 as [bs|k2]; [split; [reflexivity|eauto]|].
  exfalso. destruct Hr2 as (_ & _ & Hwb2). destruct (Hwb2 Hf2) as [He Hn].
  destruct Hdata; congruence.
Qed.

(* ====================================================================== *)
(* WRITE HALF                                                              *)

(* bytes accepted from the caller = what the inner writer saw ++ pending *)
Definition wabs (h : whalf) : list byte := sink_bytes (wlog h) ++ buf_pending (wb h).
Definition wcfg (h h' : whalf) : Prop := wbase h' = wbase h /\ wmax h' = wmax h.

(* the write buffer is well formed and within max_buffer_size *)
Definition wcore (h : whalf) : Prop :=
  bwf (wb h) /\ length (buf_pending (wb h)) <= wmax h.

Lemma set_wb_id h : set_wb h (wb h) = h.
Proof. destruct h; reflexivity. Qed.

Lemma buf_pending_extend b bs :
  bwf b ->
  bwf (mkbuf (vextend (bvec b) bs) (bbegin b)) /\
  buf_pending (mkbuf (vextend (bvec b) bs) (bbegin b)) = buf_pending b ++ bs.
Proof.
  intros [Hb Hw]. destruct (vextend_spec (bvec b) bs Hw) as (Hw' & Hi' & Hl').
  unfold bwf, buf_pending. cbn [bvec bbegin]. rewrite Hi', Hl'.
  split; [split; [lia|exact Hw']|].
  rewrite skipn_app, vinit_length by exact Hw.
  replace (bbegin b - vlen (bvec b)) with 0 by lia. reflexivity.
Qed.

(* Write::write: accepts a prefix of the data, never beyond max_buffer_size;
   WouldBlock leaves everything as it was *)
Lemma wr_write_spec h data :
  wcore h ->
  exists o h', wr_write h data = Ok (o, h') /\
    match o with
    | OOk k => exists b', h' = set_wb h b' /\ bwf b' /\ k <= length data /\
               buf_pending b' = buf_pending (wb h) ++ firstn k data /\
               length (buf_pending b') <= wmax h /\ wtaken h = false
    | OErr e => e = E_WOULD_BLOCK /\ h' = h /\
                (wtaken h = false -> vlen (bvec (wb h)) = 0 -> wmax h = 0)
    end.
Proof.
  intros [Hwf Hlim]. unfold wr_write.
  destruct (wtaken h) eqn:Ht.
  { eexists _, _. split; [reflexivity|]. splits; auto. intros; discriminate. }
  pose proof (buf_pending_length (wb h) Hwf) as Hpl.
  destruct (buf_need_flush (wb h) && negb (vlen (bvec (wb h)) =? 0)) eqn:Hnf.
  { eexists _, _. split; [reflexivity|]. splits; auto. intros _ E.
    rewrite E in Hnf. cbn in Hnf. rewrite andb_false_r in Hnf. discriminate. }
  rewrite <- Hpl.
  destruct (Nat.ltb_spec (wmax h) (length (buf_pending (wb h)) + length data)) as [Hover|Hfit].
  - unfold usub. destruct (Nat.leb_spec (length (buf_pending (wb h))) (wmax h)); [|lia].
    cbn [rbind]. set (space := wmax h - length (buf_pending (wb h))).
    destruct (Nat.eqb_spec space 0) as [E|E].
    + eexists _, _. split; [reflexivity|]. splits; auto. intros _ E0.
      rewrite E0 in Hpl. unfold space in E. destruct Hwf. lia.
    + destruct (buf_pending_extend (wb h) (firstn space data) Hwf) as [Hwf' Hp'].
      eexists _, _. split; [reflexivity|]. eexists. split; [reflexivity|].
      split; [exact Hwf'|]. split; [unfold space; lia|]. split; [exact Hp'|].
      split; [|reflexivity]. rewrite Hp', app_length, firstn_length. unfold space. lia.
  - destruct (buf_pending_extend (wb h) data Hwf) as [Hwf' Hp'].
    eexists _, _. split; [reflexivity|]. eexists. split; [reflexivity|].
    split; [exact Hwf'|]. split; [lia|]. rewrite firstn_all. split; [exact Hp'|].
    split; [|reflexivity]. rewrite Hp', app_length. lia.
Qed.

(* the loop of Buffer::flush_to, with Pending answers *)
Lemma wr_flush_loop_spec block : forall ws b log total,
  bwf b ->
  exists o b' log' ws',
    wr_flush_loop block ws b log total = Ok (o, b', log', ws') /\ bwf b' /\
    vcap (bvec b') = vcap (bvec b) /\
    sink_bytes log' ++ buf_pending b' = sink_bytes log ++ buf_pending b /\
    length (buf_pending b') <= length (buf_pending b) /\
    match o with
    | None => block = true
    | Some (OOk t) => vlen (bvec b') = 0 /\ bbegin b' = 0 /\ t = total + length (buf_pending b)
    | Some (OErr _) => True
    end.
Proof.
  induction ws as [|a ws IH]; intros b log total Hwf; cbn [wr_flush_loop].
  - eexists _, _, _, _. split; [reflexivity|]. splits; auto.
  - destruct a as [a|].
    2:{ destruct block; [|apply IH; exact Hwf].
        eexists _, _, _, _. split; [reflexivity|]. splits; auto. }
    destruct (writer_step a (buf_pending b)) as [r out] eqn:Hstep.
    destruct (writer_step_spec _ _ _ _ Hstep) as (k & Hout & Hk & Hlen & Hr).
    pose proof (buf_pending_length b Hwf) as Hpl. rewrite Hpl in Hk.
    destruct r as [k'|e].
    + subst k'. destruct k as [|k].
      { eexists _, _, _, _. split; [reflexivity|]. splits; auto. }
      destruct (buf_advance_spec b (S k) Hwf Hk) as (b1 & Hadv & Hwf1 & Hvec & Hpend).
      rewrite Hadv. cbn [rbind].
      assert (Hsum : sink_bytes (log ++ [WBytes out]) ++ buf_pending b1 =
                     sink_bytes log ++ buf_pending b).
      { rewrite sink_bytes_app. cbn [sink_bytes flat_map]. rewrite app_nil_r, <- app_assoc.
        f_equal. rewrite Hpend, Hout. apply firstn_skipn. }
      assert (Hl1 : length (buf_pending b1) = length (buf_pending b) - S k)
        by (rewrite Hpend, skipn_length; reflexivity).
      destruct (buf_all_done b1) eqn:Hd.
      * destruct (buf_reset_spec b1 (proj2 Hwf1)) as (Hw & Hp & Hc & Hl).
        eexists _, _, _, _. split; [reflexivity|]. split; [exact Hw|]. split; [congruence|].
        split; [rewrite Hp, <- Hsum, (buf_pending_nil b1 Hwf1 Hd); reflexivity|].
        split; [rewrite Hp; cbn; lia|].
        split; [exact Hl|]. split; [reflexivity|].
        pose proof (buf_pending_nil b1 Hwf1 Hd) as En. rewrite En in Hl1. cbn in Hl1. lia.
      * destruct (IH b1 (log ++ [WBytes out]) (total + S k) Hwf1)
          as (o & b' & log' & ws' & Hrun & Hw & Hc & Hs & Hle & Ho).
        exists o, b', log', ws'. split; [exact Hrun|]. split; [exact Hw|].
        split; [congruence|]. split; [congruence|]. split; [lia|].
        destruct o as [[t|e]|]; auto. destruct Ho as (? & ? & ->). splits; auto. lia.
    + eexists _, _, _, _. split; [reflexivity|]. splits; auto.
Qed.

Lemma inner_ctl_spec block : forall ws r ws',
  inner_ctl block ws = (r, ws') -> r = None -> block = true.
Proof.
  induction ws as [|a ws IH]; intros r ws' H E; cbn [inner_ctl] in H.
  - inversion H; subst; discriminate.
  - destruct a as [[n|e|]|]; try (inversion H; subst; discriminate).
    destruct block; [reflexivity|]. eapply IH; eauto.
Qed.

Lemma sink_bytes_ctl log e :
  match e with WBytes _ => False | _ => True end ->
  sink_bytes (log ++ [e]) = sink_bytes log.
Proof.
  intros H. rewrite sink_bytes_app. destruct e; [contradiction| |]; cbn; apply app_nil_r.
Qed.

(* what every stage of flush_write_buf guarantees *)
Definition wflush_post (block : bool) (h : whalf) (r : pollr outcome) (h' : whalf) : Prop :=
  wcore h' /\ wcfg h h' /\ wabs h' = wabs h /\ wslots h' = wslots h /\ wreg h' = wreg h /\
  sfut h' = sfut h /\ wclosed h' = wclosed h /\
  match r with
  | PPending => block = true /\ wfut h' = FBlocked /\
                (wph h' = WfFlush -> vlen (bvec (wb h')) = 0)
  | PReady o => wfut h' = FNone /\
                match o with OOk _ => vlen (bvec (wb h')) = 0 | OErr _ => True end
  end.

Lemma wr_inner_flush_spec block h total :
  wcore h -> vlen (bvec (wb h)) = 0 ->
  let '(r, h') := wr_inner_flush block h total in wflush_post block h r h'.
Proof.
  intros Hc Hz. unfold wr_inner_flush.
  destruct (inner_ctl block (wsched h)) as [[[e|]|] ws'] eqn:Hi;
    unfold wflush_post, wcore, wcfg, wabs in *;
    cbn [wb wbase wmax wfut wph sfut wclosed wslots wreg wlog set_wfut set_wenv];
    try rewrite (sink_bytes_ctl (wlog h) WFlush I); splits; auto; try apply Hc.
  eapply inner_ctl_spec; eauto.
Qed.

Lemma wr_after_flush_to_spec block h total :
  wcore h -> buf_pending (wb h) = [] ->
  let '(r, h') := wr_after_flush_to block h total in wflush_post block h r h'.
Proof.
  intros [Hwf Hlim] Hnil. unfold wr_after_flush_to.
  destruct (buf_compact_to_spec (wb h) (wbase h) (wmax h) Hwf) as (H1 & H2 & H3 & H4 & H5).
  set (h1 := set_wb h (buf_compact_to (wb h) (wbase h) (wmax h))).
  assert (Hc1 : wcore h1) by (unfold wcore, h1; cbn [wb wmax set_wb]; rewrite H3; auto).
  assert (Hz1 : vlen (bvec (wb h1)) = 0) by (unfold h1; cbn [wb set_wb]; auto).
  pose proof (wr_inner_flush_spec block h1 total Hc1 Hz1) as Hs.
  destruct (wr_inner_flush block h1 total) as [r h'].
  unfold wflush_post, wcfg, wabs in *. unfold h1 in Hs.
  cbn [wb wbase wmax wfut wph sfut wclosed wslots wreg wlog set_wb] in Hs.
  rewrite H3 in Hs. exact Hs.
Qed.

Lemma wr_flush_to_spec block h :
  wcore h ->
  exists r h', wr_flush_to block h = Ok (r, h') /\ wflush_post block h r h'.
Proof.
  intros [Hwf Hlim]. unfold wr_flush_to.
  destruct (wr_flush_loop_spec block (wsched h) (wb h) (wlog h) 0 Hwf)
    as (o & b' & log' & ws' & Hrun & Hw & Hc & Hs & Hle & Ho).
  rewrite Hrun. cbn [rbind].
  destruct o as [[t|e]|].
  - destruct Ho as (Hz & Hb0 & _).
    set (h1 := set_wfut (set_wb (set_wenv h ws' log') b') FNone WfWrite).
    assert (Hn : buf_pending b' = []).
    { apply length_zero_iff_nil. rewrite buf_pending_length by exact Hw. lia. }
    assert (Hc1 : wcore h1) by (unfold wcore, h1; cbn; rewrite Hn; cbn; split; [exact Hw|lia]).
    pose proof (wr_after_flush_to_spec block h1 t Hc1 Hn) as Hp.
    destruct (wr_after_flush_to block h1 t) as [r h'].
    exists r, h'. split; [reflexivity|].
    unfold wflush_post, wcfg, wabs in *. unfold h1 in Hp.
    cbn [wb wbase wmax wfut wph sfut wclosed wslots wreg wlog set_wb set_wfut set_wenv] in Hp.
    rewrite Hs in Hp. exact Hp.
  - eexists _, _. split; [reflexivity|].
    unfold wflush_post, wcore, wcfg, wabs.
    cbn [wb wbase wmax wfut wph sfut wclosed wslots wreg wlog set_wb set_wfut set_wenv].
    splits; auto. lia.
  - eexists _, _. split; [reflexivity|].
    unfold wflush_post, wcore, wcfg, wabs.
    cbn [wb wbase wmax wfut wph sfut wclosed wslots wreg wlog set_wb set_wfut set_wenv].
    splits; auto; try lia. discriminate.
Qed.

Lemma wr_flush_start_spec block h :
  wcore h ->
  exists r h', wr_flush_start block h = Ok (r, h') /\ wflush_post block h r h'.
Proof.
  intros Hc. unfold wr_flush_start. destruct (buf_all_done (wb h)) eqn:Hd.
  - pose proof (wr_after_flush_to_spec block h 0 Hc (buf_pending_nil _ (proj1 Hc) Hd)) as Hp.
    destruct (wr_after_flush_to block h 0) as [r h']. eauto.
  - apply wr_flush_to_spec. exact Hc.
Qed.

(* the invariant of the write half *)
Definition winv (h : whalf) : Prop :=
  wcore h /\
  (wfut h <> FNone -> wph h = WfFlush -> vlen (bvec (wb h)) = 0) /\
  (sfut h <> FNone -> wfut h = FNone /\ vlen (bvec (wb h)) = 0) /\
  (wclosed h = true -> sfut h = FNone).

Lemma wh_new_inv base mx s : winv (wh_new base mx s).
Proof.
  unfold winv, wcore, wh_new. cbn [wb wmax wfut wph sfut wclosed].
  destruct (buf_with_capacity_wf base) as [H1 H2]. rewrite H2. cbn [length].
  splits; auto; try lia; try congruence; intros; congruence.
Qed.

Lemma winv_set_wslots h x : winv h -> winv (set_wslots h x).
Proof. unfold winv, wcore. cbn. auto. Qed.
Lemma winv_set_wreg h x : winv h -> winv (set_wreg h x).
Proof. unfold winv, wcore. cbn. auto. Qed.

Lemma vlen0_pending b : bwf b -> vlen (bvec b) = 0 -> buf_pending b = [].
Proof.
  intros Hwf Hz. apply length_zero_iff_nil. rewrite buf_pending_length by exact Hwf. lia.
Qed.

(* poll_flush_impl: poll (or create) the flush future *)
Lemma poll_flush_impl_spec h :
  winv h -> sfut h = FNone ->
  exists r h', poll_flush_impl h = Ok (r, h') /\
    winv h' /\ wcfg h h' /\ wabs h' = wabs h /\ wslots h' = wslots h /\
    sfut h' = FNone /\ wclosed h' = wclosed h /\
    match r with
    | PPending => wfut h' = FBlocked /\ wreg h' = wslots h
    | PReady o => wfut h' = FNone /\ wreg h' = wreg h /\ wfut h <> FBlocked /\
                  match o with OOk _ => vlen (bvec (wb h')) = 0 | OErr _ => True end
    end.
Proof.
  intros Hinv Hs. pose proof Hinv as (Hc & Hph & Hsf & Hcl). unfold poll_flush_impl.
  assert (Hcore : forall r h',
    wflush_post true h r h' ->
    exists r0 h0,
      (let! '(r1, h1) := Ok (r, h') in
       match r1 with
       | PPending => Ok (PPending, set_wreg h1 (wslots h1))
       | _ => Ok (r1, h1)
       end) = Ok (r0, h0) /\
      winv h0 /\ wcfg h h0 /\ wabs h0 = wabs h /\ wslots h0 = wslots h /\
      sfut h0 = FNone /\ wclosed h0 = wclosed h /\
      match r0 with
      | PPending => wfut h0 = FBlocked /\ wreg h0 = wslots h
      | PReady o => wfut h0 = FNone /\ wreg h0 = wreg h /\
                    match o with OOk _ => vlen (bvec (wb h0)) = 0 | OErr _ => True end
      end).
  { intros r h' (P1 & P2 & P3 & P4 & P5 & P6 & P7 & P8). cbn [rbind].
    destruct r as [o|].
    - exists (PReady o), h'. split; [reflexivity|]. destruct P8 as [P8 P9].
      unfold winv. splits; auto; try congruence; intros; congruence.
    - exists PPending, (set_wreg h' (wslots h')). split; [reflexivity|].
      destruct P8 as (_ & P8 & P9).
      unfold winv, wcore, wcfg, wabs in *.
      cbn [wb wbase wmax wfut wph sfut wclosed wslots wreg wlog set_wreg].
      splits; auto; try apply P1; try apply P2; try congruence; intros; congruence. }
  destruct (wfut h) eqn:Hf.
  - destruct (wr_flush_start_spec true h Hc) as (r & h' & Hrun & Hp).
    replace (match wph h with WfWrite => wr_flush_start true h | WfFlush => wr_flush_start true h end)
      with (wr_flush_start true h) by (destruct (wph h); reflexivity).
    rewrite Hrun. destruct (Hcore r h' Hp) as (r0 & h0 & E & Q).
    exists r0, h0. split; [exact E|].
    destruct Q as (Q1 & Q2 & Q3 & Q4 & Q5 & Q6 & Q7). splits; auto.
    destruct r0 as [o|]; [|exact Q7]. destruct Q7 as (? & ? & ?). splits; auto. discriminate.
  - exists PPending, (set_wreg h (wslots h)).
    replace (match wph h with WfWrite => Ok (PPending, h) | WfFlush => Ok (PPending, h) end)
      with (@Ok (pollr outcome * whalf) (PPending, h)) by (destruct (wph h); reflexivity).
    cbn [rbind]. split; [reflexivity|].
    split; [apply winv_set_wreg; exact Hinv|].
    unfold wcfg, wabs. cbn [wb wbase wmax wfut wph sfut wclosed wslots wreg wlog set_wreg].
    splits; auto.
  - destruct (wph h) eqn:Hp.
    + destruct (wr_flush_to_spec true h Hc) as (r & h' & Hrun & Hpost).
      rewrite Hrun. destruct (Hcore r h' Hpost) as (r0 & h0 & E & Q).
      exists r0, h0. split; [exact E|].
      destruct Q as (Q1 & Q2 & Q3 & Q4 & Q5 & Q6 & Q7). splits; auto.
      destruct r0 as [o|]; [|exact Q7]. destruct Q7 as (? & ? & ?). splits; auto. discriminate.
    + assert (Hz : vlen (bvec (wb h)) = 0) by (apply Hph; [congruence|reflexivity]).
      pose proof (wr_inner_flush_spec true h 0 Hc Hz) as Hpost.
      destruct (wr_inner_flush true h 0) as [r h'].
      destruct (Hcore r h' Hpost) as (r0 & h0 & E & Q).
      exists r0, h0. split; [exact E|].
      destruct Q as (Q1 & Q2 & Q3 & Q4 & Q5 & Q6 & Q7). splits; auto.
      destruct r0 as [o|]; [|exact Q7]. destruct Q7 as (? & ? & ?). splits; auto. discriminate.
Qed.

(* poll_close_impl: poll (or create) the shutdown future *)
Lemma poll_close_impl_spec h :
  winv h -> wfut h = FNone -> vlen (bvec (wb h)) = 0 ->
  let '(r, h') := poll_close_impl h in
  winv h' /\ wcfg h h' /\ wabs h' = wabs h /\ wslots h' = wslots h /\
  wb h' = wb h /\ wfut h' = FNone /\
  match r with
  | PPending => sfut h' = FBlocked /\ wreg h' = wslots h
  | PReady o => sfut h' = FNone /\ wreg h' = wreg h /\ sfut h <> FBlocked /\
                match o with OOk _ => wclosed h' = true | OErr _ => True end
  end.
Proof.
  intros Hinv Hf Hz. pose proof Hinv as (Hc & Hph & Hsf & Hcl). unfold poll_close_impl.
  destruct (wclosed h) eqn:Hclosed.
  { specialize (Hcl eq_refl). unfold wcfg. splits; auto; try congruence. }
  assert (Hpop :
    let '(r, h') :=
      match inner_ctl true (wsched h) with
      | (None, ws') =>
        let h1 := set_sfut (set_wenv h ws' (wlog h)) FBlocked in
        (PPending, set_wreg h1 (wslots h1))
      | (Some None, ws') =>
        (PReady (OOk 0), set_wclosed (set_sfut (set_wenv h ws' (wlog h ++ [WShutdown])) FNone) true)
      | (Some (Some e), ws') => (PReady (OErr e), set_sfut (set_wenv h ws' (wlog h)) FNone)
      end in
    winv h' /\ wcfg h h' /\ wabs h' = wabs h /\ wslots h' = wslots h /\
    wb h' = wb h /\ wfut h' = FNone /\
    match r with
    | PPending => sfut h' = FBlocked /\ wreg h' = wslots h
    | PReady o => sfut h' = FNone /\ wreg h' = wreg h /\
                  match o with OOk _ => wclosed h' = true | OErr _ => True end
    end).
  { destruct (inner_ctl true (wsched h)) as [[[e|]|] ws'];
      unfold winv, wcore, wcfg, wabs in *;
      cbn [wb wbase wmax wfut wph sfut wclosed wslots wreg wlog
           set_wfut set_wenv set_sfut set_wclosed set_wreg];
      try rewrite (sink_bytes_ctl (wlog h) WShutdown I);
      splits; auto; try apply Hc; try congruence; intros; try congruence; try discriminate.
    all: split; assumption. }
  destruct (sfut h) eqn:Hs.
  - destruct (match inner_ctl true (wsched h) with (None, _) => _ | _ => _ end) as [r h'].
    destruct Hpop as (Q1 & Q2 & Q3 & Q4 & Q5 & Q6 & Q7). splits; auto.
    destruct r as [o|]; [|exact Q7]. destruct Q7 as (? & ? & ?). splits; auto. discriminate.
  - split; [apply winv_set_wreg; exact Hinv|].
    unfold wcfg, wabs. cbn [wb wbase wmax wfut wph sfut wclosed wslots wreg wlog set_wreg].
    splits; auto.
  - destruct (match inner_ctl true (wsched h) with (None, _) => _ | _ => _ end) as [r h'].
    destruct Hpop as (Q1 & Q2 & Q3 & Q4 & Q5 & Q6 & Q7). splits; auto.
    destruct r as [o|]; [|exact Q7]. destruct Q7 as (? & ? & ?). splits; auto. discriminate.
Qed.

(* waker slots *)
Lemma upd_length {A} (x : A) : forall l i, length (upd i x l) = length l.
Proof. induction l as [|y l IH]; intros [|i]; cbn; auto. Qed.

Lemma slot_upd_same x : forall l e, e < length l -> slot e (upd e x l) = x.
Proof.
  unfold slot. induction l as [|y l IH]; intros [|e] H; cbn in *; try lia; auto.
  apply IH. lia.
Qed.

Lemma slot_upd_other x : forall l e e', e' <> e -> slot e' (upd e x l) = slot e' l.
Proof.
  unfold slot. induction l as [|y l IH]; intros [|e] [|e'] H; cbn; auto; try congruence.
Qed.

Definition wblocked (h : whalf) : Prop := wfut h = FBlocked \/ sfut h = FBlocked.

(* what one poll call through entry point e with waker w does to the wakers:
   other entry points keep their slot; Pending means an inner operation is
   blocked and was last polled with all current slots, e's slot holding w;
   any other return means nothing is blocked; a blocked half answers Pending *)
Definition wctl (e w : nat) (h : whalf) (r : pres) (h' : whalf) : Prop :=
  length (wslots h') = length (wslots h) /\
  (forall e', e' <> e -> slot e' (wslots h') = slot e' (wslots h)) /\
  (r = PRPending -> wblocked h' /\ wreg h' = wslots h' /\
                    (e < length (wslots h) -> slot e (wslots h') = Some w)) /\
  (r <> PRPending -> ~ wblocked h') /\
  (wblocked h -> r = PRPending).

Lemma shutdown_gate_spec h :
  winv h ->
  exists g h', shutdown_gate h = Ok (g, h') /\
    winv h' /\ wcfg h h' /\ wabs h' = wabs h /\ wslots h' = wslots h /\
    match g with
    | None => sfut h' = FNone /\ wfut h' = wfut h /\ wreg h' = wreg h /\
              sfut h <> FBlocked /\ wb h' = wb h
    | Some PRPending => sfut h' = FBlocked /\ wfut h' = FNone /\ wreg h' = wslots h
    | Some (PRErr _) => sfut h' = FNone /\ wfut h' = FNone /\ sfut h <> FBlocked /\ wfut h = FNone
    | Some _ => False
    end.
Proof.
  intros Hinv. pose proof Hinv as (Hc & Hph & Hsf & Hcl). unfold shutdown_gate.
  destruct (sfut h) eqn:Hs.
  - eexists _, h. split; [reflexivity|]. unfold wcfg. splits; auto. discriminate.
  - destruct Hsf as [Hf Hz]; [discriminate|]. rewrite Hf. cbn [is_fnone].
    pose proof (poll_close_impl_spec h Hinv Hf Hz) as Hp.
    destruct (poll_close_impl h) as [r h'].
    destruct Hp as (Q1 & Q2 & Q3 & Q4 & Q5 & Q6 & Q7).
    destruct r as [[k|e]|]; eexists _, _; (split; [reflexivity|]); splits; auto;
      try apply Q7; try congruence.
    all: destruct Q7 as (_ & _ & Q7 & _); exfalso; apply Q7; exact Hs.
  - destruct Hsf as [Hf Hz]; [discriminate|]. rewrite Hf. cbn [is_fnone].
    pose proof (poll_close_impl_spec h Hinv Hf Hz) as Hp.
    destruct (poll_close_impl h) as [r h'].
    destruct Hp as (Q1 & Q2 & Q3 & Q4 & Q5 & Q6 & Q7).
    destruct r as [[k|e]|]; eexists _, _; (split; [reflexivity|]); splits; auto;
      try apply Q7; try congruence; try discriminate.
    all: destruct Hinv as (_ & Hph' & _); try (intros; discriminate).
Qed.

Lemma flush_gate_spec h :
  winv h -> sfut h = FNone ->
  exists g h', flush_gate h = Ok (g, h') /\
    winv h' /\ wcfg h h' /\ wabs h' = wabs h /\ wslots h' = wslots h /\ sfut h' = FNone /\
    match g with
    | None => wfut h' = FNone /\ wreg h' = wreg h /\ wfut h <> FBlocked
    | Some PRPending => wfut h' = FBlocked /\ wreg h' = wslots h
    | Some (PRErr _) => wfut h' = FNone /\ wfut h <> FBlocked
    | Some _ => False
    end.
Proof.
  intros Hinv Hs. unfold flush_gate. destruct (wfut h) eqn:Hf; cbn [is_fnone].
  - eexists _, h. split; [reflexivity|]. unfold wcfg. splits; auto. discriminate.
  - destruct (poll_flush_impl_spec h Hinv Hs) as (r & h' & Hrun & Q1 & Q2 & Q3 & Q4 & Q5 & Q6 & Q7).
    rewrite Hrun. cbn [rbind].
    destruct r as [[k|e]|]; eexists _, _; (split; [reflexivity|]); splits; auto; try apply Q7.
    all: destruct Q7 as (_ & _ & Q7 & _); exfalso; apply Q7; exact Hf.
  - destruct (poll_flush_impl_spec h Hinv Hs) as (r & h' & Hrun & Q1 & Q2 & Q3 & Q4 & Q5 & Q6 & Q7).
    rewrite Hrun. cbn [rbind].
    destruct r as [[k|e]|]; eexists _, _; (split; [reflexivity|]); splits; auto; try apply Q7;
      discriminate.
Qed.

Lemma winv_after_write h b' :
  winv h -> wfut h = FNone -> sfut h = FNone ->
  bwf b' -> length (buf_pending b') <= wmax h -> winv (set_wb h b').
Proof.
  intros (Hc & Hph & Hsf & Hcl) Hf Hs Hwf Hl. unfold winv, wcore.
  cbn [wb wmax wfut wph sfut wclosed set_wb]. splits; auto; intros; congruence.
Qed.

(* the loop of poll_write, any budget *)
Lemma pw_loop_spec data : forall fuel h r h',
  winv h -> wfut h = FNone -> sfut h = FNone ->
  pw_loop fuel h data = Ok (r, h') ->
  winv h' /\ wcfg h h' /\ sfut h' = FNone /\
  match r with
  | PRCount k => k <= length data /\ wabs h' = wabs h ++ firstn k data /\
                 wslots h' = upd E_WRITE None (wslots h) /\ wfut h' = FNone
  | PRErr _ => wabs h' = wabs h /\ wslots h' = wslots h /\ wfut h' = FNone
  | PRPending => wabs h' = wabs h /\ wslots h' = wslots h /\ wfut h' = FBlocked /\
                 wreg h' = wslots h
  | PRBytes _ => False
  end.
Proof.
  induction fuel as [|f IH]; intros h r h' Hinv Hf Hs Hrun; [discriminate|].
  cbn [pw_loop] in Hrun.
  destruct (wr_write_spec h data (proj1 Hinv)) as (o & h1 & Hw & Ho). rewrite Hw in Hrun.
  cbn [rbind] in Hrun. destruct o as [k|e].
  - inversion Hrun; subst; clear Hrun.
    destruct Ho as (b' & -> & Hwf' & Hk & Hp' & Hl' & _).
    split; [apply winv_set_wslots, winv_after_write; assumption|].
    unfold wcfg, wabs. cbn [wb wbase wmax wfut sfut wslots wlog set_wb set_wslots].
    rewrite Hp', app_assoc. splits; auto.
  - destruct Ho as (-> & -> & _). rewrite N.eqb_refl in Hrun.
    destruct (poll_flush_impl_spec h Hinv Hs) as (pr & h2 & Hp & Q1 & Q2 & Q3 & Q4 & Q5 & Q6 & Q7).
    rewrite Hp in Hrun. cbn [rbind] in Hrun.
    destruct pr as [[k|e]|].
    + destruct Q7 as (Hf2 & _).
      destruct (IH h2 r h' Q1 Hf2 Q5 Hrun) as (R1 & R2 & R3 & R4).
      split; [exact R1|]. split; [unfold wcfg in *; destruct Q2, R2; split; congruence|].
      split; [exact R3|]. rewrite Q3, Q4 in R4. exact R4.
    + inversion Hrun; subst; clear Hrun. splits; auto. apply Q7.
    + inversion Hrun; subst; clear Hrun. splits; auto; apply Q7.
Qed.

(* the only way the loop fails to return: it ran out of budget *)
Lemma pw_loop_panic data : forall fuel h c,
  winv h -> wfut h = FNone -> sfut h = FNone ->
  pw_loop fuel h data = Panic c -> c = P_HANG.
Proof.
  induction fuel as [|f IH]; intros h c Hinv Hf Hs Hrun; [inversion Hrun; reflexivity|].
  cbn [pw_loop] in Hrun.
  destruct (wr_write_spec h data (proj1 Hinv)) as (o & h1 & Hw & Ho). rewrite Hw in Hrun.
  cbn [rbind] in Hrun. destruct o as [k|e]; [discriminate|].
  destruct Ho as (-> & -> & _). rewrite N.eqb_refl in Hrun.
  destruct (poll_flush_impl_spec h Hinv Hs) as (pr & h2 & Hp & Q1 & Q2 & Q3 & Q4 & Q5 & Q6 & Q7).
  rewrite Hp in Hrun. cbn [rbind] in Hrun.
  destruct pr as [[k|e]|]; try discriminate.
  eapply IH; [exact Q1|apply Q7|exact Q5|exact Hrun].
Qed.

(* progress: with max_buffer_size >= 1 two iterations suffice (flush, write) *)
Lemma pw_loop_progress data f h :
  winv h -> wfut h = FNone -> sfut h = FNone -> 1 <= wmax h ->
  pw_loop (S (S f)) h data = pw_loop 2 h data /\
  exists r h', pw_loop 2 h data = Ok (r, h').
Proof.
  intros Hinv Hf Hs Hmax. cbn [pw_loop].
  destruct (wr_write_spec h data (proj1 Hinv)) as (o & h1 & Hw & Ho). rewrite Hw.
  cbn [rbind]. destruct o as [k|e]; [split; [reflexivity|eauto]|].
  destruct Ho as (-> & -> & _). rewrite N.eqb_refl.
  destruct (poll_flush_impl_spec h Hinv Hs) as (pr & h2 & Hp & Q1 & Q2 & Q3 & Q4 & Q5 & Q6 & Q7).
  rewrite Hp. cbn [rbind].
  destruct pr as [[k|e]|]; [|split; [reflexivity|eauto]|split; [reflexivity|eauto]].
  destruct Q7 as (Hf2 & _ & _ & Hz).
  destruct (wr_write_spec h2 data (proj1 Q1)) as (o2 & h3 & Hw2 & Ho2). rewrite Hw2.
  cbn [rbind]. destruct o2 as [k2|e2]; [split; [reflexivity|eauto]|].
  exfalso. destruct Ho2 as (_ & _ & Hwb).
  assert (Ht : wtaken h2 = false) by (unfold wtaken; rewrite Hf2; reflexivity).
  specialize (Hwb Ht Hz). destruct Q2 as [_ Hm]. lia.
Qed.

Lemma wctl_intro e w h r h' :
  (wslots h' = upd e (Some w) (wslots h) \/
   (r <> PRPending /\ wslots h' = upd e None (upd e (Some w) (wslots h)))) ->
  (r = PRPending -> wblocked h' /\ wreg h' = wslots h') ->
  (r <> PRPending -> wfut h' = FNone /\ sfut h' = FNone) ->
  (r <> PRPending -> wfut h <> FBlocked /\ sfut h <> FBlocked) ->
  wctl e w h r h'.
Proof.
  intros Hsl Hp Hn Hb. unfold wctl. splits.
  - destruct Hsl as [-> | [_ ->]]; rewrite ?upd_length; reflexivity.
  - intros e' Hne. destruct Hsl as [-> | [_ ->]]; rewrite ?slot_upd_other by exact Hne; reflexivity.
  - intros E. destruct (Hp E) as [H1 H2]. splits; auto. intros Hlt.
    destruct Hsl as [-> | [Hne _]]; [apply slot_upd_same; exact Hlt|contradiction].
  - intros Hne [E|E]; destruct (Hn Hne); congruence.
  - intros Hbl. destruct r; try reflexivity;
      (assert (Hne : forall bs, PRPending <> PRBytes bs) by (intros; discriminate));
      exfalso; [destruct (Hb ltac:(discriminate))|destruct (Hb ltac:(discriminate))|destruct (Hb ltac:(discriminate))];
      destruct Hbl; congruence.
Qed.

Definition wdata (data : list byte) (h : whalf) (r : pres) (h' : whalf) : Prop :=
  match r with
  | PRCount k => k <= length data /\ wabs h' = wabs h ++ firstn k data
  | PRBytes _ => False
  | _ => wabs h' = wabs h
  end.

Lemma wcfg_trans h1 h2 h3 : wcfg h1 h2 -> wcfg h2 h3 -> wcfg h1 h3.
Proof. unfold wcfg. intros [? ?] [? ?]. split; congruence. Qed.
Lemma wcfg_refl h : wcfg h h.
Proof. split; reflexivity. Qed.

(* AsyncWrite::poll_write *)
Lemma poll_write_spec fuel w h data r h' :
  winv h -> poll_write_fuel fuel w h data = Ok (r, h') ->
  winv h' /\ wcfg h h' /\ wdata data h r h' /\ wctl E_WRITE w h r h'.
Proof.
  intros Hinv Hrun. unfold poll_write_fuel in Hrun.
  set (h0 := set_wslots h (upd E_WRITE (Some w) (wslots h))) in *.
  assert (Hinv0 : winv h0) by (apply winv_set_wslots; exact Hinv).
  assert (Habs0 : wabs h0 = wabs h) by reflexivity.
  assert (Hcfg0 : wcfg h h0) by (split; reflexivity).
  assert (Hsl0 : wslots h0 = upd E_WRITE (Some w) (wslots h)) by reflexivity.
  assert (Hf0 : wfut h0 = wfut h) by reflexivity.
  assert (Hs0 : sfut h0 = sfut h) by reflexivity.
  clearbody h0.
  destruct (shutdown_gate_spec h0 Hinv0) as (g & h1 & Hg & G1 & G2 & G3 & G4 & G5).
  rewrite Hg in Hrun. cbn [rbind] in Hrun.
  destruct g as [[bs|k|e|]|]; try contradiction.
  - (* shutdown failed *)
    inversion Hrun; subst; clear Hrun. destruct G5 as (A1 & A2 & A3 & A4).
    split; [exact G1|]. split; [eapply wcfg_trans; eauto|]. split; [cbn; congruence|].
    apply wctl_intro; try (intros; discriminate); auto; try (left; congruence).
    intros _. split; congruence.
  - (* shutdown in flight *)
    inversion Hrun; subst; clear Hrun. destruct G5 as (A1 & A2 & A3).
    split; [exact G1|]. split; [eapply wcfg_trans; eauto|]. split; [cbn; congruence|].
    apply wctl_intro; try (intros; congruence); auto; try (left; congruence).
    intros _. split; [right; exact A1|congruence].
  - destruct G5 as (A1 & A2 & A3 & A4 & A5).
    destruct (flush_gate_spec h1 G1 A1) as (g2 & h2 & Hg2 & F1 & F2 & F3 & F4 & F5 & F6).
    rewrite Hg2 in Hrun. cbn [rbind] in Hrun.
    destruct g2 as [[bs|k|e|]|]; try contradiction.
    + inversion Hrun; subst; clear Hrun. destruct F6 as (B1 & B2).
      split; [exact F1|]. split; [eapply wcfg_trans; [exact Hcfg0|eapply wcfg_trans; eauto]|].
      split; [cbn; congruence|].
      apply wctl_intro; try (intros; discriminate); auto; try (left; congruence).
      intros _. split; congruence.
    + inversion Hrun; subst; clear Hrun. destruct F6 as (B1 & B2).
      split; [exact F1|]. split; [eapply wcfg_trans; [exact Hcfg0|eapply wcfg_trans; eauto]|].
      split; [cbn; congruence|].
      apply wctl_intro; try (intros; congruence); auto; try (left; congruence).
      intros _. split; [left; exact B1|congruence].
    + destruct F6 as (B1 & B2 & B3).
      destruct (pw_loop_spec data fuel h2 r h' F1 B1 F5 Hrun) as (L1 & L2 & L3 & L4).
      split; [exact L1|].
      split; [eapply wcfg_trans; [exact Hcfg0|eapply wcfg_trans; [exact G2|eapply wcfg_trans; eauto]]|].
      assert (Habs2 : wabs h2 = wabs h) by congruence.
      assert (Hsl2 : wslots h2 = upd E_WRITE (Some w) (wslots h)) by congruence.
      destruct r as [bs|k|e|]; try contradiction.
      * destruct L4 as (M1 & M2 & M3 & M4).
        split; [cbn; rewrite <- Habs2; auto|].
        apply wctl_intro; try (intros; discriminate); auto.
        { right. split; [discriminate|congruence]. }
        { intros _. split; congruence. }
      * destruct L4 as (M1 & M2 & M3).
        split; [cbn; congruence|].
        apply wctl_intro; try (intros; discriminate); auto; try (left; congruence).
        intros _. split; congruence.
      * destruct L4 as (M1 & M2 & M3 & M4).
        split; [cbn; congruence|].
        apply wctl_intro; try (intros; congruence); auto; try (left; congruence).
        intros _. split; [left; exact M3|congruence].
Qed.

(* AsyncWrite::poll_flush: never panics; success means nothing is left buffered *)
Lemma poll_flush_spec w h :
  winv h ->
  exists r h', poll_flush w h = Ok (r, h') /\
    winv h' /\ wcfg h h' /\ wabs h' = wabs h /\ wctl E_FLUSH w h r h' /\
    match r with
    | PRCount _ => vlen (bvec (wb h')) = 0
    | PRBytes _ => False
    | _ => True
    end.
Proof.
  intros Hinv. unfold poll_flush.
  set (h0 := set_wslots h (upd E_FLUSH (Some w) (wslots h))) in *.
  assert (Hinv0 : winv h0) by (apply winv_set_wslots; exact Hinv).
  assert (Habs0 : wabs h0 = wabs h) by reflexivity.
  assert (Hcfg0 : wcfg h h0) by (split; reflexivity).
  assert (Hsl0 : wslots h0 = upd E_FLUSH (Some w) (wslots h)) by reflexivity.
  assert (Hf0 : wfut h0 = wfut h) by reflexivity.
  assert (Hs0 : sfut h0 = sfut h) by reflexivity.
  clearbody h0.
  destruct (shutdown_gate_spec h0 Hinv0) as (g & h1 & Hg & G1 & G2 & G3 & G4 & G5).
  rewrite Hg. cbn [rbind].
  destruct g as [[bs|k|e|]|]; try contradiction.
  - destruct G5 as (A1 & A2 & A3 & A4).
    eexists _, _. split; [reflexivity|].
    split; [exact G1|]. split; [eapply wcfg_trans; eauto|]. split; [congruence|].
    split; [|exact I].
    apply wctl_intro; try (intros; discriminate); auto; try (left; congruence).
    intros _. split; congruence.
  - destruct G5 as (A1 & A2 & A3).
    eexists _, _. split; [reflexivity|].
    split; [exact G1|]. split; [eapply wcfg_trans; eauto|]. split; [congruence|].
    split; [|exact I].
    apply wctl_intro; try (intros; congruence); auto; try (left; congruence).
    intros _. split; [right; exact A1|congruence].
  - destruct G5 as (A1 & A2 & A3 & A4 & A5).
    destruct (poll_flush_impl_spec h1 G1 A1) as (pr & h2 & Hp & Q1 & Q2 & Q3 & Q4 & Q5 & Q6 & Q7).
    rewrite Hp. cbn [rbind].
    assert (Hc2 : wcfg h h2) by (eapply wcfg_trans; [exact Hcfg0|eapply wcfg_trans; eauto]).
    destruct pr as [o|].
    + destruct Q7 as (B1 & B2 & B3 & B4).
      eexists _, _. split; [reflexivity|].
      split; [apply winv_set_wslots; exact Q1|].
      split; [exact Hc2|]. split; [change (wabs h2 = wabs h); congruence|].
      split.
      * apply wctl_intro; cbn [wslots wfut sfut wreg set_wslots]; auto.
        { right. split; [destruct o; discriminate|congruence]. }
        { destruct o; intros; discriminate. }
        { intros _. split; congruence. }
      * destruct o; [exact B4|exact I].
    + destruct Q7 as (B1 & B2).
      eexists _, _. split; [reflexivity|].
      split; [exact Q1|]. split; [exact Hc2|]. split; [congruence|]. split; [|exact I].
      apply wctl_intro; try (intros; congruence); auto; try (left; congruence).
      intros _. split; [left; exact B1|congruence].
Qed.

(* AsyncWrite::poll_close: never panics; success means flushed and shut down *)
Lemma poll_close_spec w h :
  winv h ->
  exists r h', poll_close w h = Ok (r, h') /\
    winv h' /\ wcfg h h' /\ wabs h' = wabs h /\ wctl E_CLOSE w h r h' /\
    match r with
    | PRCount _ => vlen (bvec (wb h')) = 0 /\ wclosed h' = true
    | PRBytes _ => False
    | _ => True
    end.
Proof.
  intros Hinv. unfold poll_close.
  set (h0 := set_wslots h (upd E_CLOSE (Some w) (wslots h))) in *.
  assert (Hinv0 : winv h0) by (apply winv_set_wslots; exact Hinv).
  assert (Habs0 : wabs h0 = wabs h) by reflexivity.
  assert (Hcfg0 : wcfg h h0) by (split; reflexivity).
  assert (Hsl0 : wslots h0 = upd E_CLOSE (Some w) (wslots h)) by reflexivity.
  assert (Hf0 : wfut h0 = wfut h) by reflexivity.
  assert (Hs0 : sfut h0 = sfut h) by reflexivity.
  clearbody h0.
  (* second stage, from a state with nothing in flight and nothing buffered *)
  assert (Stage2 : forall hx,
    winv hx -> wcfg h hx -> wabs hx = wabs h -> wslots hx = wslots h0 ->
    wfut hx = FNone -> vlen (bvec (wb hx)) = 0 ->
    (sfut hx <> FBlocked -> wfut h <> FBlocked /\ sfut h <> FBlocked) ->
    exists r h',
      match poll_close_impl hx with
      | (PPending, h) => Ok (PRPending, h)
      | (PReady o, h) =>
        let h := set_wslots h (upd E_CLOSE None (wslots h)) in
        Ok (match o with OOk _ => PRCount 0 | OErr e => PRErr e end, h)
      end = Ok (r, h') /\
      winv h' /\ wcfg h h' /\ wabs h' = wabs h /\ wctl E_CLOSE w h r h' /\
      match r with
      | PRCount _ => vlen (bvec (wb h')) = 0 /\ wclosed h' = true
      | PRBytes _ => False
      | _ => True
      end).
  { intros hx Ix Cx Ax Sx Fx Zx Bx.
    pose proof (poll_close_impl_spec hx Ix Fx Zx) as Hp.
    destruct (poll_close_impl hx) as [pr h2].
    destruct Hp as (Q1 & Q2 & Q3 & Q4 & Q5 & Q6 & Q7).
    destruct pr as [o|].
    - destruct Q7 as (B1 & B2 & B3 & B4).
      eexists _, _. split; [reflexivity|].
      split; [apply winv_set_wslots; exact Q1|].
      split; [eapply wcfg_trans; eauto|]. split; [change (wabs h2 = wabs h); congruence|].
      split.
      + apply wctl_intro; cbn [wslots wfut sfut wreg set_wslots]; auto.
        { right. split; [destruct o; discriminate|congruence]. }
        { destruct o; intros; discriminate. }
      + destruct o; [|exact I]. cbn [wb wclosed set_wslots]. split; [congruence|exact B4].
    - destruct Q7 as (B1 & B2).
      eexists _, _. split; [reflexivity|].
      split; [exact Q1|]. split; [eapply wcfg_trans; eauto|]. split; [congruence|]. split; [|exact I].
      apply wctl_intro; try (intros; congruence); auto; try (left; congruence).
      intros _. split; [right; exact B1|congruence]. }
  destruct (negb (is_fnone (wfut h0)) || wr_has_pending h0) eqn:Hcond.
  - assert (Hs : sfut h0 = FNone).
    { destruct (sfut h0) eqn:E; [reflexivity| |];
        (destruct Hinv0 as (_ & _ & Hsf & _); destruct Hsf as [Hf Hz]; [congruence|]);
        unfold wr_has_pending in Hcond; rewrite Hf, Hz in Hcond; discriminate. }
    rewrite Hs. cbn [is_fnone].
    destruct (poll_flush_impl_spec h0 Hinv0 Hs) as (pr & h1 & Hp & Q1 & Q2 & Q3 & Q4 & Q5 & Q6 & Q7).
    rewrite Hp. cbn [rbind].
    assert (Hc1 : wcfg h h1) by (eapply wcfg_trans; eauto).
    destruct pr as [[k|e]|].
    + destruct Q7 as (B1 & B2 & B3 & B4).
      apply Stage2; auto; try congruence. intros _. split; congruence.
    + destruct Q7 as (B1 & B2 & B3 & _).
      eexists _, _. split; [reflexivity|].
      split; [exact Q1|]. split; [exact Hc1|]. split; [congruence|]. split; [|exact I].
      apply wctl_intro; try (intros; discriminate); auto; try (left; congruence).
      intros _. split; congruence.
    + destruct Q7 as (B1 & B2).
      eexists _, _. split; [reflexivity|].
      split; [exact Q1|]. split; [exact Hc1|]. split; [congruence|]. split; [|exact I].
      apply wctl_intro; try (intros; congruence); auto; try (left; congruence).
      intros _. split; [left; exact B1|congruence].
  - apply orb_false_iff in Hcond. destruct Hcond as [Hc1 Hc2].
    assert (Hf : wfut h0 = FNone) by (destruct (wfut h0); [reflexivity|discriminate|discriminate]).
    assert (Hz : vlen (bvec (wb h0)) = 0).
    { unfold wr_has_pending in Hc2. apply negb_false_iff, Nat.eqb_eq in Hc2. exact Hc2. }
    cbn [rbind]. apply Stage2; auto. intros Hb. split; congruence.
Qed.

(* ====================================================================== *)
(* entry points of the read half                                           *)

Definition rctl (e w : nat) (h : rhalf) (r : pres) (h' : rhalf) : Prop :=
  length (rslots h') = length (rslots h) /\
  (forall e', e' <> e -> slot e' (rslots h') = slot e' (rslots h)) /\
  (r = PRPending -> rfut h' = FBlocked /\ rreg h' = rslots h' /\
                    (e < length (rslots h) -> slot e (rslots h') = Some w)) /\
  (r <> PRPending -> rfut h' = FNone) /\
  (rfut h = FBlocked -> r = PRPending).

Lemma poll_rd_spec consumes op fuel e w h r h' :
  rop_ok consumes op -> rinv h -> rready h ->
  pr_loop fuel op e (set_rslots h (upd e (Some w) (rslots h))) = Ok (r, h') ->
  rinv h' /\ rcfg h h' /\ rready h' /\ rctl e w h r h' /\
  match r with
  | PRBytes bs => exists rest, rabs h = bs ++ rest /\ rabs h' = if consumes then rest else rabs h
  | PRCount _ => False
  | _ => rabs h' = rabs h
  end.
Proof.
  intros Hop Hinv Hrdy Hrun.
  set (h0 := set_rslots h (upd e (Some w) (rslots h))) in *.
  assert (Hinv0 : rinv h0) by (apply rinv_set_rslots; exact Hinv).
  assert (Hrdy0 : rready h0) by exact Hrdy.
  destruct (pr_loop_spec consumes op e Hop fuel h0 r h' Hinv0 Hrdy0 Hrun)
    as (L1 & L2 & L3 & L4 & L5).
  split; [exact L1|]. split; [exact L2|]. split; [exact L3|].
  change (rabs h0) with (rabs h) in L5. change (rslots h0) with (upd e (Some w) (rslots h)) in L5.
  change (rfut h0) with (rfut h) in L4.
  unfold rctl. destruct r as [bs|k|k|].
  - destruct L5 as (M1 & M2 & M3). split; [|exact M1].
    rewrite M2, !upd_length. splits; auto; try (intros; discriminate).
    + intros e' Hne. rewrite !slot_upd_other by exact Hne. reflexivity.
    + intros Hb. exfalso. apply L4; [discriminate|exact Hb].
  - contradiction.
  - destruct L5 as (M1 & M2 & M3). split; [|exact M1].
    rewrite M2, !upd_length. splits; auto; try (intros; discriminate).
    + intros e' Hne. rewrite !slot_upd_other by exact Hne. reflexivity.
    + intros Hb. exfalso. apply L4; [discriminate|exact Hb].
  - destruct L5 as (M1 & M2 & M3 & M4). split; [|exact M1].
    rewrite M2, !upd_length. splits; auto; try congruence.
    + intros e' Hne. rewrite !slot_upd_other by exact Hne. reflexivity.
    + intros _. splits; auto. intros Hlt. apply slot_upd_same. exact Hlt.
Qed.

Lemma rd_wake_spec h :
  let '(l, h') := rd_wake h in
  (rinv h -> rinv h') /\ (rready h -> rready h') /\ rcfg h h' /\ rabs h' = rabs h /\
  rslots h' = rslots h /\ rreg h' = rreg h /\ rfut h' <> FBlocked /\
  (rfut h = FBlocked -> l = rreg h) /\ (rfut h <> FBlocked -> l = [] /\ h' = h).
Proof.
  unfold rd_wake. destruct (rfut h) eqn:Hf.
  - unfold rcfg. splits; auto; try congruence.
  - unfold rcfg, rinv, rready, rabs, rcap_bound.
    cbn [rb rbase rmax rfut rslots rreg rsrc set_rfut]. rewrite Hf.
    splits; auto; try congruence; try discriminate.
    intros H _. apply H. discriminate.
  - unfold rcfg. splits; auto; try congruence.
Qed.

Lemma wr_wake_spec h :
  winv h ->
  let '(l, h') := wr_wake h in
  winv h' /\ wcfg h h' /\ wabs h' = wabs h /\ wb h' = wb h /\
  wslots h' = wslots h /\ wreg h' = wreg h /\ ~ wblocked h' /\
  (wblocked h -> l = wreg h) /\ (~ wblocked h -> l = [] /\ h' = h).
Proof.
  intros Hinv. pose proof Hinv as (Hc & Hph & Hsf & Hcl). unfold wr_wake.
  assert (Hnone : ~ wblocked h -> winv h /\ wcfg h h /\ wabs h = wabs h /\ wb h = wb h /\
            wslots h = wslots h /\ wreg h = wreg h /\ ~ wblocked h /\
            (wblocked h -> @nil (option nat) = wreg h) /\ (~ wblocked h -> @nil (option nat) = [] /\ h = h)).
  { intros Hnb. unfold wcfg. splits; auto. intros Hb. contradiction. }
  destruct (wfut h) eqn:Hf.
  - destruct (sfut h) eqn:Hs.
    + apply Hnone. intros [E|E]; congruence.
    + destruct Hsf as [_ Hz]; [discriminate|].
      unfold winv, wcore, wcfg, wabs, wblocked.
      cbn [wb wbase wmax wfut wph sfut wclosed wslots wreg wlog set_sfut]. rewrite Hf.
      splits; auto; try apply Hc; try (intros; congruence).
      * intros Hcd. specialize (Hcl Hcd). discriminate.
      * intros [E|E]; discriminate.
      * intros Hnb. exfalso. apply Hnb. right. exact Hs.
    + apply Hnone. intros [E|E]; congruence.
  - assert (Hs : sfut h = FNone).
    { destruct (sfut h) eqn:E; [reflexivity| |]; destruct Hsf as [Hf' _]; congruence. }
    unfold winv, wcore, wcfg, wabs, wblocked.
    cbn [wb wbase wmax wfut wph sfut wclosed wslots wreg wlog set_wfut]. rewrite ?Hs.
    splits; auto; try apply Hc; try (intros; congruence).
    + intros _. apply Hph. discriminate.
    + intros [E|E]; discriminate.
    + intros Hnb. exfalso. apply Hnb. left. first [exact Hf|reflexivity].
  - destruct (sfut h) eqn:Hs.
    + apply Hnone. intros [E|E]; congruence.
    + destruct Hsf as [Hf' _]; congruence.
    + apply Hnone. intros [E|E]; congruence.
Qed.

(* ====================================================================== *)
(* programs                                                                *)

Definition sinv (s : stream) : Prop := rinv (rh s) /\ rready (rh s) /\ winv (wh s).
Definition scfg (s s' : stream) : Prop := rcfg (rh s) (rh s') /\ wcfg (wh s) (wh s').

Lemma st_new_inv base mx rs src ws : sinv (st_new base mx rs src ws).
Proof.
  unfold sinv, st_new. cbn [rh wh]. split; [apply rh_new_inv|]. split; [|apply wh_new_inv].
  unfold rready, rh_new. cbn. congruence.
Qed.

Definition window_ok (o : out) (s : stream) : Prop :=
  match o with
  | OWin (PRBytes bs) => exists rest, rabs (rh s) = bs ++ rest
  | _ => True
  end.

(* a successful flush / close / flush_write_buf leaves nothing buffered *)
Definition flushed_ok (o : out) (s' : stream) : Prop :=
  match o with
  | OCtl (PRCount _) | OFlushed (OOk _) => True
  | _ => False
  end -> buf_pending (wb (wh s')) = [].

Definition step_post (s : stream) (o : out) (s' : stream) : Prop :=
  sinv s' /\ scfg s s' /\
  handed_of o ++ rabs (rh s') = rabs (rh s) /\
  wabs (wh s') = wabs (wh s) ++ accepted_of o /\
  window_ok o s.

Lemma rcfg_refl h : rcfg h h. Proof. split; reflexivity. Qed.

Lemma consume_step h n h' :
  rinv h -> rd_consume h n = Ok h' ->
  rinv h' /\ rready h' /\ rcfg h h' /\ rfut h = FNone /\ rfut h' = FNone /\
  rslots h' = rslots h /\ rreg h' = rreg h /\
  firstn n (buf_pending (rb h)) ++ rabs h' = rabs h.
Proof.
  intros [Hwf Hcap] Hrun.
  assert (Hf : rfut h = FNone).
  { unfold rd_consume, rtaken in Hrun. destruct (rfut h); [reflexivity|discriminate|discriminate]. }
  destruct (le_lt_dec n (length (buf_pending (rb h)))) as [Hle|Hgt].
  - destruct (rd_consume_spec h n Hwf Hf Hle) as (b' & Hc & Hwf' & Hcap' & Hp).
    rewrite Hc in Hrun. inversion Hrun; subst; clear Hrun.
    split; [apply rinv_set_rb; [exact Hwf'|lia]|].
    unfold rready, rcfg, rabs. cbn [rb rbase rmax rfut rslots rreg rsrc set_rb].
    splits; auto; try congruence.
    rewrite Hp, app_assoc, firstn_skipn. reflexivity.
  - rewrite (rd_consume_too_much h n Hwf Hf Hgt) in Hrun. discriminate.
Qed.

Lemma poll_step_spec fuel op s o s' :
  sinv s -> poll_step_fuel fuel op s = Ok (o, s') ->
  step_post s o s' /\ flushed_ok o s'.
Proof.
  intros (Hr & Hrdy & Hw) Hrun. unfold step_post, sinv, scfg, flushed_ok.
  destruct op as [e w n|w|n|w d|w|w| |]; cbn [poll_step_fuel] in Hrun.
  - (* poll_read / poll_read_uninit *)
    destruct (poll_read_fuel fuel e w (rh s) n) as [[r h']|c] eqn:Hp; [|discriminate].
    cbn [rbind] in Hrun. inversion Hrun; subst; clear Hrun. cbn [rh wh].
    destruct (poll_rd_spec true _ fuel e w (rh s) r h' (rop_ok_read n) Hr Hrdy Hp)
      as (P1 & P2 & P3 & _ & P5).
    split; [|intros []]. splits; auto; try apply wcfg_refl; try (cbn; apply eq_sym, app_nil_r);
      try exact I.
    destruct r as [bs|k|k|]; cbn [handed_of]; try contradiction; try exact P5.
    destruct P5 as (rest & E1 & E2). congruence.
  - (* poll_fill_buf *)
    destruct (poll_fill_buf_fuel fuel w (rh s)) as [[r h']|c] eqn:Hp; [|discriminate].
    cbn [rbind] in Hrun. inversion Hrun; subst; clear Hrun. cbn [rh wh].
    destruct (poll_rd_spec false _ fuel E_FILL_BUF w (rh s) r h' rop_ok_fill_buf Hr Hrdy Hp)
      as (P1 & P2 & P3 & _ & P5).
    split; [|intros []]. splits; auto; try apply wcfg_refl; try (cbn; apply eq_sym, app_nil_r).
    + destruct r as [bs|k|k|]; cbn [handed_of app]; try contradiction; try exact P5.
      destruct P5 as (rest & E1 & E2). exact E2.
    + destruct r as [bs|k|k|]; cbn [window_ok]; auto.
      destruct P5 as (rest & E1 & E2). exists rest. exact E1.
  - (* consume *)
    destruct (rd_consume (rh s) n) as [h'|c] eqn:Hc; [|discriminate].
    cbn [rbind] in Hrun. inversion Hrun; subst; clear Hrun. cbn [rh wh].
    destruct (consume_step _ _ _ Hr Hc) as (C1 & C2 & C3 & _ & _ & _ & _ & C8).
    split; [|intros []]. splits; auto; try apply wcfg_refl; try (cbn; apply eq_sym, app_nil_r).
    exact I.
  - (* poll_write *)
    destruct (poll_write_fuel fuel w (wh s) d) as [[r h']|c] eqn:Hp; [|discriminate].
    cbn [rbind] in Hrun. inversion Hrun; subst; clear Hrun. cbn [rh wh].
    destruct (poll_write_spec fuel w (wh s) d r h' Hw Hp) as (P1 & P2 & P3 & _).
    split; [|intros []]. splits; auto; try apply rcfg_refl; try exact I.
    destruct r as [bs|k|k|]; cbn [accepted_of wdata] in *; try contradiction;
      rewrite ?app_nil_r; try exact P3. apply P3.
  - (* poll_flush *)
    destruct (poll_flush_spec w (wh s) Hw) as (r & h' & Hp & P1 & P2 & P3 & _ & P5).
    rewrite Hp in Hrun. cbn [rbind] in Hrun. inversion Hrun; subst; clear Hrun. cbn [rh wh].
    split.
    + splits; auto; try apply rcfg_refl; try exact I. cbn. rewrite app_nil_r. exact P3.
    + destruct r as [bs|k|k|]; intros []. apply vlen0_pending; [apply P1|exact P5].
  - (* poll_close *)
    destruct (poll_close_spec w (wh s) Hw) as (r & h' & Hp & P1 & P2 & P3 & _ & P5).
    rewrite Hp in Hrun. cbn [rbind] in Hrun. inversion Hrun; subst; clear Hrun. cbn [rh wh].
    split.
    + splits; auto; try apply rcfg_refl; try exact I. cbn. rewrite app_nil_r. exact P3.
    + destruct r as [bs|k|k|]; intros []. apply vlen0_pending; [apply P1|apply P5].
  - (* wake, read side *)
    pose proof (rd_wake_spec (rh s)) as Hk. destruct (rd_wake (rh s)) as [l h'].
    inversion Hrun; subst; clear Hrun. cbn [rh wh].
    destruct Hk as (K1 & K2 & K3 & K4 & _).
    split; [|intros []]. splits; auto; try apply wcfg_refl; try exact I.
    cbn. apply eq_sym, app_nil_r.
  - (* wake, write side *)
    pose proof (wr_wake_spec (wh s) Hw) as Hk. destruct (wr_wake (wh s)) as [l h'].
    inversion Hrun; subst; clear Hrun. cbn [rh wh].
    destruct Hk as (K1 & K2 & K3 & _).
    split; [|intros []]. splits; auto; try apply rcfg_refl; try exact I.
    cbn. rewrite app_nil_r. exact K3.
Qed.

(* the blocking-style adapter: nothing is ever in flight between two calls *)
Definition sync_inv (s : stream) : Prop :=
  sinv s /\ rfut (rh s) = FNone /\ wfut (wh s) = FNone /\ sfut (wh s) = FNone.

Lemma sync_flush_write_buf_spec h :
  winv h -> wfut h = FNone -> sfut h = FNone ->
  exists o h', sync_flush_write_buf h = Ok (o, h') /\
    winv h' /\ wcfg h h' /\ wabs h' = wabs h /\ wfut h' = FNone /\ sfut h' = FNone /\
    match o with OOk _ => vlen (bvec (wb h')) = 0 | OErr _ => True end.
Proof.
  intros Hinv Hf Hs. pose proof Hinv as (Hc & Hph & Hsf & Hcl). unfold sync_flush_write_buf.
  destruct (wr_flush_start_spec false h Hc) as (r & h' & Hrun & P1 & P2 & P3 & P4 & P5 & P6 & P7 & P8).
  rewrite Hrun. cbn [rbind]. destruct r as [o|].
  - exists o, h'. split; [reflexivity|]. destruct P8 as [Q1 Q2].
    unfold winv. splits; auto; try congruence; intros; congruence.
  - destruct P8 as [E _]. discriminate.
Qed.

Lemma sync_step_spec op s o s' :
  sync_inv s -> sync_step op s = Ok (o, s') ->
  sync_inv s' /\ step_post s o s' /\ flushed_ok o s'.
Proof.
  intros ((Hr & Hrdy & Hw) & Hrf & Hwf & Hsf) Hrun.
  unfold sync_inv, step_post, sinv, scfg, flushed_ok.
  destruct op as [n| |n|d| | |]; cbn [sync_step] in Hrun.
  - (* read *)
    destruct (rd_read_spec (rh s) n (proj1 Hr)) as (r & h' & Hp & Hcase).
    rewrite Hp in Hrun. cbn [rbind] in Hrun. inversion Hrun; subst; clear Hrun. cbn [rh wh].
    destruct r as [bs|e].
    + destruct Hcase as (b' & -> & Hwf' & Hc' & _ & Hbs & Hsum & _).
      assert (Hi : rinv (set_rb (rh s) b')) by (apply rinv_set_rb; [exact Hwf'|destruct Hr; lia]).
      unfold rready, rabs. cbn [rb rfut rsrc set_rb pres_of_sres handed_of accepted_of window_ok].
      rewrite app_nil_r, app_assoc, Hsum.
      splits; auto; try apply wcfg_refl; try apply rcfg_refl; try congruence; try (intros []).
      split; reflexivity.
    + destruct Hcase as (_ & -> & _).
      cbn [pres_of_sres handed_of accepted_of window_ok app]. rewrite app_nil_r.
      splits; auto; try apply wcfg_refl; try apply rcfg_refl; try (intros []).
  - (* fill_buf *)
    inversion Hrun; subst; clear Hrun.
    pose proof (rd_fill_buf_spec (rh s')) as Hs.
    destruct (rd_fill_buf (rh s')) as [av|e];
      cbn [pres_of_sres handed_of accepted_of window_ok app]; rewrite app_nil_r;
      splits; auto; try apply wcfg_refl; try apply rcfg_refl; try (intros []).
    destruct Hs as (-> & _). exists (rsrc (rh s')). reflexivity.
  - (* consume *)
    destruct (rd_consume (rh s) n) as [h'|c] eqn:Hc; [|discriminate].
    cbn [rbind] in Hrun. inversion Hrun; subst; clear Hrun. cbn [rh wh].
    destruct (consume_step _ _ _ Hr Hc) as (C1 & C2 & C3 & _ & C5 & _ & _ & C8).
    cbn [handed_of accepted_of window_ok]. rewrite app_nil_r.
    splits; auto; try apply wcfg_refl; try (intros []).
  - (* write *)
    destruct (wr_write_spec (wh s) d (proj1 Hw)) as (r & h' & Hp & Hcase).
    rewrite Hp in Hrun. cbn [rbind] in Hrun. inversion Hrun; subst; clear Hrun. cbn [rh wh].
    destruct r as [k|e].
    + destruct Hcase as (b' & -> & Hwf' & Hk & Hp' & Hl' & _).
      unfold wabs. cbn [wb wlog wfut sfut set_wb pres_of_outcome handed_of accepted_of window_ok app].
      rewrite Hp', app_assoc.
      splits; auto; try apply wcfg_refl; try apply rcfg_refl; try (intros []).
      * apply winv_after_write; assumption.
      * apply winv_after_write; assumption.
      * split; reflexivity.
    + destruct Hcase as (_ & -> & _).
      cbn [pres_of_outcome handed_of accepted_of window_ok app]. rewrite app_nil_r.
      splits; auto; try apply wcfg_refl; try apply rcfg_refl; try (intros []).
  - (* Write::flush: Ok(()) by design, nothing happens *)
    inversion Hrun; subst; clear Hrun.
    cbn [handed_of accepted_of window_ok app]. rewrite app_nil_r.
    splits; auto; try apply wcfg_refl; try apply rcfg_refl; try (intros []).
  - (* fill_read_buf *)
    destruct (sync_fill_read_buf_spec (rh s) Hr Hrf) as (r & h' & Hp & P1 & P2 & P3 & P4 & _).
    rewrite Hp in Hrun. cbn [rbind] in Hrun. inversion Hrun; subst; clear Hrun. cbn [rh wh].
    cbn [handed_of accepted_of window_ok app]. rewrite app_nil_r.
    splits; auto; try apply wcfg_refl; try (intros []).
    all: unfold rready; congruence.
  - (* flush_write_buf *)
    destruct (sync_flush_write_buf_spec (wh s) Hw Hwf Hsf) as (r & h' & Hp & P1 & P2 & P3 & P4 & P5 & P6).
    rewrite Hp in Hrun. cbn [rbind] in Hrun. inversion Hrun; subst; clear Hrun. cbn [rh wh].
    cbn [handed_of accepted_of window_ok app]. rewrite app_nil_r.
    splits; auto; try apply rcfg_refl.
    destruct r as [k|e]; intros []. apply vlen0_pending; [apply P1|exact P6].
Qed.

Lemma handed_cons o os : handed (o :: os) = handed_of o ++ handed os.
Proof. reflexivity. Qed.
Lemma accepted_cons o os : accepted (o :: os) = accepted_of o ++ accepted os.
Proof. reflexivity. Qed.

Lemma scfg_refl s : scfg s s.
Proof. split; [apply rcfg_refl|apply wcfg_refl]. Qed.
Lemma scfg_trans s1 s2 s3 : scfg s1 s2 -> scfg s2 s3 -> scfg s1 s3.
Proof.
  unfold scfg, rcfg. intros [[A1 A2] HA] [[B1 B2] HB]. split; [split; congruence|].
  eapply wcfg_trans; eauto.
Qed.

(* any program over any adapter whose steps keep [Inv]: FIFO on both sides *)
Lemma run_spec {Op : Type} (step : Op -> stream -> R (out * stream)) (Inv : stream -> Prop) :
  (forall op s o s', Inv s -> step op s = Ok (o, s') -> Inv s' /\ step_post s o s') ->
  forall ops s outs s', Inv s -> run step ops s = Ok (outs, s') ->
    Inv s' /\ scfg s s' /\
    handed outs ++ rabs (rh s') = rabs (rh s) /\
    wabs (wh s') = wabs (wh s) ++ accepted outs.
Proof.
  intros Hstep. induction ops as [|op ops IH]; intros s outs s' Hinv Hrun; cbn [run] in Hrun.
  - inversion Hrun; subst. cbn. rewrite app_nil_r. split; [exact Hinv|].
    split; [apply scfg_refl|]. auto.
  - destruct (step op s) as [[o s1]|c] eqn:Hs; [|discriminate]. cbn [rbind] in Hrun.
    destruct (run step ops s1) as [[os s2]|c] eqn:Hr; [|discriminate]. cbn [rbind] in Hrun.
    inversion Hrun; subst; clear Hrun.
    destruct (Hstep op s o s1 Hinv Hs) as (I1 & _ & C1 & R1 & W1 & _).
    destruct (IH s1 os s' I1 Hr) as (I2 & C2 & R2 & W2).
    split; [exact I2|]. split; [eapply scfg_trans; eauto|].
    rewrite handed_cons, accepted_cons. split.
    + rewrite <- app_assoc, R2. exact R1.
    + rewrite W2, W1, app_assoc. reflexivity.
Qed.

Lemma poll_step_inv fuel op s o s' :
  sinv s -> poll_step_fuel fuel op s = Ok (o, s') -> sinv s' /\ step_post s o s'.
Proof.
  intros Hi Hr. destruct (poll_step_spec fuel op s o s' Hi Hr) as [Hp _].
  split; [apply Hp|exact Hp].
Qed.

Lemma sync_step_inv op s o s' :
  sync_inv s -> sync_step op s = Ok (o, s') -> sync_inv s' /\ step_post s o s'.
Proof.
  intros Hi Hr. destruct (sync_step_spec op s o s' Hi Hr) as (H1 & H2 & _). auto.
Qed.

Lemma st_new_sync_inv base mx rs src ws : sync_inv (st_new base mx rs src ws).
Proof. split; [apply st_new_inv|]. cbn. auto. Qed.

(* limits, in every reachable state *)
Lemma sinv_limits s :
  sinv s ->
  length (buf_pending (wb (wh s))) <= wmax (wh s) /\
  length (buf_pending (rb (rh s))) <= rcap_bound (rh s).
Proof.
  intros ((Hwf & Hcap) & _ & (Hc & _)). split; [apply Hc|].
  rewrite buf_pending_length by exact Hwf. destruct Hwf as [_ Hw]. unfold wf in Hw. lia.
Qed.

(* ---------------------------------------------------------------------- *)
(* progress and absence of panics                                          *)

Lemma poll_read_progress f e w h n :
  rinv h -> rready h ->
  poll_read_fuel (S (S f)) e w h n = poll_read_fuel 2 e w h n /\
  exists r h', poll_read_fuel 2 e w h n = Ok (r, h').
Proof.
  intros Hi Hr. unfold poll_read_fuel.
  apply (pr_loop_progress true _ e (rop_ok_read n)); [apply rinv_set_rslots; exact Hi|exact Hr].
Qed.

Lemma poll_fill_buf_progress f w h :
  rinv h -> rready h ->
  poll_fill_buf_fuel (S (S f)) w h = poll_fill_buf_fuel 2 w h /\
  exists r h', poll_fill_buf_fuel 2 w h = Ok (r, h').
Proof.
  intros Hi Hr. unfold poll_fill_buf_fuel.
  apply (pr_loop_progress false _ _ rop_ok_fill_buf); [apply rinv_set_rslots; exact Hi|exact Hr].
Qed.

(* poll_write up to its loop: the gates always return *)
Lemma poll_write_gates fuel w h data :
  winv h ->
  (exists r h', poll_write_fuel fuel w h data = Ok (r, h')) \/
  (exists h2, poll_write_fuel fuel w h data = pw_loop fuel h2 data /\
              winv h2 /\ wfut h2 = FNone /\ sfut h2 = FNone /\ wmax h2 = wmax h).
Proof.
  intros Hinv. unfold poll_write_fuel.
  set (h0 := set_wslots h (upd E_WRITE (Some w) (wslots h))).
  assert (Hinv0 : winv h0) by (apply winv_set_wslots; exact Hinv).
  assert (Hm0 : wmax h0 = wmax h) by reflexivity. clearbody h0.
  destruct (shutdown_gate_spec h0 Hinv0) as (g & h1 & Hg & G1 & G2 & G3 & G4 & G5).
  rewrite Hg. cbn [rbind]. destruct g as [r|]; [left; eauto|].
  destruct G5 as (A1 & _).
  destruct (flush_gate_spec h1 G1 A1) as (g2 & h2 & Hg2 & F1 & F2 & F3 & F4 & F5 & F6).
  rewrite Hg2. cbn [rbind]. destruct g2 as [r|]; [left; eauto|].
  right. exists h2. split; [reflexivity|]. destruct F6 as (B1 & _).
  splits; auto. destruct G2, F2. congruence.
Qed.

Lemma poll_write_progress f w h data :
  winv h -> 1 <= wmax h ->
  poll_write_fuel (S (S f)) w h data = poll_write_fuel 2 w h data /\
  exists r h', poll_write_fuel 2 w h data = Ok (r, h').
Proof.
  intros Hinv Hmax. unfold poll_write_fuel.
  set (h0 := set_wslots h (upd E_WRITE (Some w) (wslots h))).
  assert (Hinv0 : winv h0) by (apply winv_set_wslots; exact Hinv).
  assert (Hm0 : wmax h0 = wmax h) by reflexivity. clearbody h0.
  destruct (shutdown_gate_spec h0 Hinv0) as (g & h1 & Hg & G1 & G2 & G3 & G4 & G5).
  rewrite Hg. cbn [rbind]. destruct g as [r|]; [split; [reflexivity|eauto]|].
  destruct G5 as (A1 & _).
  destruct (flush_gate_spec h1 G1 A1) as (g2 & h2 & Hg2 & F1 & F2 & F3 & F4 & F5 & F6).
  rewrite Hg2. cbn [rbind]. destruct g2 as [r|]; [split; [reflexivity|eauto]|].
  destruct F6 as (B1 & _).
  apply pw_loop_progress; auto. destruct G2, F2. lia.
Qed.

Lemma poll_write_panic f w h data c :
  winv h -> poll_write_fuel (S (S f)) w h data = Panic c -> c = P_HANG /\ wmax h = 0.
Proof.
  intros Hinv Hrun.
  destruct (Nat.eq_dec (wmax h) 0) as [E|E].
  - split; [|exact E].
    destruct (poll_write_gates (S (S f)) w h data Hinv) as [(r & h' & Hok)|(h2 & Heq & I2 & F2 & S2 & _)].
    + rewrite Hok in Hrun. discriminate.
    + rewrite Heq in Hrun. eapply pw_loop_panic; eauto.
  - destruct (poll_write_progress f w h data Hinv ltac:(lia)) as [Heq (r & h' & Hok)].
    rewrite Heq, Hok in Hrun. discriminate.
Qed.

(* the only panics of a poll-adapter program: misuse of consume, and the
   poll_write spin of max_buffer_size = 0 *)
Lemma poll_step_panic f op s c :
  sinv s -> poll_step_fuel (S (S f)) op s = Panic c ->
  match op with
  | PConsume n =>
      (rfut (rh s) <> FNone /\ c = P_OTHER) \/
      (rfut (rh s) = FNone /\ length (buf_pending (rb (rh s))) < n /\ c = P_ASSERT)
  | PWrite _ _ => c = P_HANG /\ wmax (wh s) = 0
  | _ => False
  end.
Proof.
  intros (Hr & Hrdy & Hw) Hrun.
  destruct op as [e w n|w|n|w d|w|w| |]; cbn [poll_step_fuel] in Hrun.
  - destruct (poll_read_progress f e w (rh s) n Hr Hrdy) as [Heq (r & h' & Hok)].
    rewrite Heq, Hok in Hrun. discriminate.
  - destruct (poll_fill_buf_progress f w (rh s) Hr Hrdy) as [Heq (r & h' & Hok)].
    rewrite Heq, Hok in Hrun. discriminate.
  - destruct (rd_consume (rh s) n) as [h'|c'] eqn:Hc; [discriminate|].
    cbn [rbind] in Hrun. inversion Hrun; subst; clear Hrun.
    destruct (rfut (rh s)) eqn:Hf.
    + right. split; [reflexivity|].
      destruct (le_lt_dec n (length (buf_pending (rb (rh s))))) as [Hle|Hgt].
      * destruct (rd_consume_spec (rh s) n (proj1 Hr) Hf Hle) as (b' & Hc' & _). congruence.
      * split; [exact Hgt|]. rewrite (rd_consume_too_much (rh s) n (proj1 Hr) Hf Hgt) in Hc.
        congruence.
    + left. split; [discriminate|]. unfold rd_consume, rtaken in Hc. rewrite Hf in Hc.
      cbn in Hc. congruence.
    + left. split; [discriminate|]. unfold rd_consume, rtaken in Hc. rewrite Hf in Hc.
      cbn in Hc. congruence.
  - destruct (poll_write_fuel (S (S f)) w (wh s) d) as [[r h']|c'] eqn:Hp; [discriminate|].
    cbn [rbind] in Hrun. inversion Hrun; subst; clear Hrun.
    eapply poll_write_panic; eauto.
  - destruct (poll_flush_spec w (wh s) Hw) as (r & h' & Hp & _). rewrite Hp in Hrun. discriminate.
  - destruct (poll_close_spec w (wh s) Hw) as (r & h' & Hp & _). rewrite Hp in Hrun. discriminate.
  - destruct (rd_wake (rh s)). discriminate.
  - destruct (wr_wake (wh s)). discriminate.
Qed.

Lemma sync_step_panic op s c :
  sync_inv s -> sync_step op s = Panic c ->
  exists n, op = SConsume n /\ length (buf_pending (rb (rh s))) < n /\ c = P_ASSERT.
Proof.
  intros ((Hr & Hrdy & Hw) & Hrf & Hwf & Hsf) Hrun.
  destruct op as [n| |n|d| | |]; cbn [sync_step] in Hrun.
  - destruct (rd_read_spec (rh s) n (proj1 Hr)) as (r & h' & Hp & _). rewrite Hp in Hrun. discriminate.
  - discriminate.
  - destruct (rd_consume (rh s) n) as [h'|c'] eqn:Hc; [discriminate|].
    cbn [rbind] in Hrun. inversion Hrun; subst; clear Hrun. exists n. split; [reflexivity|].
    destruct (le_lt_dec n (length (buf_pending (rb (rh s))))) as [Hle|Hgt].
    + destruct (rd_consume_spec (rh s) n (proj1 Hr) Hrf Hle) as (b' & Hc' & _). congruence.
    + split; [exact Hgt|]. rewrite (rd_consume_too_much (rh s) n (proj1 Hr) Hrf Hgt) in Hc. congruence.
  - destruct (wr_write_spec (wh s) d (proj1 Hw)) as (r & h' & Hp & _). rewrite Hp in Hrun. discriminate.
  - discriminate.
  - destruct (sync_fill_read_buf_spec (rh s) Hr Hrf) as (r & h' & Hp & _). rewrite Hp in Hrun. discriminate.
  - destruct (sync_flush_write_buf_spec (wh s) Hw Hwf Hsf) as (r & h' & Hp & _). rewrite Hp in Hrun. discriminate.
Qed.

(* ====================================================================== *)
(* wakers: nobody is stranded                                              *)

(* ghost bookkeeping of the tasks: per half and entry point, the waker of a
   task whose last poll through that entry point returned Pending *)
Record ghost := mkg { gr : list (option nat); gw : list (option nat) }.
Definition ghost0 : ghost := mkg NO_WAKERS NO_WAKERS.

Definition is_pending (o : out) : bool :=
  match o with
  | ORd PRPending | OWin PRPending | OWr _ PRPending | OCtl PRPending => true
  | _ => false
  end.

Definition track (op : pop) (o : out) (g : ghost) : ghost :=
  let mark w := if is_pending o then Some w else None in
  match op with
  | PRead e w _ => mkg (upd e (mark w) (gr g)) (gw g)
  | PFillBuf w => mkg (upd E_FILL_BUF (mark w) (gr g)) (gw g)
  | PWrite w _ => mkg (gr g) (upd E_WRITE (mark w) (gw g))
  | PFlush w => mkg (gr g) (upd E_FLUSH (mark w) (gw g))
  | PClose w => mkg (gr g) (upd E_CLOSE (mark w) (gw g))
  | PConsume _ => g
  | PWakeR => mkg NO_WAKERS (gw g)      (* everybody was woken *)
  | PWakeW => mkg (gr g) NO_WAKERS
  end.

(* the woken set contains every waiting task's waker, entry point by entry point *)
Definition covers (waiting woken : list (option nat)) : Prop :=
  forall e w, slot e waiting = Some w -> slot e woken = Some w.

Definition wake_ok (op : pop) (o : out) (g : ghost) : Prop :=
  match op, o with
  | PWakeR, OWoken l => covers (gr g) l
  | PWakeW, OWoken l => covers (gw g) l
  | _, _ => True
  end.

Fixpoint wakes_ok (ops : list pop) (outs : list out) (g : ghost) : Prop :=
  match ops, outs with
  | op :: ops', o :: outs' => wake_ok op o g /\ wakes_ok ops' outs' (track op o g)
  | _, _ => True
  end.

(* a waiting task implies a blocked inner operation that was last polled with
   the current slots, the task's waker among them *)
Definition ginv (s : stream) (g : ghost) : Prop :=
  (length (rslots (rh s)) = 3 /\ length (gr g) = 3 /\
   (rfut (rh s) = FBlocked -> rreg (rh s) = rslots (rh s)) /\
   (forall e w, slot e (gr g) = Some w ->
      rfut (rh s) = FBlocked /\ slot e (rslots (rh s)) = Some w)) /\
  (length (wslots (wh s)) = 3 /\ length (gw g) = 3 /\
   (wblocked (wh s) -> wreg (wh s) = wslots (wh s)) /\
   (forall e w, slot e (gw g) = Some w ->
      wblocked (wh s) /\ slot e (wslots (wh s)) = Some w)).

Lemma slot_beyond (l : list (option nat)) e : length l <= e -> slot e l = None.
Proof. intros H. unfold slot. apply nth_overflow. exact H. Qed.

Lemma ghost_step (e w : nat) (pend : bool) (slots slots' reg' G : list (option nat)) (B B' : Prop) :
  length slots = 3 -> length G = 3 ->
  length slots' = length slots ->
  (forall e', e' <> e -> slot e' slots' = slot e' slots) ->
  (pend = true -> B' /\ reg' = slots' /\ (e < length slots -> slot e slots' = Some w)) ->
  (pend = false -> ~ B') ->
  (B -> pend = true) ->
  (forall e0 w0, slot e0 G = Some w0 -> B /\ slot e0 slots = Some w0) ->
  let G' := upd e (if pend then Some w else None) G in
  length slots' = 3 /\ length G' = 3 /\ (B' -> reg' = slots') /\
  (forall e0 w0, slot e0 G' = Some w0 -> B' /\ slot e0 slots' = Some w0).
Proof.
  intros Hl HG Hl' Hframe Hp Hn Hb Hg. cbv zeta.
  split; [congruence|]. split; [rewrite upd_length; exact HG|].
  split.
  { intros HB'. destruct pend; [apply Hp; reflexivity|]. exfalso. apply (Hn eq_refl HB'). }
  intros e0 w0 Hs.
  destruct (Nat.eq_dec e0 e) as [->|Hne].
  - destruct (le_lt_dec (length G) e) as [Hge|Hlt].
    + rewrite slot_beyond in Hs by (rewrite upd_length; exact Hge). discriminate.
    + rewrite slot_upd_same in Hs by exact Hlt. destruct pend; [|discriminate].
      inversion Hs; subst. destruct (Hp eq_refl) as (H1 & H2 & H3). split; [exact H1|].
      apply H3. lia.
  - rewrite slot_upd_other in Hs by exact Hne. destruct (Hg e0 w0 Hs) as [HB Hsl].
    specialize (Hb HB). destruct (Hp Hb) as (H1 & _). split; [exact H1|].
    rewrite Hframe by exact Hne. exact Hsl.
Qed.

Lemma no_wakers_slot e w : slot e NO_WAKERS = Some w -> False.
Proof. unfold slot, NO_WAKERS. destruct e as [|[|[|e]]]; cbn; try discriminate. destruct e; discriminate. Qed.

Lemma pres_pending_dec (r : pres) : (r = PRPending) \/ (r <> PRPending).
Proof. destruct r; [right|right|right|left]; congruence. Qed.

Lemma ghost_read_half e w h r h' G :
  rctl e w h r h' ->
  (length (rslots h) = 3 /\ length G = 3 /\
   (rfut h = FBlocked -> rreg h = rslots h) /\
   (forall e0 w0, slot e0 G = Some w0 -> rfut h = FBlocked /\ slot e0 (rslots h) = Some w0)) ->
  let G' := upd e (if match r with PRPending => true | _ => false end then Some w else None) G in
  length (rslots h') = 3 /\ length G' = 3 /\
  (rfut h' = FBlocked -> rreg h' = rslots h') /\
  (forall e0 w0, slot e0 G' = Some w0 -> rfut h' = FBlocked /\ slot e0 (rslots h') = Some w0).
Proof.
  intros (C1 & C2 & C3 & C4 & C5) (G1 & G2 & G3 & G4).
  apply (ghost_step e w _ (rslots h) (rslots h') (rreg h') G (rfut h = FBlocked) (rfut h' = FBlocked));
    auto.
  - intros E. apply C3. destruct r; try discriminate. reflexivity.
  - intros E HB. assert (Hne : r <> PRPending) by (destruct r; try discriminate; congruence).
    rewrite (C4 Hne) in HB. discriminate.
  - intros HB. rewrite (C5 HB). reflexivity.
Qed.

Lemma ghost_write_half e w h r h' G :
  wctl e w h r h' ->
  (length (wslots h) = 3 /\ length G = 3 /\
   (wblocked h -> wreg h = wslots h) /\
   (forall e0 w0, slot e0 G = Some w0 -> wblocked h /\ slot e0 (wslots h) = Some w0)) ->
  let G' := upd e (if match r with PRPending => true | _ => false end then Some w else None) G in
  length (wslots h') = 3 /\ length G' = 3 /\
  (wblocked h' -> wreg h' = wslots h') /\
  (forall e0 w0, slot e0 G' = Some w0 -> wblocked h' /\ slot e0 (wslots h') = Some w0).
Proof.
  intros (C1 & C2 & C3 & C4 & C5) (G1 & G2 & G3 & G4).
  apply (ghost_step e w _ (wslots h) (wslots h') (wreg h') G (wblocked h) (wblocked h')); auto.
  - intros E. apply C3. destruct r; try discriminate. reflexivity.
  - intros E. apply C4. destruct r; try discriminate; congruence.
  - intros HB. rewrite (C5 HB). reflexivity.
Qed.

(* one step: the ghost invariant is kept and a wake step wakes every waiting task *)
Lemma poll_step_wakers fuel op s o s' g :
  sinv s -> ginv s g -> poll_step_fuel fuel op s = Ok (o, s') ->
  ginv s' (track op o g) /\ wake_ok op o g.
Proof.
  intros (Hr & Hrdy & Hw) [GR GW] Hrun. unfold ginv.
  destruct op as [e w n|w|n|w d|w|w| |]; cbn [poll_step_fuel] in Hrun.
  - destruct (poll_read_fuel fuel e w (rh s) n) as [[r h']|c] eqn:Hp; [|discriminate].
    cbn [rbind] in Hrun. inversion Hrun; subst; clear Hrun. cbn [rh wh track gr gw wake_ok is_pending].
    destruct (poll_rd_spec true _ fuel e w (rh s) r h' (rop_ok_read n) Hr Hrdy Hp)
      as (_ & _ & _ & P4 & _).
    split; [|exact I]. split; [|exact GW].
    pose proof (ghost_read_half e w (rh s) r h' (gr g) P4 GR) as H. cbv zeta in H.
    destruct r; exact H.
  - destruct (poll_fill_buf_fuel fuel w (rh s)) as [[r h']|c] eqn:Hp; [|discriminate].
    cbn [rbind] in Hrun. inversion Hrun; subst; clear Hrun. cbn [rh wh track gr gw wake_ok is_pending].
    destruct (poll_rd_spec false _ fuel E_FILL_BUF w (rh s) r h' rop_ok_fill_buf Hr Hrdy Hp)
      as (_ & _ & _ & P4 & _).
    split; [|exact I]. split; [|exact GW].
    pose proof (ghost_read_half E_FILL_BUF w (rh s) r h' (gr g) P4 GR) as H. cbv zeta in H.
    destruct r; exact H.
  - destruct (rd_consume (rh s) n) as [h'|c] eqn:Hc; [|discriminate].
    cbn [rbind] in Hrun. inversion Hrun; subst; clear Hrun. cbn [rh wh track wake_ok].
    destruct (consume_step _ _ _ Hr Hc) as (_ & _ & _ & C4 & C5 & C6 & C7 & _).
    split; [|exact I]. split; [|exact GW].
    destruct GR as (G1 & G2 & G3 & G4). rewrite C5, C6, C7.
    splits; auto; try (intros; discriminate).
    intros e0 w0 Hs. destruct (G4 e0 w0 Hs) as [E _]. congruence.
  - destruct (poll_write_fuel fuel w (wh s) d) as [[r h']|c] eqn:Hp; [|discriminate].
    cbn [rbind] in Hrun. inversion Hrun; subst; clear Hrun. cbn [rh wh track gr gw wake_ok is_pending].
    destruct (poll_write_spec fuel w (wh s) d r h' Hw Hp) as (_ & _ & _ & P4).
    split; [|exact I]. split; [exact GR|].
    pose proof (ghost_write_half E_WRITE w (wh s) r h' (gw g) P4 GW) as H. cbv zeta in H.
    destruct r; exact H.
  - destruct (poll_flush_spec w (wh s) Hw) as (r & h' & Hp & _ & _ & _ & P4 & _).
    rewrite Hp in Hrun. cbn [rbind] in Hrun. inversion Hrun; subst; clear Hrun.
    cbn [rh wh track gr gw wake_ok is_pending].
    split; [|exact I]. split; [exact GR|].
    pose proof (ghost_write_half E_FLUSH w (wh s) r h' (gw g) P4 GW) as H. cbv zeta in H.
    destruct r; exact H.
  - destruct (poll_close_spec w (wh s) Hw) as (r & h' & Hp & _ & _ & _ & P4 & _).
    rewrite Hp in Hrun. cbn [rbind] in Hrun. inversion Hrun; subst; clear Hrun.
    cbn [rh wh track gr gw wake_ok is_pending].
    split; [|exact I]. split; [exact GR|].
    pose proof (ghost_write_half E_CLOSE w (wh s) r h' (gw g) P4 GW) as H. cbv zeta in H.
    destruct r; exact H.
  - pose proof (rd_wake_spec (rh s)) as Hk. destruct (rd_wake (rh s)) as [l h'].
    inversion Hrun; subst; clear Hrun. cbn [rh wh track gr gw wake_ok].
    destruct Hk as (_ & _ & _ & _ & K5 & K6 & K7 & K8 & K9).
    destruct GR as (G1 & G2 & G3 & G4).
    split.
    + split; [|exact GW]. rewrite K5. splits; auto; try (intros; contradiction).
      intros e0 w0 Hs. exfalso. eapply no_wakers_slot; eauto.
    + intros e0 w0 Hs. destruct (G4 e0 w0 Hs) as [HB Hsl].
      rewrite (K8 HB), (G3 HB). exact Hsl.
  - pose proof (wr_wake_spec (wh s) Hw) as Hk. destruct (wr_wake (wh s)) as [l h'].
    inversion Hrun; subst; clear Hrun. cbn [rh wh track gr gw wake_ok].
    destruct Hk as (_ & _ & _ & _ & K5 & K6 & K7 & K8 & K9).
    destruct GW as (G1 & G2 & G3 & G4).
    split.
    + split; [exact GR|]. rewrite K5. splits; auto; try (intros; contradiction).
      intros e0 w0 Hs. exfalso. eapply no_wakers_slot; eauto.
    + intros e0 w0 Hs. destruct (G4 e0 w0 Hs) as [HB Hsl].
      rewrite (K8 HB), (G3 HB). exact Hsl.
Qed.

Lemma ginv0 base mx rs src ws : ginv (st_new base mx rs src ws) ghost0.
Proof.
  unfold ginv, st_new, rh_new, wh_new, ghost0, wblocked. cbn -[slot NO_WAKERS].
  splits; auto; try (intros; discriminate); try (intros [?|?]; discriminate);
    intros e w Hs; exfalso; eapply no_wakers_slot; eauto.
Qed.

(* all programs: at every wake step the woken set covers every waiting task *)
Lemma run_wakers fuel : forall ops s g outs s',
  sinv s -> ginv s g -> run (poll_step_fuel fuel) ops s = Ok (outs, s') ->
  wakes_ok ops outs g.
Proof.
  induction ops as [|op ops IH]; intros s g outs s' Hinv Hg Hrun; cbn [run] in Hrun.
  - inversion Hrun; subst. exact I.
  - destruct (poll_step_fuel fuel op s) as [[o s1]|c] eqn:Hs; [|discriminate]. cbn [rbind] in Hrun.
    destruct (run (poll_step_fuel fuel) ops s1) as [[os s2]|c] eqn:Hr; [|discriminate].
    cbn [rbind] in Hrun. inversion Hrun; subst; clear Hrun.
    destruct (poll_step_wakers fuel op s o s1 g Hinv Hg Hs) as [Hg1 Hw].
    destruct (poll_step_inv fuel op s o s1 Hinv Hs) as [Hinv1 _].
    cbn [wakes_ok]. split; [exact Hw|]. eapply IH; eauto.
Qed.

(* ====================================================================== *)
(* statements from the initial state (what prop/C12.v pins)                *)

Lemma rabs_new base mx rs src : rabs (rh_new base mx rs src) = src.
Proof.
  unfold rabs, rh_new. cbn [rb rsrc]. destruct (buf_with_capacity_wf base) as [_ E]. rewrite E.
  reflexivity.
Qed.
Lemma wabs_new base mx ws : wabs (wh_new base mx ws) = [].
Proof.
  unfold wabs, wh_new. cbn [wb wlog]. destruct (buf_with_capacity_wf base) as [_ E]. rewrite E.
  reflexivity.
Qed.

Theorem poll_fifo fuel base mx rs src ws ops outs s' :
  run (poll_step_fuel fuel) ops (st_new base mx rs src ws) = Ok (outs, s') ->
  handed outs ++ buf_pending (rb (rh s')) ++ rsrc (rh s') = src /\
  sink_bytes (wlog (wh s')) ++ buf_pending (wb (wh s')) = accepted outs /\
  length (buf_pending (wb (wh s'))) <= mx /\
  length (buf_pending (rb (rh s'))) <= Nat.max base (mx + base - 1).
Proof.
  intros Hrun.
  destruct (run_spec (poll_step_fuel fuel) sinv (poll_step_inv fuel) ops _ outs s'
              (st_new_inv base mx rs src ws) Hrun) as (I & [[C1 C2] [C3 C4]] & R & W).
  cbn [rh wh st_new] in *. rewrite rabs_new in R. rewrite wabs_new in W.
  destruct (sinv_limits s' I) as [L1 L2]. unfold rcap_bound in L2.
  cbn [rbase rmax wbase wmax rh_new wh_new] in *.
  rewrite C1, C2 in L2. rewrite C4 in L1. auto.
Qed.

Theorem sync_fifo base mx rs src ws ops outs s' :
  run sync_step ops (st_new base mx rs src ws) = Ok (outs, s') ->
  handed outs ++ buf_pending (rb (rh s')) ++ rsrc (rh s') = src /\
  sink_bytes (wlog (wh s')) ++ buf_pending (wb (wh s')) = accepted outs /\
  length (buf_pending (wb (wh s'))) <= mx /\
  length (buf_pending (rb (rh s'))) <= Nat.max base (mx + base - 1).
Proof.
  intros Hrun.
  destruct (run_spec sync_step sync_inv sync_step_inv ops _ outs s'
              (st_new_sync_inv base mx rs src ws) Hrun) as ((I & _) & [[C1 C2] [C3 C4]] & R & W).
  cbn [rh wh st_new] in *. rewrite rabs_new in R. rewrite wabs_new in W.
  destruct (sinv_limits s' I) as [L1 L2]. unfold rcap_bound in L2.
  cbn [rbase rmax wbase wmax rh_new wh_new] in *.
  rewrite C1, C2 in L2. rewrite C4 in L1. auto.
Qed.

Definition flush_success (o : out) : Prop :=
  match o with OCtl (PRCount _) | OFlushed (OOk _) => True | _ => False end.

(* after a successful flush / close / flush_write_buf every byte accepted so
   far is at the inner stream, in order (incl. after earlier failed flushes) *)
Theorem poll_flush_delivers fuel base mx rs src ws ops outs s1 op o s2 :
  run (poll_step_fuel fuel) ops (st_new base mx rs src ws) = Ok (outs, s1) ->
  poll_step_fuel fuel op s1 = Ok (o, s2) -> flush_success o ->
  sink_bytes (wlog (wh s2)) = accepted outs /\ buf_pending (wb (wh s2)) = [].
Proof.
  intros Hrun Hstep Hf.
  destruct (run_spec (poll_step_fuel fuel) sinv (poll_step_inv fuel) ops _ outs s1
              (st_new_inv base mx rs src ws) Hrun) as (I & _ & _ & W).
  cbn [wh st_new] in W. rewrite wabs_new in W. cbn [app] in W.
  destruct (poll_step_spec fuel op s1 o s2 I Hstep) as [(_ & _ & _ & W2 & _) F].
  assert (En : buf_pending (wb (wh s2)) = []) by (apply F; exact Hf).
  split; [|exact En]. unfold wabs in *. rewrite En, app_nil_r in W2. rewrite W2.
  destruct o as [r|r|bs|d r|r|o|o|l|]; try contradiction; cbn [accepted_of]; rewrite app_nil_r; exact W.
Qed.

Theorem sync_flush_delivers base mx rs src ws ops outs s1 op o s2 :
  run sync_step ops (st_new base mx rs src ws) = Ok (outs, s1) ->
  sync_step op s1 = Ok (o, s2) -> flush_success o ->
  sink_bytes (wlog (wh s2)) = accepted outs /\ buf_pending (wb (wh s2)) = [].
Proof.
  intros Hrun Hstep Hf.
  destruct (run_spec sync_step sync_inv sync_step_inv ops _ outs s1
              (st_new_sync_inv base mx rs src ws) Hrun) as (I & _ & _ & W).
  cbn [wh st_new] in W. rewrite wabs_new in W. cbn [app] in W.
  destruct (sync_step_spec op s1 o s2 I Hstep) as (_ & (_ & _ & _ & W2 & _) & F).
  assert (En : buf_pending (wb (wh s2)) = []) by (apply F; exact Hf).
  split; [|exact En]. unfold wabs in *. rewrite En, app_nil_r in W2. rewrite W2.
  destruct o as [r|r|bs|d r|r|o|o|l|]; try contradiction; cbn [accepted_of]; rewrite app_nil_r; exact W.
Qed.

(* every window shown by fill_buf / poll_fill_buf is the next bytes of the stream *)
Theorem poll_window fuel base mx rs src ws ops outs s1 op bs s2 :
  run (poll_step_fuel fuel) ops (st_new base mx rs src ws) = Ok (outs, s1) ->
  poll_step_fuel fuel op s1 = Ok (OWin (PRBytes bs), s2) ->
  exists rest, src = handed outs ++ bs ++ rest.
Proof.
  intros Hrun Hstep.
  destruct (run_spec (poll_step_fuel fuel) sinv (poll_step_inv fuel) ops _ outs s1
              (st_new_inv base mx rs src ws) Hrun) as (I & _ & R & _).
  cbn [rh st_new] in R. rewrite rabs_new in R.
  destruct (poll_step_spec fuel op s1 _ s2 I Hstep) as [(_ & _ & _ & _ & (rest & E)) _].
  exists rest. rewrite <- R, E. reflexivity.
Qed.

Theorem wakers_from_start fuel base mx rs src ws ops outs s' :
  run (poll_step_fuel fuel) ops (st_new base mx rs src ws) = Ok (outs, s') ->
  wakes_ok ops outs ghost0.
Proof.
  intros Hrun. eapply run_wakers; [apply st_new_inv|apply ginv0|exact Hrun].
Qed.

(* the whole program returns, or panics only for the two known reasons *)
Theorem poll_run_panic f base mx rs src ws : forall ops c,
  run (poll_step_fuel (S (S f))) ops (st_new base mx rs src ws) = Panic c ->
  (c = P_HANG /\ mx = 0) \/ c = P_ASSERT \/ c = P_OTHER.
Proof.
  assert (G : forall ops s c, sinv s -> wmax (wh s) = mx ->
            run (poll_step_fuel (S (S f))) ops s = Panic c ->
            (c = P_HANG /\ mx = 0) \/ c = P_ASSERT \/ c = P_OTHER).
  { induction ops as [|op ops IH]; intros s c Hinv Hm Hrun; cbn [run] in Hrun; [discriminate|].
    destruct (poll_step_fuel (S (S f)) op s) as [[o s1]|c'] eqn:Hs.
    - cbn [rbind] in Hrun.
      destruct (run (poll_step_fuel (S (S f))) ops s1) as [[os s2]|c''] eqn:Hr; [discriminate|].
      cbn [rbind] in Hrun. inversion Hrun; subst.
      destruct (poll_step_inv _ op s o s1 Hinv Hs) as [I1 (_ & [_ [_ C]] & _)].
      eapply IH; [exact I1|congruence|exact Hr].
    - cbn [rbind] in Hrun. inversion Hrun; subst.
      pose proof (poll_step_panic f op s c Hinv Hs) as Hp.
      destruct op; try contradiction.
      + destruct Hp as [[_ ->]|(_ & _ & ->)]; auto.
      + destruct Hp as [-> E]. left. split; [reflexivity|congruence]. }
  intros ops c. apply G; [apply st_new_inv|reflexivity].
Qed.

(* ---------------------------------------------------------------------- *)
(* the guarded-out configuration: max_buffer_size = 0.  Against an inner
   writer whose flush() always succeeds (exhausted script), poll_write with a
   non-empty buffer outlasts EVERY budget: it never returns. *)
Definition spin_state (log : list wev) : whalf :=
  mkwh (buf_with_capacity 4) 4 0 FNone WfWrite FNone false [Some 0; None; None] NO_WAKERS [] log.

Lemma pw_loop_spins : forall fuel log, pw_loop fuel (spin_state log) [1%N] = Panic P_HANG.
Proof.
  induction fuel as [|f IH]; intros log; [reflexivity|].
  cbn [pw_loop]. change (wr_write (spin_state log) [1%N]) with (Ok (OErr E_WOULD_BLOCK, spin_state log)).
  cbn [rbind]. change (N.eqb E_WOULD_BLOCK E_WOULD_BLOCK) with true. cbv iota.
  change (poll_flush_impl (spin_state log))
    with (Ok (PReady (OOk 0), spin_state (log ++ [WFlush]))).
  cbn [rbind]. apply IH.
Qed.

Theorem poll_write_max0_never_returns : forall fuel,
  poll_write_fuel fuel 0 (wh_new 4 0 []) [1%N] = Panic P_HANG.
Proof.
  intros fuel. unfold poll_write_fuel.
  change (shutdown_gate (set_wslots (wh_new 4 0 []) (upd E_WRITE (Some 0) (wslots (wh_new 4 0 [])))))
    with (Ok (@None pres, spin_state [])).
  cbn [rbind]. change (flush_gate (spin_state [])) with (Ok (@None pres, spin_state [])).
  cbn [rbind]. apply pw_loop_spins.
Qed.

Lemma poll_write_wakers fuel w h data r h' :
  winv h -> poll_write_fuel fuel w h data = Ok (r, h') ->
  length (wslots h') = length (wslots h) /\
  (forall e', e' <> E_WRITE -> slot e' (wslots h') = slot e' (wslots h)) /\
  (r = PRPending ->
     (wfut h' = FBlocked \/ sfut h' = FBlocked) /\ wreg h' = wslots h' /\
     (E_WRITE < length (wslots h) -> slot E_WRITE (wslots h') = Some w)) /\
  (r <> PRPending -> ~ (wfut h' = FBlocked \/ sfut h' = FBlocked)) /\
  ((wfut h = FBlocked \/ sfut h = FBlocked) -> r = PRPending).
Proof. intros Hi Hr. exact (proj2 (proj2 (proj2 (poll_write_spec fuel w h data r h' Hi Hr)))). Qed.

Lemma invariants_kept base mx rs src ws :
  sinv (st_new base mx rs src ws) /\ sync_inv (st_new base mx rs src ws) /\
  (forall fuel op s o s', sinv s -> poll_step_fuel fuel op s = Ok (o, s') -> sinv s') /\
  (forall op s o s', sync_inv s -> sync_step op s = Ok (o, s') -> sync_inv s').
Proof.
  split; [apply st_new_inv|]. split; [apply st_new_sync_inv|]. split.
  - intros fuel op s o s' Hi Hr. exact (proj1 (poll_step_inv fuel op s o s' Hi Hr)).
  - intros op s o s' Hi Hr. exact (proj1 (sync_step_inv op s o s' Hi Hr)).
Qed.

(* the inner write calls of one flush_to run: every call but the last moves at
   least one byte, so there are at most max(1, pending bytes) of them *)
Lemma wr_flush_loop_calls : forall ws b log total o b' log' ws',
  bwf b ->
  wr_flush_loop true ws b log total = Ok (o, b', log', ws') ->
  length ws <= length ws' + Nat.max 1 (length (buf_pending b)).
Proof.
  induction ws as [|a ws IH]; intros b log total o b' log' ws' Hwf Hrun; cbn [wr_flush_loop] in Hrun.
  - inversion Hrun; subst. cbn [length]. lia.
  - destruct a as [a|]; [|inversion Hrun; subst; cbn [length]; lia].
    destruct (writer_step a (buf_pending b)) as [r out] eqn:Hstep.
    destruct (writer_step_spec _ _ _ _ Hstep) as (k & Hout & Hk & Hlen & Hr).
    pose proof (buf_pending_length b Hwf) as Hpl. rewrite Hpl in Hk.
    destruct r as [k'|e]; [|inversion Hrun; subst; cbn [length]; lia].
    subst k'. destruct k as [|k]; [inversion Hrun; subst; cbn [length]; lia|].
    destruct (buf_advance_spec b (S k) Hwf Hk) as (b1 & Hadv & Hwf1 & Hvec & Hpend).
    rewrite Hadv in Hrun. cbn [rbind] in Hrun.
    assert (Hl1 : length (buf_pending b1) = length (buf_pending b) - S k)
      by (rewrite Hpend, skipn_length; reflexivity).
    destruct (buf_all_done b1) eqn:Hd; [inversion Hrun; subst; cbn [length]; lia|].
    specialize (IH _ _ _ _ _ _ _ Hwf1 Hrun).
    assert (Hne : length (buf_pending b1) <> 0).
    { unfold buf_all_done in Hd. apply Nat.leb_gt in Hd.
      rewrite buf_pending_length by exact Hwf1. lia. }
    cbn [length]. lia.
Qed.

(* the pinned statements, one per clause of the property *)
Theorem poll_read_fifo fuel base mx rs src ws ops outs s' :
  run (poll_step_fuel fuel) ops (st_new base mx rs src ws) = Ok (outs, s') ->
  handed outs ++ buf_pending (rb (rh s')) ++ rsrc (rh s') = src.
Proof. intros H. apply (poll_fifo _ _ _ _ _ _ _ _ _ H). Qed.

Theorem sync_read_fifo base mx rs src ws ops outs s' :
  run sync_step ops (st_new base mx rs src ws) = Ok (outs, s') ->
  handed outs ++ buf_pending (rb (rh s')) ++ rsrc (rh s') = src.
Proof. intros H. apply (sync_fifo _ _ _ _ _ _ _ _ H). Qed.

Theorem poll_write_fifo fuel base mx rs src ws ops outs s' :
  run (poll_step_fuel fuel) ops (st_new base mx rs src ws) = Ok (outs, s') ->
  sink_bytes (wlog (wh s')) ++ buf_pending (wb (wh s')) = accepted outs.
Proof. intros H. apply (poll_fifo _ _ _ _ _ _ _ _ _ H). Qed.

Theorem sync_write_fifo base mx rs src ws ops outs s' :
  run sync_step ops (st_new base mx rs src ws) = Ok (outs, s') ->
  sink_bytes (wlog (wh s')) ++ buf_pending (wb (wh s')) = accepted outs.
Proof. intros H. apply (sync_fifo _ _ _ _ _ _ _ _ H). Qed.

Theorem poll_limits fuel base mx rs src ws ops outs s' :
  run (poll_step_fuel fuel) ops (st_new base mx rs src ws) = Ok (outs, s') ->
  length (buf_pending (wb (wh s'))) <= mx /\
  length (buf_pending (rb (rh s'))) <= Nat.max base (mx + base - 1).
Proof. intros H. apply (poll_fifo _ _ _ _ _ _ _ _ _ H). Qed.

Theorem sync_limits base mx rs src ws ops outs s' :
  run sync_step ops (st_new base mx rs src ws) = Ok (outs, s') ->
  length (buf_pending (wb (wh s'))) <= mx /\
  length (buf_pending (rb (rh s'))) <= Nat.max base (mx + base - 1).
Proof. intros H. apply (sync_fifo _ _ _ _ _ _ _ _ H). Qed.
