(* PoolThm.v — proofs about the managed buffer pool LTS (model/Pool.v).

   Structure:
     1. list facts (occ, set_nth, flat_map over set_nth, pigeonhole);
     2. u16 / power-of-two arithmetic of the ring indices;
     3. the ring as a FIFO: push (BufControl::reset) and pop (kernel select);
     4. the invariant [pinv tS tO]: every id < nbuf sits in exactly one place,
        where tS / tO are ids in transit inside one step (slot still Some /
        slot already None), and the primitive moves that preserve it;
     5. every label preserves [inv = pinv [] [] /\ hinv]; no step panics;
     6. the property theorems (used by prop/C07.v). *)
From Coq Require Import Permutation.
From Compio.Model Require Import Base Pool.
Local Open Scope nat_scope.

(* ====================================================================== *)
(* 1. lists                                                                *)

Lemma occ_nil x : occ x [] = 0.
Proof. reflexivity. Qed.

Lemma occ_cons x y l : occ x (y :: l) = (if Nat.eqb x y then 1 else 0) + occ x l.
Proof. unfold occ. cbn [filter]. destruct (Nat.eqb x y); reflexivity. Qed.

Lemma occ_app x l1 l2 : occ x (l1 ++ l2) = occ x l1 + occ x l2.
Proof. unfold occ. rewrite filter_app, app_length. reflexivity. Qed.

Lemma occ_one x y : occ x [y] = if Nat.eqb x y then 1 else 0.
Proof. rewrite occ_cons, occ_nil. lia. Qed.

Lemma occ_count x l : occ x l = count_occ Nat.eq_dec l x.
Proof.
  induction l as [|y l IH]; [reflexivity|].
  rewrite occ_cons. cbn [count_occ].
  destruct (Nat.eq_dec y x) as [->|Hn].
  - rewrite Nat.eqb_refl. lia.
  - destruct (Nat.eqb_spec x y); [congruence|]. lia.
Qed.

Lemma occ_In x l : 1 <= occ x l <-> In x l.
Proof. rewrite occ_count. symmetry. apply count_occ_In. Qed.

Lemma occ_zero x l : occ x l = 0 <-> ~ In x l.
Proof. rewrite occ_count. symmetry. apply count_occ_not_In. Qed.

Lemma occ_le1_NoDup l : (forall x, occ x l <= 1) -> NoDup l.
Proof.
  intros H. apply (NoDup_count_occ Nat.eq_dec). intros x. rewrite <- occ_count. apply H.
Qed.

Lemma occ_remove_one x y l :
  mem y l = true -> occ x (remove_one y l) + (if Nat.eqb x y then 1 else 0) = occ x l.
Proof.
  unfold mem. induction l as [|z l IH]; cbn [existsb remove_one]; [discriminate|].
  destruct (Nat.eqb_spec y z) as [->|Hn]; cbn [orb].
  - intros _. rewrite occ_cons. lia.
  - intros H. rewrite !occ_cons, <- (IH H). lia.
Qed.

Lemma occ_repeat_length {A} (a : A) n : length (repeat a n) = n.
Proof. apply repeat_length. Qed.

Lemma opt_ids_app l1 l2 : opt_ids (l1 ++ l2) = opt_ids l1 ++ opt_ids l2.
Proof. unfold opt_ids. apply flat_map_app. Qed.

Lemma opt_ids_map_Some l : opt_ids (map Some l) = l.
Proof. induction l as [|x l IH]; [reflexivity|]. cbn. f_equal. exact IH. Qed.

(* set_nth *)
Lemma set_nth_length {A} (l : list A) i x : length (set_nth l i x) = length l.
Proof.
  revert i; induction l as [|a l IH]; intros [|i]; cbn [set_nth length]; auto.
Qed.

Lemma set_nth_eq {A} (l : list A) i x : i < length l -> nth_error (set_nth l i x) i = Some x.
Proof.
  revert i; induction l as [|a l IH]; intros [|i] H; cbn [set_nth nth_error length] in *; try lia; auto.
  apply IH. lia.
Qed.

Lemma set_nth_neq {A} (l : list A) i j x : i <> j -> nth_error (set_nth l i x) j = nth_error l j.
Proof.
  revert i j; induction l as [|a l IH]; intros [|i] [|j] H; cbn [set_nth nth_error]; auto; try congruence.
Qed.

Lemma nth_set_nth_eq {A} (l : list A) i x d : i < length l -> nth i (set_nth l i x) d = x.
Proof.
  intros H. apply nth_error_nth. apply set_nth_eq. exact H.
Qed.

Lemma nth_set_nth_neq {A} (l : list A) i j x d : i <> j -> nth j (set_nth l i x) d = nth j l d.
Proof.
  revert i j; induction l as [|a l IH]; intros [|i] [|j] H; cbn [set_nth nth]; auto; try congruence.
Qed.

Lemma nth_error_nth' {A} (l : list A) i d : i < length l -> nth_error l i = Some (nth i l d).
Proof. intros H. apply nth_error_nth'. exact H. Qed.

(* replacing one element of a list changes a flat_map count by the difference *)
Lemma occ_flat_map_set_nth {A} (f : A -> list nat) (l : list A) k o o' x :
  nth_error l k = Some o ->
  occ x (flat_map f (set_nth l k o')) + occ x (f o) = occ x (flat_map f l) + occ x (f o').
Proof.
  revert k; induction l as [|a l IH]; intros [|k] H; cbn [nth_error] in H; try discriminate.
  - injection H as ->. cbn [set_nth flat_map]. rewrite !occ_app. lia.
  - cbn [set_nth flat_map]. rewrite !occ_app. specialize (IH k H). lia.
Qed.

Lemma flat_map_set_nth_same {A} (f : A -> list nat) (l : list A) k o o' :
  nth_error l k = Some o -> f o' = f o -> flat_map f (set_nth l k o') = flat_map f l.
Proof.
  revert k; induction l as [|a l IH]; intros [|k] H E; cbn [nth_error] in H; try discriminate.
  - injection H as ->. cbn [set_nth flat_map]. rewrite E. reflexivity.
  - cbn [set_nth flat_map]. rewrite (IH k H E). reflexivity.
Qed.

Lemma length_flat_map_set_nth {A} (f : A -> list nat) (l : list A) k o o' :
  nth_error l k = Some o ->
  length (flat_map f (set_nth l k o')) + length (f o) = length (flat_map f l) + length (f o').
Proof.
  revert k; induction l as [|a l IH]; intros [|k] H; cbn [nth_error] in H; try discriminate.
  - injection H as ->. cbn [set_nth flat_map]. rewrite !app_length. lia.
  - cbn [set_nth flat_map]. rewrite !app_length. specialize (IH k H). lia.
Qed.

(* pigeonhole: distinct ids below n are at most n *)
Lemma nodup_bound (l : list nat) n : NoDup l -> (forall x, In x l -> x < n) -> length l <= n.
Proof.
  intros Hnd Hlt. rewrite <- (seq_length n 0). apply NoDup_incl_length; [exact Hnd|].
  intros x Hx. apply in_seq. specialize (Hlt x Hx). lia.
Qed.

Lemma length_of_occ (l : list nat) n :
  (forall x, x < n -> occ x l = 1) -> (forall x, n <= x -> occ x l = 0) -> length l = n.
Proof.
  intros H1 H0. rewrite <- (seq_length n 0). apply Permutation_length.
  apply (Permutation_count_occ Nat.eq_dec). intros x. rewrite <- occ_count.
  destruct (Nat.lt_ge_cases x n) as [Hx|Hx].
  - rewrite (H1 x Hx). symmetry.
    assert (Hin : In x (seq 0 n)) by (apply in_seq; lia).
    assert (Hnd : NoDup (seq 0 n)) by apply seq_NoDup.
    apply (proj1 (NoDup_count_occ' Nat.eq_dec (seq 0 n)) Hnd x Hin).
  - rewrite (H0 x Hx). symmetry. apply count_occ_not_In. rewrite in_seq. lia.
Qed.

(* two positions holding the same id: the id occurs twice *)
Lemma occ_two_positions (l : list (option nat)) h1 h2 id :
  h1 < h2 -> nth_error l h1 = Some (Some id) -> nth_error l h2 = Some (Some id) ->
  2 <= occ id (opt_ids l).
Proof.
  revert h1 h2; induction l as [|e l IH]; intros h1 h2 Hlt H1 H2.
  - destruct h1; discriminate.
  - destruct h2 as [|h2]; [lia|]. cbn [nth_error] in H2.
    destruct h1 as [|h1]; cbn [nth_error] in H1.
    + injection H1 as ->. change (opt_ids (Some id :: l)) with ([id] ++ opt_ids l).
      rewrite occ_app, occ_one, Nat.eqb_refl.
      assert (1 <= occ id (opt_ids l)); [|lia].
      apply occ_In. unfold opt_ids. apply in_flat_map. exists (Some id). split.
      * eapply nth_error_In; eauto.
      * left; reflexivity.
    + change (opt_ids (e :: l)) with ((match e with Some i => [i] | None => [] end) ++ opt_ids l).
      rewrite occ_app. specialize (IH h1 h2 ltac:(lia) H1 H2). lia.
Qed.

(* ====================================================================== *)
(* 2. u16 and power-of-two arithmetic                                      *)

Definition pow2_le15 (n : nat) : Prop := exists e : N, (e <= 15)%N /\ NN n = (2 ^ e)%N.

Lemma U16_pow : U16 = (2 ^ 16)%N.
Proof. reflexivity. Qed.

Lemma pow2_pos n : pow2_le15 n -> (0 < NN n)%N.
Proof.
  intros (e & _ & ->). apply N.neq_0_lt_0. apply N.pow_nonzero. discriminate.
Qed.

Lemma pow2_bound n : pow2_le15 n -> (NN n <= 32768)%N.
Proof.
  intros (e & He & ->). change 32768%N with (2 ^ 15)%N. apply N.pow_le_mono_r; [discriminate|exact He].
Qed.

(* n divides 65536 *)
Lemma pow2_divides n : pow2_le15 n -> exists q : N, U16 = (NN n * q)%N /\ (0 < q)%N.
Proof.
  intros (e & He & ->). exists (2 ^ (16 - e))%N. split.
  - rewrite <- N.pow_add_r. rewrite U16_pow. f_equal. lia.
  - apply N.neq_0_lt_0. apply N.pow_nonzero. discriminate.
Qed.

(* (x mod 65536) mod n = x mod n *)
Lemma mod_U16_mod n x : pow2_le15 n -> ((x mod U16) mod NN n = x mod NN n)%N.
Proof.
  intros Hp. destruct (pow2_divides n Hp) as (q & Hq & Hq0).
  assert (Hn : NN n <> 0%N) by (apply N.neq_0_lt_0; apply pow2_pos; exact Hp).
  assert (Hq' : q <> 0%N) by lia.
  rewrite Hq. rewrite N.mod_mul_r by assumption.
  rewrite (N.mul_comm (NN n)), N.mod_add by assumption.
  apply N.mod_mod. exact Hn.
Qed.

(* the kernel's head & mask is head mod n *)
Lemma land_mask_mod n x : pow2_le15 n -> (N.land x (NN n - 1) = x mod NN n)%N.
Proof.
  intros (e & He & ->).
  replace (2 ^ e - 1)%N with (N.ones e).
  - apply N.land_ones.
  - rewrite N.ones_equiv. rewrite N.sub_1_r. reflexivity.
Qed.

Lemma mod_add_U16 n a b : pow2_le15 n -> ((a mod U16 + b) mod NN n = (a + b) mod NN n)%N.
Proof.
  intros Hp.
  rewrite <- (mod_U16_mod n (a mod U16 + b) Hp).
  rewrite N.add_mod_idemp_l by discriminate.
  apply mod_U16_mod. exact Hp.
Qed.

(* entries less than n apart sit in different cells *)
Lemma mod_distinct (n a b : N) : (0 < n)%N -> (a < b)%N -> (b < a + n)%N -> (a mod n <> b mod n)%N.
Proof.
  intros Hn Hab Hba E.
  assert (Hn0 : n <> 0%N) by lia.
  pose proof (N.div_mod a n Hn0) as Ha. pose proof (N.div_mod b n Hn0) as Hb.
  pose proof (N.mod_upper_bound a n Hn0) as Hua.
  rewrite E in Ha.
  assert (Hq : (a / n < b / n)%N) by nia.
  nia.
Qed.

(* the number of live entries is recovered from the two u16 counters *)
Lemma count_of_tail (h c : N) : (h < U16)%N -> (c <= 32768)%N ->
  (((h + c) mod U16 + U16 - h) mod U16 = c)%N.
Proof.
  intros Hh Hc. unfold U16 in *.
  destruct (N.lt_ge_cases (h + c) 65536) as [Hlt|Hge].
  - rewrite (N.mod_small (h + c)) by exact Hlt.
    replace (h + c + 65536 - h)%N with (c + 1 * 65536)%N by lia.
    rewrite N.mod_add by discriminate. apply N.mod_small. lia.
  - assert (E : ((h + c) mod 65536 = h + c - 65536)%N).
    { symmetry. apply (N.mod_unique (h + c) 65536 1); lia. }
    rewrite E. replace (h + c - 65536 + 65536 - h)%N with c by lia.
    apply N.mod_small. lia.
Qed.

Lemma tail_eq_head (h c : N) : (h < U16)%N -> (c <= 32768)%N ->
  ((h + c) mod U16 = h)%N <-> c = 0%N.
Proof.
  intros Hh Hc. split.
  - intros E. pose proof (count_of_tail h c Hh Hc) as H. rewrite E in H.
    replace (h + U16 - h)%N with (0 + 1 * U16)%N in H by lia.
    rewrite N.mod_add in H by discriminate. rewrite N.mod_small in H by (unfold U16; lia). lia.
  - intros ->. rewrite N.add_0_r. apply N.mod_small. exact Hh.
Qed.

(* next_power_of_two *)
Lemma np2_from_spec fuel (i : N) n :
  (i + NN fuel = 15)%N -> (n <= 32768)%N ->
  exists e, (i <= e)%N /\ (e <= 15)%N /\ np2_from fuel (2 ^ i)%N n = (2 ^ e)%N /\
            ((2 ^ i < n)%N -> (n <= 2 ^ e)%N) /\ ((n <= 2 ^ i)%N -> e = i).
Proof.
  unfold NN. revert i; induction fuel as [|f IH]; intros i Hi Hn.
  - exists i. cbn [np2_from]. assert (i = 15%N) by lia. subst i.
    repeat split; try lia.
  - cbn [np2_from]. destruct (N.leb_spec n (2 ^ i)) as [Hle|Hgt].
    + exists i. repeat split; lia.
    + replace (2 * 2 ^ i)%N with (2 ^ (i + 1))%N by (rewrite N.pow_add_r; lia).
      destruct (IH (i + 1)%N ltac:(lia) Hn) as (e & He1 & He2 & Heq & Hlt & Hle').
      exists e. split; [lia|]. split; [exact He2|]. split; [exact Heq|]. split.
      * intros _. destruct (N.lt_ge_cases (2 ^ (i + 1)) n) as [H|H].
        -- apply Hlt. exact H.
        -- rewrite (Hle' H). exact H.
      * intros H. lia.
Qed.

Lemma next_pow2_spec n : (1 <= n)%N -> (n <= 32768)%N ->
  exists e, (e <= 15)%N /\ next_pow2 n = Ok (2 ^ e)%N /\ (n <= 2 ^ e)%N.
Proof.
  intros H1 Hn. unfold next_pow2. destruct (N.leb_spec n 32768) as [_|H]; [|lia].
  destruct (np2_from_spec 15 0%N n ltac:(reflexivity) Hn) as (e & _ & He & Heq & Hlt & Hle).
  change (2 ^ 0)%N with 1%N in *. exists e. split; [exact He|]. split; [f_equal; exact Heq|].
  destruct (N.lt_ge_cases 1 n) as [H|H].
  - apply Hlt. exact H.
  - assert (n = 1%N) by lia. subst n. rewrite (Hle ltac:(lia)). cbn. lia.
Qed.

(* ====================================================================== *)
(* 3. the io_uring buffer ring is a FIFO                                   *)

Record ring_wf (s : st) : Prop := mk_ring_wf {
  rw_len : length (cells s) = nbuf s;
  rw_head : (head s < U16)%N;
  rw_cnt : exists c : nat, c <= nbuf s /\ tail s = ((head s + NN c) mod U16)%N
}.

Lemma NN_le a b : a <= b -> (NN a <= NN b)%N.
Proof. unfold NN. lia. Qed.

Lemma nn_NN a : nn (NN a) = a.
Proof. unfold nn, NN. apply Nat2N.id. Qed.

Lemma ring_count_of s c :
  pow2_le15 (nbuf s) -> (head s < U16)%N -> c <= nbuf s -> tail s = ((head s + NN c) mod U16)%N ->
  ring_count s = c.
Proof.
  intros Hp Hh Hc Ht. unfold ring_count. rewrite Ht.
  rewrite count_of_tail; [apply nn_NN|exact Hh|].
  pose proof (pow2_bound _ Hp). pose proof (NN_le _ _ Hc). lia.
Qed.

Lemma kernel_idx_mod s x : pow2_le15 (nbuf s) -> kernel_idx s x = nn (x mod NN (nbuf s))%N.
Proof.
  intros Hp. unfold kernel_idx. rewrite land_mask_mod by exact Hp. rewrite mod_U16_mod by exact Hp. reflexivity.
Qed.

Definition cell_at (s : st) (i : nat) : nat := nth (kernel_idx s (head s + NN i)%N) (cells s) 0.

Lemma ring_ids_uring s : uring s = true -> ring_ids s = map (cell_at s) (seq 0 (ring_count s)).
Proof. intros H. unfold ring_ids. rewrite H. reflexivity. Qed.

Lemma ring_ids_fallback s : uring s = false -> ring_ids s = queue s.
Proof. intros H. unfold ring_ids. rewrite H. reflexivity. Qed.

Lemma ring_ids_length s : pow2_le15 (nbuf s) -> uring s = true -> ring_wf s ->
  exists c, c <= nbuf s /\ tail s = ((head s + NN c) mod U16)%N /\ ring_count s = c /\ length (ring_ids s) = c.
Proof.
  intros Hp Hu [Hl Hh (c & Hc & Ht)]. exists c. split; [exact Hc|]. split; [exact Ht|].
  pose proof (ring_count_of s c Hp Hh Hc Ht) as E. split; [exact E|].
  rewrite ring_ids_uring by exact Hu. rewrite map_length, seq_length. exact E.
Qed.

Lemma tail_lt s : ring_wf s -> (tail s < U16)%N.
Proof. intros [_ _ (c & _ & ->)]. apply N.mod_upper_bound. discriminate. Qed.

(* BufControl::reset on a ring that is not full: the id is appended *)
Lemma ring_push s id :
  pow2_le15 (nbuf s) -> uring s = true -> ring_wf s -> length (ring_ids s) < nbuf s ->
  let s' := set_ring s (set_nth (cells s) (nn (tail s mod NN (nbuf s))%N) id)
                     (u16_wrapping_add (tail s) 1) (head s) in
  ctrl_reset s id = Ok s' /\ ring_ids s' = ring_ids s ++ [id] /\ ring_wf s'.
Proof.
  intros Hp Hu Hwf Hroom s'.
  destruct (ring_ids_length s Hp Hu Hwf) as (c & Hc & Ht & Hcnt & Hlen).
  rewrite Hlen in Hroom.
  pose proof Hwf as [Hl Hh _].
  pose proof (tail_lt s Hwf) as Htl.
  pose proof (pow2_pos _ Hp) as Hn0.
  assert (Hidx : nn (tail s mod NN (nbuf s))%N < nbuf s).
  { pose proof (N.mod_upper_bound (tail s) (NN (nbuf s)) ltac:(lia)). unfold nn, NN in *. lia. }
  (* the code path *)
  assert (Hcode : ctrl_reset s id = Ok s').
  { unfold ctrl_reset. rewrite Hu. unfold add_buffer, ring_idx, u16_add.
    rewrite N.add_0_r. destruct (N.ltb_spec (tail s) U16) as [_|H]; [|lia].
    cbn [rbind]. rewrite Hl. destruct (Nat.ltb_spec (nn (tail s mod NN (nbuf s))%N) (nbuf s)) as [_|H]; [|lia].
    cbn [rbind]. reflexivity. }
  split; [exact Hcode|].
  (* the new counters *)
  assert (Ht' : tail s' = ((head s' + NN (S c)) mod U16)%N).
  { unfold s', set_ring, u16_wrapping_add. cbn [tail head]. rewrite Ht.
    rewrite N.add_mod_idemp_l by discriminate. f_equal. unfold NN. lia. }
  assert (Hwf' : ring_wf s').
  { constructor.
    - unfold s', set_ring. cbn [cells nbuf]. rewrite set_nth_length. exact Hl.
    - exact Hh.
    - exists (S c). split; [unfold s', set_ring; cbn [nbuf]; lia|exact Ht']. }
  split; [|exact Hwf'].
  assert (Hcnt' : ring_count s' = S c).
  { apply ring_count_of; try exact Ht'; try exact Hp; try exact Hh. unfold s', set_ring; cbn [nbuf]; lia. }
  rewrite (ring_ids_uring s') by exact Hu. rewrite (ring_ids_uring s) by exact Hu.
  rewrite Hcnt', Hcnt, seq_S, map_app. cbn [map plus]. f_equal.
  - apply map_ext_in. intros i Hi. apply in_seq in Hi. unfold cell_at.
    replace (kernel_idx s' (head s' + NN i)%N) with (kernel_idx s (head s + NN i)%N) by reflexivity.
    change (cells s') with (set_nth (cells s) (nn (tail s mod NN (nbuf s))%N) id).
    apply nth_set_nth_neq.
    rewrite kernel_idx_mod by exact Hp. rewrite Ht, mod_U16_mod by exact Hp.
    intros E. apply N2Nat.inj in E.
    revert E. apply not_eq_sym. apply mod_distinct; [exact Hn0| |]; unfold NN in *; lia.
  - f_equal. unfold cell_at.
    replace (kernel_idx s' (head s' + NN c)%N) with (kernel_idx s (head s + NN c)%N) by reflexivity.
    change (cells s') with (set_nth (cells s) (nn (tail s mod NN (nbuf s))%N) id).
    rewrite kernel_idx_mod by exact Hp. rewrite Ht, mod_U16_mod by exact Hp.
    apply nth_set_nth_eq. rewrite Hl.
    rewrite Ht, mod_U16_mod in Hidx by exact Hp. exact Hidx.
Qed.

(* the kernel consumes the head entry: the oldest id *)
Lemma ring_pop s :
  pow2_le15 (nbuf s) -> uring s = true -> ring_wf s ->
  match ring_ids s with
  | [] => kernel_select s = None
  | id :: r =>
    let s' := set_ring s (cells s) (tail s) (u16_wrapping_add (head s) 1) in
    kernel_select s = Some (id, s') /\ ring_ids s' = r /\ ring_wf s'
  end.
Proof.
  intros Hp Hu Hwf.
  destruct (ring_ids_length s Hp Hu Hwf) as (c & Hc & Ht & Hcnt & Hlen).
  pose proof Hwf as [Hl Hh _].
  pose proof (pow2_bound _ Hp) as Hb.
  assert (Hc' : (NN c <= 32768)%N) by (pose proof (NN_le _ _ Hc); lia).
  pose proof (tail_eq_head (head s) (NN c) Hh Hc') as Hempty.
  destruct (ring_ids s) as [|id r] eqn:E.
  - cbn [length] in Hlen. rewrite <- Hlen in Ht. unfold kernel_select, ring_empty.
    rewrite Ht. change (NN 0) with 0%N. rewrite N.add_0_r, N.mod_small by exact Hh.
    rewrite N.eqb_refl. reflexivity.
  - cbn [length] in Hlen. destruct c as [|c]; [discriminate|]. injection Hlen as Hlen.
    intros s'.
    assert (Hne : ring_empty s = false).
    { unfold ring_empty. apply N.eqb_neq. rewrite Ht. intros H. apply Hempty in H. unfold NN in H. lia. }
    assert (Hid : id = cell_at s 0 /\ r = map (cell_at s) (seq 1 c)).
    { rewrite ring_ids_uring in E by exact Hu. rewrite Hcnt in E. cbn [seq map] in E.
      injection E as E1 E2. split; congruence. }
    destruct Hid as [Hid Hr].
    assert (Ht' : tail s' = ((head s' + NN c) mod U16)%N).
    { unfold s', set_ring, u16_wrapping_add. cbn [tail head]. rewrite Ht.
      rewrite N.add_mod_idemp_l by discriminate. f_equal. unfold NN. lia. }
    assert (Hh' : (head s' < U16)%N).
    { unfold s', set_ring, u16_wrapping_add. cbn [head]. apply N.mod_upper_bound. discriminate. }
    assert (Hwf' : ring_wf s').
    { constructor; [exact Hl|exact Hh'|]. exists c. split; [unfold s', set_ring; cbn [nbuf]; lia|exact Ht']. }
    split.
    + unfold kernel_select. rewrite Hne. f_equal. f_equal. rewrite Hid. unfold cell_at.
      change (NN 0) with 0%N. rewrite N.add_0_r. reflexivity.
    + split; [|exact Hwf'].
      assert (Hcnt' : ring_count s' = c).
      { apply ring_count_of; try exact Ht'; try exact Hp; try exact Hh'. unfold s', set_ring; cbn [nbuf]; lia. }
      rewrite (ring_ids_uring s') by exact Hu. rewrite Hcnt', Hr.
      rewrite <- seq_shift, map_map. apply map_ext. intros i. unfold cell_at.
      change (cells s') with (cells s). f_equal.
      rewrite !kernel_idx_mod by exact Hp.
      change (nbuf s') with (nbuf s). change (head s') with (u16_wrapping_add (head s) 1).
      unfold u16_wrapping_add. rewrite mod_add_U16 by exact Hp. f_equal. f_equal. unfold NN. lia.
Qed.

Lemma ring_empty_iff s :
  pow2_le15 (nbuf s) -> uring s = true -> ring_wf s -> (ring_empty s = true <-> ring_ids s = []).
Proof.
  intros Hp Hu Hwf. pose proof (ring_pop s Hp Hu Hwf) as H.
  destruct (ring_ids s) as [|id r].
  - unfold kernel_select in H. destruct (ring_empty s); [tauto|discriminate].
  - destruct H as (H & _). unfold kernel_select in H. destruct (ring_empty s); [discriminate|].
    split; discriminate.
Qed.

(* ====================================================================== *)
(* 4. the ownership invariant and the primitive moves                      *)

Definition Ssum (s : st) (x : nat) : nat := occ x (cq_ids s) + occ x (guard_ids s) + occ x (loose s).
Definition Osum (s : st) (x : nat) : nat := occ x (pend s) + occ x (opbuf_ids s) + occ x (handle_ids s).
Definition tot (tS tO : list nat) (s : st) (x : nat) : nat :=
  occ x (ring_ids s) + Ssum s x + occ x tS + Osum s x + occ x tO + occ x (freed s).

(* tS: ids in transit whose slot is still Some; tO: ids in transit whose slot is None *)
Record pinv (tS tO : list nat) (s : st) : Prop := mk_pinv {
  p_pow : pow2_le15 (nbuf s);
  p_tot : forall x, x < nbuf s -> tot tS tO s x = 1;
  p_out : forall x, nbuf s <= x -> tot tS tO s x = 0;
  p_ring : uring s = true -> released s = false -> ring_wf s;
  p_slots : released s = false ->
            length (slots s) = nbuf s /\
            forall x, x < nbuf s ->
              (nth x (slots s) false = true <-> 1 <= occ x (ring_ids s) + Ssum s x + occ x tS);
  p_rel : released s = true -> slots s = [] /\ ring_ids s = [] /\ loose s = [] /\ tS = [];
  p_freed : released s = false -> freed s = []
}.

Definition same_pool (s s' : st) : Prop :=
  uring s' = uring s /\ nbuf s' = nbuf s /\ cells s' = cells s /\ tail s' = tail s /\ head s' = head s /\
  queue s' = queue s /\ slots s' = slots s /\ released s' = released s /\ freed s' = freed s.

Definition same_holders (s s' : st) : Prop :=
  uring s' = uring s /\ nbuf s' = nbuf s /\ released s' = released s /\ pend s' = pend s /\ ops s' = ops s /\
  cq s' = cq s /\ loose s' = loose s /\ handles s' = handles s /\ nbusy s' = nbusy s.

Lemma same_pool_ring_ids s s' : same_pool s s' -> ring_ids s' = ring_ids s.
Proof.
  intros (Hu & Hn & Hc & Ht & Hh & Hq & _). unfold ring_ids, ring_count, kernel_idx.
  rewrite Hu, Hn, Hc, Ht, Hh, Hq. reflexivity.
Qed.

Lemma same_pool_ring_wf s s' : same_pool s s' -> ring_wf s -> ring_wf s'.
Proof.
  intros (Hu & Hn & Hc & Ht & Hh & Hq & _) [H1 H2 H3]. constructor; rewrite ?Hn, ?Hc, ?Ht, ?Hh; assumption.
Qed.

Lemma same_holders_sums s s' : same_holders s s' ->
  (forall x, Ssum s' x = Ssum s x) /\ (forall x, Osum s' x = Osum s x).
Proof.
  intros (Hu & Hn & Hr & Hp & Ho & Hc & Hl & Hh & _).
  split; intros x; unfold Ssum, Osum, cq_ids, guard_ids, guard_ids_of, opbuf_ids, handle_ids;
    rewrite ?Hr, ?Hp, ?Ho, ?Hc, ?Hl, ?Hh; reflexivity.
Qed.

Lemma pinv_id_lt tS tO s x : pinv tS tO s -> 1 <= tot tS tO s x -> x < nbuf s.
Proof.
  intros H H1. destruct (Nat.lt_ge_cases x (nbuf s)) as [Hx|Hx]; [exact Hx|].
  rewrite (p_out _ _ _ H x Hx) in H1. lia.
Qed.

(* a move between holders that leaves the pool itself alone *)
Lemma pinv_shift tS tO tS' tO' s s' :
  pinv tS tO s -> same_pool s s' ->
  (forall x, Ssum s' x + occ x tS' = Ssum s x + occ x tS) ->
  (forall x, Osum s' x + occ x tO' = Osum s x + occ x tO) ->
  (released s = true -> loose s' = [] /\ tS' = []) ->
  pinv tS' tO' s'.
Proof.
  intros H Hsp HS HO Hrel.
  pose proof (same_pool_ring_ids _ _ Hsp) as Hri.
  pose proof Hsp as (Hu & Hn & Hc & Ht & Hh & Hq & Hsl & Hr & Hf).
  constructor.
  - rewrite Hn. apply (p_pow _ _ _ H).
  - intros x Hx. rewrite Hn in Hx. pose proof (p_tot _ _ _ H x Hx) as E.
    unfold tot in *. rewrite Hri, Hf. specialize (HS x). specialize (HO x). lia.
  - intros x Hx. rewrite Hn in Hx. pose proof (p_out _ _ _ H x Hx) as E.
    unfold tot in *. rewrite Hri, Hf. specialize (HS x). specialize (HO x). lia.
  - rewrite Hu, Hr. intros A B. apply (same_pool_ring_wf _ _ Hsp). apply (p_ring _ _ _ H A B).
  - rewrite Hr, Hsl, Hn, Hri. intros A. destruct (p_slots _ _ _ H A) as (L & S). split; [exact L|].
    intros x Hx. rewrite (S x Hx). specialize (HS x). lia.
  - rewrite Hr, Hsl, Hri. intros A. destruct (p_rel _ _ _ H A) as (B & C & D & E).
    destruct (Hrel A) as (F & G). tauto.
  - rewrite Hr, Hf. apply (p_freed _ _ _ H).
Qed.

(* Shared::take on an id whose slot is still Some *)
Lemma pinv_slot_take id tS tO s :
  pinv (id :: tS) tO s -> released s = false ->
  slot_take (slots s) id = Some (set_nth (slots s) id false) /\
  pinv tS (id :: tO) (set_slots s (set_nth (slots s) id false)).
Proof.
  intros H Hr.
  assert (Hid : id < nbuf s).
  { apply (pinv_id_lt _ _ _ _ H). unfold tot. rewrite occ_cons, Nat.eqb_refl. lia. }
  destruct (p_slots _ _ _ H Hr) as (Hlen & Hsl).
  assert (Htrue : nth id (slots s) false = true).
  { apply (Hsl id Hid). rewrite occ_cons, Nat.eqb_refl. lia. }
  split.
  - unfold slot_take. rewrite (nth_error_nth' (slots s) id false) by lia. rewrite Htrue. reflexivity.
  - set (s' := set_slots s (set_nth (slots s) id false)).
    assert (Hri : ring_ids s' = ring_ids s) by reflexivity.
    constructor.
    + apply (p_pow _ _ _ H).
    + intros x Hx. pose proof (p_tot _ _ _ H x Hx) as E. unfold tot in *.
      change (Ssum s' x) with (Ssum s x). change (Osum s' x) with (Osum s x).
      change (freed s') with (freed s). rewrite Hri. rewrite occ_cons in *. lia.
    + intros x Hx. pose proof (p_out _ _ _ H x Hx) as E. unfold tot in *.
      change (Ssum s' x) with (Ssum s x). change (Osum s' x) with (Osum s x).
      change (freed s') with (freed s). rewrite Hri. rewrite occ_cons in *. lia.
    + intros A B. pose proof (p_ring _ _ _ H A B) as [W1 W2 W3]. constructor; assumption.
    + intros _. split; [unfold s', set_slots; cbn [slots nbuf]; rewrite set_nth_length; exact Hlen|].
      intros x Hx. change (Ssum s' x) with (Ssum s x). rewrite Hri.
      change (slots s') with (set_nth (slots s) id false). change (nbuf s') with (nbuf s) in Hx.
      destruct (Nat.eq_dec x id) as [->|Hne].
      * rewrite nth_set_nth_eq by lia.
        pose proof (p_tot _ _ _ H id Hid) as E. unfold tot in E. rewrite occ_cons, Nat.eqb_refl in E.
        split; [discriminate|]. lia.
      * rewrite nth_set_nth_neq by congruence. rewrite (Hsl x Hx). rewrite occ_cons.
        destruct (Nat.eqb_spec x id); [congruence|]. lia.
    + intros A. change (released s') with (released s) in A. congruence.
    + intros _. apply (p_freed _ _ _ H Hr).
Qed.

Lemma pinv_ring_nodup tS tO s : pinv tS tO s -> NoDup (ring_ids s) /\ forall x, In x (ring_ids s) -> x < nbuf s.
Proof.
  intros H. split.
  - apply occ_le1_NoDup. intros x. destruct (Nat.lt_ge_cases x (nbuf s)) as [Hx|Hx].
    + pose proof (p_tot _ _ _ H x Hx) as E. unfold tot in E. lia.
    + pose proof (p_out _ _ _ H x Hx) as E. unfold tot in E. lia.
  - intros x Hx. apply occ_In in Hx. apply (pinv_id_lt _ _ _ _ H). unfold tot. lia.
Qed.

(* an id that is not in the ring leaves room for itself *)
Lemma pinv_ring_room tS tO s id :
  pinv tS tO s -> id < nbuf s -> occ id (ring_ids s) = 0 -> length (ring_ids s) < nbuf s.
Proof.
  intros H Hid Hocc. destruct (pinv_ring_nodup _ _ _ H) as (Hnd & Hlt).
  assert (Hb : length (id :: ring_ids s) <= nbuf s).
  { apply nodup_bound.
    - constructor; [apply occ_zero; exact Hocc|exact Hnd].
    - intros x [<-|Hx]; [exact Hid|apply Hlt; exact Hx]. }
  cbn [length] in Hb. lia.
Qed.

(* Shared::reset / BufferRef::drop of an id whose slot is None *)
Lemma pinv_reset id tS tO s :
  pinv tS (id :: tO) s ->
  exists s', sh_reset s id = Ok s' /\ pinv tS tO s' /\ same_holders s s'.
Proof.
  intros H.
  assert (Hid : id < nbuf s).
  { apply (pinv_id_lt _ _ _ _ H). unfold tot. rewrite occ_cons, Nat.eqb_refl. lia. }
  pose proof (p_tot _ _ _ H id Hid) as Eid. unfold tot in Eid. rewrite occ_cons, Nat.eqb_refl in Eid.
  destruct (released s) eqn:Hr.
  - (* the pool is gone: deallocate *)
    destruct (p_rel _ _ _ H Hr) as (Hsl & Hri & Hlo & HtS).
    exists (set_freed s (freed s ++ [id])). split.
    + unfold sh_reset. rewrite Hsl. destruct id; reflexivity.
    + split; [|repeat split].
      set (s' := set_freed s (freed s ++ [id])).
      assert (Hri' : ring_ids s' = ring_ids s) by reflexivity.
      constructor.
      * apply (p_pow _ _ _ H).
      * intros x Hx. pose proof (p_tot _ _ _ H x Hx) as E. unfold tot in *.
        change (Ssum s' x) with (Ssum s x). change (Osum s' x) with (Osum s x).
        change (freed s') with (freed s ++ [id]). rewrite Hri', occ_app, occ_one. rewrite occ_cons in E. lia.
      * intros x Hx. pose proof (p_out _ _ _ H x Hx) as E. unfold tot in *.
        change (Ssum s' x) with (Ssum s x). change (Osum s' x) with (Osum s x).
        change (freed s') with (freed s ++ [id]). rewrite Hri', occ_app, occ_one. rewrite occ_cons in E. lia.
      * intros _ B. change (released s') with (released s) in B. congruence.
      * intros B. change (released s') with (released s) in B. congruence.
      * intros _. change (slots s') with (slots s). change (loose s') with (loose s). rewrite Hri'. tauto.
      * intros B. change (released s') with (released s) in B. congruence.
  - destruct (p_slots _ _ _ H Hr) as (Hlen & Hsl).
    set (s1 := set_slots s (set_nth (slots s) id true)).
    assert (Hri1 : ring_ids s1 = ring_ids s) by reflexivity.
    assert (Hocc : occ id (ring_ids s) = 0) by lia.
    pose proof (pinv_ring_room _ _ _ _ H Hid Hocc) as Hroom.
    assert (Hne : nth_error (slots s) id = Some (nth id (slots s) false)) by (apply nth_error_nth'; lia).
    (* what the ring / queue becomes *)
    assert (Hpush : exists s', ctrl_reset s1 id = Ok s' /\ ring_ids s' = ring_ids s ++ [id] /\
                    (uring s = true -> ring_wf s') /\ same_holders s s' /\
                    slots s' = set_nth (slots s) id true /\ freed s' = freed s).
    { destruct (uring s) eqn:Hu.
      - pose proof (p_ring _ _ _ H Hu Hr) as Hwf.
        assert (Hwf1 : ring_wf s1) by (destruct Hwf as [A B C]; constructor; assumption).
        destruct (ring_push s1 id (p_pow _ _ _ H) Hu Hwf1 ltac:(rewrite Hri1; exact Hroom)) as (A & B & C).
        eexists. split; [exact A|]. split; [rewrite B, Hri1; reflexivity|]. split; [intros _; exact C|].
        split; [repeat split|split; reflexivity].
      - exists (set_queue s1 (queue s1 ++ [id])). split.
        + unfold ctrl_reset. change (uring s1) with (uring s). rewrite Hu. reflexivity.
        + split; [|split; [discriminate|split; [repeat split|split; reflexivity]]].
          unfold ring_ids. cbn [uring set_queue set_slots s1 queue]. rewrite Hu. reflexivity. }
    destruct Hpush as (s' & Hcode & Hri' & Hwf' & Hsh & Hsl' & Hfr').
    exists s'. split.
    + unfold sh_reset. rewrite Hne. exact Hcode.
    + split; [|exact Hsh].
      destruct (same_holders_sums _ _ Hsh) as (HS & HO).
      pose proof Hsh as (Hu' & Hn' & Hr' & _).
      constructor.
      * rewrite Hn'. apply (p_pow _ _ _ H).
      * intros x Hx. rewrite Hn' in Hx. pose proof (p_tot _ _ _ H x Hx) as E. unfold tot in *.
        rewrite HS, HO, Hri', Hfr', occ_app, occ_one. rewrite occ_cons in E. lia.
      * intros x Hx. rewrite Hn' in Hx. pose proof (p_out _ _ _ H x Hx) as E. unfold tot in *.
        rewrite HS, HO, Hri', Hfr', occ_app, occ_one. rewrite occ_cons in E. lia.
      * rewrite Hu'. intros A _. apply Hwf'. exact A.
      * intros _. rewrite Hsl', Hn', set_nth_length. split; [exact Hlen|].
        intros x Hx. rewrite HS, Hri', occ_app, occ_one.
        destruct (Nat.eq_dec x id) as [->|Hne'].
        -- rewrite nth_set_nth_eq by lia. rewrite Nat.eqb_refl. split; [lia|reflexivity].
        -- rewrite nth_set_nth_neq by congruence. rewrite (Hsl x Hx).
           destruct (Nat.eqb_spec x id); [congruence|]. lia.
      * rewrite Hr'. congruence.
      * intros _. rewrite Hfr'. apply (p_freed _ _ _ H Hr).
Qed.

(* the kernel consumes the ring head *)
Lemma pinv_ring_pop tS tO s :
  pinv tS tO s -> uring s = true -> released s = false ->
  match ring_ids s with
  | [] => kernel_select s = None
  | id :: _ =>
    exists s', kernel_select s = Some (id, s') /\ pinv (id :: tS) tO s' /\ same_holders s s' /\
               slots s' = slots s
  end.
Proof.
  intros H Hu Hr. pose proof (p_ring _ _ _ H Hu Hr) as Hwf.
  pose proof (ring_pop s (p_pow _ _ _ H) Hu Hwf) as Hpop.
  destruct (ring_ids s) as [|id r] eqn:E; [exact Hpop|].
  destruct Hpop as (Hk & Hri' & Hwf').
  eexists. split; [exact Hk|].
  set (s' := set_ring s (cells s) (tail s) (u16_wrapping_add (head s) 1)) in *.
  split; [|split; [repeat split|reflexivity]].
  constructor.
  - apply (p_pow _ _ _ H).
  - intros x Hx. pose proof (p_tot _ _ _ H x Hx) as T. unfold tot in *.
    change (Ssum s' x) with (Ssum s x). change (Osum s' x) with (Osum s x). change (freed s') with (freed s).
    rewrite Hri'. rewrite E in T. rewrite occ_cons in *. lia.
  - intros x Hx. pose proof (p_out _ _ _ H x Hx) as T. unfold tot in *.
    change (Ssum s' x) with (Ssum s x). change (Osum s' x) with (Osum s x). change (freed s') with (freed s).
    rewrite Hri'. rewrite E in T. rewrite occ_cons in *. lia.
  - intros _ _. exact Hwf'.
  - intros _. destruct (p_slots _ _ _ H Hr) as (L & S). split; [exact L|].
    intros x Hx. change (slots s') with (slots s). change (Ssum s' x) with (Ssum s x).
    rewrite (S x Hx), Hri', E. rewrite !occ_cons. lia.
  - intros A. change (released s') with (released s) in A. congruence.
  - intros _. apply (p_freed _ _ _ H Hr).
Qed.

(* fallback: ctrl.pop takes the queue front *)
Lemma pinv_queue_pop id q tS tO s :
  pinv tS tO s -> uring s = false -> queue s = id :: q ->
  released s = false /\ pinv (id :: tS) tO (set_queue s q).
Proof.
  intros H Hu Hq.
  assert (Hri : ring_ids s = id :: q) by (rewrite ring_ids_fallback by exact Hu; exact Hq).
  assert (Hr : released s = false).
  { destruct (released s) eqn:Hr; [|reflexivity]. destruct (p_rel _ _ _ H Hr) as (_ & B & _). congruence. }
  split; [exact Hr|].
  set (s' := set_queue s q).
  assert (Hri' : ring_ids s' = q) by (unfold ring_ids, s', set_queue; cbn [uring queue]; rewrite Hu; reflexivity).
  constructor.
  - apply (p_pow _ _ _ H).
  - intros x Hx. pose proof (p_tot _ _ _ H x Hx) as T. unfold tot in *.
    change (Ssum s' x) with (Ssum s x). change (Osum s' x) with (Osum s x). change (freed s') with (freed s).
    rewrite Hri'. rewrite Hri in T. rewrite occ_cons in *. lia.
  - intros x Hx. pose proof (p_out _ _ _ H x Hx) as T. unfold tot in *.
    change (Ssum s' x) with (Ssum s x). change (Osum s' x) with (Osum s x). change (freed s') with (freed s).
    rewrite Hri'. rewrite Hri in T. rewrite occ_cons in *. lia.
  - intros A. change (uring s') with (uring s) in A. congruence.
  - intros _. destruct (p_slots _ _ _ H Hr) as (L & S). split; [exact L|].
    intros x Hx. change (slots s') with (slots s). change (Ssum s' x) with (Ssum s x).
    rewrite (S x Hx), Hri', Hri. rewrite !occ_cons. lia.
  - intros A. change (released s') with (released s) in A. congruence.
  - intros _. apply (p_freed _ _ _ H Hr).
Qed.

Lemma pinv_reset_all ids : forall tS tO s,
  pinv tS (ids ++ tO) s ->
  exists s', reset_all s ids = Ok s' /\ pinv tS tO s' /\ same_holders s s'.
Proof.
  induction ids as [|id r IH]; intros tS tO s H.
  - exists s. split; [reflexivity|]. split; [exact H|repeat split].
  - cbn [app] in H. destruct (pinv_reset id tS (r ++ tO) s H) as (s1 & E1 & P1 & H1).
    destruct (IH tS tO s1 P1) as (s2 & E2 & P2 & H2).
    exists s2. split; [cbn [reset_all]; rewrite E1; cbn [rbind]; exact E2|]. split; [exact P2|].
    destruct H1 as (a1&a2&a3&a4&a5&a6&a7&a8&a9). destruct H2 as (b1&b2&b3&b4&b5&b6&b7&b8&b9).
    repeat split; congruence.
Qed.

(* Proactor::drop: every buffer still in its slot is deallocated *)
Lemma occ_filter_seq (f : nat -> bool) n x :
  occ x (filter f (seq 0 n)) = if Nat.ltb x n then (if f x then 1 else 0) else 0.
Proof.
  induction n as [|n IH].
  - reflexivity.
  - rewrite seq_S, filter_app, occ_app, IH. cbn [plus filter].
    destruct (Nat.ltb_spec x n) as [H|H]; destruct (Nat.ltb_spec x (S n)) as [H'|H']; try lia.
    + destruct (f n); rewrite ?occ_one, ?occ_nil; destruct (Nat.eqb_spec x n); lia.
    + assert (x = n) by lia. subst x. destruct (f n); rewrite ?occ_one, ?occ_nil, ?Nat.eqb_refl; lia.
    + destruct (f n); rewrite ?occ_one, ?occ_nil; destruct (Nat.eqb_spec x n); lia.
Qed.

Lemma flat_map_const_nil {A} (l : list A) : flat_map (fun _ : A => @nil nat) l = [].
Proof. induction l as [|a l IH]; [reflexivity|cbn [flat_map app]; exact IH]. Qed.

Lemma pinv_release s :
  pinv [] [] s -> released s = false ->
  exists s', step s LRelease = Some (Ok s') /\ pinv [] [] s' /\
             ops s' = ops s /\ cq s' = cq s /\ released s' = true /\ nbuf s' = nbuf s /\ uring s' = uring s.
Proof.
  intros H Hr. cbn [step]. rewrite Hr. eexists. split; [reflexivity|].
  set (dead := filter (fun id => nth id (slots s) false) (seq 0 (length (slots s)))).
  set (s' := mk_st _ _ _ _ _ _ _ _ _ _ _ _ _ _ _).
  destruct (p_slots _ _ _ H Hr) as (Hlen & Hsl).
  pose proof (p_freed _ _ _ H Hr) as Hfr.
  assert (Hri' : ring_ids s' = []).
  { unfold ring_ids, ring_count, s'. cbn [uring tail head queue cells]. destruct (uring s); [|reflexivity].
    replace ((head s + U16 - head s) mod U16)%N with 0%N; [reflexivity|].
    replace (head s + U16 - head s)%N with (0 + 1 * U16)%N by lia.
    rewrite N.mod_add by discriminate. reflexivity. }
  assert (HS' : forall x, Ssum s' x = 0).
  { intros x. unfold Ssum, cq_ids, guard_ids, guard_ids_of, s'. cbn [released cq ops loose].
    rewrite !occ_nil. rewrite flat_map_const_nil. reflexivity. }
  assert (HO' : forall x, Osum s' x = Osum s x) by reflexivity.
  assert (Hdead : forall x, occ x dead = if Nat.ltb x (nbuf s) then (if nth x (slots s) false then 1 else 0) else 0).
  { intros x. unfold dead. rewrite occ_filter_seq, Hlen. reflexivity. }
  split; [|repeat split].
  constructor.
  - apply (p_pow _ _ _ H).
  - intros x Hx. change (nbuf s') with (nbuf s) in Hx. pose proof (p_tot _ _ _ H x Hx) as T.
    unfold tot in *. rewrite Hri', HS', HO'. change (freed s') with (freed s ++ dead).
    rewrite occ_app, Hdead, Hfr, !occ_nil in *. destruct (Nat.ltb_spec x (nbuf s)); [|lia].
    pose proof (Hsl x Hx) as I. rewrite occ_nil in I.
    destruct (nth x (slots s) false).
    + assert (1 <= occ x (ring_ids s) + Ssum s x + 0) by (apply I; reflexivity). lia.
    + assert (~ 1 <= occ x (ring_ids s) + Ssum s x + 0) by (intros A; apply I in A; discriminate). lia.
  - intros x Hx. change (nbuf s') with (nbuf s) in Hx. pose proof (p_out _ _ _ H x Hx) as T.
    unfold tot in *. rewrite Hri', HS', HO'. change (freed s') with (freed s ++ dead).
    rewrite occ_app, Hdead, Hfr, !occ_nil in *. destruct (Nat.ltb_spec x (nbuf s)); lia.
  - intros _ A. discriminate.
  - intros A. discriminate.
  - intros _. rewrite Hri'. repeat split.
  - intros A. discriminate.
Qed.

(* ---------------------------------------------------------------------- *)
(* the holder-side invariant                                               *)

Record hinv (s : st) : Prop := mk_hinv {
  h_cq : Forall (fun c => c_op c < length (ops s)) (cq s);
  h_infl : Forall (fun o => o_inflight o = true -> o_kdone o = false) (ops s);
  h_kd : released s = false ->
         forall k o, nth_error (ops s) k = Some o -> o_kdone o = true -> o_res o = None ->
         exists c, In c (cq s) /\ c_op c = k /\ c_more c = false
}.

Definition inv (s : st) : Prop := pinv [] [] s /\ hinv s.

Lemma hinv_same s s' :
  ops s' = ops s -> cq s' = cq s -> released s' = released s -> hinv s -> hinv s'.
Proof.
  intros Ho Hc Hr [A B C]. constructor; rewrite ?Ho, ?Hc, ?Hr; assumption.
Qed.

Lemma hinv_same_holders s s' : same_holders s s' -> hinv s -> hinv s'.
Proof.
  intros (_ & _ & Hr & _ & Ho & Hc & _). apply hinv_same; assumption.
Qed.

Lemma Forall_set_nth {A} (P : A -> Prop) l k x : Forall P l -> P x -> Forall P (set_nth l k x).
Proof.
  revert k; induction l as [|a l IH]; intros [|k] H Hx; cbn [set_nth]; auto; inversion H; subst; constructor; auto.
Qed.

(* an update that keeps the kernel-side flags and the result of operation k *)
Lemma hinv_upd_same s k o o' :
  nth_error (ops s) k = Some o ->
  o_inflight o' = o_inflight o -> o_kdone o' = o_kdone o -> o_res o' = o_res o ->
  hinv s -> hinv (upd_op s k o').
Proof.
  intros Hk Hi Hd Hr [A B C].
  assert (Hin : In o (ops s)) by (eapply nth_error_In; eauto).
  constructor.
  - unfold upd_op, set_ops. cbn [cq ops]. rewrite set_nth_length. exact A.
  - unfold upd_op, set_ops. cbn [ops]. apply Forall_set_nth; [exact B|].
    rewrite Hi, Hd. rewrite Forall_forall in B. apply B. exact Hin.
  - unfold upd_op, set_ops. cbn [released cq ops]. intros R k' o1 Hk' Hd' Hr'.
    destruct (Nat.eq_dec k k') as [<-|Hne].
    + rewrite set_nth_eq in Hk' by (apply nth_error_Some; congruence). injection Hk' as <-.
      apply (C R k o Hk); congruence.
    + rewrite set_nth_neq in Hk' by exact Hne. apply (C R k' o1 Hk' Hd' Hr').
Qed.

Lemma sh_reset_holders s id s' : sh_reset s id = Ok s' -> same_holders s s'.
Proof.
  unfold sh_reset. destruct (nth_error (slots s) id).
  - unfold ctrl_reset. cbn [uring set_slots]. destruct (uring s).
    + unfold add_buffer. destruct (ring_idx _ _ _) as [idx|c]; cbn [rbind]; [|discriminate].
      destruct (Nat.ltb _ _); cbn [rbind]; [|discriminate].
      intros E. injection E as <-. repeat split.
    + intros E. injection E as <-. repeat split.
  - intros E. injection E as <-. repeat split.
Qed.

Lemma nth_error_lt {A} (l : list A) k x : nth_error l k = Some x -> k < length l.
Proof. intros H. apply nth_error_Some. congruence. Qed.

(* sums after replacing operation k *)
Lemma sums_upd_op s k o o' x :
  nth_error (ops s) k = Some o ->
  Ssum (upd_op s k o') x + occ x (guard_ids_of s o) = Ssum s x + occ x (guard_ids_of s o') /\
  Osum (upd_op s k o') x + occ x (o_buf o) = Osum s x + occ x (o_buf o').
Proof.
  intros Hk. unfold Ssum, Osum, guard_ids, opbuf_ids, upd_op, set_ops.
  cbn [cq_ids cq released ops loose pend handle_ids handles].
  change (cq_ids (mk_st (uring s) (nbuf s) (cells s) (tail s) (head s) (queue s) (slots s) (released s)
                        (pend s) (set_nth (ops s) k o') (cq s) (loose s) (handles s) (freed s) (nbusy s)))
    with (cq_ids s).
  change (handle_ids (mk_st (uring s) (nbuf s) (cells s) (tail s) (head s) (queue s) (slots s) (released s)
                        (pend s) (set_nth (ops s) k o') (cq s) (loose s) (handles s) (freed s) (nbusy s)))
    with (handle_ids s).
  change (guard_ids_of (mk_st (uring s) (nbuf s) (cells s) (tail s) (head s) (queue s) (slots s) (released s)
                        (pend s) (set_nth (ops s) k o') (cq s) (loose s) (handles s) (freed s) (nbusy s)))
    with (guard_ids_of s).
  pose proof (occ_flat_map_set_nth (guard_ids_of s) (ops s) k o o' x Hk).
  pose proof (occ_flat_map_set_nth o_buf (ops s) k o o' x Hk).
  lia.
Qed.

Lemma same_pool_upd_op s k o : same_pool s (upd_op s k o).
Proof. repeat split. Qed.

Lemma same_pool_refl s : same_pool s s.
Proof. repeat split. Qed.

(* ====================================================================== *)
(* 5. every label preserves the invariant and never panics                 *)

Ltac occs := rewrite ?occ_app, ?occ_cons, ?occ_nil.
Tactic Notation "occs" "in" hyp(H) := rewrite ?occ_app, ?occ_cons, ?occ_nil in H.

Definition good (s : st) (r : option (R st)) : Prop :=
  match r with
  | Some (Ok s') => inv s'
  | Some (Panic _) => False
  | None => True
  end.

Lemma step_LPop s : inv s -> good s (step s LPop).
Proof.
  intros (P & Hh). cbn [step]. destruct (released s) eqn:Hr; [exact I|].
  destruct (uring s) eqn:Hu; [split; assumption|].
  destruct (queue s) as [|id q] eqn:Hq.
  - cbn [good]. split.
    + apply (pinv_shift [] [] [] [] s _ P).
      * repeat split.
      * intros x; reflexivity.
      * intros x; reflexivity.
      * intros A; congruence.
    + eapply hinv_same; try exact Hh; reflexivity.
  - destruct (pinv_queue_pop id q [] [] s P Hu Hq) as (_ & P1).
    destruct (pinv_slot_take id [] [] (set_queue s q) P1 Hr) as (E & P2).
    change (slots (set_queue s q)) with (slots s) in E, P2. rewrite E. cbn [good]. split.
    + apply (pinv_shift [] [id] [] [] _ _ P2).
      * repeat split.
      * intros x; reflexivity.
      * intros x. unfold Osum.
        change (opbuf_ids (set_pend _ _)) with (opbuf_ids s). change (handle_ids (set_pend _ _)) with (handle_ids s).
        change (opbuf_ids (set_slots _ _)) with (opbuf_ids s). change (handle_ids (set_slots _ _)) with (handle_ids s).
        cbn [pend set_pend set_slots set_queue]. rewrite occ_app, !occ_one, occ_nil. lia.
      * cbn [released set_slots set_queue]. intros A; congruence.
    + eapply hinv_same; try exact Hh; reflexivity.
Qed.

Lemma good_reset s s1 id : pinv [] [id] s1 -> hinv s1 -> good s (Some (sh_reset s1 id)).
Proof.
  intros P Hh. destruct (pinv_reset id [] [] s1 P) as (s' & E & P' & Hs). rewrite E. cbn [good].
  split; [exact P'|eapply hinv_same_holders; eauto].
Qed.

Lemma step_LPendDrop s : inv s -> good s (step s LPendDrop).
Proof.
  intros (P & Hh). cbn [step]. destruct (pend s) as [|id p] eqn:Hp; [exact I|].
  apply good_reset.
  - apply (pinv_shift [] [] [] [id] s _ P).
    + repeat split.
    + intros x; reflexivity.
    + intros x. unfold Osum.
      change (opbuf_ids (set_pend s p)) with (opbuf_ids s). change (handle_ids (set_pend s p)) with (handle_ids s).
      cbn [pend set_pend]. rewrite Hp. occs. lia.
    + intros A. destruct (p_rel _ _ _ P A) as (_ & _ & B & _). split; [exact B|reflexivity].
  - eapply hinv_same; try exact Hh; reflexivity.
Qed.

Lemma step_LOpNew s : inv s -> good s (step s LOpNew).
Proof.
  intros (P & Hh). cbn [step good]. split.
  - apply (pinv_shift [] [] [] [] s _ P).
    + repeat split.
    + intros x. unfold Ssum, guard_ids.
      change (cq_ids (set_pend _ _)) with (cq_ids s).
      change (guard_ids_of (set_pend _ _)) with (guard_ids_of s).
      cbn [set_pend set_ops ops loose].
      rewrite flat_map_app, occ_app. cbn [flat_map app].
      change (guard_ids_of s (new_op (pend s))) with (if released s then [] else @nil nat).
      rewrite app_nil_r.
      replace (occ x (if released s then [] else [])) with 0 by (destruct (released s); reflexivity).
      lia.
    + intros x. unfold Osum, opbuf_ids.
      change (handle_ids (set_pend _ _)) with (handle_ids s). cbn [set_pend set_ops ops pend].
      rewrite flat_map_app. cbn [flat_map app new_op o_buf]. rewrite app_nil_r. occs. lia.
    + intros A. destruct (p_rel _ _ _ P A) as (_ & _ & B & _). split; [exact B|reflexivity].
  - destruct Hh as [A B C]. constructor.
    + cbn [set_pend set_ops cq ops]. rewrite app_length. eapply Forall_impl; [|exact A]. intros c Hc. cbn in *. lia.
    + cbn [set_pend set_ops ops]. apply Forall_app. split; [exact B|]. constructor; [discriminate|constructor].
    + cbn [set_pend set_ops ops released cq]. intros R k o Hk Hd Hr.
      destruct (Nat.lt_ge_cases k (length (ops s))) as [Hlt|Hge].
      * rewrite nth_error_app1 in Hk by exact Hlt. apply (C R k o Hk Hd Hr).
      * rewrite nth_error_app2 in Hk by exact Hge. destruct (k - length (ops s)) as [|j].
        -- injection Hk as <-. discriminate.
        -- destruct j; discriminate.
Qed.

Lemma step_LSubmit s k : inv s -> good s (step s (LSubmit k)).
Proof.
  intros (P & Hh). cbn [step]. destruct (nth_error (ops s) k) as [o|] eqn:Hk; [|exact I].
  destruct (o_inflight o || o_kdone o || released s) eqn:Hc; [exact I|].
  apply Bool.orb_false_elim in Hc. destruct Hc as (Hc & Hr). apply Bool.orb_false_elim in Hc. destruct Hc as (Hi & Hd).
  cbn [good]. split.
  - apply (pinv_shift [] [] [] [] s _ P).
    + apply same_pool_upd_op.
    + intros x. pose proof (sums_upd_op s k o (mk_op true false (o_buf o) (o_q o) (o_res o)) x Hk) as (A & _).
      unfold guard_ids_of in A. cbn [o_q] in A. lia.
    + intros x. pose proof (sums_upd_op s k o (mk_op true false (o_buf o) (o_q o) (o_res o)) x Hk) as (_ & A).
      cbn [o_buf] in A. lia.
    + intros A. congruence.
  - destruct Hh as [A B C]. constructor.
    + unfold upd_op, set_ops. cbn [cq ops]. rewrite set_nth_length. exact A.
    + unfold upd_op, set_ops. cbn [ops]. apply Forall_set_nth; [exact B|]. reflexivity.
    + unfold upd_op, set_ops. cbn [released cq ops]. intros R k' o1 Hk' Hd' Hr'.
      destruct (Nat.eq_dec k k') as [<-|Hne].
      * rewrite set_nth_eq in Hk' by (eapply nth_error_lt; eauto). injection Hk' as <-. discriminate.
      * rewrite set_nth_neq in Hk' by exact Hne. apply (C R k' o1 Hk' Hd' Hr').
Qed.

Lemma handle_ids_drop (l : list (option nat)) h id x :
  nth_error l h = Some (Some id) ->
  occ x (opt_ids (set_nth l h None)) + occ x [id] = occ x (opt_ids l).
Proof.
  intros H. unfold opt_ids.
  pose proof (occ_flat_map_set_nth (fun e : option nat => match e with Some i => [i] | None => [] end)
                                   l h (Some id) None x H) as E.
  cbn beta iota in E. rewrite occ_nil in E. lia.
Qed.

Lemma step_LDropHandle s h : inv s -> good s (step s (LDropHandle h)).
Proof.
  intros (P & Hh). cbn [step]. unfold live_handle.
  destruct (nth_error (handles s) h) as [[id|]|] eqn:Hn; try exact I.
  apply good_reset.
  - apply (pinv_shift [] [] [] [id] s _ P).
    + repeat split.
    + intros x; reflexivity.
    + intros x. unfold Osum, handle_ids.
      change (opbuf_ids (set_handles _ _)) with (opbuf_ids s). cbn [pend handles set_handles].
      pose proof (handle_ids_drop (handles s) h id x Hn) as E. occs in E. occs. lia.
    + intros A. destruct (p_rel _ _ _ P A) as (_ & _ & B & _). split; [exact B|reflexivity].
  - eapply hinv_same; try exact Hh; reflexivity.
Qed.

Lemma step_LOpBufDrop s k : inv s -> good s (step s (LOpBufDrop k)).
Proof.
  intros (P & Hh). cbn [step]. destruct (nth_error (ops s) k) as [o|] eqn:Hk; [|exact I].
  destruct (op_free s o); cbn [negb]; [|exact I].
  destruct (o_buf o) as [|id b] eqn:Hb; [exact I|].
  apply good_reset.
  - apply (pinv_shift [] [] [] [id] s _ P).
    + apply same_pool_upd_op.
    + intros x. pose proof (sums_upd_op s k o (mk_op (o_inflight o) (o_kdone o) b (o_q o) (o_res o)) x Hk) as (A & _).
      unfold guard_ids_of in A. cbn [o_q] in A. lia.
    + intros x. pose proof (sums_upd_op s k o (mk_op (o_inflight o) (o_kdone o) b (o_q o) (o_res o)) x Hk) as (_ & A).
      cbn [o_buf] in A. rewrite Hb in A. occs in A. occs. lia.
    + intros A. destruct (p_rel _ _ _ P A) as (_ & _ & B & _). split; [exact B|reflexivity].
  - apply (hinv_upd_same s k o); try assumption; reflexivity.
Qed.

Lemma step_LOpMove s k : inv s -> good s (step s (LOpMove k)).
Proof.
  intros (P & Hh). cbn [step]. destruct (nth_error (ops s) k) as [o|] eqn:Hk; [|exact I].
  destruct (op_free s o); cbn [negb]; [|exact I].
  cbn [good]. split.
  - set (o' := mk_op (o_inflight o) (o_kdone o) [] (o_q o) (o_res o)).
    apply (pinv_shift [] [] [] [] s _ P).
    + repeat split.
    + intros x. pose proof (sums_upd_op s k o o' x Hk) as (A & _).
      unfold guard_ids_of in A. cbn [o_q o'] in A.
      change (Ssum (set_handles (upd_op s k o') _) x) with (Ssum (upd_op s k o') x). lia.
    + intros x. pose proof (sums_upd_op s k o o' x Hk) as (_ & A). cbn [o_buf o'] in A.
      unfold Osum in *. unfold handle_ids in *. cbn [handles set_handles pend].
      change (opbuf_ids (set_handles (upd_op s k o') _)) with (opbuf_ids (upd_op s k o')).
      change (pend (upd_op s k o')) with (pend s) in *. change (handles (upd_op s k o')) with (handles s) in *.
      rewrite opt_ids_app, opt_ids_map_Some. occs in A. occs. lia.
    + intros A. destruct (p_rel _ _ _ P A) as (_ & _ & B & _). split; [exact B|reflexivity].
  - eapply (hinv_same (upd_op s k _)); [reflexivity|reflexivity|reflexivity|].
    apply (hinv_upd_same s k o); try assumption; reflexivity.
Qed.

Lemma step_LPopMs s k : inv s -> good s (step s (LPopMs k)).
Proof.
  intros (P & Hh). cbn [step]. destruct (released s) eqn:Hr; [exact I|].
  destruct (nth_error (ops s) k) as [o|] eqn:Hk; [|exact I].
  destruct (o_q o) as [|e q] eqn:Hq; [exact I|].
  set (o' := mk_op (o_inflight o) (o_kdone o) (o_buf o) q (o_res o)).
  assert (Hh' : hinv (upd_op s k o')) by (apply (hinv_upd_same s k o); try assumption; reflexivity).
  pose proof (fun x => sums_upd_op s k o o' x Hk) as Hsum.
  unfold guard_ids_of in Hsum. rewrite Hr, Hq in Hsum. cbn [o_q o_buf o'] in Hsum.
  cbn [good]. destruct e as [id|].
  - split.
    + apply (pinv_shift [] [] [] [] s _ P).
      * repeat split.
      * intros x. destruct (Hsum x) as (A & _).
        change (opt_ids (Some id :: q)) with ([id] ++ opt_ids q) in A. occs in A.
        unfold Ssum in *. cbn [loose set_loose].
        change (cq_ids (set_loose _ _)) with (cq_ids (upd_op s k o')).
        change (guard_ids (set_loose _ _)) with (guard_ids (upd_op s k o')).
        change (loose (upd_op s k o')) with (loose s) in *. occs. lia.
      * intros x. destruct (Hsum x) as (_ & A).
        change (Osum (set_loose (upd_op s k o') _) x) with (Osum (upd_op s k o') x). lia.
      * intros A. congruence.
    + eapply (hinv_same (upd_op s k o')); try exact Hh'; reflexivity.
  - split; [|exact Hh'].
    apply (pinv_shift [] [] [] [] s _ P).
    + apply same_pool_upd_op.
    + intros x. destruct (Hsum x) as (A & _). change (opt_ids (None :: q)) with (opt_ids q) in A. lia.
    + intros x. destruct (Hsum x) as (_ & A). lia.
    + intros A. congruence.
Qed.

Lemma step_LTakeLoose s id : inv s -> good s (step s (LTakeLoose id)).
Proof.
  intros (P & Hh). cbn [step]. destruct (released s) eqn:Hr; [exact I|].
  destruct (mem id (loose s)) eqn:Hm; cbn [negb orb]; [|exact I].
  set (s1 := set_loose s (remove_one id (loose s))).
  assert (P1 : pinv [id] [] s1).
  { apply (pinv_shift [] [] [id] [] s _ P).
    - repeat split.
    - intros x. unfold Ssum. change (cq_ids s1) with (cq_ids s). change (guard_ids s1) with (guard_ids s).
      cbn [loose s1 set_loose]. pose proof (occ_remove_one x id (loose s) Hm). occs. lia.
    - intros x; reflexivity.
    - intros A; congruence. }
  destruct (pinv_slot_take id [] [] s1 P1 Hr) as (E & P2). rewrite E. cbn [good]. split.
  - apply (pinv_shift [] [id] [] [] _ _ P2).
    + repeat split.
    + intros x; reflexivity.
    + intros x. unfold Osum, handle_ids. cbn [handles set_handles pend set_slots].
      change (opbuf_ids (set_handles _ _)) with (opbuf_ids s1). change (opbuf_ids (set_slots _ _)) with (opbuf_ids s1).
      rewrite opt_ids_app. change (opt_ids [Some id]) with [id]. occs. lia.
    + intros A. cbn [released set_slots s1 set_loose] in A. congruence.
  - eapply hinv_same; try exact Hh; reflexivity.
Qed.

Lemma cq_ids_app s c : released s = false ->
  cq_ids (set_cq s (cq s ++ [c])) = cq_ids s ++ match c_id c with Some i => [i] | None => [] end.
Proof.
  intros Hr. unfold cq_ids. cbn [released set_cq cq]. rewrite Hr, map_app, opt_ids_app. cbn [map opt_ids flat_map].
  rewrite app_nil_r. reflexivity.
Qed.

Lemma hinv_kernel s s1 k o oid more r :
  hinv s -> ops s1 = ops s -> cq s1 = cq s -> released s1 = released s ->
  nth_error (ops s) k = Some o -> o_kdone o = false ->
  hinv (set_cq (upd_op s1 k (mk_op (o_inflight o && more) (negb more) (o_buf o) (o_q o) (o_res o)))
               (cq s1 ++ [mk_cqe k oid more r])).
Proof.
  intros [A B C] Ho Hc Hr Hk Hd.
  pose proof (nth_error_lt _ _ _ Hk) as Hlt.
  constructor.
  - unfold upd_op, set_ops, set_cq. cbn [cq ops]. rewrite Ho, Hc, set_nth_length.
    apply Forall_app. split; [exact A|]. constructor; [exact Hlt|constructor].
  - unfold upd_op, set_ops, set_cq. cbn [ops]. rewrite Ho. apply Forall_set_nth; [exact B|].
    cbn [o_inflight o_kdone]. destruct more; [reflexivity|]. rewrite Bool.andb_false_r. discriminate.
  - unfold upd_op, set_ops, set_cq. cbn [released cq ops]. rewrite Ho, Hc, Hr. intros R k' o1 Hk' Hd' Hr'.
    destruct (Nat.eq_dec k k') as [<-|Hne].
    + rewrite set_nth_eq in Hk' by exact Hlt. injection Hk' as <-. cbn [o_kdone] in Hd'.
      exists (mk_cqe k oid more r). split; [apply in_or_app; right; left; reflexivity|].
      split; [reflexivity|]. cbn [c_more]. destruct more; [discriminate|reflexivity].
    + rewrite set_nth_neq in Hk' by exact Hne. destruct (C R k' o1 Hk' Hd' Hr') as (c & Hin & E1 & E2).
      exists c. split; [apply in_or_app; left; exact Hin|]. split; assumption.
Qed.

Lemma step_LKernel s k sel more r : inv s -> good s (step s (LKernel k sel more r)).
Proof.
  intros (P & Hh). cbn [step]. destruct (nth_error (ops s) k) as [o|] eqn:Hk; [|exact I].
  destruct (o_kdone o) eqn:Hd; cbn [orb]; [exact I|].
  destruct (uring s && negb (o_inflight o)); [exact I|].
  set (o' := mk_op (o_inflight o && more) (negb more) (o_buf o) (o_q o) (o_res o)).
  destruct sel.
  - destruct (uring s) eqn:Hu; cbn [negb orb]; [|exact I].
    destruct (released s) eqn:Hr; cbn [orb]; [exact I|].
    destruct (rescls_eqb r RNoBufs); [exact I|].
    pose proof (pinv_ring_pop [] [] s P Hu Hr) as Hpop.
    destruct (ring_ids s) as [|id rest] eqn:Hri.
    + rewrite Hpop. exact I.
    + destruct Hpop as (s1 & Hks & P1 & Hsh & Hsl). rewrite Hks. cbn [good].
      pose proof Hsh as (Hu1 & Hn1 & Hr1 & Hp1 & Ho1 & Hc1 & Hl1 & Hh1 & Hb1).
      assert (Hk1 : nth_error (ops s1) k = Some o) by (rewrite Ho1; exact Hk).
      split.
      * apply (pinv_shift [id] [] [] [] s1 _ P1).
        -- repeat split.
        -- intros x. pose proof (sums_upd_op s1 k o o' x Hk1) as (A & _).
           unfold guard_ids_of in A. cbn [o_q o'] in A.
           unfold Ssum in *.
           change (guard_ids (set_cq (upd_op s1 k o') _)) with (guard_ids (upd_op s1 k o')).
           change (loose (set_cq (upd_op s1 k o') _)) with (loose (upd_op s1 k o')).
           change (cq s1) with (cq (upd_op s1 k o')).
           rewrite (cq_ids_app (upd_op s1 k o')) by (cbn [released upd_op set_ops]; congruence).
           cbn [c_id]. occs. lia.
        -- intros x. pose proof (sums_upd_op s1 k o o' x Hk1) as (_ & A). cbn [o_buf o'] in A.
           change (Osum (set_cq (upd_op s1 k o') _) x) with (Osum (upd_op s1 k o') x). lia.
        -- intros A. congruence.
      * apply (hinv_kernel s s1 k o (Some id) more r); assumption.
  - destruct (rescls_eqb r RNoBufs && negb (uring s && ring_empty s && negb more)); [exact I|].
    destruct (rescls_eqb r ROk && uring s); [exact I|].
    cbn [good]. split.
    + apply (pinv_shift [] [] [] [] s _ P).
      * repeat split.
      * intros x. pose proof (sums_upd_op s k o o' x Hk) as (A & _).
        unfold guard_ids_of in A. cbn [o_q o'] in A. unfold Ssum in *.
        change (guard_ids (set_cq (upd_op s k o') _)) with (guard_ids (upd_op s k o')).
        change (loose (set_cq (upd_op s k o') _)) with (loose (upd_op s k o')).
        destruct (released s) eqn:Hr.
        -- unfold cq_ids in *. cbn [released set_cq upd_op set_ops] in *. rewrite Hr in *. lia.
        -- change (cq s) with (cq (upd_op s k o')).
           rewrite (cq_ids_app (upd_op s k o')) by (cbn [released upd_op set_ops]; congruence).
           cbn [c_id]. occs. lia.
      * intros x. pose proof (sums_upd_op s k o o' x Hk) as (_ & A). cbn [o_buf o'] in A.
        change (Osum (set_cq (upd_op s k o') _) x) with (Osum (upd_op s k o') x). lia.
      * intros A. destruct (p_rel _ _ _ P A) as (_ & _ & B & _). split; [exact B|reflexivity].
    + apply (hinv_kernel s s k o None more r); try assumption; reflexivity.
Qed.

Lemma step_LCqDrain s : inv s -> good s (step s LCqDrain).
Proof.
  intros (P & Hh). cbn [step]. destruct (released s) eqn:Hr; [|exact I].
  destruct (cq s) as [|c rest] eqn:Hc; [exact I|]. cbn [good]. split.
  - apply (pinv_shift [] [] [] [] s _ P).
    + repeat split.
    + intros x. unfold Ssum, cq_ids. cbn [released set_cq]. rewrite Hr. reflexivity.
    + intros x; reflexivity.
    + intros A. destruct (p_rel _ _ _ P A) as (_ & _ & B & _). split; [exact B|reflexivity].
  - destruct Hh as [A B C]. constructor.
    + cbn [set_cq cq ops]. rewrite Hc in A. inversion A; assumption.
    + exact B.
    + cbn [set_cq released]. intros R. congruence.
Qed.

Lemma step_LRelease s : inv s -> good s (step s LRelease).
Proof.
  intros (P & Hh). destruct (released s) eqn:Hr.
  - cbn [step]. rewrite Hr. exact I.
  - destruct (pinv_release s P Hr) as (s' & E & P' & Ho & Hc & Hr' & _). rewrite E. cbn [good].
    split; [exact P'|]. destruct Hh as [A B C]. constructor.
    + rewrite Ho, Hc. exact A.
    + rewrite Ho. exact B.
    + rewrite Hr'. discriminate.
Qed.

Lemma step_LGuardDrop s k : inv s -> good s (step s (LGuardDrop k)).
Proof.
  intros (P & Hh). cbn [step]. destruct (nth_error (ops s) k) as [o|] eqn:Hk; [|exact I].
  destruct (op_free s o); cbn [negb]; [|exact I].
  destruct (o_q o) as [|e q] eqn:Hq; [exact I|].
  set (o' := mk_op (o_inflight o) (o_kdone o) (o_buf o) q (o_res o)).
  assert (Hh' : hinv (upd_op s k o')) by (apply (hinv_upd_same s k o); try assumption; reflexivity).
  pose proof (fun x => sums_upd_op s k o o' x Hk) as Hsum.
  unfold guard_ids_of in Hsum. rewrite Hq in Hsum. cbn [o_q o_buf o'] in Hsum.
  destruct e as [id|].
  - destruct (released s) eqn:Hr.
    + (* the pool is gone: BufferPool::reset finds no slot *)
      destruct (p_rel _ _ _ P Hr) as (Hsl & _ & Hlo & _).
      change (slots (upd_op s k o')) with (slots s). rewrite Hsl.
      replace (slot_take [] id) with (@None (list bool)) by (unfold slot_take; destruct id; reflexivity).
      cbn [good]. split; [|exact Hh'].
      apply (pinv_shift [] [] [] [] s _ P).
      * apply same_pool_upd_op.
      * intros x. destruct (Hsum x) as (A & _). lia.
      * intros x. destruct (Hsum x) as (_ & A). lia.
      * intros _. split; [exact Hlo|reflexivity].
    + assert (P1 : pinv [id] [] (upd_op s k o')).
      { apply (pinv_shift [] [] [id] [] s _ P).
        - apply same_pool_upd_op.
        - intros x. destruct (Hsum x) as (A & _).
          change (opt_ids (Some id :: q)) with ([id] ++ opt_ids q) in A. occs in A. occs. lia.
        - intros x. destruct (Hsum x) as (_ & A). lia.
        - intros A. congruence. }
      destruct (pinv_slot_take id [] [] (upd_op s k o') P1 Hr) as (E & P2). rewrite E.
      apply good_reset; [exact P2|].
      eapply (hinv_same (upd_op s k o')); try exact Hh'; reflexivity.
  - cbn [good]. split; [|exact Hh'].
    apply (pinv_shift [] [] [] [] s _ P).
    + apply same_pool_upd_op.
    + intros x. destruct (Hsum x) as (A & _). change (opt_ids (None :: q)) with (opt_ids q) in A.
      destruct (released s); lia.
    + intros x. destruct (Hsum x) as (_ & A). lia.
    + intros A. destruct (p_rel _ _ _ P A) as (_ & _ & B & _). split; [exact B|reflexivity].
Qed.

Lemma hinv_cqe s c rest o o' :
  hinv s -> cq s = c :: rest -> nth_error (ops s) (c_op c) = Some o ->
  o_inflight o' = o_inflight o -> o_kdone o' = o_kdone o ->
  (c_more c = true -> o_res o' = o_res o) -> (c_more c = false -> o_res o' <> None) ->
  hinv (upd_op (set_cq s rest) (c_op c) o').
Proof.
  intros [A B C] Hc Hk Hi Hd Hm Hf.
  pose proof (nth_error_lt _ _ _ Hk) as Hlt.
  assert (Hin : In o (ops s)) by (eapply nth_error_In; eauto).
  constructor.
  - unfold upd_op, set_ops, set_cq. cbn [cq ops]. rewrite set_nth_length. rewrite Hc in A. inversion A; assumption.
  - unfold upd_op, set_ops, set_cq. cbn [ops]. apply Forall_set_nth; [exact B|].
    rewrite Hi, Hd. rewrite Forall_forall in B. apply B. exact Hin.
  - unfold upd_op, set_ops, set_cq. cbn [released cq ops]. intros R k' o1 Hk' Hd' Hr'.
    destruct (Nat.eq_dec (c_op c) k') as [<-|Hne].
    + rewrite set_nth_eq in Hk' by exact Hlt. injection Hk' as <-.
      destruct (c_more c) eqn:Hmore.
      * destruct (C R (c_op c) o Hk ltac:(congruence) ltac:(rewrite <- (Hm eq_refl); exact Hr')) as (w & Hin' & E1 & E2).
        rewrite Hc in Hin'. destruct Hin' as [<-|Hin']; [congruence|]. exists w. tauto.
      * exfalso. apply (Hf eq_refl). exact Hr'.
    + rewrite set_nth_neq in Hk' by exact Hne.
      destruct (C R k' o1 Hk' Hd' Hr') as (w & Hin' & E1 & E2).
      rewrite Hc in Hin'. destruct Hin' as [<-|Hin']; [congruence|]. exists w. tauto.
Qed.

Lemma step_LCqe s : inv s -> good s (step s LCqe).
Proof.
  intros (P & Hh). cbn [step]. destruct (released s) eqn:Hr; [exact I|].
  destruct (cq s) as [|c rest] eqn:Hc; [exact I|].
  set (s1 := set_cq s rest). change (ops s1) with (ops s).
  assert (Hlt : c_op c < length (ops s)).
  { destruct Hh as [A _ _]. rewrite Hc in A. inversion A; assumption. }
  destruct (nth_error (ops s) (c_op c)) as [o|] eqn:Hk; [|apply nth_error_None in Hk; lia].
  assert (Hcq : forall x, occ x (cq_ids s1) + occ x (match c_id c with Some i => [i] | None => [] end) = occ x (cq_ids s)).
  { intros x. unfold cq_ids, s1. cbn [released set_cq cq]. rewrite Hr, Hc. cbn [map].
    change (opt_ids (c_id c :: map c_id rest)) with ((match c_id c with Some i => [i] | None => [] end) ++ opt_ids (map c_id rest)).
    occs. lia. }
  assert (Hk1 : nth_error (ops s1) (c_op c) = Some o) by exact Hk.
  destruct (c_more c) eqn:Hmore.
  - (* push_multishot *)
    set (o' := mk_op (o_inflight o) (o_kdone o) (o_buf o) (o_q o ++ [c_id c]) (o_res o)).
    cbn [good]. split.
    + apply (pinv_shift [] [] [] [] s _ P).
      * repeat split.
      * intros x. pose proof (sums_upd_op s1 (c_op c) o o' x Hk1) as (A & _).
        unfold guard_ids_of in A. change (released s1) with (released s) in A. rewrite Hr in A. cbn [o_q o'] in A.
        rewrite opt_ids_app in A. occs in A.
        change (opt_ids [c_id c]) with (match c_id c with Some i => [i] | None => [] end ++ []) in A.
        rewrite app_nil_r in A. specialize (Hcq x). unfold Ssum in *.
        change (guard_ids s1) with (guard_ids s) in A. change (loose s1) with (loose s) in A. lia.
      * intros x. pose proof (sums_upd_op s1 (c_op c) o o' x Hk1) as (_ & A). cbn [o_buf o'] in A.
        change (Osum s1 x) with (Osum s x) in A. lia.
      * intros A. congruence.
    + apply (hinv_cqe s c rest o o'); try assumption; try reflexivity. intros A; congruence.
  - destruct (c_id c) as [id|] eqn:Hid.
    + (* set_result with a selected buffer *)
      assert (P1 : pinv [id] [] s1).
      { apply (pinv_shift [] [] [id] [] s _ P).
        - repeat split.
        - intros x. specialize (Hcq x). unfold Ssum.
          change (guard_ids s1) with (guard_ids s). change (loose s1) with (loose s). occs. occs in Hcq. lia.
        - intros x; reflexivity.
        - intros A; congruence. }
      destruct (pinv_slot_take id [] [] s1 P1 Hr) as (E & P2). rewrite E.
      set (s2 := set_slots s1 (set_nth (slots s1) id false)) in *.
      set (o' := mk_op (o_inflight o) (o_kdone o) [id] (o_q o) (Some (c_res c))).
      set (s3 := set_nbusy (upd_op s2 (c_op c) o') _).
      assert (P3 : pinv [] (o_buf o ++ []) s3).
      { apply (pinv_shift [] [id] [] (o_buf o ++ []) s2 _ P2).
        - repeat split.
        - intros x. pose proof (sums_upd_op s2 (c_op c) o o' x Hk1) as (A & _).
          unfold guard_ids_of in A. cbn [o_q o'] in A.
          change (Ssum s3 x) with (Ssum (upd_op s2 (c_op c) o') x). lia.
        - intros x. pose proof (sums_upd_op s2 (c_op c) o o' x Hk1) as (_ & A). cbn [o_buf o'] in A.
          change (Osum s3 x) with (Osum (upd_op s2 (c_op c) o') x). rewrite app_nil_r. occs in A. occs. lia.
        - intros A. change (released s2) with (released s) in A. congruence. }
      destruct (pinv_reset_all (o_buf o) [] [] s3 P3) as (s4 & E4 & P4 & Hs4). rewrite E4. cbn [good].
      split; [exact P4|]. apply (hinv_same_holders s3 s4 Hs4).
      eapply (hinv_same (upd_op s1 (c_op c) o')); [reflexivity|reflexivity|reflexivity|].
      apply (hinv_cqe s c rest o o'); try assumption; try reflexivity; try congruence. intros _; discriminate.
    + set (o' := mk_op (o_inflight o) (o_kdone o) (o_buf o) (o_q o) (Some (c_res c))).
      cbn [good]. split.
      * apply (pinv_shift [] [] [] [] s _ P).
        -- repeat split.
        -- intros x. pose proof (sums_upd_op s1 (c_op c) o o' x Hk1) as (A & _).
           unfold guard_ids_of in A. cbn [o_q o'] in A. specialize (Hcq x). occs in Hcq. unfold Ssum in *.
           change (cq_ids (set_nbusy (upd_op s1 (c_op c) o') _)) with (cq_ids (upd_op s1 (c_op c) o')).
           change (guard_ids (set_nbusy (upd_op s1 (c_op c) o') _)) with (guard_ids (upd_op s1 (c_op c) o')).
           change (loose (set_nbusy (upd_op s1 (c_op c) o') _)) with (loose (upd_op s1 (c_op c) o')).
           change (guard_ids s1) with (guard_ids s) in A. change (loose s1) with (loose s) in A. lia.
        -- intros x. pose proof (sums_upd_op s1 (c_op c) o o' x Hk1) as (_ & A). cbn [o_buf o'] in A.
           change (Osum (set_nbusy (upd_op s1 (c_op c) o') _) x) with (Osum (upd_op s1 (c_op c) o') x).
           change (Osum s1 x) with (Osum s x) in A. lia.
        -- intros A. congruence.
      * eapply (hinv_same (upd_op s1 (c_op c) o')); [reflexivity|reflexivity|reflexivity|].
        apply (hinv_cqe s c rest o o'); try assumption; try reflexivity; try congruence. intros _; discriminate.
Qed.

Theorem step_good s l : inv s -> good s (step s l).
Proof.
  intros H. destruct l.
  - apply step_LPop; exact H.
  - apply step_LPendDrop; exact H.
  - apply step_LOpNew; exact H.
  - apply step_LSubmit; exact H.
  - apply step_LKernel; exact H.
  - apply step_LCqe; exact H.
  - apply step_LPopMs; exact H.
  - apply step_LTakeLoose; exact H.
  - apply step_LOpMove; exact H.
  - apply step_LDropHandle; exact H.
  - apply step_LOpBufDrop; exact H.
  - apply step_LGuardDrop; exact H.
  - apply step_LRelease; exact H.
  - apply step_LCqDrain; exact H.
Qed.

(* ====================================================================== *)
(* 6. creation, reachability                                               *)

Lemma filter_true {A} (l : list A) : filter (fun _ => true) l = l.
Proof. induction l as [|a l IH]; [reflexivity|cbn [filter]; f_equal; exact IH]. Qed.

Lemma occ_seq x n : occ x (seq 0 n) = if Nat.ltb x n then 1 else 0.
Proof.
  pose proof (occ_filter_seq (fun _ => true) n x) as H. rewrite filter_true in H. exact H.
Qed.

Lemma nth_repeat_lt {A} (a d : A) n i : i < n -> nth i (repeat a n) d = a.
Proof.
  revert i; induction n as [|n IH]; intros [|i] H; cbn [repeat nth]; try lia; auto. apply IH. lia.
Qed.

Lemma set_nth_app_mid {A} (l1 l2 : list A) a x : set_nth (l1 ++ a :: l2) (length l1) x = l1 ++ x :: l2.
Proof. induction l1 as [|b l1 IH]; [reflexivity|cbn [app length set_nth]; f_equal; exact IH]. Qed.

Lemma init_ring_spec m : forall j s,
  pow2_le15 (nbuf s) -> j + m = nbuf s -> tail s = 0%N ->
  cells s = seq 0 j ++ repeat 0 m ->
  init_ring s (seq j m) = Ok (set_ring s (seq 0 (nbuf s)) 0%N (head s)).
Proof.
  induction m as [|m IH]; intros j s Hp Hj Ht Hc.
  - cbn [seq init_ring]. rewrite Nat.add_0_r in Hj. cbn [repeat] in Hc. rewrite app_nil_r in Hc.
    rewrite <- Hj, <- Hc, <- Ht. destruct s; reflexivity.
  - cbn [seq init_ring].
    pose proof (pow2_bound _ Hp) as Hb.
    assert (Hjn : (NN j < NN (nbuf s))%N) by (unfold NN; lia).
    assert (Hadd : add_buffer s j (NN j) =
                   Ok (set_ring s (seq 0 (S j) ++ repeat 0 m) 0%N (head s))).
    { unfold add_buffer, ring_idx, u16_add. rewrite Ht, N.add_0_l.
      destruct (N.ltb_spec (NN j) U16) as [_|H]; [|unfold U16 in H; lia]. cbn [rbind].
      rewrite N.mod_small by exact Hjn. rewrite nn_NN.
      rewrite Hc, app_length, seq_length, repeat_length.
      destruct (Nat.ltb_spec j (j + S m)) as [_|H]; [|lia]. cbn [rbind]. f_equal.
      unfold set_ring. f_equal. cbn [repeat].
      pose proof (set_nth_app_mid (seq 0 j) (repeat 0 m) 0 j) as E. rewrite seq_length in E. rewrite E.
      rewrite seq_S, <- app_assoc. reflexivity. }
    rewrite Hadd. cbn [rbind].
    rewrite (IH (S j)); try (unfold set_ring; cbn [nbuf tail cells]; first [exact Hp|lia|reflexivity]).
Qed.

Lemma map_cell_id n : map (fun i => nth i (seq 0 n) 0) (seq 0 n) = seq 0 n.
Proof.
  transitivity (map (fun i : nat => i) (seq 0 n)); [|apply map_id].
  apply map_ext_in. intros i Hi. apply in_seq in Hi. rewrite seq_nth by lia. reflexivity.
Qed.

Lemma pool_new_inv u size :
  1 <= size -> (NN size <= 32768)%N ->
  exists s0, pool_new u size = Ok s0 /\ inv s0 /\ size <= nbuf s0 /\ uring s0 = u /\ released s0 = false /\
             ring_ids s0 = seq 0 (nbuf s0) /\ cq s0 = [] /\ ops s0 = [] /\ pend s0 = [] /\ loose s0 = [] /\
             handles s0 = [] /\ nbusy s0 = 0 /\
             (u = true -> cells s0 = seq 0 (nbuf s0) /\ tail s0 = NN (nbuf s0) /\ head s0 = 0%N).
Proof.
  intros H1 Hs. unfold pool_new.
  destruct (Nat.eqb_spec size 0) as [H0|_]; [lia|].
  destruct (next_pow2_spec (NN size) ltac:(unfold NN; lia) Hs) as (e & He & Hnp & Hge).
  rewrite Hnp. cbn [rbind].
  set (n := nn (2 ^ e)%N).
  assert (Hp : pow2_le15 n) by (exists e; split; [exact He|unfold n, nn, NN; apply N2Nat.id]).
  assert (Hn : size <= n) by (unfold n, nn, NN in *; lia).
  pose proof (pow2_bound _ Hp) as Hb.
  set (s0 := mk_st u n (repeat 0 n) 0%N 0%N [] (repeat true n) false [] [] [] [] [] [] 0).
  assert (Hfin : exists s1, (if u then let! s1 := init_ring s0 (seq 0 n) in Ok (commit s1 (NN n))
                             else Ok (set_queue (set_ring s0 [] 0%N 0%N) (seq 0 n))) = Ok s1 /\
                 uring s1 = u /\ nbuf s1 = n /\ slots s1 = repeat true n /\ released s1 = false /\
                 ring_ids s1 = seq 0 n /\ cq s1 = [] /\ ops s1 = [] /\ pend s1 = [] /\ loose s1 = [] /\
                 handles s1 = [] /\ freed s1 = [] /\ nbusy s1 = 0 /\ (u = true -> ring_wf s1) /\
                 (u = true -> cells s1 = seq 0 n /\ tail s1 = NN n /\ head s1 = 0%N)).
  { destruct u.
    - rewrite (init_ring_spec n 0 s0 Hp ltac:(reflexivity) ltac:(reflexivity) ltac:(reflexivity)).
      cbn [rbind].
      assert (Ht : u16_wrapping_add 0 (NN n) = NN n).
      { unfold u16_wrapping_add. rewrite N.add_0_l. apply N.mod_small. unfold U16. lia. }
      set (s1 := mk_st true n (seq 0 n) (NN n) 0%N [] (repeat true n) false [] [] [] [] [] [] 0).
      assert (Es1 : commit (set_ring s0 (seq 0 (nbuf s0)) 0%N (head s0)) (NN n) = s1).
      { unfold commit, set_ring, s0, s1. cbn [uring nbuf cells tail head queue slots released pend ops cq loose handles freed nbusy].
        rewrite Ht. reflexivity. }
      rewrite Es1. exists s1. split; [reflexivity|].
      assert (Htl : tail s1 = ((head s1 + NN n) mod U16)%N).
      { cbn [tail head s1]. rewrite N.add_0_l. symmetry. apply N.mod_small. unfold U16. lia. }
      assert (Hwf : ring_wf s1).
      { constructor.
        - cbn [cells nbuf s1]. apply seq_length.
        - cbn [head s1]. reflexivity.
        - exists n. split; [cbn [nbuf s1]; lia|exact Htl]. }
      assert (Hri : ring_ids s1 = seq 0 n).
      { rewrite ring_ids_uring by reflexivity.
        rewrite (ring_count_of s1 n Hp ltac:(reflexivity) ltac:(cbn [nbuf s1]; lia) Htl).
        rewrite <- (map_cell_id n) at 2. apply map_ext_in. intros i Hi. apply in_seq in Hi.
        unfold cell_at. rewrite kernel_idx_mod by exact Hp.
        cbn [cells head nbuf s1]. rewrite N.add_0_l, N.mod_small by (unfold NN; lia).
        rewrite nn_NN. reflexivity. }
      split; [reflexivity|]. split; [reflexivity|]. split; [reflexivity|]. split; [reflexivity|].
      split; [exact Hri|]. split; [reflexivity|]. split; [reflexivity|]. split; [reflexivity|].
      split; [reflexivity|]. split; [reflexivity|]. split; [reflexivity|]. split; [reflexivity|].
      split; [intros _; exact Hwf|]. intros _. split; [reflexivity|]. split; reflexivity.
    - set (s1 := mk_st false n [] 0%N 0%N (seq 0 n) (repeat true n) false [] [] [] [] [] [] 0).
      exists s1. split; [reflexivity|].
      split; [reflexivity|]. split; [reflexivity|]. split; [reflexivity|]. split; [reflexivity|].
      split; [reflexivity|]. split; [reflexivity|]. split; [reflexivity|]. split; [reflexivity|].
      split; [reflexivity|]. split; [reflexivity|]. split; [reflexivity|]. split; [reflexivity|].
      split; intros A; discriminate. }
  destruct Hfin as (s1 & E & Hu & Hnb & Hsl & Hr & Hri & Hcq & Hops & Hpe & Hlo & Hha & Hfr & Hnb' & Hwf & Hcells).
  exists s1. split; [exact E|].
  assert (HS : forall x, Ssum s1 x = 0).
  { intros x. unfold Ssum, cq_ids, guard_ids. rewrite Hr, Hcq, Hops, Hlo. reflexivity. }
  assert (HO : forall x, Osum s1 x = 0).
  { intros x. unfold Osum, opbuf_ids, handle_ids. rewrite Hops, Hpe, Hha. reflexivity. }
  split; [|rewrite Hnb; repeat split; try assumption; try (rewrite <- Hnb; assumption);
           try (match goal with A : u = true |- _ => destruct (Hcells A) as (B & C & D); assumption end)].
  split.
  - constructor.
    + rewrite Hnb. exact Hp.
    + intros x Hx. unfold tot. rewrite HS, HO, Hri, Hfr, occ_seq, !occ_nil.
      rewrite Hnb in Hx. destruct (Nat.ltb_spec x n); lia.
    + intros x Hx. unfold tot. rewrite HS, HO, Hri, Hfr, occ_seq, !occ_nil.
      rewrite Hnb in Hx. destruct (Nat.ltb_spec x n); lia.
    + intros A _. apply Hwf. congruence.
    + intros _. rewrite Hsl, Hnb, repeat_length. split; [reflexivity|].
      intros x Hx. rewrite nth_repeat_lt by exact Hx. rewrite HS, Hri, occ_seq, occ_nil.
      destruct (Nat.ltb_spec x n); [|lia]. split; [lia|reflexivity].
    + intros A. congruence.
    + intros _. exact Hfr.
  - constructor.
    + rewrite Hcq. constructor.
    + rewrite Hops. constructor.
    + intros _ k o Hk. rewrite Hops in Hk. destruct k; discriminate.
Qed.

(* reachable states *)
Lemma steps_inv ls : forall s r, inv s -> steps s ls = r ->
  match r with Some (Ok s') => inv s' | Some (Panic _) => False | None => True end.
Proof.
  induction ls as [|l ls IH]; intros s r H E.
  - cbn [steps] in E. subst r. exact H.
  - cbn [steps] in E. pose proof (step_good s l H) as G.
    destruct (step s l) as [[s1|c]|]; cbn [good] in G.
    + apply (IH s1 r G E).
    + contradiction.
    + subst r. exact I.
Qed.

Definition reach (u : bool) (size : nat) (ls : list label) (s : st) : Prop :=
  exists s0, pool_new u size = Ok s0 /\ steps s0 ls = Some (Ok s).

Lemma reach_inv u size ls s :
  1 <= size -> (NN size <= 32768)%N -> reach u size ls s -> inv s.
Proof.
  intros H1 H2 (s0 & E0 & Es).
  destruct (pool_new_inv u size H1 H2) as (s0' & E0' & I0 & _).
  rewrite E0 in E0'. injection E0' as <-.
  apply (steps_inv ls s0 _ I0 Es).
Qed.

(* ====================================================================== *)
(* 7. the property theorems                                                *)

Lemma owners_ops_length id (f : opst -> list nat) mk l : forall k,
  length (owners_ops id f mk l k) = occ id (flat_map f l).
Proof.
  induction l as [|o l IH]; intros k; [reflexivity|].
  cbn [owners_ops flat_map]. rewrite app_length, repeat_length, occ_app, IH. reflexivity.
Qed.

Lemma owners_handles_length id l : forall h, length (owners_handles id l h) = occ id (opt_ids l).
Proof.
  induction l as [|e l IH]; intros h; [reflexivity|].
  cbn [owners_handles]. rewrite app_length, IH.
  change (opt_ids (e :: l)) with ((match e with Some i => [i] | None => [] end) ++ opt_ids l).
  rewrite occ_app. destruct e as [i|]; [|reflexivity]. rewrite occ_one. destruct (Nat.eqb id i); reflexivity.
Qed.

Lemma owners_cq_length id (l : list cqe) :
  length (flat_map (fun c => match c_id c with
                             | Some i => if Nat.eqb id i then [OwSelected (c_op c)] else []
                             | None => [] end) l) = occ id (opt_ids (map c_id l)).
Proof.
  induction l as [|c l IH]; [reflexivity|].
  cbn [flat_map map]. rewrite app_length, IH.
  change (opt_ids (c_id c :: map c_id l)) with ((match c_id c with Some i => [i] | None => [] end) ++ opt_ids (map c_id l)).
  rewrite occ_app. destruct (c_id c) as [i|]; [|reflexivity]. rewrite occ_one. destruct (Nat.eqb id i); reflexivity.
Qed.

Lemma owners_length s id : length (owners s id) = tot [] [] s id.
Proof.
  unfold owners, tot, Ssum, Osum, guard_ids, opbuf_ids, handle_ids.
  rewrite !app_length, !repeat_length, !owners_ops_length, owners_handles_length.
  assert (E : length (if released s then [] else
                        flat_map (fun c => match c_id c with
                                           | Some i => if Nat.eqb id i then [OwSelected (c_op c)] else []
                                           | None => [] end) (cq s)) = occ id (cq_ids s)).
  { unfold cq_ids. destruct (released s); [reflexivity|apply owners_cq_length]. }
  rewrite E, !occ_nil. lia.
Qed.

Lemma owners_handles_In id l : forall k h, nth_error l h = Some (Some id) ->
  In (OwHandle (k + h)) (owners_handles id l k).
Proof.
  induction l as [|e l IH]; intros k h H; [destruct h; discriminate|].
  cbn [owners_handles]. apply in_or_app. destruct h as [|h]; cbn [nth_error] in H.
  - injection H as ->. left. rewrite Nat.eqb_refl, Nat.add_0_r. left; reflexivity.
  - right. replace (k + S h) with (S k + h) by lia. apply IH. exact H.
Qed.

Lemma singleton_of_length {A} (l : list A) x : length l = 1 -> In x l -> l = [x].
Proof.
  destruct l as [|a [|b l]]; cbn; try discriminate. intros _ [->|[]]. reflexivity.
Qed.

Theorem exclusive_thm u size ls s :
  1 <= size -> (NN size <= 32768)%N -> reach u size ls s ->
  (forall id, id < nbuf s -> exists o, owners s id = [o]) /\
  (forall id, nbuf s <= id -> owners s id = []) /\
  (forall h1 h2 id, live_handle s h1 = Some id -> live_handle s h2 = Some id -> h1 = h2) /\
  (forall h id, live_handle s h = Some id -> owners s id = [OwHandle h]) /\
  (forall id, kernel_target s = Some id -> owners s id = [OwRing]).
Proof.
  intros H1 H2 Hr. destruct (reach_inv u size ls s H1 H2 Hr) as (P & _).
  assert (Hone : forall id, id < nbuf s -> length (owners s id) = 1).
  { intros id Hid. rewrite owners_length. apply (p_tot _ _ _ P id Hid). }
  assert (Hlive : forall h id, live_handle s h = Some id -> nth_error (handles s) h = Some (Some id)).
  { intros h id. unfold live_handle. destruct (nth_error (handles s) h) as [[i|]|]; congruence. }
  assert (Hhid : forall h id, live_handle s h = Some id -> id < nbuf s).
  { intros h id Hl. apply Hlive in Hl. apply (pinv_id_lt _ _ _ _ P). unfold tot, Osum, handle_ids.
    assert (1 <= occ id (opt_ids (handles s))); [|lia].
    apply occ_In. unfold opt_ids. apply in_flat_map. exists (Some id).
    split; [eapply nth_error_In; eauto|left; reflexivity]. }
  split; [|split; [|split; [|split]]].
  - intros id Hid. specialize (Hone id Hid). destruct (owners s id) as [|o [|o' l]]; try discriminate.
    exists o; reflexivity.
  - intros id Hid. pose proof (p_out _ _ _ P id Hid) as E. rewrite <- owners_length in E.
    destruct (owners s id); [reflexivity|discriminate].
  - intros h1 h2 id L1 L2. pose proof (Hhid _ _ L1) as Hid. apply Hlive in L1. apply Hlive in L2.
    destruct (Nat.lt_trichotomy h1 h2) as [Hlt|[Heq|Hgt]]; [|exact Heq|].
    + pose proof (occ_two_positions _ _ _ _ Hlt L1 L2) as T.
      pose proof (p_tot _ _ _ P id Hid) as E. unfold tot, Osum, handle_ids in E. lia.
    + pose proof (occ_two_positions _ _ _ _ Hgt L2 L1) as T.
      pose proof (p_tot _ _ _ P id Hid) as E. unfold tot, Osum, handle_ids in E. lia.
  - intros h id L. pose proof (Hhid _ _ L) as Hid. apply Hlive in L.
    apply singleton_of_length; [apply Hone; exact Hid|].
    unfold owners. do 5 (apply in_or_app; right). apply in_or_app. left.
    apply (owners_handles_In id (handles s) 0 h L).
  - intros id Hk. unfold kernel_target in Hk.
    destruct (uring s) eqn:Hu; cbn [andb] in Hk; [|discriminate].
    destruct (released s) eqn:Hrel; cbn [negb] in Hk; [discriminate|].
    pose proof (pinv_ring_pop [] [] s P Hu Hrel) as Hpop.
    destruct (ring_ids s) as [|i r] eqn:Hri.
    + rewrite Hpop in Hk. discriminate.
    + destruct Hpop as (s' & E & _). rewrite E in Hk. injection Hk as ->.
      assert (Hid : id < nbuf s).
      { apply (pinv_id_lt _ _ _ _ P). unfold tot. rewrite Hri, occ_cons, Nat.eqb_refl. lia. }
      apply singleton_of_length; [apply Hone; exact Hid|].
      unfold owners. apply in_or_app. left. rewrite Hri, occ_cons, Nat.eqb_refl. cbn [plus repeat]. left; reflexivity.
Qed.

(* nbuf and the driver kind never change *)
Lemma reset_all_holders ids : forall s s', reset_all s ids = Ok s' -> same_holders s s'.
Proof.
  induction ids as [|id r IH]; intros s s' E; cbn [reset_all] in E.
  - injection E as <-. repeat split.
  - destruct (sh_reset s id) as [s1|c] eqn:E1; cbn [rbind] in E; [|discriminate].
    pose proof (sh_reset_holders _ _ _ E1) as (a1&a2&a3&a4&a5&a6&a7&a8&a9).
    pose proof (IH _ _ E) as (b1&b2&b3&b4&b5&b6&b7&b8&b9). repeat split; congruence.
Qed.

Lemma step_nbuf s l s' : step s l = Some (Ok s') -> nbuf s' = nbuf s /\ uring s' = uring s.
Proof.
  destruct l; cbn [step]; intros E;
    repeat match type of E with
           | context [match ?x with _ => _ end] => destruct x eqn:?; try discriminate
           | Some (sh_reset _ _) = Some (Ok _) =>
             let H := fresh in injection E as H; apply sh_reset_holders in H;
             destruct H as (?&?&_); cbn in *; split; congruence
           | Some (reset_all _ _) = Some (Ok _) =>
             let H := fresh in injection E as H; apply reset_all_holders in H;
             destruct H as (?&?&_); cbn in *; split; congruence
           | Some (Ok _) = Some (Ok _) => injection E as <-; split; cbn; congruence
           end.
  all: try (unfold kernel_select in *; destruct (ring_empty s); try discriminate;
            match goal with H : Some (_, _) = Some (_, _) |- _ => injection H as <- <- end;
            injection E as <-; split; cbn; congruence).
Qed.

Lemma steps_nbuf ls : forall s s', steps s ls = Some (Ok s') -> nbuf s' = nbuf s /\ uring s' = uring s.
Proof.
  induction ls as [|l ls IH]; intros s s' E; cbn [steps] in E.
  - injection E as <-. split; reflexivity.
  - destruct (step s l) as [[s1|c]|] eqn:E1; try discriminate.
    destruct (step_nbuf _ _ _ E1) as (A & B). destruct (IH _ _ E) as (C & D). split; congruence.
Qed.

Definition all_ids (s : st) : list nat :=
  ring_ids s ++ cq_ids s ++ guard_ids s ++ loose s ++ pend s ++ opbuf_ids s ++ handle_ids s ++ freed s.

Theorem conservation_thm u size ls s :
  1 <= size -> (NN size <= 32768)%N -> reach u size ls s ->
  size <= nbuf s /\ pow2_le15 (nbuf s) /\
  length (ring_ids s) + n_selected s + n_transit s + n_inop s + n_handles s + length (freed s) = nbuf s /\
  (released s = false -> freed s = []) /\
  (released s = false -> quiet s = true ->
     length (ring_ids s) = nbuf s /\ forall id, id < nbuf s -> In id (ring_ids s)) /\
  (released s = true -> ring_ids s = [] /\ n_selected s = 0 /\
                        n_transit s + n_inop s + n_handles s + length (freed s) = nbuf s).
Proof.
  intros H1 H2 Hr. pose proof (reach_inv u size ls s H1 H2 Hr) as (P & Hh).
  destruct Hr as (s0 & E0 & Es).
  destruct (pool_new_inv u size H1 H2) as (s0' & E0' & _ & Hsz & _).
  rewrite E0 in E0'. injection E0' as <-.
  destruct (steps_nbuf _ _ _ Es) as (Hn & _).
  assert (Hlen : length (all_ids s) = nbuf s).
  { apply length_of_occ.
    - intros x Hx. pose proof (p_tot _ _ _ P x Hx) as E. unfold tot, Ssum, Osum in E.
      unfold all_ids. occs. occs in E. lia.
    - intros x Hx. pose proof (p_out _ _ _ P x Hx) as E. unfold tot, Ssum, Osum in E.
      unfold all_ids. occs. occs in E. lia. }
  assert (Hsum : length (ring_ids s) + n_selected s + n_transit s + n_inop s + n_handles s + length (freed s) = nbuf s).
  { unfold all_ids in Hlen. rewrite !app_length in Hlen. unfold n_selected, n_transit, n_inop, n_handles. lia. }
  split; [lia|]. split; [apply (p_pow _ _ _ P)|]. split; [exact Hsum|].
  split; [apply (p_freed _ _ _ P)|]. split.
  - intros Hrel Hq. pose proof (p_freed _ _ _ P Hrel) as Hf. unfold quiet in Hq. apply Nat.eqb_eq in Hq.
    rewrite Hf in Hsum. cbn [length] in Hsum. split; [lia|].
    intros id Hid. apply occ_In. pose proof (p_tot _ _ _ P id Hid) as E. unfold tot, Ssum, Osum in E.
    rewrite Hf in E. occs in E.
    assert (Z : forall l : list nat, length l = 0 -> occ id l = 0) by (intros [|a l] Hl; [reflexivity|discriminate]).
    unfold n_selected, n_transit, n_inop, n_handles in Hq.
    rewrite (Z (cq_ids s)), (Z (guard_ids s)), (Z (loose s)), (Z (pend s)), (Z (opbuf_ids s)), (Z (handle_ids s)) in E by lia.
    lia.
  - intros Hrel. destruct (p_rel _ _ _ P Hrel) as (_ & Hri & Hlo & _).
    assert (Hsel : n_selected s = 0).
    { unfold n_selected, cq_ids, guard_ids, guard_ids_of. rewrite Hrel. rewrite flat_map_const_nil. reflexivity. }
    split; [exact Hri|]. split; [exact Hsel|]. rewrite Hri, Hsel in Hsum. cbn [length] in Hsum. lia.
Qed.

Theorem no_panic_thm u size ls s l c :
  1 <= size -> (NN size <= 32768)%N -> reach u size ls s -> step s l <> Some (Panic c).
Proof.
  intros H1 H2 Hr E. pose proof (step_good s l (reach_inv u size ls s H1 H2 Hr)) as G.
  rewrite E in G. exact G.
Qed.

(* exhaustion *)
Theorem exhaustion_fallback_thm s :
  uring s = false -> released s = false ->
  (queue s = [] -> step s LPop = Some (Ok (set_nbusy s (S (nbusy s))))) /\
  (forall id q, queue s = id :: q -> forall s', step s LPop = Some (Ok s') ->
     nbusy s' = nbusy s /\ pend s' = pend s ++ [id] /\ queue s' = q).
Proof.
  intros Hu Hr. split.
  - intros Hq. cbn [step]. rewrite Hr, Hu, Hq. reflexivity.
  - intros id q Hq s'. cbn [step]. rewrite Hr, Hu, Hq.
    destruct (slot_take (slots s) id); [|discriminate]. intros E. injection E as <-. repeat split.
Qed.

Theorem exhaustion_uring_thm u size ls s :
  1 <= size -> (NN size <= 32768)%N -> reach u size ls s -> uring s = true -> released s = false ->
  (ring_empty s = true <-> ring_ids s = []) /\
  (ring_ids s = [] -> forall k more r, step s (LKernel k true more r) = None) /\
  (ring_ids s = [] -> forall k o, nth_error (ops s) k = Some o -> o_inflight o = true -> o_kdone o = false ->
     exists s1, step s (LKernel k false false RNoBufs) = Some (Ok s1) /\
                cq s1 = cq s ++ [mk_cqe k None false RNoBufs]) /\
  (ring_ids s <> [] -> forall k more, step s (LKernel k false more RNoBufs) = None).
Proof.
  intros H1 H2 Hr Hu Hrel. destruct (reach_inv u size ls s H1 H2 Hr) as (P & _).
  pose proof (ring_empty_iff s (p_pow _ _ _ P) Hu (p_ring _ _ _ P Hu Hrel)) as Hiff.
  split; [exact Hiff|]. split; [|split].
  - intros He k more r. cbn [step]. destruct (nth_error (ops s) k) as [o|]; [|reflexivity].
    destruct (o_kdone o || (uring s && negb (o_inflight o))); [reflexivity|].
    rewrite Hu, Hrel. cbn [negb orb]. destruct (rescls_eqb r RNoBufs); [reflexivity|].
    unfold kernel_select. rewrite (proj2 Hiff He). reflexivity.
  - intros He k o Hk Hi Hd. cbn [step]. rewrite Hk, Hd, Hu, Hi. cbn [negb andb orb rescls_eqb].
    rewrite (proj2 Hiff He). cbn [negb andb]. eexists. split; reflexivity.
  - intros Hne k more. cbn [step]. destruct (nth_error (ops s) k) as [o|]; [|reflexivity].
    destruct (o_kdone o || (uring s && negb (o_inflight o))); [reflexivity|].
    cbn [rescls_eqb andb]. rewrite Hu. cbn [andb].
    destruct (ring_empty s) eqn:He; [exfalso; apply Hne; apply Hiff; reflexivity|]. reflexivity.
Qed.

Theorem exhaustion_result_thm s k o rest :
  released s = false -> cq s = mk_cqe k None false RNoBufs :: rest -> nth_error (ops s) k = Some o ->
  exists s', step s LCqe = Some (Ok s') /\ nbusy s' = S (nbusy s) /\
             exists o', nth_error (ops s') k = Some o' /\ o_res o' = Some RNoBufs.
Proof.
  intros Hr Hc Hk. cbn [step]. rewrite Hr, Hc. cbn [c_op c_more c_id c_res set_cq ops]. rewrite Hk.
  cbn [rescls_eqb]. eexists. split; [reflexivity|]. split; [cbn; lia|].
  eexists. split.
  - unfold upd_op, set_ops, set_nbusy. cbn [ops]. apply set_nth_eq. eapply nth_error_lt; eauto.
  - reflexivity.
Qed.

Lemma NoDup_snoc {A} (l : list A) x : NoDup l -> ~ In x l -> NoDup (l ++ [x]).
Proof.
  induction l as [|a l IH]; intros Hnd Hx.
  - constructor; [intros []|constructor].
  - inversion Hnd as [|a' l' Ha Hl]; subst. cbn [app]. constructor.
    + intros Hin. apply in_app_or in Hin. destruct Hin as [Hin|[<-|[]]]; [contradiction|].
      apply Hx. left; reflexivity.
    + apply IH; [exact Hl|]. intros Hin. apply Hx. right; exact Hin.
Qed.

Lemma NoDup_map_window (f : nat -> nat) c :
  (forall i j, i < j -> j < c -> f i <> f j) -> NoDup (map f (seq 0 c)).
Proof.
  induction c as [|c IH]; intros H; [constructor|].
  rewrite seq_S, map_app. cbn [map plus]. apply NoDup_snoc.
  - apply IH. intros i j Hij Hj. apply H; lia.
  - intros Hin. apply in_map_iff in Hin. destruct Hin as (i & E & Hi). apply in_seq in Hi.
    apply (H i c); [lia|lia|exact E].
Qed.

(* the ring indices *)
Theorem ring_index_thm size ls s :
  1 <= size -> (NN size <= 32768)%N -> reach true size ls s -> released s = false ->
  (tail s < U16)%N /\ (head s < U16)%N /\ ring_count s <= nbuf s /\ length (cells s) = nbuf s /\
  (* the checked u16 addition of add_buffer does not overflow *)
  ring_idx (tail s) 0%N (nbuf s) = Ok (nn (tail s mod NN (nbuf s))%N) /\
  nn (tail s mod NN (nbuf s))%N < nbuf s /\
  (* live entries sit in pairwise distinct cells ... *)
  NoDup (map (fun i => kernel_idx s (head s + NN i)%N) (seq 0 (ring_count s))) /\
  (* ... none of which is the cell the next reset writes, unless the ring is full *)
  (ring_count s < nbuf s ->
   ~ In (nn (tail s mod NN (nbuf s))%N) (map (fun i => kernel_idx s (head s + NN i)%N) (seq 0 (ring_count s)))) /\
  (* the kernel's u16 emptiness test agrees with the content of the ring *)
  (ring_empty s = true <-> ring_ids s = []).
Proof.
  intros H1 H2 Hr Hrel. destruct (reach_inv true size ls s H1 H2 Hr) as (P & _).
  assert (Hu : uring s = true).
  { destruct Hr as (s0 & E0 & Es). destruct (pool_new_inv true size H1 H2) as (s0' & E0' & _ & _ & Hu0 & _).
    rewrite E0 in E0'. injection E0' as <-. destruct (steps_nbuf _ _ _ Es) as (_ & B). congruence. }
  pose proof (p_pow _ _ _ P) as Hp. pose proof (p_ring _ _ _ P Hu Hrel) as Hwf.
  destruct (ring_ids_length s Hp Hu Hwf) as (c & Hc & Ht & Hcnt & Hlen).
  pose proof Hwf as [Hl Hh _]. pose proof (tail_lt s Hwf) as Htl. pose proof (pow2_pos _ Hp) as Hn0.
  pose proof (pow2_bound _ Hp) as Hb.
  assert (Hidx : nn (tail s mod NN (nbuf s))%N < nbuf s).
  { pose proof (N.mod_upper_bound (tail s) (NN (nbuf s)) ltac:(lia)). unfold nn, NN in *. lia. }
  assert (Hki : forall i, kernel_idx s (head s + NN i)%N = nn ((head s + NN i) mod NN (nbuf s))%N).
  { intros i. apply kernel_idx_mod. exact Hp. }
  split; [exact Htl|]. split; [exact Hh|]. split; [lia|]. split; [exact Hl|]. split; [|split; [exact Hidx|split; [|split]]].
  - unfold ring_idx, u16_add. rewrite N.add_0_r. destruct (N.ltb_spec (tail s) U16); [reflexivity|lia].
  - rewrite Hcnt. apply NoDup_map_window. intros i j Hij Hj. rewrite !Hki. intros E. apply N2Nat.inj in E.
    revert E. apply mod_distinct; [exact Hn0| |]; unfold NN in *; lia.
  - rewrite Hcnt. intros Hlt Hin. apply in_map_iff in Hin. destruct Hin as (i & E & Hi). apply in_seq in Hi.
    rewrite Hki in E. rewrite Ht, mod_U16_mod in E by exact Hp. apply N2Nat.inj in E.
    revert E. apply mod_distinct; [exact Hn0| |]; unfold NN in *; lia.
  - apply ring_empty_iff; assumption.
Qed.

(* ====================================================================== *)
(* 8. nothing blocks: the holders can always be drained, which refills the
      ring completely (the kernel cancels what it still owns; every other
      label of the drain is a drop performed by the library / the user)     *)

Definition infl_cnt (s : st) : nat := length (filter o_inflight (ops s)).
Definition q_cnt (s : st) : nat := length (flat_map o_q (ops s)).
Definition mu (s : st) : nat :=
  4 * infl_cnt s + 3 * length (cq s) + 2 * length (loose s) + 2 * q_cnt s
  + length (pend s) + length (opbuf_ids s) + length (handle_ids s).

Lemma filter_set_nth_length {A} (f : A -> bool) (l : list A) k o o' :
  nth_error l k = Some o ->
  length (filter f (set_nth l k o')) + (if f o then 1 else 0) = length (filter f l) + (if f o' then 1 else 0).
Proof.
  revert k; induction l as [|a l IH]; intros [|k] H; cbn [nth_error] in H; try discriminate.
  - injection H as ->. cbn [set_nth filter]. destruct (f o), (f o'); cbn [length]; lia.
  - cbn [set_nth filter]. specialize (IH k H). destruct (f a); cbn [length]; lia.
Qed.

Lemma length_flat_map_set_nth' {A B} (f : A -> list B) (l : list A) k o o' :
  nth_error l k = Some o ->
  length (flat_map f (set_nth l k o')) + length (f o) = length (flat_map f l) + length (f o').
Proof.
  revert k; induction l as [|a l IH]; intros [|k] H; cbn [nth_error] in H; try discriminate.
  - injection H as ->. cbn [set_nth flat_map]. rewrite !app_length. lia.
  - cbn [set_nth flat_map]. rewrite !app_length. specialize (IH k H). lia.
Qed.

Lemma mu_upd s k o o' :
  nth_error (ops s) k = Some o ->
  infl_cnt (upd_op s k o') + (if o_inflight o then 1 else 0) = infl_cnt s + (if o_inflight o' then 1 else 0) /\
  q_cnt (upd_op s k o') + length (o_q o) = q_cnt s + length (o_q o') /\
  length (opbuf_ids (upd_op s k o')) + length (o_buf o) = length (opbuf_ids s) + length (o_buf o').
Proof.
  intros Hk. unfold infl_cnt, q_cnt, opbuf_ids, upd_op, set_ops. cbn [ops].
  split; [apply filter_set_nth_length; exact Hk|]. split; apply length_flat_map_set_nth'; exact Hk.
Qed.

Lemma mu_same_holders s s' : same_holders s s' -> mu s' = mu s.
Proof.
  intros (_ & _ & _ & Hp & Ho & Hc & Hl & Hh & _). unfold mu, infl_cnt, q_cnt, opbuf_ids, handle_ids.
  rewrite Hp, Ho, Hc, Hl, Hh. reflexivity.
Qed.

Lemma exists_inflight (l : list opst) :
  filter o_inflight l <> [] -> exists k o, nth_error l k = Some o /\ o_inflight o = true.
Proof.
  induction l as [|a l IH]; cbn [filter]; [congruence|].
  destruct (o_inflight a) eqn:E.
  - intros _. exists 0, a. split; [reflexivity|exact E].
  - intros H. destruct (IH H) as (k & o & Hk & Ho). exists (S k), o. split; assumption.
Qed.

Lemma exists_nonempty {B} (f : opst -> list B) (l : list opst) :
  flat_map f l <> [] -> exists k o, nth_error l k = Some o /\ f o <> [].
Proof.
  induction l as [|a l IH]; cbn [flat_map]; [congruence|].
  destruct (f a) as [|b r] eqn:E.
  - cbn [app]. intros H. destruct (IH H) as (k & o & Hk & Ho). exists (S k), o. split; assumption.
  - intros _. exists 0, a. split; [reflexivity|congruence].
Qed.

Lemma exists_handle (l : list (option nat)) :
  opt_ids l <> [] -> exists h id, nth_error l h = Some (Some id).
Proof.
  induction l as [|e l IH]; [cbn; congruence|].
  destruct e as [id|].
  - intros _. exists 0, id. reflexivity.
  - change (opt_ids (None :: l)) with (opt_ids l). intros H. destruct (IH H) as (h & id & Hh). exists (S h), id. exact Hh.
Qed.

Lemma no_inflight (l : list opst) k o :
  filter o_inflight l = [] -> nth_error l k = Some o -> o_inflight o = false.
Proof.
  revert k; induction l as [|a l IH]; intros [|k] H Hk; cbn [nth_error] in Hk; try discriminate; cbn [filter] in H.
  - injection Hk as ->. destruct (o_inflight o); [discriminate|reflexivity].
  - destruct (o_inflight a); [discriminate|]. apply (IH k H Hk).
Qed.

Lemma length_zero_nil {A} (l : list A) : length l = 0 -> l = [].
Proof. destruct l; [reflexivity|discriminate]. Qed.

(* an operation nobody in the kernel owns any more can be dropped *)
Lemma drained_op_free s k o :
  hinv s -> released s = false -> filter o_inflight (ops s) = [] -> cq s = [] ->
  nth_error (ops s) k = Some o -> op_free s o = true.
Proof.
  intros [_ _ C] Hr Hi Hc Hk. unfold op_free. rewrite Hr, (no_inflight _ _ _ Hi Hk). cbn [orb negb andb].
  destruct (o_kdone o) eqn:Hd; [|reflexivity]. cbn [negb orb].
  destruct (o_res o) eqn:Hres; [reflexivity|].
  destruct (C Hr k o Hk Hd Hres) as (c & Hin & _). rewrite Hc in Hin. destruct Hin.
Qed.

Lemma step_released s l s' : step s l = Some (Ok s') -> l <> LRelease -> released s' = released s.
Proof.
  intros E Hl. destruct l; try congruence; cbn [step] in E;
    repeat match type of E with
           | context [match ?x with _ => _ end] => destruct x eqn:?; try discriminate
           | Some (sh_reset _ _) = Some (Ok _) =>
             let H := fresh in injection E as H; apply sh_reset_holders in H;
             destruct H as (_&_&H&_); cbn in *; congruence
           | Some (reset_all _ _) = Some (Ok _) =>
             let H := fresh in injection E as H; apply reset_all_holders in H;
             destruct H as (_&_&H&_); cbn in *; congruence
           | Some (Ok _) = Some (Ok _) => injection E as <-; cbn; congruence
           end.
  all: try (unfold kernel_select in *; destruct (ring_empty s); try discriminate;
            match goal with H : Some (_, _) = Some (_, _) |- _ => injection H as <- <- end;
            injection E as <-; cbn; congruence).
Qed.

Lemma good_ok s r : good s r -> r <> None -> exists s', r = Some (Ok s') /\ inv s'.
Proof.
  destruct r as [[s'|c]|]; cbn [good]; intros G N; [exists s'; split; [reflexivity|exact G]|contradiction|congruence].
Qed.

Lemma progress s :
  inv s -> released s = false -> 0 < mu s ->
  exists l s', step s l = Some (Ok s') /\ inv s' /\ released s' = false /\ mu s' < mu s.
Proof.
  intros Hinv Hr Hmu. pose proof Hinv as (P & Hh).
  (* 1. the kernel finishes (cancels) an operation it still owns *)
  destruct (filter o_inflight (ops s)) as [|oi fl] eqn:Hfi.
  2:{ destruct (exists_inflight (ops s) ltac:(rewrite Hfi; discriminate)) as (k & o & Hk & Hi).
      assert (Hd : o_kdone o = false).
      { destruct Hh as [_ B _]. rewrite Forall_forall in B. apply (B o); [eapply nth_error_In; eauto|exact Hi]. }
      exists (LKernel k false false RCancel).
      pose proof (step_good s (LKernel k false false RCancel) Hinv) as G.
      cbn [step] in G |- *. rewrite Hk, Hd, Hi in G |- *. cbn [negb andb orb rescls_eqb] in G |- *.
      rewrite Bool.andb_false_r in G |- *. cbn [negb andb orb] in G |- *.
      eexists. split; [reflexivity|]. split; [exact G|]. split; [exact Hr|].
      set (o' := mk_op false true (o_buf o) (o_q o) (o_res o)).
      destruct (mu_upd s k o o' Hk) as (A & B & C). cbn [o_inflight o_q o_buf o'] in A, B, C. rewrite Hi in A.
      unfold mu. change (infl_cnt (set_cq (upd_op s k o') _)) with (infl_cnt (upd_op s k o')).
      change (q_cnt (set_cq (upd_op s k o') _)) with (q_cnt (upd_op s k o')).
      change (opbuf_ids (set_cq (upd_op s k o') _)) with (opbuf_ids (upd_op s k o')).
      cbn [cq set_cq loose pend]. change (loose (upd_op s k o')) with (loose s). change (pend (upd_op s k o')) with (pend s).
      change (handle_ids (set_cq (upd_op s k o') _)) with (handle_ids s).
      rewrite app_length. cbn [length]. lia. }
  (* 2. the driver reaps a completion *)
  destruct (cq s) as [|c rest] eqn:Hc.
  2:{ exists LCqe.
      pose proof (step_good s LCqe Hinv) as G.
      assert (Hlt : c_op c < length (ops s)).
      { destruct Hh as [A _ _]. rewrite Hc in A. inversion A; assumption. }
      destruct (nth_error (ops s) (c_op c)) as [o|] eqn:Hk; [|apply nth_error_None in Hk; lia].
      cbn [step] in G |- *. rewrite Hr, Hc in G |- *. cbn [set_cq ops] in G |- *. rewrite Hk in G |- *.
      assert (Hi0 : infl_cnt s = 0) by (unfold infl_cnt; rewrite Hfi; reflexivity).
      destruct (c_more c).
      - eexists. split; [reflexivity|]. split; [exact G|]. split; [exact Hr|].
        set (o' := mk_op (o_inflight o) (o_kdone o) (o_buf o) (o_q o ++ [c_id c]) (o_res o)) in *.
        destruct (mu_upd (set_cq s rest) (c_op c) o o' Hk) as (A & B & C).
        cbn [o_inflight o_q o_buf o'] in A, B, C. rewrite app_length in B. cbn [length] in B.
        unfold mu. cbn [cq set_cq upd_op set_ops loose pend]. 
        change (handle_ids (upd_op (set_cq s rest) (c_op c) o')) with (handle_ids s).
        change (infl_cnt (set_cq s rest)) with (infl_cnt s) in A. change (q_cnt (set_cq s rest)) with (q_cnt s) in B.
        change (opbuf_ids (set_cq s rest)) with (opbuf_ids s) in C.
        rewrite Hc. cbn [length]. destruct (o_inflight o); lia.
      - destruct (c_id c) as [id|].
        + destruct (slot_take (slots (set_cq s rest)) id) as [sl|]; [|contradiction].
          set (o' := mk_op (o_inflight o) (o_kdone o) [id] (o_q o) (Some (c_res c))) in *.
          set (s3 := set_nbusy (upd_op (set_slots (set_cq s rest) sl) (c_op c) o') _) in *.
          destruct (reset_all s3 (o_buf o)) as [s4|pc] eqn:E4; [|contradiction].
          eexists. split; [reflexivity|]. split; [exact G|].
          pose proof (reset_all_holders _ _ _ E4) as Hs4.
          split; [destruct Hs4 as (_&_&R&_); rewrite R; exact Hr|].
          rewrite (mu_same_holders _ _ Hs4).
          destruct (mu_upd (set_slots (set_cq s rest) sl) (c_op c) o o' Hk) as (A & B & C).
          cbn [o_inflight o_q o_buf o' length] in A, B, C.
          unfold mu, s3.
          change (infl_cnt (set_nbusy ?x _)) with (infl_cnt x). change (q_cnt (set_nbusy ?x _)) with (q_cnt x).
          change (opbuf_ids (set_nbusy ?x _)) with (opbuf_ids x).
          cbn [cq set_cq set_nbusy upd_op set_ops set_slots loose pend].
          change (handle_ids (set_nbusy _ _)) with (handle_ids s).
          change (infl_cnt (set_slots (set_cq s rest) sl)) with (infl_cnt s) in A.
          change (q_cnt (set_slots (set_cq s rest) sl)) with (q_cnt s) in B.
          change (opbuf_ids (set_slots (set_cq s rest) sl)) with (opbuf_ids s) in C.
          rewrite Hc. cbn [length]. destruct (o_inflight o); lia.
        + eexists. split; [reflexivity|]. split; [exact G|]. split; [exact Hr|].
          set (o' := mk_op (o_inflight o) (o_kdone o) (o_buf o) (o_q o) (Some (c_res c))) in *.
          destruct (mu_upd (set_cq s rest) (c_op c) o o' Hk) as (A & B & C).
          cbn [o_inflight o_q o_buf o'] in A, B, C.
          unfold mu.
          change (infl_cnt (set_nbusy ?x _)) with (infl_cnt x). change (q_cnt (set_nbusy ?x _)) with (q_cnt x).
          change (opbuf_ids (set_nbusy ?x _)) with (opbuf_ids x).
          cbn [cq set_cq set_nbusy upd_op set_ops loose pend].
          change (handle_ids (set_nbusy _ _)) with (handle_ids s).
          change (infl_cnt (set_cq s rest)) with (infl_cnt s) in A. change (q_cnt (set_cq s rest)) with (q_cnt s) in B.
          change (opbuf_ids (set_cq s rest)) with (opbuf_ids s) in C.
          rewrite Hc. cbn [length]. destruct (o_inflight o); lia. }
  assert (Hi0 : infl_cnt s = 0) by (unfold infl_cnt; rewrite Hfi; reflexivity).
  assert (Hfree : forall k o, nth_error (ops s) k = Some o -> op_free s o = true).
  { intros k o Hk. apply (drained_op_free s k o Hh Hr Hfi Hc Hk). }
  (* 3. queued multishot results of dropped operations *)
  destruct (flat_map o_q (ops s)) as [|e0 fq] eqn:Hfq.
  2:{ destruct (exists_nonempty o_q (ops s) ltac:(rewrite Hfq; discriminate)) as (k & o & Hk & Hq).
      destruct (o_q o) as [|e q] eqn:Hqo; [congruence|].
      exists (LGuardDrop k).
      pose proof (step_good s (LGuardDrop k) Hinv) as G.
      set (o' := mk_op (o_inflight o) (o_kdone o) (o_buf o) q (o_res o)).
      assert (Hstep : exists s', step s (LGuardDrop k) = Some (Ok s') /\ same_holders (upd_op s k o') s').
      { cbn [step] in G |- *. rewrite Hk, (Hfree k o Hk), Hqo in G |- *. cbn [negb] in G |- *.
        change (mk_op (o_inflight o) (o_kdone o) (o_buf o) q (o_res o)) with o' in G |- *.
        destruct e as [id|].
        - destruct (slot_take (slots (upd_op s k o')) id) as [sl|].
          + destruct (sh_reset (set_slots (upd_op s k o') sl) id) as [s'|pc] eqn:E; [|contradiction].
            exists s'. split; [reflexivity|]. pose proof (sh_reset_holders _ _ _ E) as (a1&a2&a3&a4&a5&a6&a7&a8&a9).
            repeat split; assumption.
          + eexists. split; [reflexivity|repeat split].
        - eexists. split; [reflexivity|repeat split]. }
      destruct Hstep as (s' & E & Hs'). exists s'. split; [exact E|].
      rewrite E in G. split; [exact G|]. split; [destruct Hs' as (_&_&R&_); rewrite R; exact Hr|].
      rewrite (mu_same_holders _ _ Hs').
      destruct (mu_upd s k o o' Hk) as (A & B & C). cbn [o_inflight o_q o_buf o'] in A, B, C.
      rewrite Hqo in B. cbn [length] in B.
      unfold mu. change (cq (upd_op s k o')) with (cq s). change (loose (upd_op s k o')) with (loose s).
      change (pend (upd_op s k o')) with (pend s). change (handle_ids (upd_op s k o')) with (handle_ids s).
      destruct (o_inflight o); lia. }
  assert (Hq0 : q_cnt s = 0) by (unfold q_cnt; rewrite Hfq; reflexivity).
  (* 4. BufferRefs inside dropped operations *)
  destruct (opbuf_ids s) as [|b0 fb] eqn:Hfb.
  2:{ destruct (exists_nonempty o_buf (ops s) ltac:(unfold opbuf_ids in Hfb; rewrite Hfb; discriminate)) as (k & o & Hk & Hb).
      destruct (o_buf o) as [|id b] eqn:Hbo; [congruence|].
      exists (LOpBufDrop k).
      pose proof (step_good s (LOpBufDrop k) Hinv) as G.
      set (o' := mk_op (o_inflight o) (o_kdone o) b (o_q o) (o_res o)).
      cbn [step] in G |- *. rewrite Hk, (Hfree k o Hk), Hbo in G |- *. cbn [negb] in G |- *.
      change (mk_op (o_inflight o) (o_kdone o) b (o_q o) (o_res o)) with o' in G |- *.
      destruct (sh_reset (upd_op s k o') id) as [s'|pc] eqn:E; [|contradiction].
      exists s'. split; [reflexivity|]. split; [exact G|].
      pose proof (sh_reset_holders _ _ _ E) as Hs'.
      split; [destruct Hs' as (_&_&R&_); rewrite R; exact Hr|].
      rewrite (mu_same_holders _ _ Hs').
      destruct (mu_upd s k o o' Hk) as (A & B & C). cbn [o_inflight o_q o_buf o'] in A, B, C.
      rewrite Hbo in C. cbn [length] in C. rewrite Hfb in C.
      unfold mu. change (cq (upd_op s k o')) with (cq s). change (loose (upd_op s k o')) with (loose s).
      change (pend (upd_op s k o')) with (pend s). change (handle_ids (upd_op s k o')) with (handle_ids s).
      rewrite Hfb. destruct (o_inflight o); lia. }
  (* 5. a BufferRef of an operation under construction *)
  destruct (pend s) as [|id p] eqn:Hp.
  2:{ exists LPendDrop.
      pose proof (step_good s LPendDrop Hinv) as G.
      cbn [step] in G |- *. rewrite Hp in G |- *.
      destruct (sh_reset (set_pend s p) id) as [s'|pc] eqn:E; [|contradiction].
      exists s'. split; [reflexivity|]. split; [exact G|].
      pose proof (sh_reset_holders _ _ _ E) as Hs'.
      split; [destruct Hs' as (_&_&R&_); rewrite R; exact Hr|].
      rewrite (mu_same_holders _ _ Hs').
      unfold mu. change (infl_cnt (set_pend s p)) with (infl_cnt s). change (q_cnt (set_pend s p)) with (q_cnt s).
      change (opbuf_ids (set_pend s p)) with (opbuf_ids s). change (handle_ids (set_pend s p)) with (handle_ids s).
      cbn [cq loose pend set_pend]. rewrite Hp. cbn [length]. lia. }
  (* 6. a popped multishot result becomes a handle *)
  destruct (loose s) as [|id lo] eqn:Hlo.
  2:{ exists (LTakeLoose id).
      pose proof (step_good s (LTakeLoose id) Hinv) as G.
      cbn [step] in G |- *. rewrite Hr, Hlo in G |- *. unfold mem in G |- *. cbn [existsb] in G |- *.
      rewrite Nat.eqb_refl in G |- *. cbn [orb negb remove_one] in G |- *. rewrite Nat.eqb_refl in G |- *.
      destruct (slot_take (slots (set_loose s lo)) id) as [sl|].
      - eexists. split; [reflexivity|]. split; [exact G|]. split; [exact Hr|].
        unfold mu, handle_ids. cbn [cq loose pend handles set_handles set_slots set_loose].
        change (infl_cnt (set_handles _ _)) with (infl_cnt s). change (q_cnt (set_handles _ _)) with (q_cnt s).
        change (opbuf_ids (set_handles _ _)) with (opbuf_ids s).
        rewrite opt_ids_app, app_length. rewrite Hlo. cbn [length opt_ids flat_map app]. lia.
      - eexists. split; [reflexivity|]. split; [exact G|]. split; [exact Hr|].
        unfold mu. cbn [cq loose pend set_loose]. change (infl_cnt (set_loose _ _)) with (infl_cnt s).
        change (q_cnt (set_loose _ _)) with (q_cnt s). change (opbuf_ids (set_loose _ _)) with (opbuf_ids s).
        change (handle_ids (set_loose _ _)) with (handle_ids s). rewrite Hlo. cbn [length]. lia. }
  (* 7. the user drops a handle *)
  destruct (handle_ids s) as [|h0 fh] eqn:Hfh.
  { exfalso. unfold mu in Hmu. rewrite Hi0, Hq0, Hfb, Hfh, Hc, Hlo, Hp in Hmu. cbn [length] in Hmu. lia. }
  destruct (exists_handle (handles s) ltac:(unfold handle_ids in Hfh; rewrite Hfh; discriminate)) as (h & id & Hn).
  exists (LDropHandle h).
  pose proof (step_good s (LDropHandle h) Hinv) as G.
  cbn [step] in G |- *. unfold live_handle in G |- *. rewrite Hn in G |- *.
  destruct (sh_reset (set_handles s (set_nth (handles s) h None)) id) as [s'|pc] eqn:E; [|contradiction].
  exists s'. split; [reflexivity|]. split; [exact G|].
  pose proof (sh_reset_holders _ _ _ E) as Hs'.
  split; [destruct Hs' as (_&_&R&_); rewrite R; exact Hr|].
  rewrite (mu_same_holders _ _ Hs').
  pose proof (length_flat_map_set_nth' (fun e : option nat => match e with Some i => [i] | None => [] end)
                                        (handles s) h (Some id) None Hn) as L.
  cbn beta iota in L. cbn [length] in L.
  unfold mu, handle_ids, opt_ids in *. cbn [cq loose pend handles set_handles].
  change (infl_cnt (set_handles _ _)) with (infl_cnt s). change (q_cnt (set_handles _ _)) with (q_cnt s).
  change (opbuf_ids (set_handles _ _)) with (opbuf_ids s). lia.
Qed.

Lemma mu_zero_quiet s : mu s = 0 -> quiet s = true.
Proof.
  unfold mu. intros H.
  assert (A : length (cq s) = 0) by lia. assert (B : length (loose s) = 0) by lia.
  assert (C : q_cnt s = 0) by lia. assert (D : length (pend s) = 0) by lia.
  assert (E : length (opbuf_ids s) = 0) by lia. assert (F : length (handle_ids s) = 0) by lia.
  unfold quiet, n_selected, n_transit, n_inop, n_handles. rewrite B, D, E, F.
  apply length_zero_nil in A. unfold q_cnt in C. apply length_zero_nil in C.
  assert (G1 : cq_ids s = []) by (unfold cq_ids; rewrite A; destruct (released s); reflexivity).
  assert (G2 : guard_ids s = []).
  { unfold guard_ids, guard_ids_of. destruct (released s); [apply flat_map_const_nil|].
    induction (ops s) as [|o l IH]; [reflexivity|]. cbn [flat_map] in C |- *.
    apply app_eq_nil in C. destruct C as (C1 & C2). rewrite C1, (IH C2). reflexivity. }
  rewrite G1, G2. reflexivity.
Qed.

Lemma drain_exists n : forall s, mu s <= n -> inv s -> released s = false ->
  exists ls s', steps s ls = Some (Ok s') /\ inv s' /\ released s' = false /\ quiet s' = true.
Proof.
  induction n as [|n IH]; intros s Hn Hinv Hr.
  - exists [], s. split; [reflexivity|]. split; [exact Hinv|]. split; [exact Hr|]. apply mu_zero_quiet. lia.
  - destruct (Nat.eq_dec (mu s) 0) as [H0|Hpos].
    + exists [], s. split; [reflexivity|]. split; [exact Hinv|]. split; [exact Hr|]. apply mu_zero_quiet. exact H0.
    + destruct (progress s Hinv Hr ltac:(lia)) as (l & s1 & E1 & I1 & R1 & M1).
      destruct (IH s1 ltac:(lia) I1 R1) as (ls & s' & Es & I' & R' & Q').
      exists (l :: ls), s'. split; [cbn [steps]; rewrite E1; exact Es|]. tauto.
Qed.

Lemma inv_quiet_full s : inv s -> released s = false -> quiet s = true -> length (ring_ids s) = nbuf s.
Proof.
  intros (P & _) Hr Hq.
  assert (Hlen : length (all_ids s) = nbuf s).
  { apply length_of_occ.
    - intros x Hx. pose proof (p_tot _ _ _ P x Hx) as E. unfold tot, Ssum, Osum in E. unfold all_ids. occs. occs in E. lia.
    - intros x Hx. pose proof (p_out _ _ _ P x Hx) as E. unfold tot, Ssum, Osum in E. unfold all_ids. occs. occs in E. lia. }
  unfold all_ids in Hlen. rewrite !app_length in Hlen. rewrite (p_freed _ _ _ P Hr) in Hlen. cbn [length] in Hlen.
  unfold quiet in Hq. apply Nat.eqb_eq in Hq. unfold n_selected, n_transit, n_inop, n_handles in Hq. lia.
Qed.

Theorem drain_thm u size ls s :
  1 <= size -> (NN size <= 32768)%N -> reach u size ls s -> released s = false ->
  exists ls' s', steps s ls' = Some (Ok s') /\ released s' = false /\ quiet s' = true /\
                 length (ring_ids s') = nbuf s /\ nbuf s' = nbuf s.
Proof.
  intros H1 H2 Hr Hrel. pose proof (reach_inv u size ls s H1 H2 Hr) as Hinv.
  destruct (drain_exists (mu s) s (le_n _) Hinv Hrel) as (ls' & s' & Es & I' & R' & Q').
  exists ls', s'. destruct (steps_nbuf _ _ _ Es) as (Hn & _).
  split; [exact Es|]. split; [exact R'|]. split; [exact Q'|]. split; [|exact Hn].
  rewrite <- Hn. apply inv_quiet_full; assumption.
Qed.

(* ====================================================================== *)
(* 9. the statements of prop/C07.v, with the initial state made explicit    *)

Lemma reach_of u size s0 ls s : pool_new u size = Ok s0 -> steps s0 ls = Some (Ok s) -> reach u size ls s.
Proof. intros A B. exists s0. split; assumption. Qed.

Lemma c07_exclusive : forall (u : bool) (size : nat) (s0 : st) (ls : list label) (s : st),
  1 <= size -> (NN size <= 32768)%N ->
  pool_new u size = Ok s0 -> steps s0 ls = Some (Ok s) ->
  (forall id, id < nbuf s -> exists o, owners s id = [o]) /\
  (forall id, nbuf s <= id -> owners s id = []) /\
  (forall h1 h2 id, live_handle s h1 = Some id -> live_handle s h2 = Some id -> h1 = h2) /\
  (forall h id, live_handle s h = Some id -> owners s id = [OwHandle h]) /\
  (forall id, kernel_target s = Some id -> owners s id = [OwRing]).
Proof. intros u size s0 ls s H1 H2 A B. apply (exclusive_thm u size ls s H1 H2 (reach_of _ _ _ _ _ A B)). Qed.

Lemma c07_conservation : forall (u : bool) (size : nat) (s0 : st) (ls : list label) (s : st),
  1 <= size -> (NN size <= 32768)%N ->
  pool_new u size = Ok s0 -> steps s0 ls = Some (Ok s) ->
  size <= nbuf s /\ (exists e : N, (e <= 15)%N /\ NN (nbuf s) = (2 ^ e)%N) /\
  length (ring_ids s) + n_selected s + n_transit s + n_inop s + n_handles s + length (freed s) = nbuf s /\
  (released s = false -> freed s = []) /\
  (released s = false -> quiet s = true ->
     length (ring_ids s) = nbuf s /\ forall id, id < nbuf s -> In id (ring_ids s)) /\
  (released s = true -> ring_ids s = [] /\ n_selected s = 0 /\
                        n_transit s + n_inop s + n_handles s + length (freed s) = nbuf s).
Proof. intros u size s0 ls s H1 H2 A B. apply (conservation_thm u size ls s H1 H2 (reach_of _ _ _ _ _ A B)). Qed.

Lemma c07_never_blocks : forall (u : bool) (size : nat) (s0 : st) (ls : list label) (s : st),
  1 <= size -> (NN size <= 32768)%N ->
  pool_new u size = Ok s0 -> steps s0 ls = Some (Ok s) -> released s = false ->
  exists ls' s', steps s ls' = Some (Ok s') /\ released s' = false /\ quiet s' = true /\
                 length (ring_ids s') = nbuf s /\ nbuf s' = nbuf s.
Proof. intros u size s0 ls s H1 H2 A B. apply (drain_thm u size ls s H1 H2 (reach_of _ _ _ _ _ A B)). Qed.

Lemma c07_no_panic : forall (u : bool) (size : nat) (s0 : st) (ls : list label) (s : st) (l : label) (c : N),
  1 <= size -> (NN size <= 32768)%N ->
  pool_new u size = Ok s0 -> steps s0 ls = Some (Ok s) -> step s l <> Some (Panic c).
Proof. intros u size s0 ls s l c H1 H2 A B. apply (no_panic_thm u size ls s l c H1 H2 (reach_of _ _ _ _ _ A B)). Qed.

Lemma c07_exhaustion_uring : forall (size : nat) (s0 : st) (ls : list label) (s : st),
  1 <= size -> (NN size <= 32768)%N ->
  pool_new true size = Ok s0 -> steps s0 ls = Some (Ok s) -> released s = false ->
  (ring_empty s = true <-> ring_ids s = []) /\
  (ring_ids s = [] -> forall k more r, step s (LKernel k true more r) = None) /\
  (ring_ids s = [] -> forall k o, nth_error (ops s) k = Some o -> o_inflight o = true -> o_kdone o = false ->
     exists s1, step s (LKernel k false false RNoBufs) = Some (Ok s1) /\
                cq s1 = cq s ++ [mk_cqe k None false RNoBufs]) /\
  (ring_ids s <> [] -> forall k more, step s (LKernel k false more RNoBufs) = None).
Proof.
  intros size s0 ls s H1 H2 A B Hrel.
  assert (Hu : uring s = true).
  { destruct (pool_new_inv true size H1 H2) as (s0' & E0' & _ & _ & Hu0 & _).
    rewrite A in E0'. injection E0' as <-. destruct (steps_nbuf _ _ _ B) as (_ & C). congruence. }
  apply (exhaustion_uring_thm true size ls s H1 H2 (reach_of _ _ _ _ _ A B) Hu Hrel).
Qed.

Lemma c07_ring_index : forall (size : nat) (s0 : st) (ls : list label) (s : st),
  1 <= size -> (NN size <= 32768)%N ->
  pool_new true size = Ok s0 -> steps s0 ls = Some (Ok s) -> released s = false ->
  (tail s < U16)%N /\ (head s < U16)%N /\ ring_count s <= nbuf s /\ length (cells s) = nbuf s /\
  ring_idx (tail s) 0%N (nbuf s) = Ok (nn (tail s mod NN (nbuf s))%N) /\
  nn (tail s mod NN (nbuf s))%N < nbuf s /\
  NoDup (map (fun i => kernel_idx s (head s + NN i)%N) (seq 0 (ring_count s))) /\
  (ring_count s < nbuf s ->
   ~ In (nn (tail s mod NN (nbuf s))%N) (map (fun i => kernel_idx s (head s + NN i)%N) (seq 0 (ring_count s)))) /\
  (ring_empty s = true <-> ring_ids s = []).
Proof. intros size s0 ls s H1 H2 A B. apply (ring_index_thm size ls s H1 H2 (reach_of _ _ _ _ _ A B)). Qed.

Lemma c07_ring_index_wrap : forall (n : nat) (x : N),
  (exists e : N, (e <= 15)%N /\ NN n = (2 ^ e)%N) ->
  ((x mod U16) mod NN n = x mod NN n)%N /\ (N.land (x mod U16) (NN n - 1) = x mod NN n)%N.
Proof.
  intros n x Hp. split; [apply mod_U16_mod; exact Hp|].
  rewrite land_mask_mod by exact Hp. apply mod_U16_mod. exact Hp.
Qed.

Lemma c07_pool_new : forall (u : bool) (size : nat),
  1 <= size -> (NN size <= 32768)%N ->
  exists s0, pool_new u size = Ok s0 /\ size <= nbuf s0 /\
             (exists e : N, (e <= 15)%N /\ NN (nbuf s0) = (2 ^ e)%N) /\
             uring s0 = u /\ released s0 = false /\ ring_ids s0 = seq 0 (nbuf s0) /\ quiet s0 = true /\
             (u = true -> cells s0 = seq 0 (nbuf s0) /\ tail s0 = NN (nbuf s0) /\ head s0 = 0%N).
Proof.
  intros u size H1 H2.
  destruct (pool_new_inv u size H1 H2) as (s0 & E & (P & _) & Hsz & Hu & Hr & Hri & Hcq & Hops & Hpe & Hlo & Hha & _ & Hc).
  exists s0. split; [exact E|]. split; [exact Hsz|]. split; [apply (p_pow _ _ _ P)|]. split; [exact Hu|].
  split; [exact Hr|]. split; [exact Hri|]. split; [|exact Hc].
  unfold quiet, n_selected, n_transit, n_inop, n_handles, cq_ids, guard_ids, opbuf_ids, handle_ids.
  rewrite Hr, Hcq, Hops, Hpe, Hlo, Hha. reflexivity.
Qed.

(* ====================================================================== *)
(* 10. the runtime-level stream forwards exhaustion to its consumer         *)

Lemma stream_rearm n : forall c sched, c = false ->
  stream_poll true c (rearm n ++ sched) = stream_poll true c sched.
Proof.
  induction n as [|n IH]; intros c sched Hc; [reflexivity|].
  subst c. cbn [rearm app stream_poll]. apply IH. reflexivity.
Qed.

Lemma stream_forwards_error n r rest :
  stream_poll true false (rearm n ++ AInner (MErr r) :: rest) = (SErr r, true).
Proof. rewrite stream_rearm by reflexivity. reflexivity. Qed.

Lemma stream_forwards_create_error n r rest :
  stream_poll true false (rearm n ++ AInner MEnd :: ACreate (Some r) :: rest) = (SErr r, false) /\
  stream_poll false false (ACreate (Some r) :: rest) = (SErr r, false).
Proof. rewrite stream_rearm by reflexivity. split; reflexivity. Qed.

(* next() stays pending only because the installed operation is pending *)
Lemma stream_pending_only_inner sched : forall has c h,
  stream_poll has c sched = (SPending, h) -> In (AInner MPending) sched.
Proof.
  induction sched as [|a rest IH]; intros has c h E; cbn [stream_poll] in E; [discriminate|].
  destruct has.
  - destruct a as [m|e]; [|discriminate]. destruct m as [|id em| |r|]; try discriminate.
    + left; reflexivity.
    + destruct em; discriminate.
    + right. apply (IH _ _ _ E).
  - destruct c; [discriminate|]. destruct a as [m|[r|]]; try discriminate. right. apply (IH _ _ _ E).
Qed.

(* SubmitMultiManaged turns an error result of the operation into an error item *)
Lemma managed_final_error r obuf f : is_err r = true -> managed_poll (RawFinal r obuf) f = MErr r.
Proof. intros H. cbn [managed_poll]. rewrite H. reflexivity. Qed.

Lemma managed_more_error r id f : is_err r = true -> managed_poll (RawMore r (Some id)) f = MErr r.
Proof. intros H. cbn [managed_poll]. rewrite H. reflexivity. Qed.

(* io_uring: ring empty, the stream's operation in flight, nothing unreaped:
   the kernel's only answer is -ENOBUFS, the driver stores ResourceBusy as the
   result of the operation, SubmitMultiManaged turns it into an error item and
   the stream loop hands it to the consumer (also after any number of earlier
   re-submissions), keeping nothing pending *)
Theorem stream_reports_exhaustion_uring u size ls s k o :
  1 <= size -> (NN size <= 32768)%N -> reach u size ls s -> uring s = true -> released s = false ->
  ring_ids s = [] -> cq s = [] ->
  nth_error (ops s) k = Some o -> o_inflight o = true -> o_kdone o = false ->
  exists s', steps s [LKernel k false false RNoBufs; LCqe] = Some (Ok s') /\
    nbusy s' = S (nbusy s) /\
    (exists o', nth_error (ops s') k = Some o' /\ o_res o' = Some RNoBufs /\
       forall n rest f,
         stream_poll true false (rearm n ++ AInner (managed_poll (RawFinal RNoBufs (hd_error (o_buf o'))) f) :: rest)
         = (SErr RNoBufs, true)).
Proof.
  intros H1 H2 Hr Hu Hrel He Hc Hk Hi Hd.
  destruct (exhaustion_uring_thm u size ls s H1 H2 Hr Hu Hrel) as (Hiff & _ & _ & _).
  set (o1 := mk_op false true (o_buf o) (o_q o) (o_res o)).
  set (s1 := set_cq (upd_op s k o1) (cq s ++ [mk_cqe k None false RNoBufs])).
  assert (E1 : step s (LKernel k false false RNoBufs) = Some (Ok s1)).
  { cbn [step]. rewrite Hk, Hd, Hu, Hi. cbn [negb andb orb rescls_eqb].
    rewrite (proj2 Hiff He). cbn [negb andb]. reflexivity. }
  assert (Hk1 : nth_error (ops s1) k = Some o1).
  { unfold s1, upd_op, set_ops, set_cq. cbn [ops]. apply set_nth_eq. eapply nth_error_lt; eauto. }
  destruct (exhaustion_result_thm s1 k o1 [] Hrel ltac:(unfold s1; cbn [cq set_cq]; rewrite Hc; reflexivity) Hk1)
    as (s' & E2 & Hb & o' & Hk' & Hres).
  exists s'. split; [cbn [steps]; rewrite E1, E2; reflexivity|]. split; [exact Hb|].
  exists o'. split; [exact Hk'|]. split; [exact Hres|].
  intros n rest f. rewrite managed_final_error by reflexivity. apply stream_forwards_error.
Qed.

(* fallback pool: the free queue is empty, so BufferPool::pop inside
   factory.create() fails with ResourceBusy, and the stream loop returns that
   error to the consumer instead of looping *)
Theorem stream_reports_exhaustion_fallback s :
  uring s = false -> released s = false -> queue s = [] ->
  step s LPop = Some (Ok (set_nbusy s (S (nbusy s)))) /\
  forall n rest,
    stream_poll true false (rearm n ++ AInner MEnd :: ACreate (Some RNoBufs) :: rest) = (SErr RNoBufs, false) /\
    stream_poll false false (ACreate (Some RNoBufs) :: rest) = (SErr RNoBufs, false).
Proof.
  intros Hu Hr Hq. split.
  - apply (proj1 (exhaustion_fallback_thm s Hu Hr) Hq).
  - intros n rest. apply stream_forwards_create_error.
Qed.

Lemma c07_stream_reports_exhaustion : forall (size : nat) (s0 : st) (ls : list label) (s : st) (k : nat) (o : opst),
  1 <= size -> (NN size <= 32768)%N ->
  pool_new true size = Ok s0 -> steps s0 ls = Some (Ok s) -> released s = false ->
  ring_ids s = [] -> cq s = [] ->
  nth_error (ops s) k = Some o -> o_inflight o = true -> o_kdone o = false ->
  exists s', steps s [LKernel k false false RNoBufs; LCqe] = Some (Ok s') /\
    nbusy s' = S (nbusy s) /\
    (exists o', nth_error (ops s') k = Some o' /\ o_res o' = Some RNoBufs /\
       forall n rest f,
         stream_poll true false (rearm n ++ AInner (managed_poll (RawFinal RNoBufs (hd_error (o_buf o'))) f) :: rest)
         = (SErr RNoBufs, true)).
Proof.
  intros size s0 ls s k o H1 H2 A B Hrel.
  assert (Hu : uring s = true).
  { destruct (pool_new_inv true size H1 H2) as (s0' & E0' & _ & _ & Hu0 & _).
    rewrite A in E0'. injection E0' as <-. destruct (steps_nbuf _ _ _ B) as (_ & C). congruence. }
  apply (stream_reports_exhaustion_uring true size ls s k o H1 H2 (reach_of _ _ _ _ _ A B) Hu Hrel).
Qed.

Lemma c07_stream_forwards : forall (n : nat) (r : rescls) (rest : list sans),
  stream_poll true false (rearm n ++ AInner (MErr r) :: rest) = (SErr r, true) /\
  stream_poll true false (rearm n ++ AInner MEnd :: ACreate (Some r) :: rest) = (SErr r, false) /\
  stream_poll false false (ACreate (Some r) :: rest) = (SErr r, false).
Proof.
  intros n r rest. split; [apply stream_forwards_error|apply stream_forwards_create_error].
Qed.

(* ====================================================================== *)
(* 11. a completion that carries an error AND a buffer id                   *)

Lemma pinv_reset_ring id tS tO s s' :
  pinv tS (id :: tO) s -> released s = false -> sh_reset s id = Ok s' ->
  ring_ids s' = ring_ids s ++ [id].
Proof.
  intros H Hr E.
  assert (Hid : id < nbuf s).
  { apply (pinv_id_lt _ _ _ _ H). unfold tot. rewrite occ_cons, Nat.eqb_refl. lia. }
  pose proof (p_tot _ _ _ H id Hid) as Eid. unfold tot in Eid. rewrite occ_cons, Nat.eqb_refl in Eid.
  destruct (p_slots _ _ _ H Hr) as (Hlen & _).
  assert (Hocc : occ id (ring_ids s) = 0) by lia.
  pose proof (pinv_ring_room _ _ _ _ H Hid Hocc) as Hroom.
  unfold sh_reset in E. rewrite (nth_error_nth' (slots s) id false) in E by lia.
  set (s1 := set_slots s (set_nth (slots s) id true)) in E.
  assert (Hri1 : ring_ids s1 = ring_ids s) by reflexivity.
  destruct (uring s) eqn:Hu.
  - pose proof (p_ring _ _ _ H Hu Hr) as Hwf.
    assert (Hwf1 : ring_wf s1) by (destruct Hwf as [A B C]; constructor; assumption).
    destruct (ring_push s1 id (p_pow _ _ _ H) Hu Hwf1 ltac:(rewrite Hri1; exact Hroom)) as (A & B & _).
    rewrite A in E. injection E as E. rewrite <- E. etransitivity; [exact B|]. rewrite Hri1. reflexivity.
  - unfold ctrl_reset in E. change (uring s1) with (uring s) in E. rewrite Hu in E. injection E as E. rewrite <- E.
    unfold ring_ids. cbn [uring set_queue set_slots s1 queue]. rewrite Hu. reflexivity.
Qed.

Lemma owners_ops_In id (f : opst -> list nat) mk l : forall k0 k o,
  nth_error l k = Some o -> In id (f o) -> In (mk (k0 + k)) (owners_ops id f mk l k0).
Proof.
  induction l as [|a l IH]; intros k0 k o H Hin; [destruct k; discriminate|].
  cbn [owners_ops]. apply in_or_app. destruct k as [|k]; cbn [nth_error] in H.
  - injection H as ->. left. rewrite Nat.add_0_r. apply occ_In in Hin.
    destruct (occ id (f o)) as [|n]; [lia|]. left; reflexivity.
  - right. replace (k0 + S k) with (S k0 + k) by lia. apply (IH (S k0) k o H Hin).
Qed.

Lemma inv_owner_single s id o : inv s -> id < nbuf s -> In o (owners s id) -> owners s id = [o].
Proof.
  intros (P & _) Hid Hin. apply singleton_of_length; [|exact Hin].
  rewrite owners_length. apply (p_tot _ _ _ P id Hid).
Qed.

(* set_result takes the buffer of a final completion whatever its result is:
   afterwards the buffer is owned by the operation (and by nobody else) *)
Theorem error_completion_taken s c rest id o :
  inv s -> released s = false -> cq s = c :: rest -> c_more c = false -> c_id c = Some id ->
  nth_error (ops s) (c_op c) = Some o -> o_buf o = [] ->
  exists s', step s LCqe = Some (Ok s') /\ inv s' /\ released s' = false /\
    ring_ids s' = ring_ids s /\
    nth_error (ops s') (c_op c) = Some (mk_op (o_inflight o) (o_kdone o) [id] (o_q o) (Some (c_res c))) /\
    owners s' id = [OwInOp (c_op c)].
Proof.
  intros Hinv Hr Hc Hm Hid Hk Hb.
  pose proof (step_good s LCqe Hinv) as G.
  cbn [step] in G |- *. rewrite Hr, Hc in G |- *. cbn [set_cq ops] in G |- *.
  rewrite Hk, Hm, Hid in G |- *.
  destruct (slot_take (slots (set_cq s rest)) id) as [sl|]; [|contradiction].
  rewrite Hb in G |- *. cbn [reset_all good] in G |- *.
  set (s' := set_nbusy (upd_op (set_slots (set_cq s rest) sl) (c_op c)
                          (mk_op (o_inflight o) (o_kdone o) [id] (o_q o) (Some (c_res c))))
                       (nbusy (set_cq s rest) + (if rescls_eqb (c_res c) RNoBufs then 1 else 0))) in *.
  exists s'. split; [reflexivity|]. split; [exact G|]. split; [exact Hr|]. split; [reflexivity|].
  assert (Hnth : nth_error (ops s') (c_op c)
                 = Some (mk_op (o_inflight o) (o_kdone o) [id] (o_q o) (Some (c_res c)))).
  { unfold s', upd_op, set_ops, set_nbusy. cbn [ops]. apply set_nth_eq. eapply nth_error_lt; eauto. }
  split; [exact Hnth|].
  pose proof G as (P' & _).
  assert (Hin : In (OwInOp (c_op c)) (owners s' id)).
  { unfold owners. do 4 (apply in_or_app; right). apply in_or_app. left.
    apply (owners_ops_In id o_buf OwInOp _ 0 (c_op c) _ Hnth). left; reflexivity. }
  apply (inv_owner_single _ id _ G); [|exact Hin].
  apply (pinv_id_lt _ _ _ _ P'). rewrite <- owners_length.
  destruct (owners s' id); [destruct Hin|cbn [length]; lia].
Qed.

(* dropping the operation returns its buffer to the ring tail *)
Theorem op_drop_returns_buffer s k o id b :
  inv s -> released s = false -> nth_error (ops s) k = Some o -> o_buf o = id :: b -> op_free s o = true ->
  exists s', step s (LOpBufDrop k) = Some (Ok s') /\ inv s' /\ released s' = false /\
    ring_ids s' = ring_ids s ++ [id] /\ owners s' id = [OwRing].
Proof.
  intros Hinv Hr Hk Hb Hf. pose proof Hinv as (P & Hh).
  pose proof (step_good s (LOpBufDrop k) Hinv) as G.
  cbn [step] in G |- *. rewrite Hk, Hf, Hb in G |- *. cbn [negb] in G |- *.
  set (o' := mk_op (o_inflight o) (o_kdone o) b (o_q o) (o_res o)) in *.
  assert (P1 : pinv [] [id] (upd_op s k o')).
  { apply (pinv_shift [] [] [] [id] s _ P).
    - apply same_pool_upd_op.
    - intros x. pose proof (sums_upd_op s k o o' x Hk) as (A & _).
      unfold guard_ids_of in A. cbn [o_q o'] in A. lia.
    - intros x. pose proof (sums_upd_op s k o o' x Hk) as (_ & A).
      cbn [o_buf o'] in A. rewrite Hb in A. occs in A. occs. lia.
    - intros A. congruence. }
  destruct (sh_reset (upd_op s k o') id) as [s'|pc] eqn:E; [|contradiction].
  cbn [good] in G. exists s'. split; [reflexivity|]. split; [exact G|].
  pose proof (sh_reset_holders _ _ _ E) as (_ & _ & R & _).
  split; [rewrite R; exact Hr|].
  pose proof (pinv_reset_ring id [] [] _ s' P1 Hr E) as Hri.
  change (ring_ids (upd_op s k o')) with (ring_ids s) in Hri.
  split; [exact Hri|].
  pose proof G as (P' & _).
  assert (Hin : In OwRing (owners s' id)).
  { unfold owners. apply in_or_app. left. rewrite Hri, occ_app, occ_one, Nat.eqb_refl.
    rewrite Nat.add_comm. cbn [plus repeat]. left; reflexivity. }
  apply (inv_owner_single _ id _ G); [|exact Hin].
  apply (pinv_id_lt _ _ _ _ P'). rewrite <- owners_length.
  destruct (owners s' id); [destruct Hin|cbn [length]; lia].
Qed.

(* the whole path: the kernel consumes the ring head for a read that then fails
   (any result class but -ENOBUFS: EISDIR, EBADF, EIO, a cancellation, EOF, data),
   the driver reaps the completion, the operation is dropped: the buffer is back
   at the ring tail, owned by the ring only, and the ring is as long as before *)
Theorem error_completion_returns_buffer u size ls s k o id rest r :
  1 <= size -> (NN size <= 32768)%N -> reach u size ls s -> uring s = true -> released s = false ->
  ring_ids s = id :: rest -> cq s = [] ->
  nth_error (ops s) k = Some o -> o_inflight o = true -> o_kdone o = false -> o_buf o = [] ->
  r <> RNoBufs ->
  exists s', steps s [LKernel k true false r; LCqe; LOpBufDrop k] = Some (Ok s') /\
    released s' = false /\ ring_ids s' = rest ++ [id] /\ owners s' id = [OwRing] /\
    length (ring_ids s') = length (ring_ids s).
Proof.
  intros H1 H2 Hr Hu Hrel Hri Hc Hk Hi Hd Hb Hne.
  pose proof (reach_inv u size ls s H1 H2 Hr) as Hinv. pose proof Hinv as (P & _).
  pose proof (ring_pop s (p_pow _ _ _ P) Hu (p_ring _ _ _ P Hu Hrel)) as Hpop. rewrite Hri in Hpop.
  destruct Hpop as (Hks & Hri1 & _).
  set (sk := set_ring s (cells s) (tail s) (u16_wrapping_add (head s) 1)) in *.
  set (o1 := mk_op false true (o_buf o) (o_q o) (o_res o)).
  set (c := mk_cqe k (Some id) false r).
  set (s1 := set_cq (upd_op sk k o1) (cq sk ++ [c])).
  assert (Hrn : rescls_eqb r RNoBufs = false) by (destruct r; try reflexivity; congruence).
  assert (E1 : step s (LKernel k true false r) = Some (Ok s1)).
  { cbn [step]. rewrite Hk, Hd, Hu, Hi, Hrel, Hrn. cbn [negb andb orb]. rewrite Hks.
    rewrite ?Bool.andb_false_r. reflexivity. }
  pose proof (step_good s (LKernel k true false r) Hinv) as G1. rewrite E1 in G1. cbn [good] in G1.
  assert (Hk1 : nth_error (ops s1) k = Some o1).
  { unfold s1, upd_op, set_ops, set_cq. cbn [ops]. apply set_nth_eq. eapply nth_error_lt; eauto. }
  destruct (error_completion_taken s1 c [] id o1 G1 Hrel
              ltac:(unfold s1; cbn [cq set_cq sk set_ring upd_op set_ops]; rewrite Hc; reflexivity)
              eq_refl eq_refl Hk1 Hb)
    as (s2 & E2 & G2 & R2 & Hri2 & Hk2 & _).
  cbn [c_op c c_res o_inflight o_kdone o_q o1] in Hk2.
  destruct (op_drop_returns_buffer s2 k _ id [] G2 R2 Hk2 eq_refl
              ltac:(unfold op_free; rewrite R2; reflexivity))
    as (s3 & E3 & _ & R3 & Hri3 & Hown).
  exists s3. split; [cbn [steps]; rewrite E1, E2, E3; reflexivity|]. split; [exact R3|].
  assert (Hr1 : ring_ids s1 = rest) by exact Hri1.
  rewrite Hri2, Hr1 in Hri3. split; [exact Hri3|]. split; [exact Hown|].
  rewrite Hri3, Hri, app_length. cbn [length]. lia.
Qed.

Lemma c07_error_completion_returns_buffer :
  forall (size : nat) (s0 : st) (ls : list label) (s : st) (k : nat) (o : opst) (id : nat) (rest : list nat) (r : rescls),
  1 <= size -> (NN size <= 32768)%N ->
  pool_new true size = Ok s0 -> steps s0 ls = Some (Ok s) -> released s = false ->
  ring_ids s = id :: rest -> cq s = [] ->
  nth_error (ops s) k = Some o -> o_inflight o = true -> o_kdone o = false -> o_buf o = [] ->
  r <> RNoBufs ->
  exists s', steps s [LKernel k true false r; LCqe; LOpBufDrop k] = Some (Ok s') /\
    released s' = false /\ ring_ids s' = rest ++ [id] /\ owners s' id = [OwRing] /\
    length (ring_ids s') = length (ring_ids s).
Proof.
  intros size s0 ls s k o id rest r H1 H2 A B Hrel.
  assert (Hu : uring s = true).
  { destruct (pool_new_inv true size H1 H2) as (s0' & E0' & _ & _ & Hu0 & _).
    rewrite A in E0'. injection E0' as <-. destruct (steps_nbuf _ _ _ B) as (_ & C). congruence. }
  apply (error_completion_returns_buffer true size ls s k o id rest r H1 H2 (reach_of _ _ _ _ _ A B) Hu Hrel).
Qed.
