(* generated layout: one invariant group / structural fact, one part of the labels (TaskThm.v) *)
From Compio.Model Require Import Base Task.
From Compio.Thm Require Import TaskThm.
Local Open Scope nat_scope.
Local Opaque Nat.ltb Nat.eqb Nat.leb.

Lemma pend_pres_3 s l s' : part l = 3 -> Grc s -> Gres s -> Gslot s -> Gpend s -> step fixed s l = Some s' -> Gpend s'.
Proof.
  intros Hp. intros HR HS HL HI Hs. pres_start_part s l Hs Hp.
  all: destruct HR; destruct HS; destruct HL; destruct HI; constructor; unf; cbn in *.
  all: try assumption.
  all: fin2.
Qed.
