(* DispatchThm.v — invariants of the dispatcher LTS (model/Dispatch.v), proved
   for every reachable state: all interleavings of any number of dispatching
   threads, W workers, the tasks' polls and join, in both modes. *)
From Compio.Model Require Import Base Dispatch.

(* ---------------------------------------------------------------------- *)
(* list update                                                             *)

Lemma nth_upd_eq {A} (l : list A) k y a :
  nth_error l k = Some a -> nth_error (upd l k y) k = Some y.
Proof.
  intros H. unfold upd. rewrite H.
  assert (Hk : k < length l) by (apply nth_error_Some; congruence).
  rewrite nth_error_app2; rewrite firstn_length; [|lia].
  replace (k - Nat.min k (length l)) with 0 by lia. reflexivity.
Qed.

Lemma upd_cons_S {A} (a : A) l k y : upd (a :: l) (S k) y = a :: upd l k y.
Proof. unfold upd. cbn [nth_error]. destruct (nth_error l k); reflexivity. Qed.

Lemma nth_upd_neq {A} (l : list A) k y j :
  j <> k -> nth_error (upd l k y) j = nth_error l j.
Proof.
  revert k j; induction l as [|a l IH]; intros k j Hne.
  - unfold upd. destruct k; reflexivity.
  - destruct k as [|k].
    + unfold upd. cbn. destruct j; [congruence|reflexivity].
    + rewrite upd_cons_S. destruct j as [|j]; [reflexivity|]. cbn [nth_error]. apply IH. congruence.
Qed.

Lemma nth_upd_cases {A} (l : list A) k y j z :
  nth_error (upd l k y) j = Some z ->
  (j = k /\ z = y /\ exists a, nth_error l k = Some a) \/ (j <> k /\ nth_error l j = Some z).
Proof.
  intros H. destruct (Nat.eq_dec j k) as [->|Hne].
  - left. split; [reflexivity|]. destruct (nth_error l k) as [a|] eqn:Hk.
    + rewrite (nth_upd_eq _ _ _ _ Hk) in H. injection H as <-. split; [reflexivity|]. exists a. reflexivity.
    + unfold upd in H. rewrite Hk in H. congruence.
  - right. split; [exact Hne|]. rewrite nth_upd_neq in H by exact Hne. exact H.
Qed.

Lemma upd_length {A} (l : list A) k y : length (upd l k y) = length l.
Proof.
  unfold upd. destruct (nth_error l k) eqn:H; [|reflexivity].
  assert (Hk : k < length l) by (apply nth_error_Some; congruence).
  rewrite app_length, firstn_length. cbn [length]. rewrite skipn_length. lia.
Qed.

Lemma nth_app_cases {A} (l : list A) y j z :
  nth_error (l ++ [y]) j = Some z ->
  nth_error l j = Some z \/ (j = length l /\ z = y).
Proof.
  intros H. destruct (Nat.lt_ge_cases j (length l)) as [Hlt|Hge].
  - rewrite nth_error_app1 in H by exact Hlt. left. exact H.
  - rewrite nth_error_app2 in H by exact Hge. right.
    destruct (j - length l) as [|n] eqn:E.
    + cbn in H. injection H as <-. split; [lia|reflexivity].
    + cbn in H. destruct n; discriminate.
Qed.

Lemma nth_map_inv {A B} (f : A -> B) l j z :
  nth_error (map f l) j = Some z -> exists x, nth_error l j = Some x /\ z = f x.
Proof.
  rewrite nth_error_map. destruct (nth_error l j) as [x|]; cbn; intros H; [|discriminate].
  injection H as <-. exists x. split; reflexivity.
Qed.

Lemma Forall_upd {A} (P : A -> Prop) l k y : Forall P l -> P y -> Forall P (upd l k y).
Proof.
  intros Hl Hy. apply Forall_forall. intros z Hz. apply In_nth_error in Hz. destruct Hz as [j Hj].
  destruct (nth_upd_cases _ _ _ _ _ Hj) as [(_ & -> & _)|(_ & Hj')]; [exact Hy|].
  rewrite Forall_forall in Hl. apply Hl. eapply nth_error_In; eauto.
Qed.

Lemma Forall_nth {A} (P : A -> Prop) l j x : Forall P l -> nth_error l j = Some x -> P x.
Proof. intros H Hj. rewrite Forall_forall in H. apply H. eapply nth_error_In; eauto. Qed.

Lemma alive_not_all_dead l w p :
  nth_error l w = Some p -> is_dead p = false -> forallb is_dead l = false.
Proof.
  intros H Hp. destruct (forallb is_dead l) eqn:E; [|reflexivity].
  rewrite forallb_forall in E. rewrite (E p) in Hp; [discriminate|]. eapply nth_error_In; eauto.
Qed.

Lemma all_dead_nth l w p : forallb is_dead l = true -> nth_error l w = Some p -> is_dead p = true.
Proof. intros E H. rewrite forallb_forall in E. apply E. eapply nth_error_In; eauto. Qed.

(* ---------------------------------------------------------------------- *)
(* the invariant                                                           *)

(* counters and receiver state are a function of the phase *)
Definition tinv (x : task) : Prop :=
  match ph x with
  | TQueued => recvs x = 0 /\ spawns x = 0 /\ starts x = 0 /\ rc x = RNone
  | TTaken _ => recvs x = 1 /\ spawns x = 0 /\ starts x = 0 /\ rc x = RNone
  | TSpawned _ => recvs x = 1 /\ spawns x = 1 /\ starts x = 0 /\ rc x = RNone
  | TRunning _ => recvs x = 1 /\ spawns x = 1 /\ starts x = 1 /\ rc x = RNone
  | TDone _ => recvs x = 1 /\ spawns x = 1 /\ starts x = 1 /\ rc x = RResult
  | TPanicked _ => recvs x = 1 /\ spawns x = 1 /\ starts x = 1 /\ rc x = RCanceled
  | TCancelled _ => recvs x = 1 /\ spawns x = 1 /\ starts x <= 1 /\ rc x = RCanceled
  | TDropped => recvs x = 0 /\ spawns x = 0 /\ starts x = 0 /\ rc x = RCanceled
  end.

Definition running_wpc (p : wpc) : bool :=
  match p with WBoot | WDead _ => false | _ => true end.

Record Inv0 (s : dst) : Prop := mk_Inv0 {
  i_t : Forall tinv (ts s);
  (* the channel holds each queued task once *)
  i_q : NoDup (q s) /\ forall t, In t (q s) -> exists x, nth_error (ts s) t = Some x /\ ph x = TQueued;
  i_q2 : forall t x, nth_error (ts s) t = Some x -> ph x = TQueued -> In t (q s);
  (* a received task is held by the worker that received it *)
  i_l2 : forall t x w, nth_error (ts s) t = Some x -> ph x = TTaken w ->
                       nth_error (ws s) w = Some (WSpawn t);
  (* an unfinished task lives on a runtime that exists *)
  i_l3 : forall t x w, nth_error (ts s) t = Some x -> on_rt w x = true ->
                       exists p, nth_error (ws s) w = Some p /\ running_wpc p = true;
  (* sequential mode: the only unfinished task of a runtime is the awaited one *)
  i_s : conc s = false -> forall t x w, nth_error (ts s) t = Some x -> on_rt w x = true ->
                          nth_error (ws s) w = Some (WAwait t);
  (* a worker leaves only an empty, disconnected channel *)
  i_t7 : forall w, nth_error (ws s) w = Some WLeaving \/ nth_error (ws s) w = Some (WDead false) ->
                   q s = [] /\ sender s = false;
  i_ja : jp s = JIdle <-> sender s = true;
  i_jb : forall p, jp s = JReturned p -> all_dead s = true /\ p = existsb is_panicked (ws s);
  (* sequential mode: a task is cancelled only by a panicking worker *)
  i_p1 : conc s = false -> forall t x w, nth_error (ts s) t = Some x -> ph x = TCancelled w ->
                           nth_error (ws s) w = Some (WDead true);
  (* a task is dropped unreceived only if no worker survived *)
  i_p2 : forall t x, nth_error (ts s) t = Some x -> ph x = TDropped ->
                     forall w p, nth_error (ws s) w = Some p -> p = WDead true;
  i_w0 : ts s <> [] -> ws s <> []
}.

(* the channel is freed once the sender and all receivers are gone *)
Definition InvC (s : dst) : Prop := sender s = false -> all_dead s = true -> q s = [].
Definition Inv (s : dst) : Prop := Inv0 s /\ InvC s.

Lemma init_inv c n : Inv (init c n).
Proof.
  split; [|intros H; discriminate H].
  constructor; cbn.
  - constructor.
  - split; [constructor|]. intros t [].
  - intros t x H. destruct t; discriminate H.
  - intros t x w H. destruct t; discriminate H.
  - intros t x w H. destruct t; discriminate H.
  - intros _ t x w H. destruct t; discriminate H.
  - intros w [H|H]; apply nth_error_In in H; apply repeat_spec in H; discriminate H.
  - split; reflexivity.
  - intros p H. discriminate H.
  - intros _ t x w H. destruct t; discriminate H.
  - intros t x H. destruct t; discriminate H.
  - intros H. congruence.
Qed.

(* ---------------------------------------------------------------------- *)
(* the two task maps                                                        *)

Lemma dq_ph x : ph (drop_queued x) = match ph x with TQueued => TDropped | p => p end.
Proof. unfold drop_queued. destruct (ph x) eqn:E; cbn; rewrite ?E; reflexivity. Qed.

Lemma dq_tinv x : tinv x -> tinv (drop_queued x).
Proof.
  unfold drop_queued, tinv. destruct x as [p r a b c]. cbn. destruct p; cbn; auto.
  intros (-> & -> & -> & _). repeat split.
Qed.

Lemma dq_on_rt w x : on_rt w (drop_queued x) = on_rt w x.
Proof. unfold on_rt. rewrite dq_ph. destruct (ph x); reflexivity. Qed.

Lemma co_ph w x : ph (cancel_on w x) = if on_rt w x then TCancelled w else ph x.
Proof. unfold cancel_on. destruct (on_rt w x); reflexivity. Qed.

Lemma co_tinv w x : tinv x -> tinv (cancel_on w x).
Proof.
  unfold cancel_on, on_rt, tinv. destruct x as [p r a b c]. cbn.
  destruct p; cbn; auto; destruct (Nat.eqb w0 w); cbn; auto.
  - intros (-> & -> & -> & _). repeat split. lia.
  - intros (-> & -> & -> & _). repeat split. lia.
Qed.

Lemma co_on_rt w v x : on_rt v (cancel_on w x) = true -> on_rt v x = true /\ on_rt w x = false.
Proof.
  unfold cancel_on. destruct (on_rt w x) eqn:E.
  - unfold on_rt. cbn. discriminate.
  - intros H. split; [exact H|reflexivity].
Qed.

Lemma on_rt_same w v x : on_rt w x = true -> on_rt v x = true -> w = v.
Proof.
  unfold on_rt. destruct (ph x); try discriminate; intros H1 H2;
    apply Nat.eqb_eq in H1, H2; congruence.
Qed.

(* ---------------------------------------------------------------------- *)
(* cleanup re-establishes the full invariant                                *)

Lemma cleanup_inv s : Inv0 s -> Inv (cleanup s).
Proof.
  intros [T Q Q2 L2 L3 S T7 Ja Jb P1 P2 W0]. unfold cleanup.
  destruct (negb (sender s) && all_dead s) eqn:E.
  - apply andb_true_iff in E. destruct E as [Es Ed]. apply negb_true_iff in Es.
    split; [|intros _ _; reflexivity].
    constructor; cbn [conc sender q ws ts jp w_q w_ts].
    + rewrite Forall_forall in *. intros y Hy. apply in_map_iff in Hy.
      destruct Hy as (x & <- & Hx). apply dq_tinv, T, Hx.
    + split; [constructor|intros t []].
    + intros t y Hy Hp. apply nth_map_inv in Hy. destruct Hy as (x & _ & ->).
      rewrite dq_ph in Hp. destruct (ph x); discriminate Hp.
    + intros t y w Hy Hp. apply nth_map_inv in Hy. destruct Hy as (x & Hx & ->).
      rewrite dq_ph in Hp. eapply L2; [exact Hx|]. destruct (ph x); try discriminate Hp; exact Hp.
    + intros t y w Hy Hp. apply nth_map_inv in Hy. destruct Hy as (x & Hx & ->).
      rewrite dq_on_rt in Hp. eapply L3; eauto.
    + intros Hc t y w Hy Hp. apply nth_map_inv in Hy. destruct Hy as (x & Hx & ->).
      rewrite dq_on_rt in Hp. eapply S; eauto.
    + intros w _. split; [reflexivity|exact Es].
    + exact Ja.
    + exact Jb.
    + intros Hc t y w Hy Hp. apply nth_map_inv in Hy. destruct Hy as (x & Hx & ->).
      rewrite dq_ph in Hp. eapply P1; [exact Hc|exact Hx|].
      destruct (ph x); try discriminate Hp; exact Hp.
    + intros t y Hy Hp w p Hw. apply nth_map_inv in Hy. destruct Hy as (x & Hx & ->).
      rewrite dq_ph in Hp. destruct (ph x) eqn:Ex; try discriminate Hp.
      * (* was queued: the channel was not empty, so nobody left it normally *)
        pose proof (Q2 _ _ Hx Ex) as Hin.
        pose proof (all_dead_nth _ _ _ Ed Hw) as Hd.
        destruct p as [| | | | |b]; try discriminate Hd. destruct b; [reflexivity|].
        destruct (T7 w (or_intror Hw)) as [Hq _]. rewrite Hq in Hin. destruct Hin.
      * eapply P2; eauto.
    + intros Hn. apply W0. intros Ht. apply Hn. rewrite Ht. reflexivity.
  - split; [constructor; assumption|]. intros Hs Hd. rewrite Hs, Hd in E. discriminate E.
Qed.

